import Cell2v.Spec.C18
/-! helper lemmas for C18: the simulation between the centre model (`Model/Center.lean`) and the
ledger of the property monitor (`Spec/C18.lean`).  Property theorems live in `Props/C18.lean`. -/
set_option linter.unusedSimpArgs false
set_option linter.unusedVariables false

namespace Cell2v.Center
open Spec

/-! ### the relation between one account's record and its ledger -/

def entryOK (p : Player) (e : Entry) : Prop :=
  match p.state with
  | .logining => e = .open (.auth (p.stTimeout - LoginTimeout)) ∧ LoginTimeout ≤ p.stTimeout
  | .logined => e = .open .inGame
  | .switchLine => e = .open .inGame ∧ p.lock.held = true ∧ p.lock.reason = .switchLine
  | .logouting => e = .open (.out (p.stTimeout - LogoutTimeout)) ∧ LogoutTimeout ≤ p.stTimeout
  | .waitRemove => e = .lingering

def txOf (lk : Lock) : Option (Reason × Nat) := if lk.held then some (lk.reason, lk.timeout) else none

/-- record ↔ ledger (load phase, connection flag, transaction) -/
def RelP (a : Acct) (l : Ledger) : Prop :=
  match a.player with
  | none => l.entry = .none ∧ l.tx = none
  | some p => entryOK p l.entry ∧ l.closedRep = decide (p.net = 0) ∧ l.tx = txOf p.lock

/-- login-request bookkeeping: answered ids are distinct, were issued, and the parked one is not among them -/
structure RelI (a : Acct) (l : Ledger) : Prop where
  ans_le : ∀ x ∈ l.answered, x ≤ a.nextId
  ans_nodup : l.answered.Nodup
  task : ∀ t, a.task = some t → t.id ≤ a.nextId ∧ t.id ∉ l.answered
  /-- every request issued so far has been answered, is the parked one, or was forgotten by the expiry scan -/
  all : ∀ x, 1 ≤ x → x ≤ a.nextId → x ∈ l.answered ∨ (∃ t, a.task = some t ∧ t.id = x) ∨ x ∈ a.dropped

structure Rel (a : Acct) (l : Ledger) : Prop where
  p : RelP a l
  i : RelI a l

@[simp] theorem txOf_true (r : Reason) (t : Nat) : txOf ⟨true, r, t⟩ = some (r, t) := rfl
@[simp] theorem txOf_false (r : Reason) (t : Nat) : txOf ⟨false, r, t⟩ = none := rfl

theorem tryLock_none (lk : Lock) (now : Nat) (r : Reason) (d : Nat) :
    lk.tryLock now r d = none ↔ heldTx (txOf lk) now = true := by
  obtain ⟨h, rs, t⟩ := lk
  cases h <;> simp [Lock.tryLock, heldTx, txOf]

theorem tryLock_some (lk lk' : Lock) (now : Nat) (r : Reason) (d : Nat) :
    lk.tryLock now r d = some lk' ↔ heldTx (txOf lk) now = false ∧ lk' = ⟨true, r, now + d⟩ := by
  obtain ⟨h, rs, t⟩ := lk
  cases h <;> simp [Lock.tryLock, heldTx, txOf, eq_comm]

@[simp] theorem closeTx_entry (l : Ledger) (k : Reason) : (closeTx l k).entry = l.entry := by
  unfold closeTx; split <;> (try split) <;> rfl
@[simp] theorem closeTx_closedRep (l : Ledger) (k : Reason) : (closeTx l k).closedRep = l.closedRep := by
  unfold closeTx; split <;> (try split) <;> rfl
@[simp] theorem closeTx_answered (l : Ledger) (k : Reason) : (closeTx l k).answered = l.answered := by
  unfold closeTx; split <;> (try split) <;> rfl

theorem closeTx_tx (l : Ledger) (lk : Lock) (r : Reason) (h : l.tx = txOf lk) :
    (closeTx l r).tx = txOf (lk.unlock r).1 := by
  obtain ⟨hd, rs, t⟩ := lk
  unfold closeTx
  cases hd <;> simp [Lock.unlock, txOf] at h ⊢ <;> simp [h]
  by_cases h' : r = rs <;> simp [h', eq_comm, h]

/-- completing a transaction of another kind does not touch a line switch -/
theorem entryOK_unlock (p : Player) (e : Entry) (r : Reason) (hr : r ≠ .switchLine) (h : entryOK p e) :
    entryOK { p with lock := (p.lock.unlock r).1 } e := by
  obtain ⟨fr, nt, lg, st, stt, ⟨lh, lr, lt⟩⟩ := p
  cases st <;> simp_all [entryOK, Lock.unlock]

theorem entryOK_ne_none {p : Player} {e : Entry} (h : entryOK p e) : e ≠ .none := by
  intro h0; rw [h0] at h; unfold entryOK at h; split at h <;> simp at h

/-! ### events -/

@[simp] theorem evsStep_nil (now : Nat) (l : Ledger) : evsStep now l [] = (l, []) := rfl
@[simp] theorem evsStep_kick (now : Nat) (l : Ledger) (f n : Nat) (es : List Ev) :
    evsStep now l (.kick f n :: es) = evsStep now l es := by simp [evsStep, evStep]
@[simp] theorem evsStep_off (now : Nat) (l : Ledger) (es : List Ev) :
    evsStep now l (.off :: es) = evsStep now l es := by simp [evsStep, evStep]
theorem evsStep_ack (now : Nat) (l : Ledger) (id n : Nat) (c : Code) (es : List Ev) :
    evsStep now l (.ack id n c :: es) =
      ((evsStep now (ackStep now l id n c).1 es).1, (ackStep now l id n c).2 ++ (evsStep now (ackStep now l id n c).1 es).2) := by
  simp [evsStep, evStep]

theorem evsStep_append (now : Nat) (l : Ledger) (xs ys : List Ev) :
    evsStep now l (xs ++ ys) =
      ((evsStep now (evsStep now l xs).1 ys).1, (evsStep now l xs).2 ++ (evsStep now (evsStep now l xs).1 ys).2) := by
  induction xs generalizing l with
  | nil => simp
  | cons e es ih => simp [evsStep, ih, List.append_assoc]

/-! ### operations without acknowledgements: the record/ledger part -/

theorem logoutReq_relP (now u : Nat) (a : Acct) (l : Ledger) (h : RelP a l) :
    RelP (logoutReqOp now a).1 (opStep now l (.logoutReq u) (some (logoutReqOp now a).2)).1 ∧
    (opStep now l (.logoutReq u) (some (logoutReqOp now a).2)).2 = [] := by
  unfold RelP at h
  unfold logoutReqOp
  cases hpl : a.player with
  | none => simp_all [RelP, opStep]
  | some p =>
    simp only [hpl] at h ⊢
    obtain ⟨he, hc, ht⟩ := h
    have hne := entryOK_ne_none he
    cases htl : p.lock.tryLock now .logout LockTimeout with
    | none =>
      rw [tryLock_none] at htl
      simp [opStep, hne, held, ht, htl, RelP, hpl, he, hc]
    | some lk' =>
      rw [tryLock_some] at htl
      obtain ⟨hh, rfl⟩ := htl
      simp [opStep, hne, held, ht, hh, RelP, entryOK, hc, LogoutTimeout]

theorem swBegin_relP (now u : Nat) (a : Acct) (l : Ledger) (h : RelP a l) :
    RelP (swBeginOp now a).1 (opStep now l (.swBegin u) (some (swBeginOp now a).2)).1 ∧
    (opStep now l (.swBegin u) (some (swBeginOp now a).2)).2 = [] := by
  unfold RelP at h
  unfold swBeginOp
  cases hpl : a.player with
  | none => simp_all [RelP, opStep]
  | some p =>
    simp only [hpl] at h ⊢
    obtain ⟨he, hc, ht⟩ := h
    have hne := entryOK_ne_none he
    by_cases hst : p.state = .logined
    · simp only [hst, ne_eq, not_true_eq_false, ↓reduceIte]
      cases htl : p.lock.tryLock now .switchLine LockTimeout with
      | none =>
        rw [tryLock_none] at htl
        simp [opStep, hne, RelP, hpl, he, hc, ht, held, htl]
      | some lk' =>
        rw [tryLock_some] at htl
        obtain ⟨hh, rfl⟩ := htl
        simp [hst, entryOK] at he
        simp [opStep, hne, held, ht, hh, RelP, entryOK, hc, he]
    · have hsw : l.entry = .open .inGame → inSwitchTx (txOf p.lock) = true := by
        intro he2
        obtain ⟨fr, nt, lg, st, stt, ⟨lh, lr, lt⟩⟩ := p
        cases st <;> simp_all [entryOK, txOf, inSwitchTx]
      simp [hst, opStep, hne, RelP, hpl, he, hc, ht]
      intro he2 _; exact hsw he2

theorem swEnd_relP (now u : Nat) (a : Acct) (l : Ledger) (h : RelP a l) :
    RelP (swEndOp a).1 (opStep now l (.swEnd u) (some (swEndOp a).2)).1 ∧
    (opStep now l (.swEnd u) (some (swEndOp a).2)).2 = [] := by
  unfold RelP at h
  unfold swEndOp
  cases hpl : a.player with
  | none => simp_all [RelP, opStep]
  | some p =>
    simp only [hpl] at h ⊢
    obtain ⟨he, hc, ht⟩ := h
    by_cases hst : p.state = .switchLine
    · simp only [hst, ne_eq, not_true_eq_false, ↓reduceIte]
      cases hu : (p.lock.unlock .switchLine).2 with
      | false => simp [opStep, RelP, hpl, he, hc, ht]
      | true =>
        simp [hst, entryOK] at he
        simp [opStep, RelP, entryOK, hc, he, closeTx_tx l p.lock .switchLine ht]
    · simp [hst, opStep, RelP, hpl, he, hc, ht]

theorem reonline_relP (now u : Nat) (a : Acct) (l : Ledger) (h : RelP a l) :
    RelP (reonlineOp a) (opStep now l (.reonline u) none).1 ∧ (opStep now l (.reonline u) none).2 = [] := by
  unfold RelP at h
  unfold reonlineOp
  cases hpl : a.player with
  | none => simp_all [RelP, opStep, closeTx]
  | some p =>
    simp only [hpl] at h ⊢
    obtain ⟨he, hc, ht⟩ := h
    refine ⟨?_, by simp [opStep]⟩
    simp only [RelP, opStep, closeTx_entry, closeTx_closedRep]
    exact ⟨entryOK_unlock p _ .reonline (by decide) he, hc, closeTx_tx l p.lock .reonline ht⟩

theorem logoutDone_relP (now u : Nat) (a : Acct) (l : Ledger) (h : RelP a l) :
    RelP (logoutDoneOp a).1 (opStep now l (.logoutDone u) none).1 ∧ (opStep now l (.logoutDone u) none).2 = [] := by
  unfold RelP at h
  unfold logoutDoneOp
  cases hpl : a.player with
  | none => simp_all [RelP, opStep]
  | some p =>
    simp only [hpl] at h ⊢
    obtain ⟨he, hc, ht⟩ := h
    have hne := entryOK_ne_none he
    have hop : opStep now l (.logoutDone u) none = (closeTx { l with entry := .lingering } .logout, []) := by
      simp [opStep, hne]
    rw [hop]
    refine ⟨?_, rfl⟩
    simp only [RelP, closeTx_entry, closeTx_closedRep]
    exact ⟨by simp [entryOK], hc, closeTx_tx _ p.lock .logout ht⟩

theorem abnormal_relP (now u : Nat) (a : Acct) (l : Ledger) (h : RelP a l) :
    RelP (abnormalOp a).1 (opStep now l (.abnormal u) none).1 ∧ (opStep now l (.abnormal u) none).2 = [] := by
  unfold RelP at h
  unfold abnormalOp
  cases hpl : a.player with
  | none => simp_all [RelP, opStep]
  | some p =>
    simp only [hpl] at h ⊢
    obtain ⟨he, hc, ht⟩ := h
    have hne := entryOK_ne_none he
    simp [opStep, hne, RelP, entryOK, hc, ht]

theorem tick_relP (now : Nat) (a : Acct) (l : Ledger) (h : RelP a l) :
    RelP (tickAcct now a) (tickLedger now l) := by
  unfold RelP at h
  unfold tickAcct
  cases hpl : a.player with
  | none => simp_all [RelP, tickLedger]
  | some p =>
    simp only [hpl] at h ⊢
    obtain ⟨he, hc, ht⟩ := h
    obtain ⟨fr, nt, lg, st, stt, lk⟩ := p
    cases st <;> simp only [entryOK] at he
    · obtain ⟨he1, he2⟩ := he
      have e1 : stt - LoginTimeout + LoginTimeout = stt := by omega
      have e2 : stt > 0 := by unfold LoginTimeout at he2; omega
      by_cases hto : now ≥ stt
      · simp [tickLedger, he1, e1, hto, e2, RelP]
      · simp [tickLedger, he1, e1, hto, RelP, hpl, entryOK, he2, hc, ht]
    · simp [tickLedger, he, RelP, hpl, entryOK, hc, ht]
    · simp [tickLedger, he, RelP, hpl, entryOK, hc, ht]
    · obtain ⟨he1, he2⟩ := he
      have e1 : stt - LogoutTimeout + LogoutTimeout = stt := by omega
      have e2 : stt > 0 := by unfold LogoutTimeout at he2; omega
      by_cases hto : now ≥ stt
      · simp [tickLedger, he1, e1, hto, e2, RelP]
      · simp [tickLedger, he1, e1, hto, RelP, hpl, entryOK, he2, hc, ht]
    · simp [tickLedger, he, RelP]

/-! ### `closed` / `logined`: the part before `kickWaitMgr.OnSessionClose` -/

theorem sendOffline_player (now : Nat) (a : Acct) (lg : Option Bool) : (sendOffline now a lg).1.player = a.player := by
  unfold sendOffline; split <;> rfl
theorem sendOffline_task (now : Nat) (a : Acct) (lg : Option Bool) : (sendOffline now a lg).1.task = a.task := by
  unfold sendOffline; split <;> rfl
theorem sendOffline_nextId (now : Nat) (a : Acct) (lg : Option Bool) : (sendOffline now a lg).1.nextId = a.nextId := by
  unfold sendOffline; split <;> rfl
theorem sendOffline_evs (now now' : Nat) (a : Acct) (lg : Option Bool) (l : Ledger) :
    evsStep now' l (sendOffline now a lg).2.1 = (l, []) := by
  unfold sendOffline; split <;> simp

theorem relP_congr {a a' : Acct} {l : Ledger} (h : a'.player = a.player) : RelP a l → RelP a' l := by
  unfold RelP; rw [h]; exact id

theorem closed_relP (now u : Nat) (pk : Option Nat) (a : Acct) (l : Ledger) (h : RelP a l) :
    RelP (closedOp now a).1 (opStep now l (.closed u pk) none).1 ∧ (opStep now l (.closed u pk) none).2 = [] := by
  unfold RelP at h
  unfold closedOp
  cases hpl : a.player with
  | none => simp_all [RelP, opStep]
  | some p =>
    simp only [hpl] at h ⊢
    obtain ⟨he, hc, ht⟩ := h
    have hne := entryOK_ne_none he
    refine ⟨?_, by simp [opStep]⟩
    have key : RelP { a with player := some { p with front := 0, net := 0 } } (opStep now l (.closed u pk) none).1 := by
      simp [RelP, opStep, hne, ht]
      unfold entryOK at he ⊢; exact he
    split
    · exact relP_congr (sendOffline_player ..) key
    · exact key

theorem closed_evs (now now' : Nat) (a : Acct) (l : Ledger) : evsStep now' l (closedOp now a).2.1 = (l, []) := by
  unfold closedOp
  split
  · simp
  · simp only []
    split
    · exact sendOffline_evs ..
    · simp

theorem logined_relP (now u : Nat) (lg : Bool) (pk : Option Nat) (a : Acct) (l : Ledger) (h : RelP a l) :
    RelP (loginedOp now a lg).1 (opStep now l (.logined u lg pk) none).1 ∧ (opStep now l (.logined u lg pk) none).2 = [] := by
  unfold RelP at h
  unfold loginedOp
  cases hpl : a.player with
  | none => simp_all [RelP, opStep]
  | some p =>
    simp only [hpl] at h ⊢
    obtain ⟨he, hc, ht⟩ := h
    have hne := entryOK_ne_none he
    have hop : opStep now l (.logined u lg pk) none = (closeTx { l with entry := .open .inGame } .login, []) := by
      simp [opStep, hne]
    rw [hop]
    refine ⟨?_, rfl⟩
    have key : RelP { a with player := some { p with logic := some lg, state := .logined, stTimeout := 0, lock := (p.lock.unlock .login).1 } }
        (closeTx { l with entry := .open .inGame } .login) := by
      simp only [RelP, closeTx_entry, closeTx_closedRep]
      exact ⟨by simp [entryOK], hc, closeTx_tx _ p.lock .login ht⟩
    split
    · exact relP_congr (sendOffline_player ..) key
    · exact key

theorem logined_evs (now now' : Nat) (lg : Bool) (a : Acct) (l : Ledger) : evsStep now' l (loginedOp now a lg).2.1 = (l, []) := by
  unfold loginedOp
  split
  · simp
  · simp only []
    split
    · exact sendOffline_evs ..
    · simp

/-! ### `ReqLogin` -/

theorem ackStep_ok (now : Nat) (l : Ledger) (id n : Nat) (h1 : id ∉ l.answered) (h2 : l.entry.live = false)
    (h3 : held l now = false) :
    ackStep now l id n .ok =
      (⟨.open (.auth now), decide (n = 0), some (.login, now + LockLoginTimeout), id :: l.answered⟩, []) := by
  simp [ackStep, h1, h2, held] at h3 ⊢; simp [held, h3]

theorem ackStep_re (now : Nat) (l : Ledger) (id n : Nat) (lg : Option Bool) (h1 : id ∉ l.answered)
    (h2 : l.entry = .open .inGame) (h2' : l.closedRep = true) (h3 : held l now = false) :
    ackStep now l id n (.re lg) =
      (⟨l.entry, decide (n = 0), some (.reonline, now + LockTimeout), id :: l.answered⟩, []) := by
  simp [ackStep, h1, h2, h2', held] at h3 ⊢; simp [held, h3]

theorem ackStep_already (now : Nat) (l : Ledger) (id n : Nat) (h1 : id ∉ l.answered) (h2 : l.entry ≠ .none) :
    ackStep now l id n .already = ({ l with answered := id :: l.answered }, []) := by
  simp [ackStep, h1, h2]

theorem ackStep_busy (now : Nat) (l : Ledger) (id n : Nat) (h1 : id ∉ l.answered) (h2 : l.entry ≠ .none) :
    ackStep now l id n .busy = ({ l with answered := id :: l.answered }, []) := by
  simp [ackStep, h1, h2]

theorem relP_answered {a : Acct} {l : Ledger} (xs : List Nat) (h : RelP a l) : RelP a { l with answered := xs } := by
  unfold RelP at h ⊢; exact h

/-- what one `ReqLogin` call does: the record/ledger relation is kept, the monitor raises nothing, and
exactly one of: the request is answered; it is parked; it is parked and the previously parked one is answered -/
theorem reqLogin_sim (now : Nat) (a : Acct) (l : Ledger) (id f n : Nat) (k : Bool)
    (h : RelP a l) (hid : id ∉ l.answered) (htk : ∀ t, a.task = some t → t.id ∉ l.answered) :
    RelP (reqLogin now a id f n k).1 (evsStep now l (reqLogin now a id f n k).2).1 ∧
    (evsStep now l (reqLogin now a id f n k).2).2 = [] ∧
    (reqLogin now a id f n k).1.nextId = a.nextId ∧
    (((reqLogin now a id f n k).1.task = a.task ∧ (evsStep now l (reqLogin now a id f n k).2).1.answered = id :: l.answered)
     ∨ ((reqLogin now a id f n k).1.task = some ⟨id, f, n, now⟩ ∧ a.task = none ∧
          (evsStep now l (reqLogin now a id f n k).2).1.answered = l.answered)
     ∨ (∃ t, a.task = some t ∧ (reqLogin now a id f n k).1.task = some ⟨id, f, n, now⟩ ∧
          (evsStep now l (reqLogin now a id f n k).2).1.answered = t.id :: l.answered)) := by
  have h0 := h
  unfold RelP at h
  unfold reqLogin
  cases hpl : a.player with
  | none =>
    simp only [hpl] at h ⊢
    obtain ⟨he, ht⟩ := h
    have hl : l.entry.live = false := by simp [he, Entry.live]
    have hh : held l now = false := by simp [held, ht, heldTx]
    simp [evsStep_ack, ackStep_ok now l id n hid hl hh, RelP, entryOK, LoginTimeout]
  | some p =>
    simp only [hpl] at h ⊢
    obtain ⟨he, hc, ht⟩ := h
    have hne := entryOK_ne_none he
    by_cases hnet : p.net = 0
    · simp only [hnet, ↓reduceIte]
      by_cases hst : p.state = .logined
      · simp only [hst, ↓reduceIte, doReconnect]
        cases htl : p.lock.tryLock now .reonline LockTimeout with
        | none =>
          simp [evsStep_ack, ackStep_busy now l id n hid hne]
          exact relP_answered _ h0
        | some lk' =>
          rw [tryLock_some] at htl
          obtain ⟨hh, rfl⟩ := htl
          have he' : l.entry = .open .inGame := by simpa [entryOK, hst] using he
          have hc' : l.closedRep = true := by simp [hc, hnet]
          have hh' : held l now = false := by simp [held, ht, hh]
          simp [evsStep_ack, ackStep_re now l id n p.logic hid he' hc' hh', RelP, entryOK, hst, he']
      · simp [hst, evsStep_ack, ackStep_already now l id n hid hne]
        exact relP_answered _ h0
    · simp only [hnet, ↓reduceIte]
      by_cases hst : p.state = .logined
      · simp only [hst, ↓reduceIte, addTask]
        cases htask : a.task with
        | none =>
          cases k <;> simp [relP_congr _ h0, RelP, hpl, he, hc, ht]
        | some t =>
          have := htk t htask
          cases k <;> simp [evsStep_ack, ackStep_busy now l t.id t.net this hne, RelP, hpl, he, hc, ht]
      · cases k <;> simp [hst, evsStep_ack, evsStep_append, ackStep_already now l id n hid hne] <;> exact relP_answered _ h0

theorem reqLogin_dropped (now : Nat) (a : Acct) (id f n : Nat) (k : Bool) :
    (reqLogin now a id f n k).1.dropped = a.dropped := by
  unfold reqLogin doReconnect addTask
  repeat' split
  all_goals rfl

/-- the `login` entry point keeps the whole relation and raises nothing -/
theorem login_rel (now : Nat) (a : Acct) (l : Ledger) (f n : Nat) (k : Bool) (h : Rel a l) :
    Rel (loginOp now a f n k).1 (evsStep now l (loginOp now a f n k).2).1 ∧
    (evsStep now l (loginOp now a f n k).2).2 = [] := by
  obtain ⟨hp, hle, hnd, htk, hall⟩ := h
  have hdr := reqLogin_dropped now { a with nextId := a.nextId + 1 } (a.nextId + 1) f n k
  have hid : a.nextId + 1 ∉ l.answered := fun hm => by have := hle _ hm; omega
  have hp' : RelP { a with nextId := a.nextId + 1 } l := relP_congr rfl hp
  have htk' : ∀ t, ({ a with nextId := a.nextId + 1 } : Acct).task = some t → t.id ∉ l.answered :=
    fun t ht => (htk t ht).2
  obtain ⟨r1, r2, r3, r4⟩ := reqLogin_sim now { a with nextId := a.nextId + 1 } l (a.nextId + 1) f n k hp' hid htk'
  unfold loginOp
  refine ⟨⟨r1, ?_⟩, r2⟩
  rcases r4 with ⟨e1, e2⟩ | ⟨e1, e0, e2⟩ | ⟨t, e0, e1, e2⟩
  · refine ⟨?_, ?_, ?_, ?_⟩
    · intro x hx; rw [e2] at hx; rw [r3]; simp at hx ⊢
      rcases hx with rfl | hx
      · omega
      · have := hle _ hx; omega
    · rw [e2]; exact List.nodup_cons.mpr ⟨hid, hnd⟩
    · intro t ht; rw [e1] at ht; rw [e2, r3]
      obtain ⟨h1, h2⟩ := htk t ht
      refine ⟨by show t.id ≤ a.nextId + 1; omega, ?_⟩
      simp only [List.mem_cons, not_or]; exact ⟨by omega, h2⟩
    · intro x h1 h2; rw [r3] at h2; rw [e2, e1, hdr]
      by_cases hx : x = a.nextId + 1
      · exact .inl (by simp [hx])
      · have h2' : x ≤ a.nextId := by simp only [] at h2; omega
        rcases hall x h1 h2' with h | h | h
        · exact .inl (by simp [h])
        · exact .inr (.inl h)
        · exact .inr (.inr h)
  · refine ⟨?_, ?_, ?_, ?_⟩
    · intro x hx; rw [e2] at hx; rw [r3]; have := hle _ hx; simp only []; omega
    · rw [e2]; exact hnd
    · intro t ht; rw [e1] at ht; cases ht; rw [e2, r3]; simp; exact hid
    · intro x h1 h2; rw [r3] at h2; rw [e2, e1, hdr]
      by_cases hx : x = a.nextId + 1
      · exact .inr (.inl ⟨_, rfl, hx.symm⟩)
      · have h2' : x ≤ a.nextId := by simp only [] at h2; omega
        rcases hall x h1 h2' with h | ⟨t, ht, _⟩ | h
        · exact .inl h
        · have e0' : a.task = none := e0
          rw [e0'] at ht; cases ht
        · exact .inr (.inr h)
  · have ht0 := htk t e0
    refine ⟨?_, ?_, ?_, ?_⟩
    · intro x hx; rw [e2] at hx; rw [r3]; simp at hx ⊢
      rcases hx with rfl | hx
      · omega
      · have := hle _ hx; omega
    · rw [e2]; exact List.nodup_cons.mpr ⟨ht0.2, hnd⟩
    · intro t' ht; rw [e1] at ht; cases ht; rw [e2, r3]; simp
      exact ⟨by omega, hid⟩
    · intro x h1 h2; rw [r3] at h2; rw [e2, e1, hdr]
      by_cases hx : x = a.nextId + 1
      · exact .inr (.inl ⟨_, rfl, hx.symm⟩)
      · have h2' : x ≤ a.nextId := by simp only [] at h2; omega
        rcases hall x h1 h2' with h | ⟨t', ht', hx'⟩ | h
        · exact .inl (by simp [h])
        · have e0' : a.task = some t := e0
          rw [e0'] at ht'; cases ht'; exact .inl (by simp [hx'])
        · exact .inr (.inr h)

theorem relP_noTask {a : Acct} {l : Ledger} (h : RelP a l) : RelP { a with task := none } l := relP_congr rfl h

/-- `KickWaitTask.Do` + `removeTask` keeps the whole relation and raises nothing -/
theorem runTask_rel (now : Nat) (a : Acct) (l : Ledger) (h : Rel a l) :
    Rel (runTask now a).1 (evsStep now l (runTask now a).2).1 ∧ (evsStep now l (runTask now a).2).2 = [] := by
  unfold runTask
  cases htask : a.task with
  | none => simpa using h
  | some t =>
    obtain ⟨hp, hle, hnd, htk, hall⟩ := h
    have hdr := reqLogin_dropped now a t.id t.front t.net false
    have ht0 := htk t htask
    have htk' : ∀ t', a.task = some t' → t'.id ∉ l.answered := fun t' ht => (htk t' ht).2
    obtain ⟨r1, r2, r3, r4⟩ := reqLogin_sim now a l t.id t.front t.net false hp ht0.2 htk'
    simp only []
    refine ⟨⟨relP_congr rfl r1, ?_⟩, r2⟩
    have hans : (evsStep now l (reqLogin now a t.id t.front t.net false).2).1.answered = t.id :: l.answered := by
      rcases r4 with ⟨_, e2⟩ | ⟨_, e0, _⟩ | ⟨t', e0, _, e2⟩
      · exact e2
      · rw [htask] at e0; cases e0
      · rw [htask] at e0; cases e0; exact e2
    refine ⟨?_, ?_, ?_, ?_⟩
    · intro x hx; rw [hans] at hx; simp at hx ⊢; rw [r3]
      rcases hx with rfl | hx
      · exact ht0.1
      · exact hle _ hx
    · rw [hans]; exact List.nodup_cons.mpr ⟨ht0.2, hnd⟩
    · intro t' ht; simp at ht
    · intro x h1 h2; simp only [] at h2 ⊢; rw [r3] at h2; rw [hans, hdr]
      rcases hall x h1 h2 with h | ⟨t', ht', hx'⟩ | h
      · exact .inl (by simp [h])
      · rw [htask] at ht'; cases ht'; exact .inl (by simp [hx'])
      · exact .inr (.inr h)

/-- `tryRemoveExpired` forgetting a parked login -/
theorem dropExpired_rel (now : Nat) (a : Acct) (l : Ledger) (h : Rel a l) : Rel (dropExpired now a) l := by
  unfold dropExpired
  split
  · split
    · rename_i t ht _
      refine ⟨relP_congr rfl h.p, ⟨h.i.ans_le, h.i.ans_nodup, by intro t ht; simp at ht, ?_⟩⟩
      intro x h1 h2
      rcases h.i.all x h1 h2 with hx | ⟨t', ht', hx⟩ | hx
      · exact .inl hx
      · rw [ht] at ht'; cases ht'; exact .inr (.inr (by simp [hx]))
      · exact .inr (.inr (by simp [hx]))
    · exact h
  · exact h

/-! ### operations without acknowledgements keep the request bookkeeping -/

theorem relI_congr {a a' : Acct} {l l' : Ledger} (h1 : a'.task = a.task) (h2 : a'.nextId = a.nextId)
    (h4 : a'.dropped = a.dropped) (h3 : l'.answered = l.answered) (h : RelI a l) : RelI a' l' := by
  obtain ⟨hle, hnd, htk, hall⟩ := h
  exact ⟨by rw [h3, h2]; exact hle, by rw [h3]; exact hnd, by rw [h1, h2, h3]; exact htk,
    by rw [h1, h2, h3, h4]; exact hall⟩

theorem opStep_answered (now : Nat) (l : Ledger) (op : Op) (ret : Option Bool) :
    (opStep now l op ret).1.answered = l.answered := by
  cases op <;> simp only [opStep] <;> (repeat' split) <;> simp

theorem tickLedger_answered (now : Nat) (l : Ledger) : (tickLedger now l).answered = l.answered := by
  unfold tickLedger; simp only []; split <;> (try split) <;> rfl

theorem ticksLedger_answered (ts : List Nat) (l : Ledger) :
    (ts.foldl (fun l t => tickLedger t l) l).answered = l.answered := by
  induction ts generalizing l with
  | nil => rfl
  | cons t ts ih => simp only [List.foldl_cons]; rw [ih]; exact tickLedger_answered ..

theorem sendOffline_ti (now : Nat) (a : Acct) (lg : Option Bool) :
    (sendOffline now a lg).1.task = a.task ∧ (sendOffline now a lg).1.nextId = a.nextId ∧ (sendOffline now a lg).1.dropped = a.dropped :=
  ⟨sendOffline_task .., sendOffline_nextId .., by unfold sendOffline; split <;> rfl⟩

theorem closedOp_ti (now : Nat) (a : Acct) : (closedOp now a).1.task = a.task ∧ (closedOp now a).1.nextId = a.nextId ∧ (closedOp now a).1.dropped = a.dropped := by
  unfold closedOp; split
  · exact ⟨rfl, rfl, rfl⟩
  · simp only []; split
    · exact sendOffline_ti ..
    · exact ⟨rfl, rfl, rfl⟩
theorem loginedOp_ti (now : Nat) (a : Acct) (lg : Bool) :
    (loginedOp now a lg).1.task = a.task ∧ (loginedOp now a lg).1.nextId = a.nextId ∧ (loginedOp now a lg).1.dropped = a.dropped := by
  unfold loginedOp; split
  · exact ⟨rfl, rfl, rfl⟩
  · simp only []; split
    · exact sendOffline_ti ..
    · exact ⟨rfl, rfl, rfl⟩
theorem reonlineOp_ti (a : Acct) : (reonlineOp a).task = a.task ∧ (reonlineOp a).nextId = a.nextId ∧ (reonlineOp a).dropped = a.dropped := by
  unfold reonlineOp; split <;> exact ⟨rfl, rfl, rfl⟩
theorem logoutReqOp_ti (now : Nat) (a : Acct) :
    (logoutReqOp now a).1.task = a.task ∧ (logoutReqOp now a).1.nextId = a.nextId ∧ (logoutReqOp now a).1.dropped = a.dropped := by
  unfold logoutReqOp; split
  · exact ⟨rfl, rfl, rfl⟩
  · split <;> exact ⟨rfl, rfl, rfl⟩
theorem logoutDoneOp_ti (a : Acct) : (logoutDoneOp a).1.task = a.task ∧ (logoutDoneOp a).1.nextId = a.nextId ∧ (logoutDoneOp a).1.dropped = a.dropped := by
  unfold logoutDoneOp; split <;> exact ⟨rfl, rfl, rfl⟩
theorem abnormalOp_ti (a : Acct) : (abnormalOp a).1.task = a.task ∧ (abnormalOp a).1.nextId = a.nextId ∧ (abnormalOp a).1.dropped = a.dropped := by
  unfold abnormalOp; split <;> exact ⟨rfl, rfl, rfl⟩
theorem swBeginOp_ti (now : Nat) (a : Acct) :
    (swBeginOp now a).1.task = a.task ∧ (swBeginOp now a).1.nextId = a.nextId ∧ (swBeginOp now a).1.dropped = a.dropped := by
  unfold swBeginOp; split
  · exact ⟨rfl, rfl, rfl⟩
  · split
    · exact ⟨rfl, rfl, rfl⟩
    · split <;> exact ⟨rfl, rfl, rfl⟩
theorem swEndOp_ti (a : Acct) : (swEndOp a).1.task = a.task ∧ (swEndOp a).1.nextId = a.nextId ∧ (swEndOp a).1.dropped = a.dropped := by
  unfold swEndOp; split
  · exact ⟨rfl, rfl, rfl⟩
  · split
    · exact ⟨rfl, rfl, rfl⟩
    · simp only []; split <;> exact ⟨rfl, rfl, rfl⟩
theorem tickAcct_ti (now : Nat) (a : Acct) : (tickAcct now a).task = a.task ∧ (tickAcct now a).nextId = a.nextId ∧ (tickAcct now a).dropped = a.dropped := by
  unfold tickAcct; split
  · exact ⟨rfl, rfl, rfl⟩
  · simp only []; refine ⟨?_, ?_, ?_⟩ <;> (repeat' split) <;> rfl

theorem noack_rel {a a' : Acct} {l : Ledger} (now : Nat) (op : Op) (ret : Option Bool) (h : Rel a l)
    (hp : RelP a' (opStep now l op ret).1) (hti : a'.task = a.task ∧ a'.nextId = a.nextId ∧ a'.dropped = a.dropped) :
    Rel a' (opStep now l op ret).1 :=
  ⟨hp, relI_congr hti.1 hti.2.1 hti.2.2 (opStep_answered ..) h.i⟩

/-! ### the global simulation -/

@[simp] theorem upd_same {α : Type} (f : Nat → α) (k : Nat) (v : α) : upd f k v k = v := by simp [upd]
theorem upd_other {α : Type} (f : Nat → α) (k x : Nat) (v : α) (h : x ≠ k) : upd f k v x = f x := by simp [upd, h]

@[simp] theorem upd_upd {α : Type} (f : Nat → α) (k : Nat) (v w : α) : upd (upd f k v) k w = upd f k w := by
  funext x; simp only [upd]; split <;> rfl

/-- model state and monitor state agree: same clock, every account related to its ledger -/
def GRel (s : State) (m : Mon) : Prop := s.now = m.now ∧ ∀ u, Rel (s.accts u) (m.led u)

theorem grel_upd {s : State} {m : Mon} {u : Nat} {a : Acct} {l : Ledger} (h : GRel s m) (hr : Rel a l) :
    GRel (setAcct s u a) { m with led := upd m.led u l } := by
  refine ⟨h.1, fun x => ?_⟩
  by_cases hx : x = u
  · subst hx; simpa [setAcct] using hr
  · simpa [setAcct, upd_other _ _ _ _ hx] using h.2 x

theorem scan_grel {s : State} {m : Mon} (pick : Option Nat) (h : GRel s m) : GRel (scan s pick) m ∧ (scan s pick).now = s.now := by
  unfold scan
  split
  · exact ⟨h, rfl⟩
  · cases pick with
    | none => exact ⟨⟨h.1, h.2⟩, rfl⟩
    | some v =>
      refine ⟨⟨h.1, fun x => ?_⟩, rfl⟩
      by_cases hx : x = v
      · subst hx; simpa using dropExpired_rel _ _ _ (h.2 x)
      · simpa [upd_other _ _ _ _ hx] using h.2 x

theorem kwClose_sim {s : State} {m : Mon} (u : Nat) (pick : Option Nat) (h : GRel s m) :
    GRel (kwClose s u pick).1 { m with led := upd m.led u (evsStep m.now (m.led u) (kwClose s u pick).2).1 } ∧
    (evsStep m.now (m.led u) (kwClose s u pick).2).2 = [] := by
  obtain ⟨h1, hnow⟩ := scan_grel pick h
  unfold kwClose
  simp only []
  have hn : (scan s pick).now = m.now := by rw [hnow]; exact h.1
  generalize scan s pick = s1 at h1 hn ⊢
  obtain ⟨ac, nw, nc⟩ := s1
  simp only [] at hn; subst hn
  have := runTask_rel m.now (ac u) (m.led u) (h1.2 u)
  exact ⟨grel_upd h1 this.1, this.2⟩

theorem fire_sim {s : State} {m : Mon} (u : Nat) (pick : Option Nat) (evs : List Ev) (f : Bool) (h : GRel s m)
    (hev : ∀ l, evsStep m.now l evs = (l, [])) :
    GRel (fire s u pick evs f).1 { m with led := upd m.led u (evsStep m.now (m.led u) (fire s u pick evs f).2.evs).1 } ∧
    (evsStep m.now (m.led u) (fire s u pick evs f).2.evs).2 = [] ∧ (fire s u pick evs f).2.ret = none := by
  unfold fire
  cases f with
  | false =>
    simp only [Bool.false_eq_true, ↓reduceIte, hev]
    refine ⟨⟨h.1, fun x => ?_⟩, by trivial, by trivial⟩
    by_cases hx : x = u
    · subst hx; simpa using h.2 x
    · simpa [upd_other _ _ _ _ hx] using h.2 x
  | true =>
    simp only [↓reduceIte, evsStep_append, hev, List.nil_append]
    have := kwClose_sim u pick h
    exact ⟨this.1, this.2, by trivial⟩

/-- a run of timer firings keeps the relation -/
theorem ticks_rel (ts : List Nat) : ∀ (a : Acct) (l : Ledger), Rel a l →
    Rel (ts.foldl (fun a t => tickAcct t a) a) (ts.foldl (fun l t => tickLedger t l) l) := by
  induction ts with
  | nil => intro a l h; exact h
  | cons t ts ih =>
    intro a l h
    simp only [List.foldl_cons]
    exact ih _ _ ⟨tick_relP t _ _ h.p,
      relI_congr (tickAcct_ti ..).1 (tickAcct_ti ..).2.1 (tickAcct_ti ..).2.2 (tickLedger_answered ..) h.i⟩

/-- **one step**: whatever the operation, the model's output is accepted by the monitor without any
violation, and model state and monitor state stay related -/
theorem step_sim (s : State) (m : Mon) (op : Op) (h : GRel s m) :
    GRel (step s op).1 (monStep m ⟨op, (step s op).2⟩).1 ∧ (monStep m ⟨op, (step s op).2⟩).2 = [] := by
  obtain ⟨ac, nw, nc⟩ := s
  obtain ⟨hn, hr⟩ := h
  simp only [] at hn hr; subst hn
  have h : GRel ⟨ac, m.now, nc⟩ m := ⟨rfl, hr⟩
  cases op with
  | login u f n k =>
    have := login_rel m.now (ac u) (m.led u) f n k (hr u)
    simp only [step, monStep, Op.uid, acctStep, opStep, List.nil_append]
    exact ⟨grel_upd h this.1, this.2⟩
  | closed u pick =>
    have h1 := closed_relP m.now u pick (ac u) (m.led u) (hr u).p
    have hrel := noack_rel m.now (.closed u pick) none (hr u) h1.1 (closedOp_ti ..)
    have hf := fire_sim u pick (closedOp m.now (ac u)).2.1 (closedOp m.now (ac u)).2.2 (grel_upd (u := u) h hrel)
      (fun l => closed_evs ..)
    simp only [step, monStep, Op.uid, acctStep, hf.2.2, h1.2, List.nil_append]
    simp only [upd_same] at hf
    have hf1 := hf.1
    simp only [upd_upd] at hf1
    exact ⟨hf1, hf.2.1⟩
  | logined u lg pick =>
    have h1 := logined_relP m.now u lg pick (ac u) (m.led u) (hr u).p
    have hrel := noack_rel m.now (.logined u lg pick) none (hr u) h1.1 (loginedOp_ti ..)
    have hf := fire_sim u pick (loginedOp m.now (ac u) lg).2.1 (loginedOp m.now (ac u) lg).2.2 (grel_upd (u := u) h hrel)
      (fun l => logined_evs ..)
    simp only [step, monStep, Op.uid, acctStep, hf.2.2, h1.2, List.nil_append]
    simp only [upd_same] at hf
    have hf1 := hf.1
    simp only [upd_upd] at hf1
    exact ⟨hf1, hf.2.1⟩
  | reonline u =>
    have h1 := reonline_relP m.now u (ac u) (m.led u) (hr u).p
    have hrel := noack_rel m.now (.reonline u) none (hr u) h1.1 (reonlineOp_ti ..)
    simp only [step, monStep, Op.uid, acctStep, h1.2, evsStep_nil, List.append_nil]
    exact ⟨grel_upd h hrel, by trivial⟩
  | logoutReq u =>
    have h1 := logoutReq_relP m.now u (ac u) (m.led u) (hr u).p
    have hrel := noack_rel m.now (.logoutReq u) _ (hr u) h1.1 (logoutReqOp_ti ..)
    simp only [step, monStep, Op.uid, acctStep, h1.2, evsStep_nil, List.append_nil]
    exact ⟨grel_upd h hrel, by trivial⟩
  | logoutDone u =>
    have h1 := logoutDone_relP m.now u (ac u) (m.led u) (hr u).p
    have hrel := noack_rel m.now (.logoutDone u) none (hr u) h1.1 (logoutDoneOp_ti ..)
    have hev : ∀ l, evsStep m.now l (logoutDoneOp (ac u)).2 = (l, []) := by
      intro l; unfold logoutDoneOp kickIfOpen; split
      · simp
      · simp only []; split <;> simp
    simp only [step, monStep, Op.uid, acctStep, h1.2, hev, List.append_nil]
    exact ⟨grel_upd h hrel, by trivial⟩
  | abnormal u =>
    have h1 := abnormal_relP m.now u (ac u) (m.led u) (hr u).p
    have hrel := noack_rel m.now (.abnormal u) none (hr u) h1.1 (abnormalOp_ti ..)
    have hev : ∀ l, evsStep m.now l (abnormalOp (ac u)).2 = (l, []) := by
      intro l; unfold abnormalOp kickIfOpen; split
      · simp
      · simp only []; split <;> simp
    simp only [step, monStep, Op.uid, acctStep, h1.2, hev, List.append_nil]
    exact ⟨grel_upd h hrel, by trivial⟩
  | swBegin u =>
    have h1 := swBegin_relP m.now u (ac u) (m.led u) (hr u).p
    have hrel := noack_rel m.now (.swBegin u) _ (hr u) h1.1 (swBeginOp_ti ..)
    simp only [step, monStep, Op.uid, acctStep, h1.2, evsStep_nil, List.append_nil]
    exact ⟨grel_upd h hrel, by trivial⟩
  | swEnd u =>
    have h1 := swEnd_relP m.now u (ac u) (m.led u) (hr u).p
    have hrel := noack_rel m.now (.swEnd u) _ (hr u) h1.1 (swEndOp_ti ..)
    simp only [step, monStep, Op.uid, acctStep, h1.2, evsStep_nil, List.append_nil]
    exact ⟨grel_upd h hrel, by trivial⟩
  | offReply u pick =>
    simp only [step]
    cases hpend : (ac u).pend with
    | nil =>
      simp only [monStep, Op.uid, acctStep, opStep, evsStep_nil, List.append_nil]
      refine ⟨⟨rfl, fun x => ?_⟩, by trivial⟩
      by_cases hx : x = u
      · subst hx; simpa using hr x
      · simpa [upd_other _ _ _ _ hx] using hr x
    | cons t rest =>
      have hrel : Rel { ac u with pend := rest } (m.led u) :=
        ⟨relP_congr rfl (hr u).p, relI_congr (a := ac u) rfl rfl rfl rfl (hr u).i⟩
      have hf := fire_sim u pick [] true (grel_upd (u := u) h hrel) (fun l => rfl)
      simp only [monStep, Op.uid, acctStep, opStep, hf.2.2, List.nil_append]
      simp only [upd_same] at hf
      have hf1 := hf.1
      simp only [upd_upd] at hf1
      exact ⟨hf1, hf.2.1⟩
  | tick =>
    simp only [step, monStep]
    refine ⟨⟨rfl, fun x => ?_⟩, by trivial⟩
    exact ⟨tick_relP m.now _ _ (hr x).p, relI_congr (tickAcct_ti ..).1 (tickAcct_ti ..).2.1 (tickAcct_ti ..).2.2 (tickLedger_answered ..) (hr x).i⟩
  | adv ms =>
    simp only [step, monStep]
    exact ⟨⟨rfl, hr⟩, by trivial⟩
  | advT ms =>
    simp only [step, monStep]
    exact ⟨⟨rfl, fun x => ticks_rel _ _ _ (hr x)⟩, by trivial⟩

theorem init_grel : GRel {} {} := by
  refine ⟨rfl, fun u => ⟨?_, ⟨?_, ?_, ?_, ?_⟩⟩⟩
  · simp [RelP]
  · intro x hx; simp at hx
  · simp
  · intro t ht; simp at ht
  · intro x h1 h2; simp at h2; omega

/-- **every history**: from related states, the monitor accepts the model's whole trace and the
final states are related again -/
theorem runFrom_sim (ops : List Op) : ∀ (s : State) (m : Mon), GRel s m →
    GRel (runFrom s ops).1 (monRun m (runFrom s ops).2).1 ∧ (monRun m (runFrom s ops).2).2 = [] := by
  induction ops with
  | nil => intro s m h; exact ⟨h, rfl⟩
  | cons op ops ih =>
    intro s m h
    obtain ⟨h1, h2⟩ := step_sim s m op h
    obtain ⟨h3, h4⟩ := ih _ _ h1
    simp only [runFrom, monRun]
    exact ⟨h3, by rw [h2, h4]; rfl⟩

/-! ### an account parked in a line switch stays there until something ends the switch
(review finding 2: `SetState(SwitchLine, 0)` has no state time limit) -/

/-- the account's record is in state `SwitchLine` -/
def InSwitch (a : Acct) : Prop := ∃ p, a.player = some p ∧ p.state = .switchLine

/-- the only operations that take account `u` out of a line switch -/
def Op.endsSwitch (u : Nat) : Op → Bool
  | .swEnd v | .logoutReq v | .logoutDone v | .abnormal v => v == u
  | .logined v _ _ => v == u
  | _ => false

theorem reqLogin_inSwitch (now : Nat) (a : Acct) (id f n : Nat) (k : Bool) (h : InSwitch a) :
    (reqLogin now a id f n k).1 = a ∧
    ∀ e ∈ (reqLogin now a id f n k).2, e = .ack id n .already ∨ ∃ f' n', e = .kick f' n' := by
  obtain ⟨p, hp, hst⟩ := h
  unfold reqLogin
  simp only [hp, hst]
  by_cases hn : p.net = 0 <;> cases k <;> simp [hn]

theorem reqLogin_inSwitch_acks (now : Nat) (a : Acct) (id f n : Nat) (k : Bool) (h : InSwitch a) :
    Ev.ack id n .already ∈ (reqLogin now a id f n k).2 := by
  obtain ⟨p, hp, hst⟩ := h
  unfold reqLogin
  simp only [hp, hst]
  by_cases hn : p.net = 0 <;> cases k <;> simp [hn]

theorem inSwitch_congr {a a' : Acct} (h : a'.player = a.player) : InSwitch a → InSwitch a' := by
  unfold InSwitch; rw [h]; exact id

theorem loginOp_inSwitch (now : Nat) (a : Acct) (f n : Nat) (k : Bool) (h : InSwitch a) :
    InSwitch (loginOp now a f n k).1 := by
  unfold loginOp
  have h' : InSwitch { a with nextId := a.nextId + 1 } := inSwitch_congr rfl h
  rw [(reqLogin_inSwitch now _ (a.nextId + 1) f n k h').1]; exact h'

theorem runTask_inSwitch (now : Nat) (a : Acct) (h : InSwitch a) : InSwitch (runTask now a).1 := by
  unfold runTask
  split
  · exact h
  · rename_i t _
    simp only []
    rw [(reqLogin_inSwitch now a t.id t.front t.net false h).1]; exact inSwitch_congr rfl h

theorem dropExpired_player (now : Nat) (a : Acct) : (dropExpired now a).player = a.player := by
  unfold dropExpired; split
  · split <;> rfl
  · rfl

theorem scan_inSwitch (s : State) (pick : Option Nat) (x : Nat) (h : InSwitch (s.accts x)) :
    InSwitch ((scan s pick).accts x) := by
  unfold scan
  split
  · exact h
  · cases pick with
    | none => exact h
    | some v =>
      simp only []
      by_cases hx : x = v
      · subst hx; simp only [upd_same]; exact inSwitch_congr (dropExpired_player ..) h
      · rw [upd_other _ _ _ _ hx]; exact h

theorem kwClose_inSwitch (s : State) (v : Nat) (pick : Option Nat) (x : Nat) (h : InSwitch (s.accts x)) :
    InSwitch ((kwClose s v pick).1.accts x) := by
  have h1 := scan_inSwitch s pick x h
  unfold kwClose
  simp only []
  by_cases hx : x = v
  · subst hx; simp only [upd_same]; exact runTask_inSwitch _ _ h1
  · rw [upd_other _ _ _ _ hx]; exact h1

theorem fire_inSwitch (s : State) (v : Nat) (pick : Option Nat) (evs : List Ev) (b : Bool) (x : Nat)
    (h : InSwitch (s.accts x)) : InSwitch ((fire s v pick evs b).1.accts x) := by
  unfold fire
  cases b
  · exact h
  · exact kwClose_inSwitch s v pick x h

theorem setAcct_inSwitch (s : State) (v x : Nat) (a : Acct) (h : InSwitch (s.accts x))
    (ha : x = v → InSwitch a) : InSwitch ((setAcct s v a).accts x) := by
  unfold setAcct
  simp only []
  by_cases hx : x = v
  · subst hx; simp only [upd_same]; exact ha rfl
  · rw [upd_other _ _ _ _ hx]; exact h

theorem closedOp_inSwitch (now : Nat) (a : Acct) (h : InSwitch a) : InSwitch (closedOp now a).1 := by
  obtain ⟨p, hp, hst⟩ := h
  unfold closedOp
  simp only [hp, hst]
  exact ⟨_, rfl, rfl⟩

theorem reonlineOp_inSwitch (a : Acct) (h : InSwitch a) : InSwitch (reonlineOp a) := by
  obtain ⟨p, hp, hst⟩ := h
  unfold reonlineOp
  simp only [hp]
  exact ⟨_, rfl, hst⟩

theorem swBeginOp_inSwitch (now : Nat) (a : Acct) (h : InSwitch a) :
    (swBeginOp now a).1 = a ∧ (swBeginOp now a).2 = false := by
  obtain ⟨p, hp, hst⟩ := h
  unfold swBeginOp
  simp [hp, hst]

theorem tickAcct_inSwitch (now : Nat) (a : Acct) (h : InSwitch a) : tickAcct now a = a := by
  obtain ⟨p, hp, hst⟩ := h
  unfold tickAcct
  simp [hp, hst]

theorem ticks_inSwitch (ts : List Nat) (a : Acct) (h : InSwitch a) : ts.foldl (fun a t => tickAcct t a) a = a := by
  induction ts with
  | nil => rfl
  | cons t ts ih => simp only [List.foldl_cons]; rw [tickAcct_inSwitch _ _ h]; exact ih

/-- **one step**: an operation that does not end the switch of account `u` leaves it in the switch -/
theorem step_inSwitch (s : State) (op : Op) (u : Nat) (hop : op.endsSwitch u = false)
    (h : InSwitch (s.accts u)) : InSwitch ((step s op).1.accts u) := by
  cases op with
  | login v f n k =>
    exact setAcct_inSwitch s v u _ h (fun e => by subst e; exact loginOp_inSwitch _ _ _ _ _ h)
  | closed v pick =>
    exact fire_inSwitch _ v pick _ _ u
      (setAcct_inSwitch s v u _ h (fun e => by subst e; exact closedOp_inSwitch _ _ h))
  | logined v lg pick =>
    have hv : u ≠ v := by
      intro e; subst e; simp [Op.endsSwitch] at hop
    exact fire_inSwitch _ v pick _ _ u (setAcct_inSwitch s v u _ h (fun e => absurd e hv))
  | reonline v =>
    exact setAcct_inSwitch s v u _ h (fun e => by subst e; exact reonlineOp_inSwitch _ h)
  | logoutReq v =>
    have hv : u ≠ v := by intro e; subst e; simp [Op.endsSwitch] at hop
    exact setAcct_inSwitch s v u _ h (fun e => absurd e hv)
  | logoutDone v =>
    have hv : u ≠ v := by intro e; subst e; simp [Op.endsSwitch] at hop
    exact setAcct_inSwitch s v u _ h (fun e => absurd e hv)
  | abnormal v =>
    have hv : u ≠ v := by intro e; subst e; simp [Op.endsSwitch] at hop
    exact setAcct_inSwitch s v u _ h (fun e => absurd e hv)
  | swBegin v =>
    exact setAcct_inSwitch s v u _ h (fun e => by subst e; rw [(swBeginOp_inSwitch _ _ h).1]; exact h)
  | swEnd v =>
    have hv : u ≠ v := by intro e; subst e; simp [Op.endsSwitch] at hop
    exact setAcct_inSwitch s v u _ h (fun e => absurd e hv)
  | offReply v pick =>
    simp only [step]
    split
    · exact h
    · exact fire_inSwitch _ v pick _ _ u
        (setAcct_inSwitch s v u _ h (fun e => by subst e; exact inSwitch_congr rfl h))
  | tick =>
    simp only [step]
    rw [tickAcct_inSwitch _ _ h]; exact h
  | adv ms => exact h
  | advT ms =>
    simp only [step]
    rw [ticks_inSwitch _ _ h]; exact h

theorem runFrom_inSwitch (ops : List Op) (u : Nat) (hops : ∀ op ∈ ops, op.endsSwitch u = false) :
    ∀ s : State, InSwitch (s.accts u) → InSwitch ((runFrom s ops).1.accts u) := by
  induction ops with
  | nil => intro s h; exact h
  | cons op ops ih =>
    intro s h
    simp only [runFrom]
    exact ih (fun o ho => hops o (List.mem_cons_of_mem _ ho)) _
      (step_inSwitch s op u (hops op (List.mem_cons_self ..)) h)

theorem runFrom_append (xs ys : List Op) (s : State) :
    (runFrom s (xs ++ ys)).1 = (runFrom (runFrom s xs).1 ys).1 := by
  induction xs generalizing s with
  | nil => rfl
  | cons x xs ih => simp only [List.cons_append, runFrom]; exact ih _

/-! ### request ids: one per login operation -/

def stepIssues (u : Nat) : Op → Nat
  | .login v .. => if v = u then 1 else 0
  | _ => 0

theorem reqLogin_nextId (now : Nat) (a : Acct) (id f n : Nat) (k : Bool) :
    (reqLogin now a id f n k).1.nextId = a.nextId := by
  unfold reqLogin doReconnect addTask
  repeat' split
  all_goals rfl

theorem runTask_nextId (now : Nat) (a : Acct) : (runTask now a).1.nextId = a.nextId := by
  unfold runTask; split
  · rfl
  · simp only []; exact reqLogin_nextId ..

theorem dropExpired_nextId (now : Nat) (a : Acct) : (dropExpired now a).nextId = a.nextId := by
  unfold dropExpired; split
  · split <;> rfl
  · rfl

theorem scan_nextId (s : State) (pick : Option Nat) (x : Nat) : ((scan s pick).accts x).nextId = (s.accts x).nextId := by
  unfold scan
  split
  · rfl
  · cases pick with
    | none => rfl
    | some v =>
      simp only []
      by_cases hx : x = v
      · subst hx; simp only [upd_same]; exact dropExpired_nextId ..
      · rw [upd_other _ _ _ _ hx]

theorem kwClose_nextId (s : State) (v : Nat) (pick : Option Nat) (x : Nat) :
    ((kwClose s v pick).1.accts x).nextId = (s.accts x).nextId := by
  unfold kwClose
  simp only []
  by_cases hx : x = v
  · subst hx; simp only [upd_same]; rw [runTask_nextId]; exact scan_nextId ..
  · rw [upd_other _ _ _ _ hx]; exact scan_nextId ..

theorem fire_nextId (s : State) (v : Nat) (pick : Option Nat) (evs : List Ev) (b : Bool) (x : Nat) :
    ((fire s v pick evs b).1.accts x).nextId = (s.accts x).nextId := by
  unfold fire
  cases b
  · rfl
  · exact kwClose_nextId ..

theorem setAcct_nextId (s : State) (v x : Nat) (a : Acct) (ha : a.nextId = (s.accts v).nextId) :
    ((setAcct s v a).accts x).nextId = (s.accts x).nextId := by
  unfold setAcct
  simp only []
  by_cases hx : x = v
  · subst hx; simp only [upd_same]; exact ha
  · rw [upd_other _ _ _ _ hx]

/-- a step issues exactly one new request id, for the account of a `login` operation -/
theorem step_nextId (s : State) (op : Op) (u : Nat) :
    ((step s op).1.accts u).nextId = (s.accts u).nextId + stepIssues u op := by
  cases op with
  | login v f n k =>
    simp only [step, stepIssues, setAcct]
    by_cases hx : u = v
    · subst hx; simp [loginOp, reqLogin_nextId]
    · have : ¬ v = u := fun e => hx e.symm
      simp [upd_other _ _ _ _ hx, this]
  | closed v pick =>
    simp only [step, stepIssues, Nat.add_zero]
    rw [fire_nextId, setAcct_nextId _ _ _ _ (closedOp_ti ..).2.1]
  | logined v lg pick =>
    simp only [step, stepIssues, Nat.add_zero]
    rw [fire_nextId, setAcct_nextId _ _ _ _ (loginedOp_ti ..).2.1]
  | reonline v => simp only [step, stepIssues, Nat.add_zero]; exact setAcct_nextId _ _ _ _ (reonlineOp_ti ..).2.1
  | logoutReq v => simp only [step, stepIssues, Nat.add_zero]; exact setAcct_nextId _ _ _ _ (logoutReqOp_ti ..).2.1
  | logoutDone v => simp only [step, stepIssues, Nat.add_zero]; exact setAcct_nextId _ _ _ _ (logoutDoneOp_ti ..).2.1
  | abnormal v => simp only [step, stepIssues, Nat.add_zero]; exact setAcct_nextId _ _ _ _ (abnormalOp_ti ..).2.1
  | swBegin v => simp only [step, stepIssues, Nat.add_zero]; exact setAcct_nextId _ _ _ _ (swBeginOp_ti ..).2.1
  | swEnd v => simp only [step, stepIssues, Nat.add_zero]; exact setAcct_nextId _ _ _ _ (swEndOp_ti ..).2.1
  | offReply v pick =>
    simp only [step, stepIssues, Nat.add_zero]
    split
    · rfl
    · rw [fire_nextId]; exact setAcct_nextId _ _ _ _ rfl
  | tick => simp only [step, stepIssues, Nat.add_zero]; exact (tickAcct_ti ..).2.1
  | adv ms => rfl
  | advT ms =>
    simp only [step, stepIssues, Nat.add_zero]
    generalize firings s.now (s.now + ms) = ts
    generalize s.accts u = a
    induction ts generalizing a with
    | nil => rfl
    | cons t ts ih => simp only [List.foldl_cons]; rw [ih]; exact (tickAcct_ti ..).2.1

/-! ### the 1 s timer of `PlayerMgr.Start` (`Op.advT`) -/

theorem firings_bounds (a b t : Nat) (h : t ∈ firings a b) : a < t ∧ t ≤ b := by
  unfold firings TimerPeriod at h
  simp only [List.mem_map, List.mem_range] at h
  obtain ⟨i, hi, rfl⟩ := h
  omega

theorem firings_ne_nil (a b : Nat) (h : a + TimerPeriod ≤ b) : firings a b ≠ [] := by
  unfold firings TimerPeriod at *
  intro e
  have : (List.range (b / 1000 - a / 1000)).length = 0 := by
    have := congrArg List.length e; simpa using this
  simp at this
  omega

theorem ticks_none (ts : List Nat) (a : Acct) (h : a.player = none) :
    (ts.foldl (fun a t => tickAcct t a) a).player = none := by
  induction ts generalizing a with
  | nil => exact h
  | cons t ts ih =>
    simp only [List.foldl_cons]
    apply ih
    unfold tickAcct; simp [h]

/-- a record whose state time limit has passed is removed by the first firing -/
theorem ticks_remove_timedOut (ts : List Nat) (a : Acct) (p : Player) (hp : a.player = some p)
    (hst : p.state = .logining ∨ p.state = .logouting) (h0 : 0 < p.stTimeout)
    (hne : ts ≠ []) (hall : ∀ t ∈ ts, p.stTimeout ≤ t) :
    (ts.foldl (fun a t => tickAcct t a) a).player = none := by
  cases ts with
  | nil => exact absurd rfl hne
  | cons t ts =>
    simp only [List.foldl_cons]
    apply ticks_none
    have ht := hall t (List.mem_cons_self ..)
    unfold tickAcct
    rcases hst with hst | hst <;> simp [hp, hst, h0, ht]

/-- with the timer running, a record past its state time limit is gone after any advance of at least one period -/
theorem advT_removes (s : State) (u ms : Nat) (p : Player) (hp : (s.accts u).player = some p)
    (hst : p.state = .logining ∨ p.state = .logouting) (h0 : 0 < p.stTimeout) (hexp : p.stTimeout ≤ s.now)
    (hms : TimerPeriod ≤ ms) : ((step s (.advT ms)).1.accts u).player = none := by
  simp only [step]
  refine ticks_remove_timedOut _ _ p hp hst h0 (firings_ne_nil _ _ (by omega)) ?_
  intro t ht
  have := (firings_bounds _ _ _ ht).1
  omega

/-! ### the monitor's `answered` list is the list of acknowledged request ids (monitor-only facts) -/

def evAckIds : List Ev → List Nat
  | [] => []
  | .ack id _ _ :: es => id :: evAckIds es
  | _ :: es => evAckIds es

/-- ids of the login requests of account `u` acknowledged in a trace, in order -/
def ackIds (u : Nat) : List Step → List Nat
  | [] => []
  | st :: rest => (if st.op.uid = some u then evAckIds st.out.evs else []) ++ ackIds u rest

theorem ackStep_answered (now : Nat) (l : Ledger) (id n : Nat) (c : Code) :
    (ackStep now l id n c).1.answered = id :: l.answered := by
  cases c <;> simp [ackStep]

theorem evsStep_answered (now : Nat) (evs : List Ev) : ∀ l : Ledger,
    (evsStep now l evs).1.answered = (evAckIds evs).reverse ++ l.answered := by
  induction evs with
  | nil => intro l; simp [evAckIds]
  | cons e es ih =>
    intro l
    cases e with
    | ack id n c => simp [evsStep_ack, ih, evAckIds, ackStep_answered]
    | kick f n => simp [ih, evAckIds]
    | off => simp [ih, evAckIds]

theorem monStep_answered (m : Mon) (st : Step) (u : Nat) :
    ((monStep m st).1.led u).answered =
      (if st.op.uid = some u then evAckIds st.out.evs else []).reverse ++ (m.led u).answered := by
  obtain ⟨op, out⟩ := st
  have key : ∀ v, op.uid = some v →
      (upd m.led v (acctStep m.now (m.led v) op out).1 u).answered =
        (if some v = some u then evAckIds out.evs else []).reverse ++ (m.led u).answered := by
    intro v _
    by_cases hx : u = v
    · subst hx; simp [acctStep, evsStep_answered, opStep_answered]
    · have : ¬ v = u := fun h => hx h.symm
      simp [upd_other _ _ _ _ hx, this]
  cases op <;> simp only [monStep, Op.uid] <;> first
    | exact key _ rfl
    | simp [tickLedger_answered, ticksLedger_answered]

theorem nodup_of_reverse {l : List Nat} (h : l.reverse.Nodup) : l.Nodup := by
  unfold List.Nodup at *
  rw [List.pairwise_reverse] at h
  exact h.imp (fun hab => fun e => hab e.symm)

theorem monRun_answered (u : Nat) (tr : List Step) : ∀ m : Mon,
    ((monRun m tr).1.led u).answered = (ackIds u tr).reverse ++ (m.led u).answered := by
  induction tr with
  | nil => intro m; simp [monRun, ackIds]
  | cons st rest ih =>
    intro m
    simp only [monRun, ackIds, ih, monStep_answered, List.reverse_append, List.append_assoc]

end Cell2v.Center
