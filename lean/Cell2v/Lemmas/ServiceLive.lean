import Cell2v.Lemmas.Service
/-!
C01 — the lower bound of "exactly once".

`Live s i d` : the request instance `i` (issued with a callback, deadline `d`) is
either still registered — with its callback and its deadline — or its callback has
been invoked exactly once.  It holds from the moment a request has been handed to
the peer and is preserved by every transition of the model (`step_Live`): the
model never forgets a request silently.  Together with the progress lemmas of
`Lemmas/Service.lean` (a scan at a moment the goroutine is free completes what is
due) this gives "eventually exactly once" under an explicit fairness hypothesis
on the op list.
-/
namespace Cell2v.Service

def Live (s : State) (i d : Nat) : Prop :=
  (∃ id w, (id, w) ∈ s.pending ∧ w.inst = i ∧ w.hasCb = true ∧ w.deadline = d) ∨ cbCount s.log i = 1

theorem exists_cb_of_count {log : List Ev} {i : Nat} (h : 0 < cbCount log i) :
    ∃ id o t, Ev.cb i id o t ∈ log := by
  unfold cbCount at h
  obtain ⟨e, he, hp⟩ := List.countP_pos_iff.1 h
  cases e with
  | cb j id o t =>
    simp only [isCbOf, beq_iff_eq] at hp
    subst hp
    exact ⟨id, o, t, he⟩
  | _ => simp [isCbOf] at hp

/-- once invoked, the count stays at one for ever -/
theorem count_one_step {s : State} (hwf : WF s) (op : Op) (hc : (step s op).collided = false) {i : Nat}
    (h : cbCount s.log i = 1) : cbCount (step s op).log i = 1 := by
  obtain ⟨id, o, t, hm⟩ := exists_cb_of_count (i := i) (log := s.log) (by omega)
  have h1 := cb_mem_count (step_log_mono op hm)
  have h2 := (step_WF hwf op hc).b.cbOnce i
  omega

/-- the scan loop either leaves an entry with a callback where it is, or invokes that callback -/
theorem tickLoop_keep : ∀ (rest : List Nat) (s : State) (id : Nat) (w : Wait),
    (keys s.pending).Nodup → (id, w) ∈ s.pending → w.hasCb = true → (tickLoop s rest).collided = false →
    (id, w) ∈ (tickLoop s rest).pending ∨ ∃ t, Ev.cb w.inst id .timeout t ∈ (tickLoop s rest).log := by
  intro rest
  induction rest with
  | nil => intro s id w _ hm _ _; exact Or.inl hm
  | cons r rest ih =>
    intro s id w hn hm hcbw hc
    cases hf : find r s.pending with
    | none => rw [tickLoop_cons_none hf] at hc; simp at hc
    | some w' =>
      by_cases e : id = r
      · subst e
        have hw := find_some_of_mem hn hm
        rw [hf] at hw
        injection hw with hw; subst hw
        rw [tickLoop_cons_cb hf hcbw]
        exact Or.inr ⟨_, List.mem_cons_self ..⟩
      · cases hcb : w'.hasCb with
        | true =>
          rw [tickLoop_cons_cb hf hcb]
          exact Or.inl (mem_del.2 ⟨hm, e⟩)
        | false =>
          rw [tickLoop_cons_nocb hf hcb] at hc ⊢
          exact ih _ id w (finish_nodup r hn) (finish_mem_ne hm e) hcbw hc

/-- one transition: a registered entry with a callback stays registered or its callback is invoked -/
theorem step_keep {s : State} (hwf : WF s) (op : Op) (hc : (step s op).collided = false) {id : Nat} {w : Wait}
    (hm : (id, w) ∈ s.pending) (hcbw : w.hasCb = true) :
    (id, w) ∈ (step s op).pending ∨ ∃ o t, Ev.cb w.inst id o t ∈ (step s op).log := by
  have hn : (keys s.pending).Nodup := hwf.a.nodup
  cases op with
  | issue r o c =>
    left
    cases r with
    | false => simp only [step]; rw [issue_notify]; cases o <;> exact hm
    | true =>
      simp only [step] at hc ⊢
      rw [issue_req_collided] at hc
      simp only [Bool.or_eq_false_iff] at hc
      have hf := hasKey_false.1 hc.2
      cases o with
      | true => rw [issue_req_ok s c hf]; exact List.mem_cons_of_mem _ hm
      | false => rw [issue_req_fail s c hf]; exact hm
  | noroute r c => left; simp only [step]; rw [noroute_pending]; exact hm
  | response id' p =>
    simp only [step]
    cases hfree : free s with
    | false => rw [response_busy hfree]; exact Or.inl hm
    | true =>
      cases hf : find id' s.pending with
      | none => rw [response_miss hfree hf]; exact Or.inl hm
      | some w' =>
        by_cases e : id = id'
        · subst e
          have hw := find_some_of_mem hn hm
          rw [hf] at hw
          injection hw with hw; subst hw
          rw [response_cb hfree hf hcbw]
          exact Or.inr ⟨_, _, List.mem_cons_self ..⟩
        · cases hcb : w'.hasCb with
          | true => rw [response_cb hfree hf hcb]; exact Or.inl (mem_del.2 ⟨hm, e⟩)
          | false => rw [response_nocb hfree hf hcb]; exact Or.inl (finish_mem_ne hm e)
  | tick order =>
    simp only [step] at hc ⊢
    unfold tick at hc ⊢
    split
    · exact Or.inl hm
    · split
      · exact Or.inl hm
      · rename_i h1 h2
        simp only [h1, h2] at hc
        rcases tickLoop_keep _ s id w hn hm hcbw (by simpa using hc) with k | ⟨t, k⟩
        · exact Or.inl k
        · exact Or.inr ⟨_, t, k⟩
  | advance dt => exact Or.inl hm
  | panic =>
    simp only [step]; unfold panicScan
    split <;> exact Or.inl hm
  | ret =>
    simp only [step] at hc ⊢
    unfold ret at hc ⊢
    by_cases hnest : s.nest > 0
    · simp only [hnest, ↓reduceIte]; exact Or.inl hm
    · simp only [hnest, ↓reduceIte] at hc ⊢
      cases hb : s.base with
      | idle => exact Or.inl hm
      | inResp _ => exact Or.inl hm
      | inTick cur rest =>
        simp only [hb] at hc ⊢
        rcases tickLoop_keep rest s id w hn hm hcbw hc with k | ⟨t, k⟩
        · exact Or.inl k
        · exact Or.inr ⟨_, t, k⟩

theorem step_Live {s : State} (hwf : WF s) (op : Op) (hc : (step s op).collided = false) {i d : Nat}
    (h : Live s i d) : Live (step s op) i d := by
  rcases h with ⟨id, w, hm, hi, hcb, hd⟩ | h
  · rcases step_keep hwf op hc hm hcb with k | ⟨o, t, k⟩
    · exact Or.inl ⟨id, w, k, hi, hcb, hd⟩
    · right
      have h1 := cb_mem_count k
      have h2 := (step_WF hwf op hc).b.cbOnce w.inst
      subst hi; omega
  · exact Or.inr (count_one_step hwf op hc h)

theorem run_Live : ∀ (ops : List Op) (s : State) (i d : Nat), WF s → (run s ops).collided = false →
    Live s i d → Live (run s ops) i d := by
  intro ops
  induction ops with
  | nil => intro s i d _ _ h; exact h
  | cons op ops ih =>
    intro s i d hwf hc h
    rw [run_cons] at hc ⊢
    have hc1 := not_collided_of_run hc
    exact ih _ i d (step_WF hwf op hc1) hc (step_Live hwf op hc1 h)

/-- right after `doRequestEx` has registered and sent a request with a callback, it is `Live` -/
theorem issue_Live {s : State} (hc : (issue s true true true).collided = false) :
    Live (issue s true true true) s.ninst (s.now + reqTimeout) := by
  rw [issue_req_collided] at hc
  simp only [Bool.or_eq_false_iff] at hc
  have hf := hasKey_false.1 hc.2
  rw [issue_req_ok s true hf]
  exact Or.inl ⟨allocId s.M s.nextId, newWait s true, List.mem_cons_self .., rfl, rfl, rfl⟩

/-- … and a request whose message cannot be serialised has been called back (once) when `issue` returns -/
theorem issue_fail_count {s : State} (hwf : WF s) (hc : (issue s true false true).collided = false) :
    cbCount (issue s true false true).log s.ninst = 1 := by
  have hc' := hc
  rw [issue_req_collided] at hc
  simp only [Bool.or_eq_false_iff] at hc
  have hf := hasKey_false.1 hc.2
  have hw := issue_WF hwf true false true hc'
  have h2 := hw.b.cbOnce s.ninst
  have h1 : 1 ≤ cbCount (issue s true false true).log s.ninst := by
    apply cb_mem_count (id := allocId s.M s.nextId) (o := .serErr) (t := s.now)
    rw [issue_req_fail s true hf]
    simp
  omega

theorem run_count_one : ∀ (ops : List Op) (s : State) (i : Nat), WF s → (run s ops).collided = false →
    cbCount s.log i = 1 → cbCount (run s ops).log i = 1 := by
  intro ops
  induction ops with
  | nil => intro s i _ _ h; exact h
  | cons op ops ih =>
    intro s i hwf hc h
    rw [run_cons] at hc ⊢
    have hc1 := not_collided_of_run hc
    exact ih _ i (step_WF hwf op hc1) hc (count_one_step hwf op hc1 h)

/-! ### panics included: every scan at a free moment that finds something due removes an entry -/

/-- expiry scans that start while the goroutine is free -/
def freeScans : State → List Op → Nat
  | _, [] => 0
  | s, op :: ops => (match op with | .tick _ => if free s then 1 else 0 | _ => 0) + freeScans (step s op) ops

/-- calls of `Request` / `RequestEx` -/
def reqIssues : List Op → Nat
  | [] => 0
  | op :: ops => (match op with | .issue true _ _ => 1 | _ => 0) + reqIssues ops

theorem finish_length_le (s : State) (id : Nat) : (finish s id).pending.length ≤ s.pending.length := by
  unfold finish
  split
  · exact List.length_filter_le _ _
  · exact Nat.le_refl _

theorem finish_now (s : State) (id : Nat) : (finish s id).now = s.now := by
  unfold finish; split <;> rfl

theorem tickLoop_now : ∀ (rest : List Nat) (s : State), (tickLoop s rest).now = s.now := by
  intro rest
  induction rest with
  | nil => intro s; rfl
  | cons id rest ih =>
    intro s
    cases hf : find id s.pending with
    | none => rw [tickLoop_cons_none hf]
    | some w =>
      cases hcb : w.hasCb with
      | true => rw [tickLoop_cons_cb hf hcb]
      | false => rw [tickLoop_cons_nocb hf hcb, ih, finish_now]

theorem issue_now (s : State) (r o c : Bool) : (issue s r o c).now = s.now := by
  cases r <;> cases o <;> cases c <;> cases h : s.armed <;> simp [issue, h]

theorem step_now_le (s : State) (op : Op) : s.now ≤ (step s op).now := by
  cases op with
  | issue r o c => simp only [step]; rw [issue_now]; exact Nat.le_refl _
  | noroute r c => simp only [step]; unfold noroute; split <;> exact Nat.le_refl _
  | response id p =>
    simp only [step]; unfold response
    split
    · exact Nat.le_refl _
    · split
      · exact Nat.le_refl _
      · split
        · simp only [finish_now]; exact Nat.le_refl _
        · rw [finish_now]; exact Nat.le_refl _
  | tick order =>
    simp only [step]; unfold tick
    split
    · exact Nat.le_refl _
    · split
      · exact Nat.le_refl _
      · rw [tickLoop_now]; exact Nat.le_refl _
  | ret =>
    simp only [step]; unfold ret
    split
    · exact Nat.le_refl _
    · split
      · exact Nat.le_refl _
      · exact Nat.le_refl _
      · rw [tickLoop_now]; exact Nat.le_refl _
  | panic => simp only [step]; unfold panicScan; split <;> exact Nat.le_refl _
  | advance dt => simp only [step]; exact Nat.le_add_right _ _

/-- a scan that starts at a free moment with something due removes at least one entry -/
theorem tick_length_lt {s : State} (hwf : WF s) (hfree : free s = true) {id : Nat} {w : Wait}
    (hm : (id, w) ∈ s.pending) (hdue : w.deadline < s.now) (order : List Nat) :
    (tick s order).pending.length < s.pending.length := by
  obtain ⟨_, hb⟩ := free_iff.1 hfree
  have h0 := hwf.idle hb
  have harm : s.armed = true := hwf.a.armedP (by intro e; rw [e] at hm; cases hm)
  have hne : s.pending.isEmpty = false := by
    cases hp : s.pending with
    | nil => rw [hp] at hm; cases hm
    | cons _ _ => rfl
  have hperm := pickOrder_perm order (dueIds s.now s.pending)
  have hin : id ∈ pickOrder order (dueIds s.now s.pending) := hperm.mem_iff.2 (mem_dueIds.2 ⟨w, hm, hdue⟩)
  have : tick s order = tickLoop s (pickOrder order (dueIds s.now s.pending)) := by
    simp [tick, hfree, harm, hne]
  rw [this]
  cases hl : pickOrder order (dueIds s.now s.pending) with
  | nil => rw [hl] at hin; cases hin
  | cons r rest =>
    have hr : r ∈ dueIds s.now s.pending := hperm.mem_iff.1 (by rw [hl]; exact List.mem_cons_self ..)
    obtain ⟨w', hw', _⟩ := mem_dueIds.1 hr
    exact tickLoop_cons_length_lt (find_some_of_mem h0.a.nodup hw')

def scanCredit (s : State) : Op → Nat
  | .tick _ => if free s then 1 else 0
  | _ => 0

def issueCredit : Op → Nat
  | .issue true _ _ => 1
  | _ => 0

/-- one transition while some entry is overdue: the table grows by at most one (a request
issue) and shrinks by at least one when the op is a scan starting at a free moment -/
theorem step_length {s : State} (hwf : WF s) (op : Op) (hc : (step s op).collided = false) {id : Nat} {w : Wait}
    (hm : (id, w) ∈ s.pending) (hdue : w.deadline < s.now) :
    (step s op).pending.length + scanCredit s op ≤ s.pending.length + issueCredit op := by
  cases op with
  | issue r o c =>
    cases r with
    | false =>
      simp only [step, scanCredit, issueCredit]; rw [issue_notify]; cases o <;> exact Nat.le_refl _
    | true =>
      simp only [step] at hc
      rw [issue_req_collided] at hc
      simp only [Bool.or_eq_false_iff] at hc
      have hf := hasKey_false.1 hc.2
      simp only [step, scanCredit, issueCredit]
      cases o with
      | true => rw [issue_req_ok s c hf]; simp
      | false => rw [issue_req_fail s c hf]; simp
  | noroute r c =>
    simp only [step, scanCredit, issueCredit, Nat.add_zero]; rw [noroute_pending]; exact Nat.le_refl _
  | response id' p =>
    simp only [step, scanCredit, issueCredit, Nat.add_zero]
    cases hfree : free s with
    | false => rw [response_busy hfree]; exact Nat.le_refl _
    | true =>
      cases hf : find id' s.pending with
      | none => rw [response_miss hfree hf]; exact Nat.le_refl _
      | some w' =>
        cases hcb : w'.hasCb with
        | true => rw [response_cb hfree hf hcb]; exact List.length_filter_le _ _
        | false => rw [response_nocb hfree hf hcb]; exact finish_length_le _ _
  | tick order =>
    simp only [step, scanCredit, issueCredit, Nat.add_zero]
    cases hfree : free s with
    | true =>
      have := tick_length_lt hwf hfree hm hdue order
      simp only [↓reduceIte]; omega
    | false =>
      have : tick s order = s := by simp [tick, hfree]
      rw [this]; simp
  | advance dt => simp only [step, scanCredit, issueCredit]; exact Nat.le_refl _
  | panic =>
    simp only [step, scanCredit, issueCredit, Nat.add_zero]; unfold panicScan
    split <;> exact Nat.le_refl _
  | ret =>
    simp only [step, scanCredit, issueCredit, Nat.add_zero]
    unfold ret
    split
    · exact Nat.le_refl _
    · split
      · exact Nat.le_refl _
      · exact Nat.le_refl _
      · exact tickLoop_length_le _ _

/-- **enough scans complete the request, panics or not.**  `Live` and overdue at `s`; then
after any ops: the callback has been invoked exactly once, or the number of scans that
started at a free moment is bounded by the entries there were plus the requests issued since. -/
theorem run_scans : ∀ (ops : List Op) (s : State) (i d : Nat), WF s → (run s ops).collided = false →
    Live s i d → d < s.now →
    cbCount (run s ops).log i = 1 ∨
    (run s ops).pending.length + freeScans s ops ≤ s.pending.length + reqIssues ops := by
  intro ops
  induction ops with
  | nil => intro s i d _ _ _ _; exact Or.inr (Nat.le_refl _)
  | cons op ops ih =>
    intro s i d hwf hc hl hd
    rw [run_cons] at hc ⊢
    have hc1 := not_collided_of_run hc
    have hwf1 := step_WF hwf op hc1
    rcases hl with ⟨id, w, hm, hi, hcb, hdl⟩ | h1
    · have hlen := step_length hwf op hc1 hm (by omega : w.deadline < s.now)
      have hl1 : Live (step s op) i d := step_Live hwf op hc1 (Or.inl ⟨id, w, hm, hi, hcb, hdl⟩)
      rcases ih (step s op) i d hwf1 hc hl1 (Nat.lt_of_lt_of_le hd (step_now_le s op)) with h | h
      · exact Or.inl h
      · right
        have e1 : freeScans s (op :: ops) = scanCredit s op + freeScans (step s op) ops := by
          cases op <;> rfl
        have e2 : reqIssues (op :: ops) = issueCredit op + reqIssues ops := by
          cases op with
          | issue r o c => cases r <;> rfl
          | _ => rfl
        rw [e1, e2]; omega
    · exact Or.inl (run_count_one (op :: ops) s i hwf (by rw [run_cons]; exact hc) h1)

/-! ### histories without responses (a stopped actor: every `ServiceResponse` is a dead letter) -/

theorem finish_ninst (s : State) (id : Nat) : (finish s id).ninst = s.ninst := by
  unfold finish; split <;> rfl

theorem tickLoop_ninst : ∀ (l : List Nat) (s : State), (tickLoop s l).ninst = s.ninst := by
  intro l
  induction l with
  | nil => intro s; rfl
  | cons id rest ih =>
    intro s
    unfold tickLoop
    split
    · rfl
    · split
      · exact finish_ninst s id
      · rw [ih, finish_ninst]

theorem step_ninst_le (s : State) (op : Op) : s.ninst ≤ (step s op).ninst := by
  cases op with
  | issue r o c =>
    simp only [step, issue]
    repeat' split
    all_goals simp
  | noroute r c => simp only [step, noroute]; split <;> simp
  | response id p =>
    simp only [step, response]
    repeat' split
    all_goals simp [finish_ninst]
  | tick order =>
    simp only [step, tick]
    repeat' split
    all_goals simp [tickLoop_ninst]
  | ret =>
    simp only [step, ret]
    repeat' split
    all_goals simp [tickLoop_ninst]
  | panic => simp only [step, panicScan]; split <;> simp
  | advance dt => simp [step]

/-- without a `response` op, a completion that is new in the history is the timeout — or the synchronous error of
a call made later (a fresh instance number) -/
theorem run_new_cb_no_response : ∀ (more : List Op) (s : State), (∀ id p, Op.response id p ∉ more) →
    ∀ (i id : Nat) (o : Outcome) (t : Nat), Ev.cb i id o t ∈ (run s more).log → Ev.cb i id o t ∉ s.log →
    o = .timeout ∨ ((o = .serErr ∨ o = .noService) ∧ s.ninst ≤ i) := by
  intro more
  induction more with
  | nil => intro s _ i id o t hin hnew; exact absurd hin hnew
  | cons op rest ih =>
    intro s hno i id o t hin hnew
    rw [run_cons] at hin
    have hno' : ∀ id p, Op.response id p ∉ rest := fun id p h => hno id p (List.mem_cons_of_mem _ h)
    by_cases h1 : Ev.cb i id o t ∈ (step s op).log
    · rcases step_new_cb h1 hnew with (⟨e, _⟩ | ⟨_, e, _⟩) | ⟨e, ei, _⟩ | ⟨p, w, e, _⟩ | ⟨e, ei, _⟩
      · exact Or.inl e
      · exact Or.inl e
      · exact Or.inr ⟨Or.inl e, by omega⟩
      · exact absurd (e ▸ List.mem_cons_self ..) (hno id p)
      · exact Or.inr ⟨Or.inr e, by omega⟩
    · rcases ih _ hno' i id o t hin h1 with h | ⟨h, hle⟩
      · exact Or.inl h
      · exact Or.inr ⟨h, Nat.le_trans (step_ninst_le s op) hle⟩

end Cell2v.Service
