import Cell2v.Model.Directory
/-!
C08 — helper lemmas: association lists, the watch fold against the sequential
semantics, the provider machine's invariants, the directory builder against its
declarative specification.
-/
namespace Cell2v.Directory
set_option linter.unusedSimpArgs false

/-! ## association lists -/

def NoDupKeys {α : Type} (m : AL α) : Prop := (AL.keys m).Nodup

theorem AL.get_nil {α : Type} (k : String) : AL.get ([] : AL α) k = none := rfl

theorem AL.get_cons {α : Type} (k' : String) (v : α) (t : AL α) (k : String) :
    AL.get ((k', v) :: t) k = if k' = k then some v else AL.get t k := rfl

theorem AL.get_erase_same {α : Type} (m : AL α) (k : String) : AL.get (AL.erase m k) k = none := by
  induction m with
  | nil => rfl
  | cons p t ih =>
    obtain ⟨k', v⟩ := p
    by_cases h : k' = k
    · simp [AL.erase, List.filter_cons, h]; simpa [AL.erase] using ih
    · simp [AL.erase, List.filter_cons, h, AL.get_cons]; simpa [AL.erase] using ih

theorem AL.get_erase_ne {α : Type} (m : AL α) {k j : String} (h : j ≠ k) :
    AL.get (AL.erase m k) j = AL.get m j := by
  induction m with
  | nil => rfl
  | cons p t ih =>
    obtain ⟨k', v⟩ := p
    by_cases h' : k' = k
    · have : k' ≠ j := by intro e; exact h (e ▸ h').symm.symm |> fun x => by simp_all
      simp [AL.erase, List.filter_cons, h', AL.get_cons]
      subst h'
      have hne : ¬ k' = j := fun e => h e.symm
      simp [hne]; simpa [AL.erase] using ih
    · simp [AL.erase, List.filter_cons, h', AL.get_cons]
      by_cases h'' : k' = j
      · simp [h'']
      · simp [h'']; simpa [AL.erase] using ih

theorem AL.get_set_same {α : Type} (m : AL α) (k : String) (v : α) : AL.get (AL.set m k v) k = some v := by
  simp [AL.set, AL.get_cons]

theorem AL.get_set_ne {α : Type} (m : AL α) {k j : String} (v : α) (h : j ≠ k) :
    AL.get (AL.set m k v) j = AL.get m j := by
  have hne : ¬ k = j := fun e => h e.symm
  simp [AL.set, AL.get_cons, hne, AL.get_erase_ne m h]

theorem AL.get_set {α : Type} (m : AL α) (k j : String) (v : α) :
    AL.get (AL.set m k v) j = if j = k then some v else AL.get m j := by
  by_cases h : j = k
  · subst h; simp [AL.get_set_same]
  · simp [h, AL.get_set_ne m v h]

theorem AL.get_erase {α : Type} (m : AL α) (k j : String) :
    AL.get (AL.erase m k) j = if j = k then none else AL.get m j := by
  by_cases h : j = k
  · subst h; simp [AL.get_erase_same]
  · simp [h, AL.get_erase_ne m h]

theorem AL.keys_erase_subset {α : Type} (m : AL α) (k : String) : ∀ j, j ∈ AL.keys (AL.erase m k) → j ∈ AL.keys m ∧ j ≠ k := by
  intro j hj
  simp only [AL.keys, AL.erase, List.mem_map, List.mem_filter] at hj
  obtain ⟨p, ⟨hp, hk⟩, rfl⟩ := hj
  refine ⟨List.mem_map.mpr ⟨p, hp, rfl⟩, ?_⟩
  intro e; simp [e] at hk

theorem NoDupKeys.erase {α : Type} {m : AL α} (h : NoDupKeys m) (k : String) : NoDupKeys (AL.erase m k) := by
  unfold NoDupKeys AL.keys AL.erase at *
  exact List.Pairwise.sublist (List.Sublist.map _ List.filter_sublist) h

theorem NoDupKeys.set {α : Type} {m : AL α} (h : NoDupKeys m) (k : String) (v : α) : NoDupKeys (AL.set m k v) := by
  have he := h.erase k
  unfold NoDupKeys at *
  simp only [AL.set, AL.keys, List.map_cons, List.nodup_cons]
  refine ⟨?_, he⟩
  intro hm
  exact (AL.keys_erase_subset m k k hm).2 rfl

theorem NoDupKeys.nil {α : Type} : NoDupKeys ([] : AL α) := by simp [NoDupKeys, AL.keys]

theorem AL.get_none_of_not_mem_keys {α : Type} (m : AL α) (k : String) (h : k ∉ AL.keys m) : AL.get m k = none := by
  induction m with
  | nil => rfl
  | cons p t ih =>
    obtain ⟨k', v⟩ := p
    simp only [AL.keys, List.map_cons, List.mem_cons, not_or] at h
    have hne : ¬ k' = k := fun e => h.1 e.symm
    simp [AL.get_cons, hne]; exact ih (by simpa [AL.keys] using h.2)

theorem AL.mem_of_get {α : Type} (m : AL α) (k : String) (v : α) (h : AL.get m k = some v) : (k, v) ∈ m := by
  induction m with
  | nil => simp [AL.get_nil] at h
  | cons p t ih =>
    obtain ⟨k', v'⟩ := p
    rw [AL.get_cons] at h
    by_cases hk : k' = k
    · simp [hk] at h; subst hk; subst h; simp
    · simp [hk] at h; exact List.mem_cons_of_mem _ (ih h)

theorem AL.get_of_mem {α : Type} (m : AL α) (hn : NoDupKeys m) (k : String) (v : α) (h : (k, v) ∈ m) : AL.get m k = some v := by
  induction m with
  | nil => simp at h
  | cons p t ih =>
    obtain ⟨k', v'⟩ := p
    simp only [NoDupKeys, AL.keys, List.map_cons, List.nodup_cons] at hn
    rw [AL.get_cons]
    rcases List.mem_cons.mp h with e | e
    · cases e; simp
    · have : k' ≠ k := by
        intro e'; subst e'
        exact hn.1 (List.mem_map.mpr ⟨(k', v), e, rfl⟩)
      simp [this]; exact ih hn.2 e

theorem AL.key_mem_of_get {α : Type} (m : AL α) (k : String) (v : α) (h : AL.get m k = some v) : k ∈ AL.keys m :=
  List.mem_map.mpr ⟨(k, v), AL.mem_of_get m k v h, rfl⟩

/-- two maps without duplicate keys and with the same lookup function hold the same bindings -/
theorem AL.perm_of_get_eq {α : Type} (m m' : AL α) (h : NoDupKeys m) (h' : NoDupKeys m')
    (e : ∀ k, AL.get m k = AL.get m' k) : m.Perm m' := by
  have nd : ∀ (x : AL α), NoDupKeys x → x.Nodup := by
    intro x hx
    unfold NoDupKeys AL.keys at hx
    exact List.Pairwise.of_map (fun p => p.1) (fun a b hab e => hab (by rw [e])) hx
  refine (List.perm_ext_iff_of_nodup (nd m h) (nd m' h')).mpr ?_
  intro ⟨k, v⟩
  constructor
  · intro hm; exact AL.mem_of_get m' k v ((e k) ▸ AL.get_of_mem m h k v hm)
  · intro hm; exact AL.mem_of_get m k v ((e k).symm ▸ AL.get_of_mem m' h' k v hm)

/-! ## the watch fold -/

/-- what the pending `changes` mean for the member map once they are applied -/
def applyF (pre : AL Node) (ch : AL Node) : FM := fun j =>
  match AL.get ch j with
  | some v => if v.alive then some v else none
  | none => AL.get pre j

theorem applyF_nil (pre : AL Node) : applyF pre [] = look pre := by
  funext j; simp [applyF, look, AL.get_nil]

theorem chStep_nodup (selfId : String) (pre ch : AL Node) (e : Ev) (h : NoDupKeys ch) :
    NoDupKeys (chStep selfId pre ch e) := by
  cases e with
  | put k n => simp only [chStep]; split; exact h; exact h.set _ _
  | del k =>
    simp only [chStep]
    split
    · exact h
    · split; exact h; exact h.set _ _
  | bad k => exact h
  | unk k => exact h

theorem foldl_chStep_nodup (selfId : String) (pre : AL Node) (evs : List Ev) :
    ∀ ch, NoDupKeys ch → NoDupKeys (evs.foldl (chStep selfId pre) ch) := by
  induction evs with
  | nil => intro ch h; exact h
  | cons e es ih => intro ch h; exact ih _ (chStep_nodup selfId pre ch e h)

theorem handleWatchResponse_nodup (selfId : String) (pre : AL Node) (evs : List Ev) :
    NoDupKeys (handleWatchResponse selfId pre evs) :=
  foldl_chStep_nodup selfId pre evs [] NoDupKeys.nil

/-- one loop iteration of `handleWatchResponse` has the effect of one sequential step -/
theorem applyF_chStep (selfId : String) (pre ch : AL Node) (e : Ev) :
    applyF pre (chStep selfId pre ch e) = seqStep selfId (applyF pre ch) e := by
  funext j
  cases e with
  | bad k => rfl
  | unk k => rfl
  | put k n =>
    by_cases hs : n.id = selfId
    · simp [chStep, seqStep, hs]
    · by_cases hj : j = k
      · subst hj
        cases ha : n.alive <;> simp [chStep, seqStep, hs, applyF, AL.get_set_same, FM.upd, ha]
      · cases ha : n.alive <;> simp [chStep, seqStep, hs, applyF, AL.get_set_ne _ _ hj, FM.upd, hj, ha]
  | del k =>
    simp only [chStep, seqStep]
    cases hc : AL.get ch k with
    | none =>
      have hk : applyF pre ch k = AL.get pre k := by simp [applyF, hc]
      rw [hk]
      cases hp : AL.get pre k with
      | none => rfl
      | some v =>
        simp only []
        by_cases hs : v.id = selfId
        · simp [hs]
        · simp only [hs, if_false]
          by_cases hj : j = k
          · subst hj; simp [applyF, AL.get_set_same, FM.upd]
          · simp [applyF, AL.get_set_ne _ _ hj, FM.upd, hj]
    | some v =>
      simp only []
      by_cases hs : v.id = selfId
      · simp only [hs, if_true]
        have hk : applyF pre ch k = if v.alive then some v else none := by simp [applyF, hc]
        rw [hk]
        cases ha : v.alive <;> simp [hs]
      · simp only [hs, if_false]
        have hk : applyF pre ch k = if v.alive then some v else none := by simp [applyF, hc]
        rw [hk]
        by_cases hj : j = k
        · subst hj
          cases ha : v.alive <;> simp [applyF, AL.get_set_same, FM.upd, hs, hc, ha]
        · cases ha : v.alive <;> simp [applyF, AL.get_set_ne _ _ hj, FM.upd, hj, hs]

theorem applyF_foldl (selfId : String) (pre : AL Node) (evs : List Ev) :
    ∀ ch, applyF pre (evs.foldl (chStep selfId pre) ch) = implied selfId (applyF pre ch) evs := by
  induction evs with
  | nil => intro ch; rfl
  | cons e es ih =>
    intro ch
    simp only [List.foldl_cons, implied]
    rw [ih, applyF_chStep]; rfl

/-- `updateNodesWithChanges` realises `applyF` (the changes have distinct keys: a Go map) -/
theorem look_updateNodesWithChanges (ch : AL Node) : ∀ (m : AL Node), NoDupKeys ch →
    look (updateNodesWithChanges m ch) = applyF m ch := by
  induction ch with
  | nil => intro m _; funext j; simp [updateNodesWithChanges, applyF, look, AL.get_nil]
  | cons p t ih =>
    intro m h
    obtain ⟨k, v⟩ := p
    have ht : NoDupKeys t := by
      simp only [NoDupKeys, AL.keys, List.map_cons, List.nodup_cons] at h; exact h.2
    have hk : k ∉ AL.keys t := by
      simp only [NoDupKeys, AL.keys, List.map_cons, List.nodup_cons] at h; exact h.1
    have := ih (applyChange m (k, v)) ht
    simp only [updateNodesWithChanges, List.foldl_cons] at this ⊢
    rw [this]
    funext j
    simp only [applyF, AL.get_cons]
    by_cases hj : k = j
    · subst hj
      simp [AL.get_none_of_not_mem_keys t k hk, applyChange]
      cases v.alive <;> simp [AL.get_set_same, AL.get_erase_same]
    · have hj' : j ≠ k := fun e => hj e.symm
      simp only [hj, if_false]
      cases AL.get t j with
      | some w => rfl
      | none =>
        simp only [applyChange]
        cases v.alive <;> simp [AL.get_set_ne _ _ hj', AL.get_erase_ne _ hj']

theorem applyChange_nodup (m : AL Node) (kv : String × Node) (h : NoDupKeys m) : NoDupKeys (applyChange m kv) := by
  simp only [applyChange]; split; exact h.set _ _; exact h.erase _

theorem updateNodesWithChanges_nodup (ch : AL Node) : ∀ (m : AL Node), NoDupKeys m →
    NoDupKeys (updateNodesWithChanges m ch) := by
  induction ch with
  | nil => intro m h; exact h
  | cons p t ih => intro m h; exact ih _ (applyChange_nodup m p h)

/-- one watch response = its events applied one at a time -/
theorem look_foldBatch (selfId : String) (m : AL Node) (evs : List Ev) :
    look (foldBatch selfId m evs) = implied selfId (look m) evs := by
  unfold foldBatch
  rw [look_updateNodesWithChanges _ _ (handleWatchResponse_nodup selfId m evs)]
  unfold handleWatchResponse
  rw [applyF_foldl, applyF_nil]

theorem foldBatch_nodup (selfId : String) (m : AL Node) (evs : List Ev) (h : NoDupKeys m) :
    NoDupKeys (foldBatch selfId m evs) :=
  updateNodesWithChanges_nodup _ _ h

theorem implied_append (selfId : String) (m : FM) (a b : List Ev) :
    implied selfId m (a ++ b) = implied selfId (implied selfId m a) b := by
  simp [implied, List.foldl_append]

theorem look_foldBatches (selfId : String) (bs : List (List Ev)) : ∀ (m : AL Node),
    look (bs.foldl (foldBatch selfId) m) = implied selfId (look m) bs.flatten := by
  induction bs with
  | nil => intro m; rfl
  | cons b bs ih =>
    intro m
    simp only [List.foldl_cons, List.flatten_cons, implied_append]
    rw [ih, look_foldBatch]

theorem foldBatches_nodup (selfId : String) (bs : List (List Ev)) : ∀ (m : AL Node), NoDupKeys m →
    NoDupKeys (bs.foldl (foldBatch selfId) m) := by
  induction bs with
  | nil => intro m h; exact h
  | cons b bs ih => intro m h; exact ih _ (foldBatch_nodup selfId m b h)

theorem publish_perm (m m' : AL Node) (h : NoDupKeys m) (h' : NoDupKeys m') (e : look m = look m') :
    (publish m).Perm (publish m') :=
  (AL.perm_of_get_eq m m' h h' (fun k => congrFun e k)).map _

/-! sequential semantics: basic facts -/

theorem seqStep_self (selfId : String) (m : FM) (e : Ev)
    (hs : ∀ v, m selfId = some v → v.id = selfId) (hw : ∀ k n, e = .put k n → k = n.id) :
    seqStep selfId m e selfId = m selfId := by
  cases e with
  | bad k => rfl
  | unk k => rfl
  | put k n =>
    have := hw k n rfl
    by_cases h : n.id = selfId
    · simp [seqStep, h]
    · have hk : selfId ≠ k := by rw [this]; exact fun e => h e.symm
      cases ha : n.alive <;> simp [seqStep, h, FM.upd, hk, ha]
  | del k =>
    simp only [seqStep]
    cases hm : m k with
    | none => rfl
    | some v =>
      simp only []
      by_cases h : v.id = selfId
      · simp [h]
      · simp only [h, if_false, FM.upd]
        by_cases hk : selfId = k
        · subst hk; exact absurd (hs v hm) h
        · simp [hk]

theorem seqStep_idem (selfId : String) (m : FM) (e : Ev) :
    seqStep selfId (seqStep selfId m e) e = seqStep selfId m e := by
  cases e with
  | bad k => rfl
  | unk k => rfl
  | put k n =>
    by_cases h : n.id = selfId
    · simp [seqStep, h]
    · cases ha : n.alive <;> (funext j; simp [seqStep, h, FM.upd, ha]; intro a b; exact absurd a b)
  | del k =>
    cases hm : m k with
    | none => simp [seqStep, hm]
    | some v =>
      by_cases h : v.id = selfId
      · simp [seqStep, hm, h]
      · simp [seqStep, hm, h, FM.upd]

/-! ## the provider machine -/

/-- every member is stored under its own node id -/
def Keyed (m : AL Node) : Prop := ∀ k v, AL.get m k = some v → v.id = k

/-- a registration as cell2 writes it: the etcd key ends in the node's own id -/
def EvWf : Ev → Prop
  | .put k n => k = n.id
  | _ => True

def OpWf : POp → Prop
  | .response evs => ∀ e ∈ evs, EvWf e
  | _ => True

structure PInv (s : PState) : Prop where
  nodup : NoDupKeys s.members
  keyed : Keyed s.members
  selfAt : s.selfIn = true → AL.get s.members s.self.id = some s.self

theorem chStep_keyed (selfId : String) (pre ch : AL Node) (e : Ev) (hw : EvWf e)
    (hp : Keyed pre) (hc : Keyed ch) (hs : AL.get ch selfId = none) :
    Keyed (chStep selfId pre ch e) ∧ AL.get (chStep selfId pre ch e) selfId = none := by
  cases e with
  | bad k => exact ⟨hc, hs⟩
  | unk k => exact ⟨hc, hs⟩
  | put k n =>
    simp only [EvWf] at hw
    simp only [chStep]
    by_cases h : n.id = selfId
    · simp only [h, if_true]; exact ⟨hc, hs⟩
    · simp only [h, if_false]
      constructor
      · intro j v hj
        rw [AL.get_set] at hj
        by_cases e : j = k
        · simp [e] at hj; rw [← hj, e, hw]
        · simp [e] at hj; exact hc j v hj
      · have : selfId ≠ k := by rw [hw]; exact fun e => h e.symm
        rw [AL.get_set_ne _ _ this]; exact hs
  | del k =>
    simp only [chStep]
    split
    · exact ⟨hc, hs⟩
    · rename_i v hm
      have hvk : v.id = k := by
        cases hck : AL.get ch k with
        | some w => rw [hck] at hm; simp at hm; rw [← hm]; exact hc k w hck
        | none => rw [hck] at hm; exact hp k v hm
      by_cases h : v.id = selfId
      · simp only [h, if_true]; exact ⟨hc, hs⟩
      · simp only [h, if_false]
        constructor
        · intro j w hj
          rw [AL.get_set] at hj
          by_cases e : j = k
          · simp [e] at hj; rw [← hj, e]; exact hvk
          · simp [e] at hj; exact hc j w hj
        · have : selfId ≠ k := by rw [← hvk]; exact fun e => h e.symm
          rw [AL.get_set_ne _ _ this]; exact hs

theorem foldl_chStep_keyed (selfId : String) (pre : AL Node) (hp : Keyed pre) (evs : List Ev)
    (hw : ∀ e ∈ evs, EvWf e) : ∀ ch, Keyed ch → AL.get ch selfId = none →
    Keyed (evs.foldl (chStep selfId pre) ch) ∧ AL.get (evs.foldl (chStep selfId pre) ch) selfId = none := by
  induction evs with
  | nil => intro ch hc hs; exact ⟨hc, hs⟩
  | cons e es ih =>
    intro ch hc hs
    have := chStep_keyed selfId pre ch e (hw e (List.mem_cons_self)) hp hc hs
    exact ih (fun e' he' => hw e' (List.mem_cons_of_mem _ he')) _ this.1 this.2

theorem handle_no_self (selfId : String) (pre : AL Node) (hp : Keyed pre) (evs : List Ev)
    (hw : ∀ e ∈ evs, EvWf e) : AL.get (handleWatchResponse selfId pre evs) selfId = none :=
  (foldl_chStep_keyed selfId pre hp evs hw [] (fun _ _ h => by simp [AL.get_nil] at h) rfl).2

def KeyedF (m : FM) : Prop := ∀ k v, m k = some v → v.id = k

theorem seqStep_keyedF (selfId : String) (m : FM) (e : Ev) (hw : EvWf e) (hm : KeyedF m) :
    KeyedF (seqStep selfId m e) := by
  cases e with
  | bad k => exact hm
  | unk k => exact hm
  | put k n =>
    simp only [EvWf] at hw
    simp only [seqStep]
    by_cases h : n.id = selfId
    · simp only [h, if_true]; exact hm
    · simp only [h, if_false]
      intro j v hj
      cases ha : n.alive <;> simp only [ha, if_true, if_false, FM.upd, Bool.false_eq_true] at hj
      · by_cases e : j = k
        · simp [e] at hj
        · simp [e] at hj; exact hm j v hj
      · by_cases e : j = k
        · simp [e] at hj; rw [← hj, e, hw]
        · simp [e] at hj; exact hm j v hj
  | del k =>
    simp only [seqStep]
    cases hk : m k with
    | none => exact hm
    | some v =>
      simp only []
      by_cases h : v.id = selfId
      · simp only [h, if_true]; exact hm
      · simp only [h, if_false]
        intro j w hj
        simp only [FM.upd] at hj
        by_cases e : j = k
        · simp [e] at hj
        · simp [e] at hj; exact hm j w hj

theorem implied_keyedF (selfId : String) (evs : List Ev) (hw : ∀ e ∈ evs, EvWf e) :
    ∀ m, KeyedF m → KeyedF (implied selfId m evs) := by
  induction evs with
  | nil => intro m h; exact h
  | cons e es ih =>
    intro m h
    simp only [implied, List.foldl_cons]
    exact ih (fun e' he' => hw e' (List.mem_cons_of_mem _ he')) _
      (seqStep_keyedF selfId m e (hw e List.mem_cons_self) h)

/-- nothing in a well-formed history touches the node's own entry -/
theorem implied_self (selfId : String) (evs : List Ev) (hw : ∀ e ∈ evs, EvWf e) :
    ∀ m, KeyedF m → implied selfId m evs selfId = m selfId := by
  induction evs with
  | nil => intro m _; rfl
  | cons e es ih =>
    intro m h
    have hwe := hw e List.mem_cons_self
    simp only [implied, List.foldl_cons]
    have h1 := seqStep_keyedF selfId m e hwe h
    have := ih (fun e' he' => hw e' (List.mem_cons_of_mem _ he')) _ h1
    simp only [implied] at this
    rw [this]
    apply seqStep_self selfId m e (fun v hv => h selfId v hv)
    intro k n he
    subst he
    exact hwe

theorem updateNodes_nodup (ns : List Node) : ∀ m, NoDupKeys m → NoDupKeys (updateNodes m ns) := by
  induction ns with
  | nil => intro m h; exact h
  | cons n ns ih => intro m h; exact ih _ (h.set _ _)

theorem updateNodes_keyed (ns : List Node) : ∀ m, Keyed m → Keyed (updateNodes m ns) := by
  induction ns with
  | nil => intro m h; exact h
  | cons n ns ih =>
    intro m h
    apply ih
    intro k v hk
    rw [AL.get_set] at hk
    by_cases e : k = n.id
    · simp [e] at hk; rw [← hk, e]
    · simp [e] at hk; exact h k v hk

theorem updateNodes_get_not_mem (ns : List Node) (k : String) (h : k ∉ ns.map (·.id)) : ∀ m,
    AL.get (updateNodes m ns) k = AL.get m k := by
  induction ns with
  | nil => intro m; rfl
  | cons a t ih =>
    intro m
    simp only [List.map_cons, List.mem_cons, not_or] at h
    simp only [updateNodes, List.foldl_cons]
    have := ih h.2 (AL.set m a.id a)
    simp only [updateNodes] at this
    rw [this, AL.get_set_ne _ _ h.1]

theorem updateNodes_get_mem (ns : List Node) : ∀ (n : Node), n ∈ ns → ∀ m,
    ∃ n' ∈ ns, n'.id = n.id ∧ AL.get (updateNodes m ns) n.id = some n' := by
  induction ns with
  | nil => intro n h; simp at h
  | cons a t ih =>
    intro n hn m
    by_cases hin : n.id ∈ t.map (·.id)
    · obtain ⟨x, hx, hxid⟩ := List.mem_map.mp hin
      obtain ⟨n', hn', hid, hg⟩ := ih x hx (AL.set m a.id a)
      refine ⟨n', List.mem_cons_of_mem _ hn', hid.trans hxid, ?_⟩
      simp only [updateNodes, List.foldl_cons]
      simp only [updateNodes] at hg
      rw [← hxid]; exact hg
    · have hna : n = a := by
        rcases List.mem_cons.mp hn with e | e
        · exact e
        · exact absurd (List.mem_map.mpr ⟨n, e, rfl⟩) hin
      subst hna
      refine ⟨n, List.mem_cons_self, rfl, ?_⟩
      have := updateNodes_get_not_mem t n.id hin (AL.set m n.id n)
      simp only [updateNodes, List.foldl_cons] at this ⊢
      rw [this, AL.get_set_same]

theorem Keyed.set {m : AL Node} (h : Keyed m) (n : Node) : Keyed (AL.set m n.id n) := by
  intro k v hk
  rw [AL.get_set] at hk
  by_cases e : k = n.id
  · simp [e] at hk; rw [← hk, e]
  · simp [e] at hk; exact h k v hk

theorem PInv.init (self : Node) : PInv { self := self } :=
  ⟨NoDupKeys.nil, fun _ _ h => by simp [AL.get_nil] at h, fun h => by simp at h⟩

theorem pstep_inv (s : PState) (op : POp) (hi : PInv s) (hw : OpWf op) : PInv (pstep s op).1 := by
  cases op with
  | listing ns =>
    simp only [pstep, updateNodesWithSelf]
    exact ⟨(updateNodes_nodup ns _ hi.nodup).set _ _, (updateNodes_keyed ns _ hi.keyed).set s.self,
      fun _ => AL.get_set_same _ _ _⟩
  | setState st =>
    simp only [pstep, setSelfState]
    cases hs : s.selfIn with
    | false => exact ⟨by simpa using hi.nodup, by simpa using hi.keyed, by simp⟩
    | true =>
      refine ⟨by simpa using hi.nodup.set _ _, ?_, fun _ => by simp [AL.get_set_same]⟩
      simpa using hi.keyed.set { s.self with state := st }
  | response evs =>
    simp only [pstep]
    by_cases he : evs.isEmpty = true
    · simp only [he, if_true]; exact hi
    · rw [if_neg he]
      simp only [OpWf] at hw
      have hl : look (respond s evs).members = implied s.self.id (look s.members) evs := by
        simpa [respond, foldBatch] using look_foldBatch s.self.id s.members evs
      refine ⟨?_, ?_, ?_⟩
      · simpa [respond] using updateNodesWithChanges_nodup _ _ hi.nodup
      · intro k v hk
        have : look (respond s evs).members k = some v := hk
        rw [hl] at this
        exact implied_keyedF s.self.id evs hw (look s.members) (hi.keyed : KeyedF (look s.members)) k v this
      · intro hin
        have hin' : s.selfIn = true := by
          simp only [respond, Bool.and_eq_true] at hin; exact hin.1
        have : look (respond s evs).members s.self.id = some s.self := by
          rw [hl]; rw [implied_self s.self.id evs hw (look s.members) (hi.keyed : KeyedF (look s.members))]; exact hi.selfAt hin'
        exact this

/-- once listed, the provider's own object stays in the map over well-formed histories -/
theorem pstep_listed (s : PState) (op : POp) (hi : PInv s) (hw : OpWf op) (hl : s.selfIn = true) :
    (pstep s op).1.selfIn = true := by
  cases op with
  | listing ns => rfl
  | setState st => simpa [pstep, setSelfState] using hl
  | response evs =>
    simp only [pstep]
    by_cases he : evs.isEmpty = true
    · simp only [he, if_true]; exact hl
    · rw [if_neg he]
      simp only [OpWf] at hw
      simp [respond, hl, handle_no_self s.self.id s.members hi.keyed evs hw]

theorem pstep_self_id (s : PState) (op : POp) : (pstep s op).1.self.id = s.self.id := by
  cases op with
  | listing ns => rfl
  | setState st => rfl
  | response evs => simp only [pstep]; split <;> rfl

theorem pstep_pub (s : PState) (op : POp) (pub : List Member) (h : (pstep s op).2 = some pub) :
    pub = publish (pstep s op).1.members := by
  cases op with
  | listing ns => simp only [pstep] at h ⊢; exact (Option.some.inj h).symm
  | setState st => simp [pstep] at h
  | response evs =>
    simp only [pstep] at h ⊢
    split at h
    · simp at h
    · rename_i he; rw [if_neg he]; exact (Option.some.inj h).symm

theorem self_in_pub (s : PState) (hi : PInv s) (hl : s.selfIn = true) : s.self.member ∈ publish s.members := by
  have := AL.mem_of_get _ _ _ (hi.selfAt hl)
  exact List.mem_map.mpr ⟨_, this, rfl⟩

/-- run of the machine: final state and the publications, in order -/
def prun (s : PState) : List POp → PState × List (List Member)
  | [] => (s, [])
  | op :: ops =>
    let r := pstep s op
    let rest := prun r.1 ops
    (rest.1, (match r.2 with | some p => [p] | none => []) ++ rest.2)

/-! ## the directory builder -/

/-- an item as `addService` creates it (no PID yet) -/
def rawItem (id : String) (st : Int) (t : String) (s : String) : Option Item :=
  match splitName s with
  | some (t', n) => if t' = t then some { name := n, node := id, state := st, pid := none } else none
  | none => none

def rawTypeList (ms : List Member) (t : String) : List Item :=
  ms.flatMap (fun m => m.services.filterMap (rawItem m.id m.state t))

/-- the list stored for a type (`nil` read as empty) -/
def lst (c : AL (List Item)) (t : String) : List Item := (AL.get c t).getD []

/-- no type is bound to an empty list -/
def NEL (c : AL (List Item)) : Prop := ∀ t l, AL.get c t = some l → l ≠ []

theorem addService_lst (c : AL (List Item)) (id : String) (st : Int) (s t : String) :
    lst (addService c id st s) t = lst c t ++ (rawItem id st t s).toList := by
  unfold addService rawItem
  cases hs : splitName s with
  | none => simp
  | some p =>
    obtain ⟨t', n⟩ := p
    simp only []
    by_cases h : t' = t
    · subst h; simp [lst, AL.get_set_same]
    · have h' : t ≠ t' := fun e => h e.symm
      simp [lst, AL.get_set_ne _ _ h', h]

theorem addService_nel (c : AL (List Item)) (id : String) (st : Int) (s : String) (h : NEL c) :
    NEL (addService c id st s) := by
  unfold addService
  cases hs : splitName s with
  | none => exact h
  | some p =>
    obtain ⟨t', n⟩ := p
    intro t l hl
    simp only [] at hl
    rw [AL.get_set] at hl
    by_cases e : t = t'
    · simp [e] at hl; rw [← hl]; simp
    · simp [e] at hl; exact h t l hl

theorem addService_nodup (c : AL (List Item)) (id : String) (st : Int) (s : String) (h : NoDupKeys c) :
    NoDupKeys (addService c id st s) := by
  unfold addService
  cases hs : splitName s with
  | none => exact h
  | some p => exact h.set _ _

theorem foldl_addService (id : String) (st : Int) (t : String) (ss : List String) : ∀ (c : AL (List Item)),
    lst (ss.foldl (fun c s => addService c id st s) c) t = lst c t ++ ss.filterMap (rawItem id st t) := by
  induction ss with
  | nil => intro c; simp
  | cons s ss ih =>
    intro c
    simp only [List.foldl_cons]
    rw [ih, addService_lst, List.filterMap_cons]
    cases rawItem id st t s <;> simp

theorem foldl_addService_inv (id : String) (st : Int) (ss : List String) : ∀ (c : AL (List Item)),
    NEL c → NoDupKeys c →
    NEL (ss.foldl (fun c s => addService c id st s) c) ∧ NoDupKeys (ss.foldl (fun c s => addService c id st s) c) := by
  induction ss with
  | nil => intro c h1 h2; exact ⟨h1, h2⟩
  | cons s ss ih =>
    intro c h1 h2
    exact ih _ (addService_nel c id st s h1) (addService_nodup c id st s h2)

theorem foldl_addServices (t : String) (ms : List Member) : ∀ (c : AL (List Item)),
    lst (ms.foldl addServices c) t = lst c t ++ rawTypeList ms t := by
  induction ms with
  | nil => intro c; simp [rawTypeList]
  | cons m ms ih =>
    intro c
    simp only [List.foldl_cons]
    rw [ih]
    simp only [addServices, foldl_addService, rawTypeList, List.flatMap_cons, List.append_assoc]

theorem foldl_addServices_inv (ms : List Member) : ∀ (c : AL (List Item)), NEL c → NoDupKeys c →
    NEL (ms.foldl addServices c) ∧ NoDupKeys (ms.foldl addServices c) := by
  induction ms with
  | nil => intro c h1 h2; exact ⟨h1, h2⟩
  | cons m ms ih =>
    intro c h1 h2
    have := foldl_addService_inv m.id m.state m.services c h1 h2
    exact ih _ this.1 this.2

theorem foldl_addWorking (t : String) (ms : List Member) : ∀ (c : AL (List Item)),
    lst (ms.foldl addWorking c) t = lst c t ++ rawTypeList (ms.filter (fun m => isWork m.state)) t := by
  induction ms with
  | nil => intro c; simp [rawTypeList]
  | cons m ms ih =>
    intro c
    simp only [List.foldl_cons]
    rw [ih]
    cases hw : isWork m.state
    · simp [addWorking, hw, List.filter_cons]
    · simp only [addWorking, hw, if_true, addServices, foldl_addService, List.filter_cons, rawTypeList,
        List.flatMap_cons, List.append_assoc]

theorem foldl_addWorking_inv (ms : List Member) : ∀ (c : AL (List Item)), NEL c → NoDupKeys c →
    NEL (ms.foldl addWorking c) ∧ NoDupKeys (ms.foldl addWorking c) := by
  induction ms with
  | nil => intro c h1 h2; exact ⟨h1, h2⟩
  | cons m ms ih =>
    intro c h1 h2
    simp only [List.foldl_cons]
    by_cases hw : isWork m.state = true
    · have := foldl_addService_inv m.id m.state m.services c h1 h2
      simp only [addWorking, hw, if_true, addServices]
      exact ih _ this.1 this.2
    · simp only [addWorking, hw]
      exact ih _ h1 h2

theorem NEL.nil : NEL [] := fun _ _ h => by simp [AL.get_nil] at h

theorem NEL.get_none_iff {c : AL (List Item)} (h : NEL c) (t : String) : AL.get c t = none ↔ lst c t = [] := by
  unfold lst
  cases hc : AL.get c t with
  | none => simp
  | some l => simp; exact h t l hc

/-- the map built by `newMembers[one.Id] = one` -/
def membersOf (ms : List Member) (acc : AL Member) : AL Member :=
  ms.foldl (fun (m : AL Member) one => AL.set m one.id one) acc

theorem membersOf_not_mem (ms : List Member) (k : String) (h : k ∉ ms.map (·.id)) : ∀ acc,
    AL.get (membersOf ms acc) k = AL.get acc k := by
  induction ms with
  | nil => intro acc; rfl
  | cons a t ih =>
    intro acc
    simp only [List.map_cons, List.mem_cons, not_or] at h
    simp only [membersOf, List.foldl_cons]
    have := ih h.2 (AL.set acc a.id a)
    simp only [membersOf] at this
    rw [this, AL.get_set_ne _ _ h.1]

theorem membersOf_get (ms : List Member) (hn : (ms.map (·.id)).Nodup) (m : Member) (hm : m ∈ ms) : ∀ acc,
    AL.get (membersOf ms acc) m.id = some m := by
  induction ms with
  | nil => simp at hm
  | cons a t ih =>
    intro acc
    simp only [List.map_cons, List.nodup_cons] at hn
    simp only [membersOf, List.foldl_cons]
    rcases List.mem_cons.mp hm with e | e
    · subst e
      have := membersOf_not_mem t m.id hn.1 (AL.set acc m.id m)
      simp only [membersOf] at this
      rw [this, AL.get_set_same]
    · have := ih hn.2 e (AL.set acc a.id a)
      simpa [membersOf] using this

theorem membersOf_nodup (ms : List Member) : ∀ acc, NoDupKeys acc → NoDupKeys (membersOf ms acc) := by
  induction ms with
  | nil => intro acc h; exact h
  | cons a t ih => intro acc h; exact ih _ (h.set _ _)

theorem membersOf_sound (ms : List Member) : ∀ acc k m, AL.get (membersOf ms acc) k = some m →
    (m ∈ ms ∧ m.id = k) ∨ AL.get acc k = some m := by
  induction ms with
  | nil => intro acc k m h; exact Or.inr h
  | cons a t ih =>
    intro acc k m h
    simp only [membersOf, List.foldl_cons] at h
    rcases ih (AL.set acc a.id a) k m h with h' | h'
    · exact Or.inl ⟨List.mem_cons_of_mem _ h'.1, h'.2⟩
    · rw [AL.get_set] at h'
      by_cases e : k = a.id
      · simp [e] at h'; subst h'; exact Or.inl ⟨List.mem_cons_self, e.symm⟩
      · simp [e] at h'; exact Or.inr h'

theorem get_mapVal {α β : Type} (f : α → β) (c : AL α) (t : String) :
    AL.get (c.map (fun kv => (kv.1, f kv.2))) t = (AL.get c t).map f := by
  induction c with
  | nil => rfl
  | cons p c ih =>
    obtain ⟨k, v⟩ := p
    simp only [List.map_cons, AL.get_cons]
    by_cases h : k = t
    · simp [h]
    · simp [h]; exact ih

theorem keys_mapVal {α β : Type} (f : α → β) (c : AL α) :
    AL.keys (c.map (fun kv => (kv.1, f kv.2))) = AL.keys c := by
  simp [AL.keys, List.map_map, Function.comp_def]

theorem makePID_raw (nm : AL Member) (m : Member) (h : AL.get nm m.id = some m) (t s : String) :
    (rawItem m.id m.state t s).map (makePID nm) = specItem m t s := by
  unfold rawItem specItem
  cases splitName s with
  | none => rfl
  | some p =>
    obtain ⟨t', n⟩ := p
    simp only []
    by_cases e : t' = t
    · simp [e, makePID, h]
    · simp [e]

theorem map_makePID_services (nm : AL Member) (m : Member) (h : AL.get nm m.id = some m) (t : String)
    (ss : List String) :
    (ss.filterMap (rawItem m.id m.state t)).map (makePID nm) = ss.filterMap (specItem m t) := by
  induction ss with
  | nil => rfl
  | cons s ss ih =>
    simp only [List.filterMap_cons]
    have := makePID_raw nm m h t s
    cases hr : rawItem m.id m.state t s with
    | none => rw [hr] at this; simp at this; rw [← this]; exact ih
    | some it => rw [hr] at this; simp at this; rw [← this]; simp [ih]

theorem map_makePID_raw (nm : AL Member) (t : String) (ms : List Member)
    (h : ∀ m ∈ ms, AL.get nm m.id = some m) :
    (rawTypeList ms t).map (makePID nm) = specTypeList ms t := by
  induction ms with
  | nil => rfl
  | cons m ms ih =>
    simp only [rawTypeList, specTypeList, List.flatMap_cons, List.map_append]
    rw [map_makePID_services nm m (h m List.mem_cons_self)]
    have := ih (fun x hx => h x (List.mem_cons_of_mem _ hx))
    simp only [rawTypeList, specTypeList] at this
    rw [this]

theorem strip_specItem (m : Member) (t s : String) :
    (specItem m t s).map (fun it => { it with pid := none }) = rawItem m.id m.state t s := by
  unfold specItem rawItem
  cases splitName s with
  | none => rfl
  | some p =>
    obtain ⟨t', n⟩ := p
    by_cases e : t' = t <;> simp [e]

theorem strip_spec_services (m : Member) (t : String) (ss : List String) :
    (ss.filterMap (specItem m t)).map (fun it => { it with pid := none }) = ss.filterMap (rawItem m.id m.state t) := by
  induction ss with
  | nil => rfl
  | cons s ss ih =>
    simp only [List.filterMap_cons]
    have := strip_specItem m t s
    cases hr : specItem m t s with
    | none => rw [hr] at this; simp at this; rw [← this]; exact ih
    | some it => rw [hr] at this; simp at this; rw [← this]; simp [ih]

theorem strip_spec (t : String) (ms : List Member) :
    (specTypeList ms t).map (fun it => { it with pid := none }) = rawTypeList ms t := by
  induction ms with
  | nil => rfl
  | cons m ms ih =>
    simp only [rawTypeList, specTypeList, List.flatMap_cons, List.map_append]
    rw [strip_spec_services]
    simp only [rawTypeList, specTypeList] at ih
    rw [ih]

/-! name resolution: first binding of a name wins -/

theorem addNames_keep (items : List Item) : ∀ (svc : AL Item) n x, AL.get svc n = some x →
    AL.get (addNames svc items) n = some x := by
  induction items with
  | nil => intro svc n x h; exact h
  | cons it items ih =>
    intro svc n x h
    simp only [addNames, List.foldl_cons]
    apply ih
    by_cases hs : (AL.get svc it.name).isSome = true
    · simp [hs]; exact h
    · rw [if_neg hs, AL.get_set]
      by_cases e : n = it.name
      · subst e; simp [h] at hs
      · simp [e]; exact h

theorem addNames_sound (items : List Item) : ∀ (svc : AL Item) n x, AL.get (addNames svc items) n = some x →
    AL.get svc n = some x ∨ (x ∈ items ∧ x.name = n) := by
  induction items with
  | nil => intro svc n x h; exact Or.inl h
  | cons it items ih =>
    intro svc n x h
    simp only [addNames, List.foldl_cons] at h
    rcases ih _ n x h with h' | h'
    · by_cases hs : (AL.get svc it.name).isSome = true
      · simp [hs] at h'; exact Or.inl h'
      · rw [if_neg hs, AL.get_set] at h'
        by_cases e : n = it.name
        · simp [e] at h'; subst h'; exact Or.inr ⟨List.mem_cons_self, e.symm⟩
        · simp [e] at h'; exact Or.inl h'
    · exact Or.inr ⟨List.mem_cons_of_mem _ h'.1, h'.2⟩

theorem addNames_complete (items : List Item) : ∀ (svc : AL Item) it, it ∈ items →
    (AL.get (addNames svc items) it.name).isSome = true := by
  induction items with
  | nil => intro svc it h; simp at h
  | cons a items ih =>
    intro svc it h
    simp only [addNames, List.foldl_cons]
    rcases List.mem_cons.mp h with e | e
    · subst e
      by_cases hs : (AL.get svc it.name).isSome = true
      · obtain ⟨x, hx⟩ := Option.isSome_iff_exists.mp hs
        have := addNames_keep items svc it.name x hx
        simp only [addNames] at this
        simp [hs, this]
      · have := addNames_keep items (AL.set svc it.name it) it.name it (AL.get_set_same _ _ _)
        simp only [addNames] at this
        simp [hs, this]
    · have := ih (if (AL.get svc a.name).isSome = true then svc else AL.set svc a.name a) it e
      simpa [addNames] using this

def allNames (tl : AL (List Item)) (svc : AL Item) : AL Item :=
  tl.foldl (fun (svc : AL Item) kv => addNames svc kv.2) svc

theorem allNames_keep (tl : AL (List Item)) : ∀ (svc : AL Item) n x, AL.get svc n = some x →
    AL.get (allNames tl svc) n = some x := by
  induction tl with
  | nil => intro svc n x h; exact h
  | cons kv tl ih => intro svc n x h; exact ih _ n x (addNames_keep kv.2 svc n x h)

theorem allNames_sound (tl : AL (List Item)) : ∀ (svc : AL Item) n x, AL.get (allNames tl svc) n = some x →
    AL.get svc n = some x ∨ ∃ kv ∈ tl, x ∈ kv.2 ∧ x.name = n := by
  induction tl with
  | nil => intro svc n x h; exact Or.inl h
  | cons kv tl ih =>
    intro svc n x h
    rcases ih _ n x h with h' | ⟨kv', hk, hx⟩
    · rcases addNames_sound kv.2 svc n x h' with h'' | h''
      · exact Or.inl h''
      · exact Or.inr ⟨kv, List.mem_cons_self, h''⟩
    · exact Or.inr ⟨kv', List.mem_cons_of_mem _ hk, hx⟩

theorem allNames_complete (tl : AL (List Item)) : ∀ (svc : AL Item) kv it, kv ∈ tl → it ∈ kv.2 →
    (AL.get (allNames tl svc) it.name).isSome = true := by
  induction tl with
  | nil => intro svc kv it h; simp at h
  | cons a tl ih =>
    intro svc kv it h hit
    rcases List.mem_cons.mp h with e | e
    · subst e
      obtain ⟨x, hx⟩ := Option.isSome_iff_exists.mp (addNames_complete kv.2 svc it hit)
      have := allNames_keep tl (addNames svc kv.2) it.name x hx
      simp only [allNames, List.foldl_cons] at this ⊢
      simp [this]
    · exact ih _ kv it e hit

end Cell2v.Directory
