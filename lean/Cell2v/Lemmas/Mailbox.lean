import Cell2v.Lemmas.MailboxAbs
/-! helper lemmas for C09 (2): every fine step is an abstract step or a stutter;
list-level delivery invariants. -/
namespace Cell2v.Mailbox

namespace Fine

/-- fine-level side invariant needed by the refinement: the consumer reaches
"run.popu" only after it loaded `suspended = 0`, and only the consumer writes it -/
def FInv (s : St) : Prop := s.c = .popu → s.susp = false

theorem finv_init : FInv init := by simp [FInv, init]

theorem finv_step (s s' : St) (l : Lbl) (h : FInv s) (hf : fire s l = some s') : FInv s' := by
  obtain ⟨uq, sq, um, sm, run, paused, susp, hs, nUp, nSp, nL, nK, nD, dq, c, ls, lu, lp, pU, pS, dU, dS⟩ := s
  cases l <;> simp only [fire, FInv] at * <;> (repeat' split at hf) <;> simp_all <;> (try subst hf) <;> simp_all

/-- **refinement**: every step of the fine model is a step of the counter
abstraction (under some abstract label) or leaves the abstract state unchanged -/
theorem step_refines (s s' : St) (l : Lbl) (hi : FInv s) (hf : fire s l = some s') :
    (∃ al, Abs.fire (abs s) al = some (abs s')) ∨ abs s' = abs s := by
  obtain ⟨uq, sq, um, sm, run, paused, susp, hs, nUp, nSp, nL, nK, nD, dq, c, ls, lu, lp, pU, pS, dU, dS⟩ := s
  cases l with
  | pushU id => left; refine ⟨.pushU, ?_⟩; simp [fire] at hf; subst hf; simp [Abs.fire, abs]
  | incrU => left; refine ⟨.incrU, ?_⟩; simp only [fire] at hf; split at hf <;> simp_all [Abs.fire, abs]; subst hf; simp
  | pushS k id => left; refine ⟨.pushS, ?_⟩; simp [fire] at hf; subst hf; simp [Abs.fire, abs]
  | incrS => left; refine ⟨.incrS, ?_⟩; simp only [fire] at hf; split at hf <;> simp_all [Abs.fire, abs]; subst hf; simp
  | loadP =>
    left; refine ⟨.loadP, ?_⟩; simp only [fire] at hf
    repeat' split at hf
    all_goals simp_all [Abs.fire, abs]
    all_goals subst hf; simp
  | casP =>
    left; refine ⟨.casP, ?_⟩; simp only [fire] at hf
    repeat' split at hf
    all_goals simp_all [Abs.fire, abs]
    all_goals subst hf; simp
  | dispP => left; refine ⟨.dispP, ?_⟩; simp only [fire] at hf; split at hf <;> simp_all [Abs.fire, abs]; subst hf; simp
  | take => left; refine ⟨.take, ?_⟩; simp only [fire] at hf; split at hf <;> simp_all [Abs.fire, abs, absPc]; subst hf; simp [absPc]
  | iterOk => right; simp only [fire] at hf; split at hf <;> simp_all [abs, absPc]; subst hf; simp [absPc]
  | iterOver => right; simp only [fire] at hf; split at hf <;> simp_all [abs, absPc]; subst hf; simp [absPc]
  | bpCas =>
    simp only [fire] at hf
    by_cases hc : c = .bpcas
    · subst hc
      left
      cases paused
      · refine ⟨.pauseBegin, ?_⟩; simp at hf; subst hf; simp [Abs.fire, abs, absPc]
      · refine ⟨.pauseBeginFail, ?_⟩; simp at hf; subst hf; simp [Abs.fire, abs, absPc]
    · simp [hc] at hf
  | popS =>
    simp only [fire] at hf
    split at hf
    · rename_i hc
      subst hc
      cases sq with
      | nil => right; simp at hf; subst hf; simp [abs, absPc]
      | cons x rest =>
        obtain ⟨k, id⟩ := x
        left
        simp at hf; subst hf
        cases k
        · refine ⟨.popS, ?_⟩; simp [Abs.fire, abs, absPc]
        · refine ⟨.popSsusp, ?_⟩; simp [Abs.fire, abs, absPc]
        · refine ⟨.popSres, ?_⟩; simp [Abs.fire, abs, absPc]
    · simp at hf
  | lsusp =>
    simp only [fire] at hf
    by_cases hc : c = .lsusp
    · subst hc
      cases susp
      · right; simp at hf; subst hf; simp [abs, absPc]
      · left; refine ⟨.endRun, ?_⟩; simp at hf; subst hf; simp [Abs.fire, abs, absPc]
    · simp [hc] at hf
  | popU =>
    simp only [fire] at hf
    split at hf
    · rename_i hc
      subst hc
      have hsusp : susp = false := by simpa [FInv] using hi
      cases uq with
      | nil => left; refine ⟨.endRun, ?_⟩; simp at hf; subst hf; simp [Abs.fire, abs, absPc]
      | cons id rest => left; refine ⟨.popU, ?_⟩; simp at hf; subst hf; simp [Abs.fire, abs, absPc, hsusp]
    · simp at hf
  | storeIdle => left; refine ⟨.storeIdle, ?_⟩; simp only [fire] at hf; split at hf <;> simp_all [Abs.fire, abs, absPc]; subst hf; simp [absPc]
  | loadS => left; refine ⟨.loadS, ?_⟩; simp only [fire] at hf; split at hf <;> simp_all [Abs.fire, abs, absPc]; subst hf; simp [absPc]
  | loadU => left; refine ⟨.loadU, ?_⟩; simp only [fire] at hf; split at hf <;> simp_all [Abs.fire, abs, absPc]; subst hf; simp [absPc]
  | loadP2 => left; refine ⟨.loadP2, ?_⟩; simp only [fire] at hf; split at hf <;> simp_all [Abs.fire, abs, absPc]; subst hf; simp [absPc]
  | decide =>
    left; refine ⟨.decide, ?_⟩; simp only [fire] at hf
    repeat' split at hf
    all_goals simp_all [Abs.fire, abs, absPc]
    all_goals (try (subst hf; simp [absPc]))
    all_goals (try assumption)
  | cLoadP =>
    left; refine ⟨.cLoadP, ?_⟩; simp only [fire] at hf
    repeat' split at hf
    all_goals simp_all [Abs.fire, abs, absPc]
    all_goals subst hf; simp [absPc]
  | cCas =>
    left; refine ⟨.cCas, ?_⟩; simp only [fire] at hf
    repeat' split at hf
    all_goals simp_all [Abs.fire, abs, absPc]
    all_goals subst hf; simp [absPc]
  | cDisp => left; refine ⟨.cDisp, ?_⟩; simp only [fire] at hf; split at hf <;> simp_all [Abs.fire, abs, absPc]; subst hf; simp [absPc]
  | helperSleep => right; simp only [fire] at hf; split at hf <;> simp_all
  | helperWake => left; refine ⟨.helperWake, ?_⟩; simp only [fire] at hf; split at hf <;> simp_all [Abs.fire, abs]; subst hf; simp


/-- list-level delivery invariant: what was handed over, followed by what is
still queued, is exactly what was pushed, in push order — for both queues -/
def DInv (s : St) : Prop := s.dlvU ++ s.uq = s.pushedU ∧ s.dlvS ++ s.sq = s.pushedS

theorem dinv_init : DInv init := by simp [DInv, init]

theorem dinv_step (s s' : St) (l : Lbl) (h : DInv s) (hf : fire s l = some s') : DInv s' := by
  obtain ⟨uq, sq, um, sm, run, paused, susp, hs, nUp, nSp, nL, nK, nD, dq, c, ls, lu, lp, pU, pS, dU, dS⟩ := s
  obtain ⟨h1, h2⟩ := h
  simp only at h1 h2
  cases l <;> simp only [fire, DInv] at * <;> (repeat' split at hf) <;> simp_all <;> (try subst hf) <;> simp_all <;>
    (first | (rw [← h1, List.append_assoc]) | (rw [← h2, List.append_assoc]))

/-- all three invariants along any schedule -/
def AllInv (s : St) : Prop := Abs.MInv (abs s) ∧ FInv s ∧ DInv s

theorem allinv_init : AllInv init := by
  refine ⟨?_, finv_init, dinv_init⟩
  have : abs init = Abs.init := by simp [abs, init, Abs.init, absPc]
  rw [this]; exact Abs.inv_init

theorem allinv_step (s s' : St) (l : Lbl) (h : AllInv s) (hf : fire s l = some s') : AllInv s' := by
  obtain ⟨hm, hfi, hd⟩ := h
  refine ⟨?_, finv_step s s' l hfi hf, dinv_step s s' l hd hf⟩
  rcases step_refines s s' l hfi hf with ⟨al, ha⟩ | he
  · exact Abs.inv_step _ _ al hm ha
  · rw [he]; exact hm

theorem allinv_run (ls : List Lbl) : ∀ (s s' : St), AllInv s → runL s ls = some s' → AllInv s' := by
  induction ls with
  | nil => intro s s' h hr; simp [runL] at hr; subst hr; exact h
  | cons l ls ih =>
    intro s s' h hr
    simp only [runL] at hr
    cases hf : fire s l with
    | none => simp [hf] at hr
    | some s1 => simp only [hf] at hr; exact ih s1 s' (allinv_step s s1 l h hf) hr

/-- the consumer reaches "run.lsusp" only through a system pop that found the queue empty -/
theorem enter_lsusp (s s' : St) (l : Lbl) (hf : fire s l = some s') (h : s'.c = .lsusp) :
    s.c = .lsusp ∨ (l = .popS ∧ s.c = .pops ∧ s.sq = []) := by
  obtain ⟨uq, sq, um, sm, run, paused, susp, hs, nUp, nSp, nL, nK, nD, dq, c, ls, lu, lp, pU, pS, dU, dS⟩ := s
  cases l <;> simp only [fire] at hf <;> (repeat' split at hf) <;> simp_all <;> (try subst hf) <;> simp_all

/-- ... and "run.popu" only from "run.lsusp" having loaded `suspended = 0` -/
theorem enter_popu (s s' : St) (l : Lbl) (hf : fire s l = some s') (h : s'.c = .popu) :
    s.c = .popu ∨ (l = .lsusp ∧ s.c = .lsusp ∧ s.susp = false) := by
  obtain ⟨uq, sq, um, sm, run, paused, susp, hs, nUp, nSp, nL, nK, nD, dq, c, ls, lu, lp, pU, pS, dU, dS⟩ := s
  cases l <;> simp only [fire] at hf <;> (repeat' split at hf) <;> simp_all <;> (try subst hf) <;> simp_all

/-- a message is handed to the invoker only by the consumer's pop steps -/
theorem deliver_only_by_pop (s s' : St) (l : Lbl) (hf : fire s l = some s') :
    (s'.dlvU ≠ s.dlvU → l = .popU ∧ s.c = .popu) ∧ (s'.dlvS ≠ s.dlvS → l = .popS ∧ s.c = .pops) := by
  obtain ⟨uq, sq, um, sm, run, paused, susp, hs, nUp, nSp, nL, nK, nD, dq, c, ls, lu, lp, pU, pS, dU, dS⟩ := s
  cases l <;> simp only [fire] at hf <;> (repeat' split at hf) <;> simp_all <;> (try subst hf) <;> simp_all

end Fine
end Cell2v.Mailbox
