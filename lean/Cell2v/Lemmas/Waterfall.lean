import Cell2v.Model.Waterfall
/-!
C15 — invariants of the waterfall chain model.

* `CInv`  : unconditional bookkeeping (any environment, tasks may complete any
            number of times): closure/​event counting, task indices are
            0,1,2,… without gaps.
* `Phase`/`WF` : under "each invoked task completes at most once" the chain is
            a token machine — exactly one of {start queued, task i running,
            callback queued, final done} — and its history is the canonical
            alternation `task 0 [] · done 0 · task 1 · … · final`.
-/
namespace Cell2v.Waterfall

/-! ### unconditional bookkeeping -/

structure CInv (n : Nat) (c : Chain) : Prop where
  nconst : c.n = n
  count1 : finals c.hist + c.queue.length + c.invoked = 1 + dones c.hist
  count2 : c.consumed + c.queue.length = 1 + dones c.hist
  outs : tasks c.hist + finals c.hist = c.consumed
  tasksInvoked : tasks c.hist = c.invoked
  idxs : taskIdxs c.hist = (List.range c.invoked).reverse
  le : c.invoked ≤ c.n
  startPhase : c.consumed = 0 → c.queue = [.start] ∧ c.invoked = 0 ∧ c.cursor = 0
  started : 0 < c.consumed → c.invoked = min (c.cursor + 1) c.n ∧ ∀ x ∈ c.queue, x ≠ .start
  callsZero : ∀ i, c.invoked ≤ i → c.calls i = 0

section cons
variable (h : List Ev) (i : Nat) (a : Args) (e : Bool)
@[simp] theorem finals_nil : finals [] = 0 := rfl
@[simp] theorem dones_nil : dones [] = 0 := rfl
@[simp] theorem tasks_nil : tasks [] = 0 := rfl
@[simp] theorem taskIdxs_nil : taskIdxs [] = [] := rfl
@[simp] theorem finals_task : finals (.task i a :: h) = finals h := by simp [finals, isFinal]
@[simp] theorem finals_final : finals (.final e a :: h) = finals h + 1 := by simp [finals, isFinal, List.filter_cons]
@[simp] theorem finals_done : finals (.done i e a :: h) = finals h := by simp [finals, isFinal]
@[simp] theorem dones_task : dones (.task i a :: h) = dones h := by simp [dones, isDone]
@[simp] theorem dones_final : dones (.final e a :: h) = dones h := by simp [dones, isDone]
@[simp] theorem dones_done : dones (.done i e a :: h) = dones h + 1 := by simp [dones, isDone, List.filter_cons]
@[simp] theorem tasks_task : tasks (.task i a :: h) = tasks h + 1 := by simp [tasks, isTask, List.filter_cons]
@[simp] theorem tasks_final : tasks (.final e a :: h) = tasks h := by simp [tasks, isTask]
@[simp] theorem tasks_done : tasks (.done i e a :: h) = tasks h := by simp [tasks, isTask]
@[simp] theorem taskIdxs_task : taskIdxs (.task i a :: h) = i :: taskIdxs h := by simp [taskIdxs]
@[simp] theorem taskIdxs_final : taskIdxs (.final e a :: h) = taskIdxs h := by simp [taskIdxs]
@[simp] theorem taskIdxs_done : taskIdxs (.done i e a :: h) = taskIdxs h := by simp [taskIdxs]
end cons

theorem cinv_init (n : Nat) : CInv n { n := n } := by
  constructor <;> simp

theorem cinv_step (n : Nat) (c c' : Chain) (l : Label) (h : CInv n c) (hf : fire c l = some c') : CInv n c' := by
  obtain ⟨hn, h1, h2, h3, h4, h5, h6, h7, h8, h9⟩ := h
  cases l with
  | run =>
    simp only [fire] at hf
    split at hf
    · cases hf
    · rename_i x rest hq
      cases hf
      cases x with
      | start =>
        -- the start closure can only be the very first one consumed
        have hc0 : c.consumed = 0 := by
          cases hc : c.consumed with
          | zero => rfl
          | succ k =>
            have := (h8 (by omega)).2 .start (by simp [hq])
            exact absurd rfl this
        obtain ⟨hq1, hi0, hcur⟩ := h7 hc0
        have hrest : rest = [] := by
          rw [hq] at hq1
          simpa using hq1
        subst hrest
        simp only [hq, List.length_cons, List.length_nil] at h1 h2
        simp only [runClo, tryExec]
        split
        · rename_i hlt
          try simp only at hlt
          refine ⟨hn, ?_, ?_, ?_, ?_, ?_, ?_, ?_, ?_, ?_⟩ <;> (try simp only [finals_task, dones_task, tasks_task, taskIdxs_task, List.length_nil])
          · omega
          · omega
          · omega
          · omega
          · rw [h5, hi0]; rfl
          · omega
          · intro hx; omega
          · intro _
            refine ⟨by rw [hi0, hcur]; omega, by simp⟩
          · intro i hi; exact h9 i (by omega)
        · rename_i hlt
          try simp only at hlt
          refine ⟨hn, ?_, ?_, ?_, ?_, ?_, ?_, ?_, ?_, ?_⟩ <;> (try simp only [finals_final, dones_final, tasks_final, taskIdxs_final, List.length_nil])
          · omega
          · omega
          · omega
          · omega
          · exact h5
          · omega
          · intro hx; omega
          · intro _
            refine ⟨by rw [hi0, hcur]; omega, by simp⟩
          · exact h9
      | cb e a =>
        have hcpos : 0 < c.consumed := by
          cases hc : c.consumed with
          | zero =>
            have := (h7 hc).1
            rw [hq] at this
            simp at this
          | succ k => omega
        obtain ⟨hinv, hns⟩ := h8 hcpos
        have hns' : ∀ x ∈ rest, x ≠ Clo.start := fun x hx => hns x (by simp [hq, hx])
        simp only [hq, List.length_cons] at h1 h2
        simp only [runClo, invokeCallback]
        cases e with
        | true =>
          simp only [if_true]
          refine ⟨hn, ?_, ?_, ?_, ?_, ?_, ?_, ?_, ?_, ?_⟩ <;> (try simp only [finals_final, dones_final, tasks_final, taskIdxs_final])
          · omega
          · omega
          · omega
          · omega
          · exact h5
          · omega
          · intro hx; omega
          · intro _; exact ⟨hinv, hns'⟩
          · exact h9
        | false =>
          simp only [Bool.false_eq_true, if_false, tryExec]
          split
          · rename_i hlt
            try simp only at hlt
            have hie : c.invoked = c.cursor + 1 := by omega
            refine ⟨hn, ?_, ?_, ?_, ?_, ?_, ?_, ?_, ?_, ?_⟩ <;> (try simp only [finals_task, dones_task, tasks_task, taskIdxs_task])
            · omega
            · omega
            · omega
            · omega
            · rw [h5, hie, List.range_succ (n := c.cursor + 1)]; simp
            · omega
            · intro hx; omega
            · intro _; exact ⟨by omega, hns'⟩
            · intro i hi; exact h9 i (by omega)
          · rename_i hlt
            try simp only at hlt
            refine ⟨hn, ?_, ?_, ?_, ?_, ?_, ?_, ?_, ?_, ?_⟩ <;> (try simp only [finals_final, dones_final, tasks_final, taskIdxs_final])
            · omega
            · omega
            · omega
            · omega
            · exact h5
            · omega
            · intro hx; omega
            · intro _; exact ⟨by omega, hns'⟩
            · exact h9
  | complete i e r =>
    simp only [fire] at hf
    split at hf
    · rename_i hi
      cases hf
      have hcpos : 0 < c.consumed := by
        cases hc : c.consumed with
        | zero => have := (h7 hc).2.1; omega
        | succ k => omega
      obtain ⟨hinv, hns⟩ := h8 hcpos
      refine ⟨hn, ?_, ?_, ?_, ?_, ?_, ?_, ?_, ?_, ?_⟩ <;> (try simp only [finals_done, dones_done, tasks_done, taskIdxs_done, List.length_append, List.length_cons, List.length_nil])
      · omega
      · omega
      · omega
      · omega
      · exact h5
      · omega
      · intro hx; omega
      · intro _
        refine ⟨hinv, ?_⟩
        intro x hx
        simp only [List.mem_append, List.mem_singleton] at hx
        cases hx with
        | inl h => exact hns x h
        | inr h => subst h; simp
      · intro j hj
        have : ¬ j = i := by omega
        simp [upd, this, h9 j hj]
    · cases hf

theorem cinv_reachable (n : Nat) (c : Chain) (h : Reachable n c) : CInv n c := by
  induction h with
  | init => exact cinv_init n
  | step l _ hf ih => exact cinv_step n _ _ l ih hf

theorem taskIdxs_reverse (h : List Ev) : taskIdxs h.reverse = (taskIdxs h).reverse := by
  simp [taskIdxs, List.filterMap_reverse]

theorem finals_reverse (h : List Ev) : finals h.reverse = finals h := by
  simp [finals, List.filter_reverse]

/-! ### the at-most-once regime -/

/-- admissible neighbours in the history (older, newer) -/
def okPair (n : Nat) : Ev → Ev → Prop
  | .task i _, .done j _ _ => j = i
  | .done i e r, .task j a => e = false ∧ j = i + 1 ∧ a = r ∧ j < n
  | .done i e r, .final e' a => e' = e ∧ a = r ∧ (e = true ∨ i + 1 = n)
  | _, _ => False

/-- admissible first event -/
def okFirst (n : Nat) : Ev → Prop
  | .task i a => i = 0 ∧ a = [] ∧ 0 < n
  | .final e a => e = false ∧ a = [] ∧ n = 0
  | _ => False

/-- canonical history, newest first -/
def WF (n : Nat) : List Ev → Prop
  | [] => True
  | [e] => okFirst n e
  | e2 :: e1 :: rest => okPair n e1 e2 ∧ WF n (e1 :: rest)

theorem WF_tail (n : Nat) (e : Ev) (l : List Ev) (h : WF n (e :: l)) : WF n l := by
  cases l with
  | nil => trivial
  | cons e1 rest => exact h.2

theorem WF_suffix (n : Nat) (l1 l2 : List Ev) (h : WF n (l1 ++ l2)) : WF n l2 := by
  induction l1 with
  | nil => simpa using h
  | cons e t ih => exact ih (WF_tail n e _ h)

theorem WF_adj (n : Nat) (l1 l2 : List Ev) (x y : Ev) (h : WF n (l1 ++ y :: x :: l2)) : okPair n x y :=
  (WF_suffix n l1 _ h).1

theorem WF_first (n : Nat) (l : List Ev) (x : Ev) (h : WF n (l ++ [x])) : okFirst n x :=
  WF_suffix n l [x] h

/-- the token: where the chain's single thread of control is -/
def Phase (c : Chain) : Prop :=
  match c.hist with
  | [] => c.queue = [.start] ∧ c.invoked = 0 ∧ c.cursor = 0 ∧ dones c.hist = 0
  | .task i _ :: _ => c.queue = [] ∧ c.invoked = i + 1 ∧ c.cursor = i ∧ c.calls i = 0 ∧ (∀ j, j < i → c.calls j = 1)
      ∧ dones c.hist = i
  | .done i e r :: _ => c.queue = [.cb e r] ∧ c.invoked = i + 1 ∧ c.cursor = i ∧ (∀ j, j < i + 1 → c.calls j = 1)
      ∧ dones c.hist = i + 1
  | .final _ _ :: _ => c.queue = [] ∧ (∀ j, j < c.invoked → c.calls j = 1) ∧ dones c.hist = c.invoked

theorem atMostOnce_back (c c' : Chain) (l : Label) (hf : fire c l = some c') (hg : AtMostOnce c') : AtMostOnce c := by
  cases l with
  | run =>
    simp only [fire] at hf
    split at hf
    · cases hf
    · cases hf
      rename_i x rest hq
      intro i
      have := hg i
      cases x with
      | start =>
        simp only [runClo, tryExec] at this
        split at this <;> exact this
      | cb e a =>
        simp only [runClo, invokeCallback, tryExec] at this
        split at this
        · exact this
        · split at this <;> exact this
  | complete i e r =>
    simp only [fire] at hf
    split at hf
    · cases hf
      intro j
      have := hg j
      simp only [upd] at this
      split at this
      · subst_vars; omega
      · exact this
    · cases hf

theorem good_step (n : Nat) (c c' : Chain) (l : Label) (hc : CInv n c) (hp : Phase c) (hw : WF n c.hist)
    (hf : fire c l = some c') (hg : AtMostOnce c') : Phase c' ∧ WF n c'.hist := by
  have hle := hc.le
  have hn := hc.nconst
  cases l with
  | run =>
    simp only [fire] at hf
    split at hf
    · cases hf
    · rename_i x rest hq
      cases hf
      cases hh : c.hist with
      | nil =>
        simp only [Phase, hh] at hp
        obtain ⟨hq1, hi0, hcur, hd0⟩ := hp
        rw [hq] at hq1
        injection hq1 with hx hr
        subst hx; subst hr
        simp only [runClo, tryExec]
        split
        · rename_i hlt
          refine ⟨?_, ?_⟩
          · dsimp only [Phase]
            refine ⟨rfl, by omega, hcur, hc.callsZero 0 (by omega), fun j hj => by omega, ?_⟩
            rfl
          · try dsimp only
            dsimp only [WF, okFirst]
            exact ⟨rfl, rfl, by rw [← hn]; exact hlt⟩
        · rename_i hlt
          refine ⟨?_, ?_⟩
          · dsimp only [Phase]
            refine ⟨rfl, fun j hj => by omega, ?_⟩
            rw [hi0]; rfl
          · try dsimp only
            dsimp only [WF, okFirst]
            exact ⟨rfl, rfl, by omega⟩
      | cons ev t =>
        cases ev with
        | task i a =>
          simp only [Phase, hh] at hp
          rw [hq] at hp
          exact absurd hp.1 (by simp)
        | final e a =>
          simp only [Phase, hh] at hp
          rw [hq] at hp
          exact absurd hp.1 (by simp)
        | done i e r =>
          simp only [Phase, hh] at hp
          obtain ⟨hq1, hinv, hcur, hcalls, hd⟩ := hp
          rw [hq] at hq1
          injection hq1 with hx hr
          subst hx; subst hr
          try rw [hh] at hw
          simp only [runClo, invokeCallback]
          cases e with
          | true =>
            simp only [if_true]
            refine ⟨?_, ?_⟩
            · dsimp only [Phase]
              refine ⟨rfl, fun j hj => hcalls j (by omega), ?_⟩
              rw [dones_final, dones_done]
              rw [dones_done] at hd
              omega
            · try dsimp only
              try dsimp only [WF]
              exact ⟨⟨rfl, rfl, Or.inl rfl⟩, hw⟩
          | false =>
            simp only [Bool.false_eq_true, if_false, tryExec]
            split
            · rename_i hlt
              try dsimp only at hlt
              refine ⟨?_, ?_⟩
              · dsimp only [Phase]
                refine ⟨rfl, by omega, rfl, hc.callsZero (c.cursor + 1) (by omega),
                  fun j hj => hcalls j (by omega), ?_⟩
                rw [dones_task, dones_done]
                rw [dones_done] at hd
                omega
              · try dsimp only
                try dsimp only [WF]
                refine ⟨?_, hw⟩
                dsimp only [okPair]
                exact ⟨rfl, by omega, rfl, by omega⟩
            · rename_i hlt
              try dsimp only at hlt
              refine ⟨?_, ?_⟩
              · dsimp only [Phase]
                refine ⟨rfl, fun j hj => hcalls j (by omega), ?_⟩
                rw [dones_final, dones_done]
                rw [dones_done] at hd
                omega
              · try dsimp only
                try dsimp only [WF]
                refine ⟨?_, hw⟩
                dsimp only [okPair]
                exact ⟨rfl, rfl, Or.inr (by omega)⟩
  | complete i e r =>
    simp only [fire] at hf
    split at hf
    · rename_i hi
      cases hf
      have hci : c.calls i = 0 := by
        have := hg i
        simp [upd] at this
        exact this
      cases hh : c.hist with
      | nil =>
        simp only [Phase, hh] at hp
        omega
      | cons ev t =>
        cases ev with
        | task k a =>
          simp only [Phase, hh] at hp
          obtain ⟨hq1, hinv, hcur, hck, hcalls, hd⟩ := hp
          have hik : i = k := by
            by_cases hlt : i < k
            · have := hcalls i hlt; omega
            · omega
          subst hik
          refine ⟨?_, ?_⟩
          · dsimp only [Phase]
            refine ⟨by rw [hq1]; rfl, hinv, hcur, ?_, ?_⟩
            · intro j hj
              simp only [upd]
              split
              · omega
              · exact hcalls j (by omega)
            · rw [dones_done, dones_task]
              rw [dones_task] at hd
              omega
          · try rw [hh] at hw
            try dsimp only
            try dsimp only [WF]
            exact ⟨rfl, hw⟩
        | done k e' r' =>
          simp only [Phase, hh] at hp
          have := hp.2.2.2.1 i (by omega)
          omega
        | final e' a =>
          simp only [Phase, hh] at hp
          have := hp.2.1 i hi
          omega
    · cases hf

theorem good_reachable (n : Nat) (c : Chain) (h : Reachable n c) : AtMostOnce c → Phase c ∧ WF n c.hist := by
  induction h with
  | init =>
    intro _
    exact ⟨by simp [Phase], trivial⟩
  | @step c c' l hr hf ih =>
    intro hg
    obtain ⟨hp, hw⟩ := ih (atMostOnce_back c c' l hf hg)
    exact good_step n c c' l (cinv_reachable n c hr) hp hw hf hg

/-- neighbours in the observable trace (oldest first) -/
theorem trace_adj (n : Nat) (c : Chain) (h : Reachable n c) (hg : AtMostOnce c)
    (l1 l2 : List Ev) (x y : Ev) (ht : c.trace = l1 ++ x :: y :: l2) : okPair n x y := by
  have hw := (good_reachable n c h hg).2
  have : c.hist = l2.reverse ++ y :: x :: l1.reverse := by
    have := congrArg List.reverse ht
    simpa [Chain.trace] using this
  rw [this] at hw
  exact WF_adj n _ _ x y hw

theorem trace_first (n : Nat) (c : Chain) (h : Reachable n c) (hg : AtMostOnce c)
    (x : Ev) (l : List Ev) (ht : c.trace = x :: l) : okFirst n x := by
  have hw := (good_reachable n c h hg).2
  have : c.hist = l.reverse ++ [x] := by
    have := congrArg List.reverse ht
    simpa [Chain.trace] using this
  rw [this] at hw
  exact WF_first n _ x hw

theorem finals_of_phase (n : Nat) (c : Chain) (hc : CInv n c) (hp : Phase c) :
    finals c.hist = (match c.hist with | .final _ _ :: _ => 1 | _ => 0) := by
  have h1 := hc.count1
  cases hh : c.hist with
  | nil => simp [finals]
  | cons ev t =>
    cases ev with
    | task i a =>
      simp only [Phase, hh] at hp
      obtain ⟨hq, hinv, _, _, _, hd⟩ := hp
      rw [hh] at h1
      simp only [hq, List.length_nil] at h1
      simp only
      omega
    | done i e r =>
      simp only [Phase, hh] at hp
      obtain ⟨hq, hinv, _, _, hd⟩ := hp
      rw [hh] at h1
      simp only [hq, List.length_cons, List.length_nil] at h1
      simp only
      omega
    | final e a =>
      simp only [Phase, hh] at hp
      obtain ⟨hq, _, hd⟩ := hp
      rw [hh] at h1
      simp only [hq, List.length_nil] at h1
      simp only
      omega

theorem reachable_of_run (n : Nat) : ∀ (ls : List Label) (c c' : Chain), Reachable n c → run c ls = some c' → Reachable n c'
  | [], c, c', hr, h => by simp [run] at h; exact h ▸ hr
  | l :: t, c, c', hr, h => by
    simp only [run] at h
    split at h
    · cases h
    · rename_i c1 hf
      exact reachable_of_run n t c1 c' (.step l hr hf) h

theorem atMostOnce_of_exactlyOnce (n : Nat) (c : Chain) (h : Reachable n c) (hx : ExactlyOnce c) : AtMostOnce c := by
  have hi := cinv_reachable n c h
  intro i
  by_cases hlt : i < c.invoked
  · rw [hx i hlt]; exact Nat.le_refl 1
  · rw [hi.callsZero i (by omega)]; omega

end Cell2v.Waterfall
