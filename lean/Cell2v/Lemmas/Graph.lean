import Cell2v.Model.Graph
import Cell2v.Spec.C04
/-!
Soundness of the executable reachability checks of `Model/Graph.lean` (C04).
-/
namespace Cell2v.Graph

theorem Reach.trans {E : List (Nat × Nat)} {a b c : Nat} (h1 : Reach E a b) (h2 : Reach E b c) : Reach E a c := by
  induction h1 with
  | refl _ => exact h2
  | step he _ ih => exact Reach.step he (ih h2)

theorem Reach.snoc {E : List (Nat × Nat)} {a b c : Nat} (h1 : Reach E a b) (he : (b, c) ∈ E) : Reach E a c :=
  h1.trans (Reach.step he (Reach.refl c))

theorem Reach.mono {E F : List (Nat × Nat)} (hsub : ∀ e, e ∈ E → e ∈ F) {a b : Nat} (h : Reach E a b) : Reach F a b := by
  induction h with
  | refl _ => exact Reach.refl _
  | step he _ ih => exact Reach.step (hsub _ he) ih

theorem memB_insB (D i x : Nat) : memB (insB D i) x = (memB D x || decide (i = x)) := by
  simp [memB, insB, Nat.testBit_or, Nat.one_shiftLeft, Nat.testBit_two_pow]

theorem memB_zero (x : Nat) : memB 0 x = false := by simp [memB]

theorem memB_ofListB_aux (l : List Nat) : ∀ (D x : Nat), memB (l.foldl insB D) x = true → memB D x = true ∨ x ∈ l := by
  induction l with
  | nil => intro D x h; left; exact h
  | cons a l ih =>
    intro D x h
    simp only [List.foldl_cons] at h
    rcases ih _ _ h with h' | h'
    · rw [memB_insB] at h'
      simp only [Bool.or_eq_true, decide_eq_true_eq] at h'
      rcases h' with h' | h'
      · left; exact h'
      · right; subst h'; exact List.mem_cons_self
    · right; exact List.mem_cons_of_mem _ h'

theorem memB_ofListB {l : List Nat} {x : Nat} (h : memB (ofListB l) x = true) : x ∈ l := by
  rcases memB_ofListB_aux l 0 x h with h' | h'
  · rw [memB_zero] at h'; cases h'
  · exact h'

theorem memB_ofListB_of_mem (l : List Nat) : ∀ (D x : Nat), (memB D x = true ∨ x ∈ l) → memB (l.foldl insB D) x = true := by
  induction l with
  | nil => intro D x h; rcases h with h | h; exact h; cases h
  | cons a l ih =>
    intro D x h
    simp only [List.foldl_cons]
    apply ih
    rcases h with h | h
    · left; rw [memB_insB, h]; rfl
    · rcases List.mem_cons.mp h with h | h
      · left; rw [memB_insB]; simp [h]
      · right; exact h

/-- a predecessor-closed set that contains the target contains every node that reaches it -/
theorem closedBack_sound {E : List (Nat × Nat)} {D : Nat} (h : closedBack E D = true)
    {a b : Nat} (r : Reach E a b) (hb : memB D b = true) : memB D a = true := by
  induction r with
  | refl _ => exact hb
  | @step x y z he _ ih =>
    have hy : memB D y = true := ih hb
    have := (List.all_eq_true.mp h) (x, y) he
    simp only [Bool.or_eq_true, Bool.not_eq_true'] at this
    rcases this with h' | h'
    · rw [hy] at h'; cases h'
    · exact h'

theorem fwdPass_sound {E F : List (Nat × Nat)} {R : List Nat} (hsub : ∀ e, e ∈ E → e ∈ F) :
    ∀ (S : Nat), (∀ x, memB S x = true → ∃ r, r ∈ R ∧ Reach F r x) →
      ∀ x, memB (fwdPass E S) x = true → ∃ r, r ∈ R ∧ Reach F r x := by
  induction E with
  | nil => intro S hS x hx; exact hS x hx
  | cons e E ih =>
    intro S hS x hx
    simp only [fwdPass, List.foldl_cons] at hx
    apply ih (fun e' he' => hsub e' (List.mem_cons_of_mem _ he')) _ _ x hx
    intro y hy
    split at hy
    · rename_i hm
      rw [memB_insB] at hy
      simp only [Bool.or_eq_true, decide_eq_true_eq] at hy
      rcases hy with hy | hy
      · exact hS y hy
      · subst hy
        obtain ⟨r, hr, hreach⟩ := hS e.1 hm
        exact ⟨r, hr, hreach.snoc (hsub e List.mem_cons_self)⟩
    · exact hS y hy

/-- everything the forward closure returns is reachable from a start node -/
theorem fwd_sound {E : List (Nat × Nat)} {R : List Nat} (k : Nat) :
    ∀ (S : Nat), (∀ x, memB S x = true → ∃ r, r ∈ R ∧ Reach E r x) →
      ∀ x, memB (fwd E k S) x = true → ∃ r, r ∈ R ∧ Reach E r x := by
  induction k with
  | zero => intro S hS x hx; exact hS x hx
  | succ k ih =>
    intro S hS x hx
    simp only [fwd] at hx
    split at hx
    · exact hS x hx
    · exact ih _ (fwdPass_sound (fun _ h => h) S hS) x hx

theorem fwd_sound' {E : List (Nat × Nat)} (k : Nat) (R : List Nat) (x : Nat)
    (hx : memB (fwd E k (ofListB R)) x = true) : ∃ r, r ∈ R ∧ Reach E r x :=
  fwd_sound k (ofListB R) (fun y hy => ⟨y, memB_ofListB hy, Reach.refl y⟩) x hx

end Cell2v.Graph

namespace Cell2v.Spec.C04
open Cell2v.Graph

/-- generic lifting of the Boolean check to paths -/
theorem entry_of_check (G : CallGraph) (h : entryCheck G = true) (r s : Nat)
    (hr : r ∈ forbiddenRoots G) (hs : s ∈ svcNodes G) : ¬ Reach (directEdges G) r s := by
  intro hreach
  simp only [entryCheck, entryCheckWith, Bool.and_eq_true] at h
  obtain ⟨⟨⟨hc, hsv⟩, hspawn⟩, hexp⟩ := h
  have hsD : memB (danger G) s = true := (List.all_eq_true.mp hsv) s hs
  have hrD : memB (danger G) r = true := closedBack_sound hc hreach hsD
  rcases List.mem_append.mp hr with hr | hr
  · have := (List.all_eq_true.mp hspawn) r hr
    rw [hrD] at this; cases this
  · have hx := List.mem_filter.mp hr
    have := (List.all_eq_true.mp hexp) r hx.1
    rw [hrD] at this
    simp only [Bool.not_true, Bool.false_or] at this
    have h2 := hx.2
    rw [this] at h2; cases h2

end Cell2v.Spec.C04
