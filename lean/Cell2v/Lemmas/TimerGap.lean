import Cell2v.Lemmas.TimerLive
/-!
The closure that `Mgr.doLater` hands to `time.AfterFunc` is three statements of ANOTHER
goroutine: read `t.Canceled`, read `m.running`, `m.queue <- t` — and the send can block for
as long as the 999-slot channel is full.  The model's `expire` does all of it in one step.

Here the closure is split (`expireCheck`, `expireSend`) and the atomic step is justified:
whatever the owner goroutine does between the checks and the send (`Cancel` of that very timer,
`Stop`, creations, callback actions, a receive of an element that was already queued, time
passing) commutes with the send, and the checks commute with the expiry goroutines of other
timers.  So every interleaving of the split closure with the owner ends in the state of a
history of atomic steps — the histories all theorems of `Props/C14.lean` quantify over.
-/
namespace Cell2v.Timer

/-- first part of the closure: the runtime timer has gone off (not before `exp`), the goroutine
reads `Canceled` and `running`; the result says whether it goes on to send -/
def expireCheck (s : State) (id : Nat) : State × Bool :=
  if (s.tm id).armed && decide ((s.tm id).exp ≤ s.now) then
    (s.setTm id { s.tm id with armed := false }, !(s.tm id).cancelled && s.running)
  else (s, false)

/-- second part: `m.queue <- t` (arbitrarily later: the sender may sit blocked on the full channel) -/
def expireSend (s : State) (id : Nat) : State := s.push id

/-- the atomic step is "check, then send at once" -/
theorem expire_eq_check_send (s : State) (id : Nat) :
    expire s id = (if (expireCheck s id).2 then expireSend (expireCheck s id).1 id else (expireCheck s id).1, []) := by
  unfold expire expireCheck expireSend
  by_cases h : ((s.tm id).armed && decide ((s.tm id).exp ≤ s.now)) = true
  · cases hc : (s.tm id).cancelled <;> cases hr : s.running <;> simp [h, hc]
  · simp [h]

/-- what the owner goroutine, a running callback or the clock can do — everything but a receive -/
def Op.ownerSide : Op → Bool
  | .after _ _ _ | .add _ _ _ | .cancel _ | .cbStep | .advance _ | .stop | .defScript _ _ => true
  | .expire _ | .doNext _ => false

theorem cancelTm_push (s : State) (id x : Nat) :
    cancelTm (s.push id) x = ((cancelTm s x).1.push id, (cancelTm s x).2) := by
  unfold cancelTm
  cases h : (s.tm x).inMap <;> cases hl : (s.tm x).live <;> simp [State.push, State.setTm, h, hl]

theorem create_push (s : State) (id : Nat) (d : Int) (r : Bool) (k : Nat) (a : List Nat) :
    create (s.push id) d r k a = ((create s d r k a).1.push id, (create s d r k a).2) := by
  simp [create, State.push, State.setTm, State.alloc]

theorem finish_push (s : State) (id x : Nat) :
    finish (s.push id) x = ((finish s x).1.push id, (finish s x).2) := by
  unfold finish
  cases hc : (s.tm x).cancelled
  · by_cases hp : (s.tm x).period > 0 <;> simp [State.push, State.setTm, hc, hp]
  · simp [State.push, hc]

theorem cbStep_push (s : State) (id : Nat) :
    cbStep (s.push id) = ((cbStep s).1.push id, (cbStep s).2) := by
  unfold cbStep
  cases hcur : s.cur with
  | none => simp [State.push, hcur]
  | some c =>
    obtain ⟨x, acts⟩ := c
    cases acts with
    | nil =>
      have : (s.push id).cur = some (x, []) := by simp [State.push, hcur]
      simp only [this]
      exact finish_push (s.setCur none) id x
    | cons a rest =>
      have : (s.push id).cur = some (x, a :: rest) := by simp [State.push, hcur]
      simp only [this]
      cases a with
      | cancelSelf => exact cancelTm_push (s.setCur (some (x, rest))) id x
      | cancel y => exact cancelTm_push (s.setCur (some (x, rest))) id y
      | cancelNewest => exact cancelTm_push (s.setCur (some (x, rest))) id s.nextId
      | after d k arg => exact create_push (s.setCur (some (x, rest))) id d false k [arg]
      | add d k arg => exact create_push (s.setCur (some (x, rest))) id d true k [arg]
      | panic => rfl

/-- a pending send commutes with every owner-side step: it does not matter whether the object
was appended before or after it -/
theorem send_commutes (s : State) (id : Nat) (op : Op) (h : op.ownerSide = true) :
    step (s.push id) op = ((step s op).1.push id, (step s op).2) := by
  cases op with
  | after d k a =>
    simp only [step]
    cases hc : s.cur with
    | none => simpa [State.push, hc] using create_push s id d false k a
    | some c => simp [State.push, hc]
  | add d k a =>
    simp only [step]
    cases hc : s.cur with
    | none => simpa [State.push, hc] using create_push s id d true k a
    | some c => simp [State.push, hc]
  | cancel x =>
    simp only [step]
    cases hc : s.cur with
    | none => simpa [State.push, hc] using cancelTm_push s id x
    | some c => simp [State.push, hc]
  | cbStep => exact cbStep_push s id
  | advance d => rfl
  | stop => rfl
  | defScript k acts => rfl
  | expire x => cases h
  | doNext i => cases h

/-- … and with a receive of an element that was already in the channel -/
theorem send_commutes_recv (s : State) (id i : Nat) (hi : i < s.queue.length) :
    step (s.push id) (.doNext i) = ((step s (.doNext i)).1.push id, (step s (.doNext i)).2) := by
  simp only [step, doNext]
  cases hc : s.cur with
  | some c => simp [State.push, hc]
  | none =>
    have h1 : (s.push id).cur = none := by simp [State.push, hc]
    have h2 : (s.push id).queue[i]? = s.queue[i]? := by
      simp [State.push, List.getElem?_append_left hi]
    have h3 : (s.push id).pop i = (s.pop i).push id := by
      simp [State.push, State.pop, List.eraseIdx_append_of_lt_length hi]
    simp only [h1, h2, Option.isSome_none, Bool.false_eq_true, if_false]
    cases hq : s.queue[i]? with
    | none => rfl
    | some x =>
      simp only [h3]
      cases hcc : (s.tm x).cancelled <;> simp [State.push, State.setCur, hcc]

/-- a whole stretch of owner-side steps between the checks and the send -/
theorem send_commutes_run (s : State) (id : Nat) (tr : List Event) (ops : List Op)
    (h : ∀ op ∈ ops, op.ownerSide = true) :
    runFrom (s.push id) tr ops = ((runFrom s tr ops).1.push id, (runFrom s tr ops).2) := by
  induction ops generalizing s tr with
  | nil => rfl
  | cons op ops ih =>
    simp only [runFrom]
    rw [send_commutes s id op (h op (by simp))]
    exact ih _ _ (fun o ho => h o (by simp [ho]))

/-- the checks of one expiry goroutine commute with the whole closure of another timer's -/
theorem check_commutes_other_expiry (s : State) (id y : Nat) (hne : y ≠ id) :
    (expireCheck (expire s y).1 id).1 = (expire (expireCheck s id).1 y).1 ∧
    (expireCheck (expire s y).1 id).2 = (expireCheck s id).2 := by
  have hne' : id ≠ y := fun e => hne e.symm
  unfold expire expireCheck
  by_cases h1 : ((s.tm id).armed && decide ((s.tm id).exp ≤ s.now)) = true <;>
  by_cases h2 : ((s.tm y).armed && decide ((s.tm y).exp ≤ s.now)) = true <;>
  cases hc : (s.tm y).cancelled <;> cases hr : s.running <;>
  (constructor
   · apply state_ext <;> simp [State.setTm, State.push, upd, h1, h2, hc, hr, hne, hne']
     all_goals (try (intro j; by_cases e1 : j = id <;> by_cases e2 : j = y <;> simp_all))
   · simp [State.setTm, State.push, upd, h1, h2, hc, hr, hne'])

end Cell2v.Timer
