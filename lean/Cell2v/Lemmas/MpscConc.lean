import Cell2v.Model.MpscConc
/-! helper lemmas for C09 (concurrent mpsc): the chain invariant and its consequences -/
namespace Cell2v.MpscConc

/-! ### heap access -/

theorem node_append_lt (h : List Node) (x : Node) (a : Nat) (ha : a < h.length) : node (h ++ [x]) a = node h a := by
  simp [node, List.getElem?_append_left ha]

theorem node_append_eq (h : List Node) (x : Node) : node (h ++ [x]) h.length = x := by
  simp [node]

theorem node_setNext_ne (h : List Node) (a n b : Nat) (hab : a ≠ b) : node (setNext h a n) b = node h b := by
  simp [node, setNext, List.getElem?_set_ne hab]

theorem node_setNext_same (h : List Node) (a n : Nat) (ha : a < h.length) :
    (node (setNext h a n) a).next = some n := by
  simp [node, setNext, ha]

theorem node_setNext_val (h : List Node) (a n b : Nat) : (node (setNext h a n) b).val = (node h b).val := by
  by_cases hab : a = b
  · subst hab
    by_cases ha : a < h.length
    · simp [node, setNext, ha]
    · have hl : h.length ≤ a := Nat.le_of_not_lt ha
      simp [node, setNext, hl]
  · rw [node_setNext_ne h a n b hab]

theorem node_clearVal_next (h : List Node) (a b : Nat) : (node (clearVal h a) b).next = (node h b).next := by
  by_cases hab : a = b
  · subst hab
    by_cases ha : a < h.length
    · simp [node, clearVal, ha]
    · have hl : h.length ≤ a := Nat.le_of_not_lt ha
      simp [node, clearVal, hl]
  · simp [node, clearVal, List.getElem?_set_ne hab]

theorem node_clearVal_ne (h : List Node) (a b : Nat) (hab : a ≠ b) : node (clearVal h a) b = node h b := by
  simp [node, clearVal, List.getElem?_set_ne hab]

@[simp] theorem length_setNext (h : List Node) (a n : Nat) : (setNext h a n).length = h.length := by simp [setNext]
@[simp] theorem length_clearVal (h : List Node) (a : Nat) : (clearVal h a).length = h.length := by simp [clearVal]

theorem inFl_iff (fl : List Flight) (n : Nat) : inFl fl n = true ↔ ∃ f ∈ fl, f.n = n := by
  simp [inFl]

theorem hasP_iff (fl : List Flight) (p : Nat) : hasP fl p = true ↔ ∃ f ∈ fl, f.p = p := by
  simp [hasP]

/-! ### the chain invariant

Nodes are numbered in swap order, so the pending nodes are `tail+1 … head`,
`pred (a+1) = a`; the link `a → a+1` exists iff the producer of `a+1` has linked. -/
structure CInv (s : St) : Prop where
  len : s.heap.length = s.head + 1
  tl : s.tail ≤ s.head
  nxt : ∀ a, a < s.head → (node s.heap a).next = if inFl s.fl (a + 1) then none else some (a + 1)
  hd : (node s.heap s.head).next = none
  flw : ∀ f ∈ s.fl, f.n = f.prev + 1 ∧ f.n ≤ s.head
  flp : ∀ f ∈ s.fl, ∀ g ∈ s.fl, f.p = g.p → f = g
  fln : ∀ f ∈ s.fl, ∀ g ∈ s.fl, f.n = g.n → f = g
  nd : s.fl.Nodup
  sw : s.swapped.length = s.head
  vals : ∀ a, s.tail ≤ a → a < s.head → (node s.heap (a + 1)).val = s.swapped[a]?
  dl : s.dlv = s.swapped.take s.tail

theorem cinv_init : CInv init := by
  constructor <;> simp [init, node]


/-! ### preservation -/

theorem cinv_swap (s : St) (p x : Nat) (h : CInv s) (hp : hasP s.fl p = false) :
    CInv { s with heap := s.heap ++ [{ val := some x, next := none }], head := s.heap.length,
                  fl := s.fl ++ [{ p := p, n := s.heap.length, prev := s.head }],
                  swapped := s.swapped ++ [x] } := by
  have hlen := h.len
  have hnp : ∀ f ∈ s.fl, f.p ≠ p := by
    intro f hf e
    have : hasP s.fl p = true := (hasP_iff _ _).mpr ⟨f, hf, e⟩
    simp [hp] at this
  constructor
  · simp
  · show s.tail ≤ s.heap.length
    have := h.tl; omega
  · show ∀ a, a < s.heap.length → _
    intro a ha
    simp only
    by_cases hah : a < s.head
    · rw [node_append_lt _ _ _ (by omega), h.nxt a hah]
      have : inFl (s.fl ++ [{ p := p, n := s.heap.length, prev := s.head }]) (a + 1) = inFl s.fl (a + 1) := by
        simp [inFl]; omega
      rw [this]
    · have e : a = s.head := by omega
      subst e
      rw [node_append_lt _ _ _ (by omega), h.hd]
      have : inFl (s.fl ++ [{ p := p, n := s.heap.length, prev := s.head }]) (s.head + 1) = true := by
        simp [inFl, hlen]
      rw [this]; rfl
  · show (node (s.heap ++ _) s.heap.length).next = none
    rw [node_append_eq]
  · intro f hf
    simp only [List.mem_append, List.mem_singleton] at hf
    rcases hf with hf | hf
    · have := h.flw f hf
      simp only; omega
    · subst hf; simp only; omega
  · intro f hf g hg e
    simp only [List.mem_append, List.mem_singleton] at hf hg
    rcases hf with hf | hf <;> rcases hg with hg | hg
    · exact h.flp f hf g hg e
    · subst hg; exact absurd e (hnp f hf)
    · subst hf; exact absurd e.symm (hnp g hg)
    · subst hf; subst hg; rfl
  · intro f hf g hg e
    simp only [List.mem_append, List.mem_singleton] at hf hg
    rcases hf with hf | hf <;> rcases hg with hg | hg
    · exact h.fln f hf g hg e
    · subst hg; have := (h.flw f hf).2; simp only at e; omega
    · subst hf; have := (h.flw g hg).2; simp only at e; omega
    · subst hf; subst hg; rfl
  · show (s.fl ++ [_]).Nodup
    refine List.nodup_append.mpr ⟨h.nd, by simp, ?_⟩
    intro f hf g hg e
    simp only [List.mem_singleton] at hg
    subst hg; subst e
    have := (h.flw _ hf).2; simp only at this; omega
  · simp [h.sw, hlen]
  · show ∀ a, s.tail ≤ a → a < s.heap.length → _
    intro a hta ha
    simp only
    by_cases hah : a < s.head
    · rw [node_append_lt _ _ _ (by omega), h.vals a hta hah, List.getElem?_append_left (by rw [h.sw]; exact hah)]
    · have e : a + 1 = s.heap.length := by omega
      rw [e, node_append_eq]
      have : a = s.swapped.length := by rw [h.sw]; omega
      subst this; simp
  · show s.dlv = (s.swapped ++ [x]).take s.tail
    rw [h.dl, List.take_append_of_le_length (by rw [h.sw]; exact h.tl)]

theorem cinv_link (s : St) (p : Nat) (f : Flight) (h : CInv s) (hf : s.fl.find? (·.p == p) = some f) :
    CInv { s with heap := setNext s.heap f.prev f.n, fl := s.fl.filter (·.p != p) } := by
  have hfm : f ∈ s.fl := List.mem_of_find?_eq_some hf
  have hfp : f.p = p := by have := List.find?_some hf; simpa using this
  obtain ⟨hfn, hfh⟩ := h.flw f hfm
  have hmem : ∀ g, g ∈ s.fl.filter (·.p != p) ↔ g ∈ s.fl ∧ g.p ≠ p := by
    intro g; simp [List.mem_filter]
  constructor
  · simp [h.len]
  · exact h.tl
  · intro a ha
    show (node (setNext s.heap f.prev f.n) a).next = if inFl (s.fl.filter (·.p != p)) (a + 1) then none else some (a + 1)
    by_cases hin : inFl (s.fl.filter (·.p != p)) (a + 1) = true
    · rw [hin]
      obtain ⟨g, hg, hgn⟩ := (inFl_iff _ _).mp hin
      obtain ⟨hg1, hg2⟩ := (hmem g).mp hg
      have hne : f.prev ≠ a := by
        intro e
        have : f = g := h.fln f hfm g hg1 (by omega)
        subst this; exact hg2 hfp
      rw [node_setNext_ne _ _ _ _ hne, h.nxt a ha]
      have : inFl s.fl (a + 1) = true := (inFl_iff _ _).mpr ⟨g, hg1, hgn⟩
      rw [this]
    · have hin' : inFl (s.fl.filter (·.p != p)) (a + 1) = false := by simpa using hin
      rw [hin']
      by_cases hold : inFl s.fl (a + 1) = true
      · obtain ⟨g, hg, hgn⟩ := (inFl_iff _ _).mp hold
        have hgp : g.p = p := by
          apply Classical.byContradiction
          intro hne
          have : inFl (s.fl.filter (·.p != p)) (a + 1) = true := (inFl_iff _ _).mpr ⟨g, (hmem g).mpr ⟨hg, hne⟩, hgn⟩
          rw [hin'] at this; cases this
        have : f = g := h.flp f hfm g hg (by rw [hfp, hgp])
        subst this
        have e : f.prev = a := by omega
        rw [← e, node_setNext_same _ _ _ (by rw [h.len]; omega)]
        simp; omega
      · have hold' : inFl s.fl (a + 1) = false := by simpa using hold
        have hne : f.prev ≠ a := by
          intro e
          have : inFl s.fl (a + 1) = true := (inFl_iff _ _).mpr ⟨f, hfm, by omega⟩
          rw [hold'] at this; cases this
        rw [node_setNext_ne _ _ _ _ hne, h.nxt a ha, hold']
  · show (node (setNext s.heap f.prev f.n) s.head).next = none
    rw [node_setNext_ne _ _ _ _ (by omega), h.hd]
  · intro g hg; exact h.flw g ((hmem g).mp hg).1
  · intro g hg g' hg' e; exact h.flp g ((hmem g).mp hg).1 g' ((hmem g').mp hg').1 e
  · intro g hg g' hg' e; exact h.fln g ((hmem g).mp hg).1 g' ((hmem g').mp hg').1 e
  · exact h.nd.sublist List.filter_sublist
  · exact h.sw
  · intro a hta ha
    show (node (setNext s.heap f.prev f.n) (a + 1)).val = _
    rw [node_setNext_val]; exact h.vals a hta ha
  · exact h.dl

/-- what a pop does in a state satisfying the invariant -/
theorem pop_cases (s : St) (h : CInv s) :
    ((node s.heap s.tail).next = none ∧ (s.tail = s.head ∨ (s.tail < s.head ∧ inFl s.fl (s.tail + 1) = true))) ∨
    (∃ x, (node s.heap s.tail).next = some (s.tail + 1) ∧ s.tail < s.head ∧ inFl s.fl (s.tail + 1) = false ∧
          (node s.heap (s.tail + 1)).val = some x ∧ s.swapped[s.tail]? = some x) := by
  by_cases ht : s.tail = s.head
  · left; rw [ht]; exact ⟨h.hd, .inl rfl⟩
  · have hlt : s.tail < s.head := by have := h.tl; omega
    have hn := h.nxt s.tail hlt
    by_cases hin : inFl s.fl (s.tail + 1) = true
    · left; rw [hin] at hn; exact ⟨hn, .inr ⟨hlt, hin⟩⟩
    · have hin' : inFl s.fl (s.tail + 1) = false := by simpa using hin
      right
      rw [hin'] at hn
      have hv := h.vals s.tail (Nat.le_refl _) hlt
      have hx : s.tail < s.swapped.length := by rw [h.sw]; exact hlt
      refine ⟨s.swapped[s.tail], hn, hlt, hin', ?_, ?_⟩
      · rw [hv]; exact List.getElem?_eq_getElem hx
      · exact List.getElem?_eq_getElem hx

theorem cinv_pop (s : St) (x : Nat) (h : CInv s) (hlt : s.tail < s.head) (hx : s.swapped[s.tail]? = some x) :
    CInv { s with tail := s.tail + 1, heap := clearVal s.heap (s.tail + 1), dlv := s.dlv ++ [x] } := by
  constructor
  · simp [h.len]
  · show s.tail + 1 ≤ s.head; omega
  · intro a ha
    show (node (clearVal s.heap (s.tail + 1)) a).next = _
    rw [node_clearVal_next]; exact h.nxt a ha
  · show (node (clearVal s.heap (s.tail + 1)) s.head).next = none
    rw [node_clearVal_next]; exact h.hd
  · exact h.flw
  · exact h.flp
  · exact h.fln
  · exact h.nd
  · exact h.sw
  · intro a hta ha
    show (node (clearVal s.heap (s.tail + 1)) (a + 1)).val = _
    have hta' : s.tail + 1 ≤ a := hta
    rw [node_clearVal_ne _ _ _ (by omega)]; exact h.vals a (by omega) ha
  · show s.dlv ++ [x] = s.swapped.take (s.tail + 1)
    rw [h.dl, List.take_add_one, hx]; rfl

/-- every step preserves the invariant -/
theorem cinv_step (s s' : St) (l : Lbl) (o : Obs) (h : CInv s) (hf : fire s l = some (s', o)) : CInv s' := by
  cases l with
  | swap p x =>
    simp only [fire] at hf
    split at hf
    · cases hf
    · rename_i hp
      simp only [Option.some.injEq, Prod.mk.injEq] at hf
      rw [← hf.1]
      exact cinv_swap s p x h (by simpa using hp)
  | link p =>
    simp only [fire] at hf
    split at hf
    · cases hf
    · rename_i f hfind
      simp only [Option.some.injEq, Prod.mk.injEq] at hf
      rw [← hf.1]
      exact cinv_link s p f h hfind
  | pop =>
    simp only [fire] at hf
    rcases pop_cases s h with ⟨hn, _⟩ | ⟨x, hn, hlt, _, hv, hx⟩
    · rw [hn] at hf
      simp only [Option.some.injEq, Prod.mk.injEq] at hf
      rw [← hf.1]; exact h
    · rw [hn] at hf
      simp only [hv, Option.some.injEq, Prod.mk.injEq] at hf
      rw [← hf.1]
      exact cinv_pop s x h hlt hx
  | empty =>
    simp only [fire, Option.some.injEq, Prod.mk.injEq] at hf
    rw [← hf.1]; exact h

theorem cinv_run (ls : List Lbl) (s s' : St) (os : List Obs) (h : CInv s) (hr : runL s ls = some (s', os)) : CInv s' := by
  induction ls generalizing s os with
  | nil => simp only [runL, Option.some.injEq, Prod.mk.injEq] at hr; rw [← hr.1]; exact h
  | cons l ls ih =>
    simp only [runL] at hr
    split at hr
    · cases hr
    · rename_i s1 o1 hf
      split at hr
      · cases hr
      · rename_i s2 os2 hr2
        simp only [Option.some.injEq, Prod.mk.injEq] at hr
        rw [hr.1] at hr2
        exact ih s1 os2 (cinv_step s s1 l o1 h hf) hr2


/-! ### ghost logs = what the schedule swapped / what the consumer observed -/

theorem fire_logs (s s' : St) (l : Lbl) (o : Obs) (hf : fire s l = some (s', o)) :
    s'.swapped = s.swapped ++ (swapsOf [l]).map (·.2) ∧ s'.dlv = s.dlv ++ deliveredOf [o] := by
  cases l with
  | swap p x =>
    simp only [fire] at hf
    split at hf
    · cases hf
    · simp only [Option.some.injEq, Prod.mk.injEq] at hf
      rw [← hf.1, ← hf.2]; simp [swapsOf, deliveredOf]
  | link p =>
    simp only [fire] at hf
    split at hf
    · cases hf
    · simp only [Option.some.injEq, Prod.mk.injEq] at hf
      rw [← hf.1, ← hf.2]; simp [swapsOf, deliveredOf]
  | pop =>
    simp only [fire] at hf
    split at hf
    · rename_i nx hn
      simp only [Option.some.injEq, Prod.mk.injEq] at hf
      rw [← hf.1, ← hf.2]
      cases hv : (node s.heap nx).val <;> simp [swapsOf, deliveredOf]
    · simp only [Option.some.injEq, Prod.mk.injEq] at hf
      rw [← hf.1, ← hf.2]; simp [swapsOf, deliveredOf]
  | empty =>
    simp only [fire, Option.some.injEq, Prod.mk.injEq] at hf
    rw [← hf.1, ← hf.2]; simp [swapsOf, deliveredOf]

theorem swapsOf_cons (l : Lbl) (ls : List Lbl) : swapsOf (l :: ls) = swapsOf [l] ++ swapsOf ls := by
  cases l <;> simp [swapsOf]

theorem deliveredOf_cons (o : Obs) (os : List Obs) : deliveredOf (o :: os) = deliveredOf [o] ++ deliveredOf os := by
  cases o with
  | popped v => cases v <;> simp [deliveredOf]
  | _ => simp [deliveredOf]

theorem run_logs (ls : List Lbl) (s s' : St) (os : List Obs) (hr : runL s ls = some (s', os)) :
    s'.swapped = s.swapped ++ (swapsOf ls).map (·.2) ∧ s'.dlv = s.dlv ++ deliveredOf os := by
  induction ls generalizing s os with
  | nil =>
    simp only [runL, Option.some.injEq, Prod.mk.injEq] at hr
    rw [← hr.1, ← hr.2]; simp [swapsOf, deliveredOf]
  | cons l ls ih =>
    simp only [runL] at hr
    split at hr
    · cases hr
    · rename_i s1 o1 hf
      split at hr
      · cases hr
      · rename_i s2 os2 hr2
        simp only [Option.some.injEq, Prod.mk.injEq] at hr
        rw [hr.1] at hr2
        obtain ⟨a1, a2⟩ := fire_logs s s1 l o1 hf
        obtain ⟨b1, b2⟩ := ih s1 os2 hr2
        rw [← hr.2, swapsOf_cons, deliveredOf_cons, b1, b2, a1, a2]
        simp

theorem runL_append (a b : List Lbl) (s s1 s2 : St) (o1 o2 : List Obs)
    (h1 : runL s a = some (s1, o1)) (h2 : runL s1 b = some (s2, o2)) : runL s (a ++ b) = some (s2, o1 ++ o2) := by
  induction a generalizing s o1 with
  | nil =>
    simp only [runL, Option.some.injEq, Prod.mk.injEq] at h1
    rw [← h1.2, h1.1]; simpa using h2
  | cons l ls ih =>
    simp only [runL] at h1
    split at h1
    · cases h1
    · rename_i s' o' hf
      split at h1
      · cases h1
      · rename_i s'' os'' hr
        simp only [Option.some.injEq, Prod.mk.injEq] at h1
        rw [h1.1] at hr
        have := ih s' os'' hr
        simp only [List.cons_append, runL, hf, this]
        rw [← h1.2]; rfl

/-! ### pop, exactly -/

theorem fire_pop_some (s : St) (h : CInv s) (hlt : s.tail < s.head) (hin : inFl s.fl (s.tail + 1) = false) :
    ∃ x, s.swapped[s.tail]? = some x ∧
      fire s .pop = some ({ s with tail := s.tail + 1, heap := clearVal s.heap (s.tail + 1), dlv := s.dlv ++ [x] }, .popped (some x)) := by
  rcases pop_cases s h with ⟨_, h2⟩ | ⟨x, hn, _, _, hv, hx⟩
  · rcases h2 with h2 | h2
    · omega
    · rw [hin] at h2; cases h2.2
  · exact ⟨x, hx, by simp [fire, hn, hv]⟩

theorem fire_pop_none (s : St) (h : CInv s) (hb : s.tail = s.head ∨ inFl s.fl (s.tail + 1) = true) :
    fire s .pop = some (s, .popped none) ∧ fire s .empty = some (s, .isEmpty true) := by
  rcases pop_cases s h with ⟨hn, _⟩ | ⟨x, _, hlt, hin, _, _⟩
  · simp [fire, hn]
  · rcases hb with hb | hb
    · omega
    · rw [hin] at hb; cases hb

/-! ### what is reachable from `tail` -/

theorem walk_spec (s : St) (h : CInv s) : ∀ k a, s.tail ≤ a → a ≤ s.head → s.head - a < k →
    ∃ m, a + m ≤ s.head ∧ walk s.heap k a = (s.swapped.drop a).take m ∧
      (∀ b, a < b → b ≤ a + m → inFl s.fl b = false) ∧
      (a + m = s.head ∨ inFl s.fl (a + m + 1) = true) := by
  intro k
  induction k with
  | zero => intro a _ _ hk; omega
  | succ k ih =>
    intro a hta hah hk
    by_cases hae : a = s.head
    · refine ⟨0, by omega, ?_, by intro b h1 h2; omega, .inl (by omega)⟩
      simp [walk, hae, h.hd]
    · have hlt : a < s.head := by omega
      have hn := h.nxt a hlt
      by_cases hin : inFl s.fl (a + 1) = true
      · rw [hin] at hn
        simp only [if_true] at hn
        refine ⟨0, by omega, ?_, by intro b h1 h2; omega, .inr hin⟩
        simp [walk, hn]
      · have hin' : inFl s.fl (a + 1) = false := by simpa using hin
        rw [hin'] at hn
        simp only [Bool.false_eq_true, if_false] at hn
        obtain ⟨m, hm1, hm2, hm3, hm4⟩ := ih (a + 1) (by omega) (by omega) (by omega)
        have hx : a < s.swapped.length := by rw [h.sw]; exact hlt
        refine ⟨m + 1, by omega, ?_, ?_, ?_⟩
        · simp only [walk, hn]
          rw [hm2, h.vals a hta hlt, List.getElem?_eq_getElem hx, List.drop_eq_getElem_cons hx, List.take_succ_cons]
          rfl
        · intro b h1 h2
          by_cases hb : b = a + 1
          · rw [hb]; exact hin'
          · exact hm3 b (by omega) (by omega)
        · have e : a + (m + 1) = a + 1 + m := by omega
          rw [e]; exact hm4

/-! ### progress -/

theorem link_first (s : St) (f : Flight) (rest : List Flight) (h : CInv s) (hfl : s.fl = f :: rest) :
    fire s (.link f.p) = some ({ s with heap := setNext s.heap f.prev f.n, fl := rest }, .done) := by
  have hnot : ∀ g ∈ rest, g.p ≠ f.p := by
    intro g hg e
    have hnd := h.nd
    rw [hfl] at hnd
    have : g = f := (h.flp g (by rw [hfl]; exact List.mem_cons_of_mem _ hg) f (by rw [hfl]; exact List.mem_cons_self) e)
    subst this
    exact (List.nodup_cons.mp hnd).1 hg
  have hfilt : rest.filter (fun g => g.p != f.p) = rest := by
    apply List.filter_eq_self.mpr
    intro g hg; simpa using hnot g hg
  simp [fire, hfl, hfilt]

theorem links_all (n : Nat) : ∀ s : St, CInv s → s.fl.length = n →
    ∃ s' os, runL s (s.fl.map fun f => .link f.p) = some (s', os) ∧ CInv s' ∧ s'.fl = [] ∧
      s'.head = s.head ∧ s'.tail = s.tail ∧ s'.swapped = s.swapped ∧ s'.dlv = s.dlv ∧ deliveredOf os = [] := by
  induction n with
  | zero =>
    intro s h hl
    have : s.fl = [] := List.eq_nil_of_length_eq_zero hl
    exact ⟨s, [], by simp [this, runL], h, this, rfl, rfl, rfl, rfl, rfl⟩
  | succ n ih =>
    intro s h hl
    cases hfl : s.fl with
    | nil => rw [hfl] at hl; cases hl
    | cons f rest =>
      have hf := link_first s f rest h hfl
      have h1 := cinv_step _ _ _ _ h hf
      obtain ⟨s', os, hr, hc, he, a1, a2, a3, a4, a5⟩ := ih _ h1 (by rw [hfl] at hl; simpa using hl)
      refine ⟨s', .done :: os, ?_, hc, he, a1, a2, a3, a4, ?_⟩
      · simp only [List.map_cons, runL, hf]
        simp only at hr
        rw [hr]
      · simpa [deliveredOf] using a5

theorem pops_all (k : Nat) : ∀ s : St, CInv s → s.fl = [] → s.head - s.tail = k →
    ∃ s' os, runL s (List.replicate k .pop) = some (s', os) ∧ CInv s' ∧ s'.fl = [] ∧ s'.tail = s.head ∧
      s'.head = s.head ∧ s'.swapped = s.swapped ∧ deliveredOf os = s.swapped.drop s.tail := by
  induction k with
  | zero =>
    intro s h hfl hk
    have ht : s.tail = s.head := by have := h.tl; omega
    refine ⟨s, [], by simp [runL], h, hfl, ht, rfl, rfl, ?_⟩
    rw [ht, ← h.sw]; simp [deliveredOf]
  | succ k ih =>
    intro s h hfl hk
    have hlt : s.tail < s.head := by omega
    obtain ⟨x, hx, hf⟩ := fire_pop_some s h hlt (by simp [hfl, inFl])
    have h1 := cinv_step _ _ _ _ h hf
    obtain ⟨s', os, hr, hc, he, a1, a2, a3, a4⟩ := ih _ h1 hfl (by show s.head - (s.tail + 1) = k; omega)
    refine ⟨s', .popped (some x) :: os, ?_, hc, he, a1, a2, a3, ?_⟩
    · simp only [List.replicate_succ, runL, hf]
      rw [hr]
    · have hxl : s.tail < s.swapped.length := by rw [h.sw]; exact hlt
      simp only [deliveredOf, a4]
      rw [List.drop_eq_getElem_cons hxl]
      rw [List.getElem?_eq_getElem hxl] at hx
      simp only [Option.some.injEq] at hx
      rw [hx]

end Cell2v.MpscConc
