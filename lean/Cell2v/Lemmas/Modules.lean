import Cell2v.Model.Modules
/-! helper lemmas for C11 (property theorems live in `Props/C11.lean`) -/
namespace Cell2v.Modules

/-! ### abstract machine over an arbitrary visiting order -/

def adoNow (order : List Nat) (pos : Nat) : List Ev :=
  match order[pos]? with
  | some m => [.enter m]
  | none => [.finish true]

def anext (order : List Nat) (pos : Nat) (b : Bool) : Nat × List Ev :=
  if !b then (pos, [.finish false]) else (pos + 1, adoNow order (pos + 1))

def arunFrom (order : List Nat) (pos : Nat) (tr : List Ev) : List (Nat × Bool) → Nat × List Ev
  | [] => (pos, tr)
  | (w, b) :: cs => arunFrom order (anext order pos b).1 (tr ++ .call w b :: (anext order pos b).2) cs

def arun (order : List Nat) (cs : List (Nat × Bool)) : List Ev :=
  (arunFrom order 0 (adoNow order 0) cs).2

theorem arunFrom_prefix (order : List Nat) : ∀ (cs : List (Nat × Bool)) (pos : Nat) (tr : List Ev),
    ∃ rest, (arunFrom order pos tr cs).2 = tr ++ rest := by
  intro cs
  induction cs with
  | nil => intro pos tr; exact ⟨[], by simp [arunFrom]⟩
  | cons c cs ih =>
    intro pos tr
    obtain ⟨w, b⟩ := c
    obtain ⟨rest, h⟩ := ih (anext order pos b).1 (tr ++ .call w b :: (anext order pos b).2)
    exact ⟨.call w b :: (anext order pos b).2 ++ rest, by simp [arunFrom, h]⟩

/-! ### refinement: the index arithmetic of `Filter` realises the abstract machine -/

theorem ord_length (n : Nat) (fwd : Bool) : (ord n fwd).length = n := by
  cases fwd <;> simp [ord]

theorem ord_getElem? (n : Nat) (fwd : Bool) (k : Nat) :
    (ord n fwd)[k]? = if k < n then some (if fwd then k else n - 1 - k) else none := by
  cases fwd
  · simp only [ord, Bool.false_eq_true, ↓reduceIte]
    by_cases h : k < n
    · simp [h]
    · simp [h]
  · simp only [ord, ↓reduceIte]
    by_cases h : k < n <;> simp [h]

/-- the relation between the concrete closure state and the abstract position -/
def Rel (s : ML) (k : Nat) : Prop :=
  if s.fwd then s.idx = (k : Int) else s.idx = (s.n : Int) - 1 - (k : Int)

theorem doNow_eq (s : ML) (k : Nat) (h : Rel s k) : s.doNow = adoNow (ord s.n s.fwd) k := by
  obtain ⟨n, fwd, idx⟩ := s
  cases fwd
  · simp only [Rel, Bool.false_eq_true, ↓reduceIte] at h
    simp only [ML.doNow, adoNow, ord_getElem?, Bool.false_eq_true, ↓reduceIte]
    by_cases hk : k < n
    · have h1 : ¬ idx < 0 := by omega
      have h2 : idx < (n : Int) := by omega
      have h3 : idx.toNat = n - 1 - k := by omega
      simp [hk, h1, h2, h3]
    · have h1 : idx < 0 := by omega
      simp [hk, h1]
  · simp only [Rel, ↓reduceIte] at h
    simp only [ML.doNow, adoNow, ord_getElem?, ↓reduceIte]
    by_cases hk : k < n
    · have h1 : ¬ idx ≥ (n : Int) := by omega
      have h2 : 0 ≤ idx := by omega
      have h3 : idx.toNat = k := by omega
      simp [hk, h1, h2, h3]
    · have h1 : idx ≥ (n : Int) := by omega
      simp [hk, h1]

theorem next_eq (s : ML) (k : Nat) (b : Bool) (h : Rel s k) :
    (s.next b).2 = (anext (ord s.n s.fwd) k b).2 ∧ Rel (s.next b).1 (anext (ord s.n s.fwd) k b).1 ∧
    (s.next b).1.n = s.n ∧ (s.next b).1.fwd = s.fwd := by
  cases b
  · simp [ML.next, anext, h]
  · have hr : Rel { s with idx := if s.fwd then s.idx + 1 else s.idx - 1 } (k + 1) := by
      obtain ⟨n, fwd, idx⟩ := s
      cases fwd <;> simp [Rel] at h ⊢ <;> omega
    have := doNow_eq _ (k + 1) hr
    simp only [ML.next, anext, Bool.not_true, Bool.false_eq_true, ↓reduceIte]
    exact ⟨this, hr, trivial, trivial⟩

theorem runFrom_eq : ∀ (cs : List (Nat × Bool)) (s : ML) (k : Nat) (tr : List Ev), Rel s k →
    (runFrom s tr cs).2 = (arunFrom (ord s.n s.fwd) k tr cs).2 := by
  intro cs
  induction cs with
  | nil => intro s k tr _; rfl
  | cons c cs ih =>
    intro s k tr h
    obtain ⟨w, b⟩ := c
    obtain ⟨h1, h2, h3, h4⟩ := next_eq s k b h
    simp only [runFrom, arunFrom]
    rw [ih (s.next b).1 (anext (ord s.n s.fwd) k b).1 _ h2, h1, h3, h4]

theorem filter_rel (n : Nat) (fwd : Bool) : Rel (filter n fwd).1 0 ∧ (filter n fwd).1.n = n ∧
    (filter n fwd).1.fwd = fwd ∧ (filter n fwd).2 = adoNow (ord n fwd) 0 := by
  have hr : Rel ⟨n, fwd, if fwd then 0 else (n : Int) - 1⟩ 0 := by cases fwd <;> simp [Rel]
  have hd := doNow_eq _ 0 hr
  by_cases h0 : n = 0
  · subst h0
    refine ⟨by simpa [filter] using hr, by simp [filter], by simp [filter], ?_⟩
    simp [filter, adoNow, ord_getElem?]
  · refine ⟨by simpa [filter, h0] using hr, by simp [filter, h0], by simp [filter, h0], ?_⟩
    simpa [filter, h0] using hd

/-- **refinement**: for every completion sequence (disciplined or not) the log of
the concrete `Filter` closures is the log of the abstract machine over `ord n fwd` -/
theorem run_eq_arun (n : Nat) (fwd : Bool) (cs : List (Nat × Bool)) :
    run n fwd cs = arun (ord n fwd) cs := by
  obtain ⟨h1, h2, h3, h4⟩ := filter_rel n fwd
  have := runFrom_eq cs (filter n fwd).1 0 (filter n fwd).2 h1
  rw [h2, h3] at this
  simp only [run, arun]
  rw [← h4]
  exact this

/-! ### the shape of a disciplined log -/

def okPart (l : List Nat) : List Ev := l.flatMap fun m => [.enter m, .call m true]

theorem okPart_append (a b : List Nat) : okPart (a ++ b) = okPart a ++ okPart b := by
  simp [okPart]

theorem mem_okPart_enter (l : List Nat) (w : Nat) : Ev.enter w ∈ okPart l ↔ w ∈ l := by
  simp [okPart]

theorem mem_okPart_call (l : List Nat) (w : Nat) (b : Bool) : Ev.call w b ∈ okPart l ↔ w ∈ l ∧ b = true := by
  simp [okPart]; constructor
  · rintro ⟨a, ha, rfl, rfl⟩; exact ⟨ha, rfl⟩
  · rintro ⟨ha, rfl⟩; exact ⟨w, ha, rfl, rfl⟩

inductive Shape (order : List Nat) : List Ev → Prop
  | running (k m : Nat) : order[k]? = some m → Shape order (okPart (order.take k) ++ [.enter m])
  | failed (k m : Nat) : order[k]? = some m →
      Shape order (okPart (order.take k) ++ [.enter m, .call m false, .finish false])
  | done : Shape order (okPart order ++ [.finish true])

/-- position of the abstract machine that goes with a shape -/
def Shape.posOK (order : List Nat) (pos : Nat) (tr : List Ev) : Prop :=
  (∃ m, order[pos]? = some m ∧ tr = okPart (order.take pos) ++ [.enter m]) ∨
  (∃ k m, order[k]? = some m ∧ tr = okPart (order.take k) ++ [.enter m, .call m false, .finish false]) ∨
  (tr = okPart order ++ [.finish true])

theorem posOK_shape {order pos tr} (h : Shape.posOK order pos tr) : Shape order tr := by
  rcases h with ⟨m, hm, rfl⟩ | ⟨k, m, hm, rfl⟩ | rfl
  · exact .running pos m hm
  · exact .failed k m hm
  · exact .done

theorem posOK_init (order : List Nat) : Shape.posOK order 0 (adoNow order 0) := by
  unfold adoNow
  cases h : order[0]? with
  | some m => exact .inl ⟨m, h, by simp [okPart]⟩
  | none =>
    have : order = [] := by cases order <;> simp_all
    subst this
    exact .inr (.inr (by simp [okPart]))

theorem posOK_step {order pos tr} (h : Shape.posOK order pos tr) (w : Nat) (b : Bool)
    (hl : Ev.enter w ∈ tr ∧ ∀ b', Ev.call w b' ∉ tr) :
    Shape.posOK order (anext order pos b).1 (tr ++ .call w b :: (anext order pos b).2) := by
  rcases h with ⟨m, hm, rfl⟩ | ⟨k, m, hm, rfl⟩ | rfl
  · -- running: the only module that may complete is m
    obtain ⟨he, hc⟩ := hl
    have hw : w = m := by
      have h1 := hc true
      simp only [List.mem_append, mem_okPart_enter, mem_okPart_call, List.mem_singleton, Ev.enter.injEq,
        reduceCtorEq, or_false, and_true] at he h1
      rcases he with he | he
      · exact absurd he h1
      · exact he
    subst hw
    cases b
    · exact .inr (.inl ⟨pos, w, hm, by simp [anext]⟩)
    · have htake : order.take (pos + 1) = order.take pos ++ [w] := by
        rw [List.take_add_one, hm]; rfl
      simp only [anext, Bool.not_true, Bool.false_eq_true, ↓reduceIte, adoNow]
      cases hn : order[pos + 1]? with
      | some m' =>
        refine .inl ⟨m', hn, ?_⟩
        rw [htake, okPart_append]
        simp [okPart]
      | none =>
        refine .inr (.inr ?_)
        have hlen : order.length ≤ pos + 1 := by
          rcases Nat.lt_or_ge (pos + 1) order.length with h | h
          · rw [List.getElem?_eq_getElem h] at hn; cases hn
          · exact h
        have : order = order.take pos ++ [w] := by
          rw [← htake, List.take_of_length_le hlen]
        conv => rhs; rw [this, okPart_append]
        simp [okPart]
  · -- failed: every entered module has completed
    exfalso
    obtain ⟨he, hc⟩ := hl
    simp only [List.mem_append, mem_okPart_enter, List.mem_cons, Ev.enter.injEq, reduceCtorEq,
      List.not_mem_nil, or_false] at he
    rcases he with he | he
    · exact hc true (by simp [mem_okPart_call, he])
    · subst he; exact hc false (by simp)
  · exfalso
    obtain ⟨he, hc⟩ := hl
    simp only [List.mem_append, mem_okPart_enter, List.mem_singleton, reduceCtorEq, or_false] at he
    exact hc true (by simp [mem_okPart_call, he])

theorem posOK_arunFrom (order : List Nat) : ∀ (cs : List (Nat × Bool)) (pos : Nat) (tr : List Ev),
    Shape.posOK order pos tr → Disciplined (arunFrom order pos tr cs).2 →
    ∃ pos', Shape.posOK order pos' (arunFrom order pos tr cs).2 := by
  intro cs
  induction cs with
  | nil => intro pos tr h _; exact ⟨pos, h⟩
  | cons c cs ih =>
    intro pos tr h hd
    obtain ⟨w, b⟩ := c
    simp only [arunFrom] at hd ⊢
    obtain ⟨rest, hrest⟩ := arunFrom_prefix order cs (anext order pos b).1 (tr ++ .call w b :: (anext order pos b).2)
    have hl := hd tr w b ((anext order pos b).2 ++ rest) (by rw [hrest]; simp)
    exact ih _ _ (posOK_step h w b hl) hd

/-- a disciplined log of the abstract machine has one of the three canonical shapes -/
theorem shape_of_disciplined (order : List Nat) (cs : List (Nat × Bool))
    (hd : Disciplined (arun order cs)) : Shape order (arun order cs) := by
  obtain ⟨_, h⟩ := posOK_arunFrom order cs 0 _ (posOK_init order) hd
  exact posOK_shape h

/-! ### projections -/

@[simp] theorem enters_append (a b : List Ev) : enters (a ++ b) = enters a ++ enters b := by
  induction a with
  | nil => rfl
  | cons e a ih => cases e <;> simp [enters, ih]

@[simp] theorem calls_append (a b : List Ev) : calls (a ++ b) = calls a ++ calls b := by
  induction a with
  | nil => rfl
  | cons e a ih => cases e <;> simp [calls, ih]

@[simp] theorem finishes_append (a b : List Ev) : finishes (a ++ b) = finishes a ++ finishes b := by
  induction a with
  | nil => rfl
  | cons e a ih => cases e <;> simp [finishes, ih]

@[simp] theorem enters_okPart (l : List Nat) : enters (okPart l) = l := by
  induction l with
  | nil => rfl
  | cons a l ih => simpa [okPart, enters] using ih

@[simp] theorem calls_okPart (l : List Nat) : calls (okPart l) = l.map fun m => (m, true) := by
  induction l with
  | nil => rfl
  | cons a l ih => simpa [okPart, calls] using ih

@[simp] theorem finishes_okPart (l : List Nat) : finishes (okPart l) = [] := by
  induction l with
  | nil => rfl
  | cons a l ih => simpa [okPart, finishes] using ih

theorem mem_enters (tr : List Ev) (m : Nat) : m ∈ enters tr ↔ Ev.enter m ∈ tr := by
  induction tr with
  | nil => simp [enters]
  | cons e tr ih => cases e <;> simp [enters, ih]

theorem mem_calls (tr : List Ev) (w : Nat) (b : Bool) : (w, b) ∈ calls tr ↔ Ev.call w b ∈ tr := by
  induction tr with
  | nil => simp [calls]
  | cons e tr ih => cases e <;> simp [calls, ih]

theorem getElem?_split {α} : ∀ (l : List α) (k : Nat) (m : α), l[k]? = some m → ∃ r, l = l.take k ++ m :: r := by
  intro l
  induction l with
  | nil => intro k m h; simp at h
  | cons a l ih =>
    intro k m h
    cases k with
    | zero => simp at h; subst h; exact ⟨l, by simp⟩
    | succ k =>
      simp at h
      obtain ⟨r, hr⟩ := ih k m h
      exact ⟨r, by simp; exact hr⟩

/-! ### consequences of the canonical shape -/

theorem canonB_okPart (l rest : List Nat) (tl : List Ev) :
    canonB (l ++ rest) (okPart l ++ tl) = canonB rest tl := by
  induction l with
  | nil => simp [okPart]
  | cons a l ih =>
    have : okPart (a :: l) ++ tl = Ev.enter a :: Ev.call a true :: (okPart l ++ tl) := by simp [okPart]
    rw [this, List.cons_append, canonB]
    simp [ih]

theorem Shape.canon {order tr} (h : Shape order tr) : canonB order tr = true := by
  cases h with
  | running k m hm =>
    obtain ⟨r, hr⟩ := getElem?_split order k m hm
    conv => lhs; arg 1; rw [hr]
    rw [canonB_okPart]; simp [canonB]
  | failed k m hm =>
    obtain ⟨r, hr⟩ := getElem?_split order k m hm
    conv => lhs; arg 1; rw [hr]
    rw [canonB_okPart]; simp [canonB]
  | done =>
    have := canonB_okPart order [] [Ev.finish true]
    simp only [List.append_nil] at this
    rw [this]; simp [canonB]

theorem Shape.enters_prefix {order tr} (h : Shape order tr) : enters tr <+: order := by
  cases h with
  | running k m hm =>
    obtain ⟨r, hr⟩ := getElem?_split order k m hm
    refine ⟨r, ?_⟩
    simp [enters]; exact hr.symm
  | failed k m hm =>
    obtain ⟨r, hr⟩ := getElem?_split order k m hm
    refine ⟨r, ?_⟩
    simp [enters]; exact hr.symm
  | done => simp [enters]

theorem Shape.finishes_le {order tr} (h : Shape order tr) : (finishes tr).length ≤ 1 := by
  cases h <;> simp [finishes]

theorem split_unique {α} (P : α → Prop) : ∀ (A p : List α) (x : α) (q B : List α),
    (∀ a ∈ A, ¬ P a) → P x → p ++ x :: q = A ++ B → ∃ B1, B = B1 ++ x :: q ∧ p = A ++ B1 := by
  intro A
  induction A with
  | nil => intro p x q B _ _ h; exact ⟨p, by simpa using h.symm, by simp⟩
  | cons a A ih =>
    intro p x q B hA hx h
    cases p with
    | nil =>
      simp at h
      exact absurd (h.1 ▸ hx) (hA a (by simp))
    | cons y p =>
      simp at h
      obtain ⟨B1, h1, h2⟩ := ih p x q B (fun a' ha' => hA a' (by simp [ha'])) hx h.2
      exact ⟨B1, h1, by simp [h.1, h2]⟩

theorem Shape.after_failure {order tr} (h : Shape order tr) (p : List Ev) (w : Nat) (q : List Ev)
    (heq : tr = p ++ Ev.call w false :: q) : q = [Ev.finish false] := by
  have hmem : Ev.call w false ∈ tr := by rw [heq]; simp
  cases h with
  | running k m hm => simp [mem_okPart_call] at hmem
  | done => simp [mem_okPart_call] at hmem
  | failed k m hm =>
    have hsplit : p ++ Ev.call w false :: q = (okPart (order.take k) ++ [Ev.enter m]) ++ [Ev.call m false, Ev.finish false] := by
      rw [← heq]; simp
    obtain ⟨B1, h1, _⟩ := split_unique (fun e => ∃ w', e = Ev.call w' false) _ p _ q _
      (by
        intro a ha
        simp only [List.mem_append, List.mem_singleton] at ha
        rintro ⟨w', rfl⟩
        rcases ha with ha | ha
        · simp [mem_okPart_call] at ha
        · cases ha) ⟨w, rfl⟩ hsplit
    cases B1 with
    | nil => simp at h1; exact h1.2.symm
    | cons x B1 =>
      cases B1 with
      | nil => simp at h1
      | cons y B1 => simp at h1

theorem okPart_split : ∀ (l : List Nat) (t p : List Ev) (m : Nat) (q : List Ev),
    okPart l ++ t = p ++ Ev.enter m :: q →
    (∃ l1, p = okPart l1) ∨ (∃ t1, p = okPart l ++ t1 ∧ t = t1 ++ Ev.enter m :: q) := by
  intro l
  induction l with
  | nil => intro t p m q h; exact .inr ⟨p, by simp [okPart], by simpa [okPart] using h⟩
  | cons a l ih =>
    intro t p m q h
    have e : okPart (a :: l) ++ t = Ev.enter a :: Ev.call a true :: (okPart l ++ t) := by simp [okPart]
    rw [e] at h
    cases p with
    | nil => exact .inl ⟨[], rfl⟩
    | cons x p =>
      cases p with
      | nil => simp at h
      | cons y p =>
        simp only [List.cons_append, List.cons.injEq] at h
        obtain ⟨rfl, rfl, h⟩ := h
        rcases ih t p m q h with ⟨l1, rfl⟩ | ⟨t1, rfl, ht⟩
        · exact .inl ⟨a :: l1, by simp [okPart]⟩
        · exact .inr ⟨t1, by simp [okPart], ht⟩

theorem Shape.before_enter {order tr} (h : Shape order tr) (p : List Ev) (m : Nat) (q : List Ev)
    (heq : tr = p ++ Ev.enter m :: q) : ∃ l1, p = okPart l1 := by
  cases h with
  | running k m0 hm =>
    rcases okPart_split _ _ p m q heq with h1 | ⟨t1, rfl, ht⟩
    · exact h1
    · cases t1 with
      | nil => exact ⟨order.take k, by simp⟩
      | cons x t1 => simp at ht
  | failed k m0 hm =>
    rcases okPart_split _ _ p m q heq with h1 | ⟨t1, rfl, ht⟩
    · exact h1
    · cases t1 with
      | nil => exact ⟨order.take k, by simp⟩
      | cons x t1 =>
        cases t1 with
        | nil => simp at ht
        | cons y t1 =>
          cases t1 with
          | nil => simp at ht
          | cons z t1 => simp at ht
  | done =>
    rcases okPart_split _ _ p m q heq with h1 | ⟨t1, rfl, ht⟩
    · exact h1
    · cases t1 with
      | nil => simp at ht
      | cons x t1 => simp at ht

theorem nodup_not_mem_take {order : List Nat} (hn : order.Nodup) {k m : Nat} (hm : order[k]? = some m) :
    m ∉ order.take k := by
  obtain ⟨r, hr⟩ := getElem?_split order k m hm
  rw [hr] at hn
  have := (List.nodup_append.mp hn).2.2
  intro hmem
  exact this m hmem m (by simp) rfl

theorem Shape.complete {order tr} (h : Shape order tr) (hn : order.Nodup) (hc : Complete tr) :
    ∃ b, finishes tr = [b] ∧ tr.getLast? = some (Ev.finish b) ∧
      (b = true ↔ (enters tr = order ∧ ∀ w b', Ev.call w b' ∈ tr → b' = true)) := by
  cases h with
  | running k m hm =>
    exfalso
    obtain ⟨b, hb⟩ := hc m (by simp)
    simp [mem_okPart_call] at hb
    exact nodup_not_mem_take hn hm hb.1
  | failed k m hm =>
    refine ⟨false, by simp [finishes], by simp, ?_⟩
    constructor
    · intro h; cases h
    · rintro ⟨_, h2⟩
      have := h2 m false (by simp)
      cases this
  | done =>
    refine ⟨true, by simp [finishes], by simp, ?_⟩
    constructor
    · intro _
      refine ⟨by simp [enters], ?_⟩
      intro w b' hmem
      simp [mem_okPart_call] at hmem
      exact hmem.2
    · intro _; rfl

theorem nodup_reverse' (l : List Nat) (h : l.Nodup) : l.reverse.Nodup := by
  unfold List.Nodup at *
  rw [List.pairwise_reverse]
  exact h.imp (fun hab => Ne.symm hab)

theorem ord_nodup (n : Nat) (fwd : Bool) : (ord n fwd).Nodup := by
  cases fwd
  · simpa [ord] using nodup_reverse' _ List.nodup_range
  · simpa [ord] using List.nodup_range

/-! ### what holds for any behaviour of the modules -/

theorem enters_sublist_arunFrom (order : List Nat) : ∀ (cs : List (Nat × Bool)) (pos : Nat) (tr : List Ev),
    (enters tr).Sublist (order.take (pos + 1)) →
    (enters (arunFrom order pos tr cs).2).Sublist order := by
  intro cs
  induction cs with
  | nil => intro pos tr h; exact h.trans (List.take_sublist _ _)
  | cons c cs ih =>
    intro pos tr h
    obtain ⟨w, b⟩ := c
    simp only [arunFrom]
    apply ih
    cases b
    · simpa [anext, enters] using h
    · simp only [anext, Bool.not_true, Bool.false_eq_true, ↓reduceIte, adoNow]
      cases hn : order[pos + 1]? with
      | some m' =>
        rw [List.take_add_one (i := pos + 1), hn]
        simp only [enters_append, enters, Option.toList_some]
        exact List.Sublist.append h (List.Sublist.refl _)
      | none =>
        have hlen : order.length ≤ pos + 1 := by
          rcases Nat.lt_or_ge (pos + 1) order.length with h | h
          · rw [List.getElem?_eq_getElem h] at hn; cases hn
          · exact h
        rw [List.take_of_length_le (by omega)]
        rw [List.take_of_length_le hlen] at h
        simpa [enters] using h

theorem enters_sublist_arun (order : List Nat) (cs : List (Nat × Bool)) :
    (enters (arun order cs)).Sublist order := by
  apply enters_sublist_arunFrom
  unfold adoNow
  cases h : order[0]? with
  | some m => rw [List.take_add_one, h]; simp [enters]
  | none => simp [enters]

theorem no_oob_arunFrom (order : List Nat) : ∀ (cs : List (Nat × Bool)) (pos : Nat) (tr : List Ev),
    Ev.oob ∉ tr → Ev.oob ∉ (arunFrom order pos tr cs).2 := by
  intro cs
  induction cs with
  | nil => intro pos tr h; exact h
  | cons c cs ih =>
    intro pos tr h
    obtain ⟨w, b⟩ := c
    simp only [arunFrom]
    apply ih
    cases b
    · simpa [anext] using h
    · simp only [anext, Bool.not_true, Bool.false_eq_true, ↓reduceIte, adoNow]
      cases order[pos + 1]? <;> simpa using h

theorem no_oob_arun (order : List Nat) (cs : List (Nat × Bool)) : Ev.oob ∉ arun order cs := by
  apply no_oob_arunFrom
  unfold adoNow
  cases order[0]? <;> simp

/-! ### `Disciplined` is what `disciplinedB` computes -/

theorem legalB_iff (seen : List Ev) (w : Nat) :
    legalB seen w = true ↔ (Ev.enter w ∈ seen ∧ ∀ b', Ev.call w b' ∉ seen) := by
  simp only [legalB, Bool.and_eq_true, List.contains_iff_mem, Bool.not_eq_true', Bool.eq_false_iff]
  constructor
  · rintro ⟨⟨h1, h2⟩, h3⟩
    refine ⟨h1, ?_⟩
    intro b'; cases b'
    · simpa using h3
    · simpa using h2
  · rintro ⟨h1, h2⟩
    exact ⟨⟨h1, by simpa using h2 true⟩, by simpa using h2 false⟩

theorem disciplinedFrom_iff : ∀ (tr seen : List Ev), disciplinedFrom seen tr = true ↔
    ∀ p w b q, tr = p ++ Ev.call w b :: q → (Ev.enter w ∈ seen ++ p ∧ ∀ b', Ev.call w b' ∉ seen ++ p) := by
  intro tr
  induction tr with
  | nil => intro seen; simp [disciplinedFrom]
  | cons e tr ih =>
    intro seen
    have key : (∀ p w b q, e :: tr = p ++ Ev.call w b :: q → (Ev.enter w ∈ seen ++ p ∧ ∀ b', Ev.call w b' ∉ seen ++ p)) ↔
        ((∀ w b, e = Ev.call w b → (Ev.enter w ∈ seen ∧ ∀ b', Ev.call w b' ∉ seen)) ∧
         (∀ p w b q, tr = p ++ Ev.call w b :: q → (Ev.enter w ∈ (seen ++ [e]) ++ p ∧ ∀ b', Ev.call w b' ∉ (seen ++ [e]) ++ p))) := by
      constructor
      · intro h
        constructor
        · intro w b he
          have := h [] w b tr (by simp [he])
          simpa using this
        · intro p w b q hq
          have := h (e :: p) w b q (by simp [hq])
          simpa using this
      · rintro ⟨h1, h2⟩ p w b q hq
        cases p with
        | nil =>
          simp at hq
          have := h1 w b hq.1
          simpa using this
        | cons x p =>
          simp at hq
          have := h2 p w b q hq.2
          rw [← hq.1]
          simpa using this
    rw [key, ← ih (seen ++ [e])]
    cases e with
    | call w b =>
      simp only [disciplinedFrom, Bool.and_eq_true, legalB_iff]
      constructor
      · rintro ⟨h1, h2⟩
        exact ⟨fun w' b' he => by cases he; exact h1, h2⟩
      · rintro ⟨h1, h2⟩
        exact ⟨h1 w b rfl, h2⟩
    | enter i => simp [disciplinedFrom]
    | finish b => simp [disciplinedFrom]
    | oob => simp [disciplinedFrom]

theorem disciplinedB_iff (tr : List Ev) : disciplinedB tr = true ↔ Disciplined tr := by
  simp [disciplinedB, Disciplined, disciplinedFrom_iff]

theorem completeB_iff (tr : List Ev) : completeB tr = true ↔ Complete tr := by
  simp only [completeB, Complete, List.all_eq_true, List.any_eq_true, beq_iff_eq, mem_enters]
  constructor
  · intro h m hm
    obtain ⟨c, hc, rfl⟩ := h m hm
    exact ⟨c.2, (mem_calls tr c.1 c.2).mp hc⟩
  · intro h m hm
    obtain ⟨b, hb⟩ := h m hm
    exact ⟨(m, b), (mem_calls tr m b).mpr hb, rfl⟩

/-! ### statement language: the path enumeration covers every assignment -/

theorem Stmt.exec_mem_paths (σ : Nat → Bool) : ∀ s : Stmt, s.exec σ ∈ s.paths := by
  intro s
  induction s with
  | skip => simp [Stmt.exec, Stmt.paths]
  | callNext b => simp [Stmt.exec, Stmt.paths]
  | ret => simp [Stmt.exec, Stmt.paths]
  | seq a b iha ihb =>
    simp only [Stmt.exec, Stmt.paths, List.mem_flatMap]
    refine ⟨a.exec σ, iha, ?_⟩
    cases h : (a.exec σ).returned
    · simp only [Bool.false_eq_true, ↓reduceIte, List.mem_map]
      exact ⟨b.exec σ, ihb, rfl⟩
    · simp
  | ite c t e iht ihe =>
    simp only [Stmt.exec, Stmt.paths, List.mem_append]
    cases σ c
    · exact .inr (by simpa using ihe)
    · exact .inl (by simpa using iht)
  | closure body ih =>
    simp only [Stmt.exec, Stmt.paths, List.mem_map]
    exact ⟨body.exec σ, ih, rfl⟩
  | bad w => simp [Stmt.exec, Stmt.paths]

theorem Stmt.onceB_sound (s : Stmt) (h : s.onceB = true) :
    s.clean = true ∧ ∀ σ : Nat → Bool, (s.exec σ).count = 1 := by
  simp only [Stmt.onceB, Bool.and_eq_true, List.all_eq_true, beq_iff_eq] at h
  exact ⟨h.1, fun σ => h.2 _ (Stmt.exec_mem_paths σ s)⟩

/-! ### baseapp.App -/

theorem onEvents_no_finish (ph : Bool) : ∀ (es : List Ev) (a : App), Ev.finish true ∉ es → App.onEvents a ph es = a := by
  intro es
  induction es with
  | nil => intro a _; rfl
  | cons e es ih =>
    intro a h
    simp only [List.mem_cons, not_or] at h
    cases e with
    | finish b =>
      cases b
      · simpa [App.onEvents] using ih a h.2
      · exact absurd rfl h.1
    | enter i => simpa [App.onEvents] using ih a h.2
    | call w b => simpa [App.onEvents] using ih a h.2
    | oob => simpa [App.onEvents] using ih a h.2

theorem onEvents_finish (ph : Bool) : ∀ (es : List Ev) (a : App), Ev.finish true ∈ es →
    App.onEvents a ph es = { a with st := if ph then .normal else .stopped } := by
  intro es
  induction es with
  | nil => intro a h; simp at h
  | cons e es ih =>
    intro a h
    cases e with
    | finish b =>
      cases b
      · simp only [List.mem_cons, Ev.finish.injEq, Bool.true_eq_false, false_or] at h
        simpa [App.onEvents] using ih a h
      · simp only [App.onEvents]
        by_cases h' : Ev.finish true ∈ es
        · rw [ih _ h']
        · rw [onEvents_no_finish ph es _ h']
    | enter i =>
      simp only [List.mem_cons, reduceCtorEq, false_or] at h
      simpa [App.onEvents] using ih a h
    | call w b =>
      simp only [List.mem_cons, reduceCtorEq, false_or] at h
      simpa [App.onEvents] using ih a h
    | oob =>
      simp only [List.mem_cons, reduceCtorEq, false_or] at h
      simpa [App.onEvents] using ih a h

theorem onEvents_cases (ph : Bool) (es : List Ev) (a : App) :
    (Ev.finish true ∉ es ∧ App.onEvents a ph es = a) ∨
    (Ev.finish true ∈ es ∧ App.onEvents a ph es = { a with st := if ph then .normal else .stopped }) := by
  by_cases h : Ev.finish true ∈ es
  · exact .inr ⟨h, onEvents_finish ph es a h⟩
  · exact .inl ⟨h, onEvents_no_finish ph es a h⟩

theorem begins_append (ph : Bool) (a b : List AEv) : begins ph (a ++ b) = begins ph a + begins ph b := by
  simp [begins]

theorem begins_evs (ph ph' : Bool) (es : List Ev) : begins ph (es.map (AEv.ev ph')) = 0 := by
  induction es with
  | nil => rfl
  | cons e es ih => simp [begins]

theorem phaseEvs_append (ph : Bool) (a b : List AEv) : phaseEvs ph (a ++ b) = phaseEvs ph a ++ phaseEvs ph b := by
  induction a with
  | nil => rfl
  | cons e a ih =>
    cases e with
    | begin s => simpa [phaseEvs] using ih
    | ev ph' e =>
      by_cases h : ph' = ph <;> simp [phaseEvs, h, ih]

theorem phaseEvs_evs_same (ph : Bool) (es : List Ev) : phaseEvs ph (es.map (AEv.ev ph)) = es := by
  induction es with
  | nil => rfl
  | cons e es ih => simp [phaseEvs, ih]

theorem phaseEvs_evs_other (ph ph' : Bool) (h : ph' ≠ ph) (es : List Ev) : phaseEvs ph (es.map (AEv.ev ph')) = [] := by
  induction es with
  | nil => rfl
  | cons e es ih => simp [phaseEvs, h, ih]

theorem opCalls_append (ph : Bool) (a b : List AOp) : opCalls ph (a ++ b) = opCalls ph a ++ opCalls ph b := by
  induction a with
  | nil => rfl
  | cons e a ih =>
    cases e with
    | start => simpa [opCalls] using ih
    | stop => simpa [opCalls] using ih
    | call ph' w b => by_cases h : ph' = ph <;> simp [opCalls, h, ih]

theorem runFrom_snoc : ∀ (cs : List (Nat × Bool)) (s : ML) (tr : List Ev) (w : Nat) (b : Bool),
    runFrom s tr (cs ++ [(w, b)]) =
      (((runFrom s tr cs).1.next b).1, (runFrom s tr cs).2 ++ Ev.call w b :: ((runFrom s tr cs).1.next b).2) := by
  intro cs
  induction cs with
  | nil => intro s tr w b; rfl
  | cons c cs ih =>
    intro s tr w b
    obtain ⟨w', b'⟩ := c
    simp only [List.cons_append, runFrom]
    exact ih _ _ w b

/-- generic induction principle for `App.run`: an invariant of (state, log, operations done) -/
theorem App.run_induction (n : Nat) (P : App → List AEv → List AOp → Prop)
    (h0 : P (App.init n) [] [])
    (hstep : ∀ a tr done op, P a tr done → P (a.step op).1 (tr ++ (a.step op).2) (done ++ [op])) :
    ∀ ops, P (App.run n ops).1 (App.run n ops).2 ops := by
  have gen : ∀ (ops : List AOp) (a : App) (tr : List AEv) (done : List AOp), P a tr done →
      P (App.runFrom a tr ops).1 (App.runFrom a tr ops).2 (done ++ ops) := by
    intro ops
    induction ops with
    | nil => intro a tr done h; simpa [App.runFrom] using h
    | cons op ops ih =>
      intro a tr done h
      have := ih _ _ _ (hstep a tr done op h)
      simpa [App.runFrom] using this
  intro ops
  simpa [App.run] using gen ops (App.init n) [] [] h0

/-! ### a list that grows while the phase runs -/

theorem grunFrom_prefix : ∀ (cs : List Cmd) (s : ML) (tr : List Ev), ∃ rest, (grunFrom s tr cs).2 = tr ++ rest := by
  intro cs
  induction cs with
  | nil => intro s tr; exact ⟨[], by simp [grunFrom]⟩
  | cons c cs ih =>
    intro s tr
    cases c with
    | add => exact ih _ _
    | call w b =>
      obtain ⟨rest, h⟩ := ih (s.next b).1 (tr ++ .call w b :: (s.next b).2)
      exact ⟨.call w b :: (s.next b).2 ++ rest, by simp [grunFrom, h]⟩

theorem grunFrom_snoc_call : ∀ (cs : List Cmd) (s : ML) (tr : List Ev) (w : Nat) (b : Bool),
    grunFrom s tr (cs ++ [.call w b]) =
      (((grunFrom s tr cs).1.next b).1, (grunFrom s tr cs).2 ++ Ev.call w b :: ((grunFrom s tr cs).1.next b).2) := by
  intro cs
  induction cs with
  | nil => intro s tr w b; rfl
  | cons c cs ih =>
    intro s tr w b
    cases c with
    | add => simpa [grunFrom] using ih _ _ w b
    | call w' b' => simpa [grunFrom] using ih _ _ w b

/-- invariant of a disciplined forward phase over a growing list (`n0` = length at `Filter`) -/
def GInv (n0 : Nat) (s : ML) (tr : List Ev) : Prop :=
  s.fwd = true ∧ n0 ≤ s.n ∧
  ((∃ pos, Rel s pos ∧ Shape.posOK (List.range s.n) pos tr) ∨
   (∃ n', n0 ≤ n' ∧ n' ≤ s.n ∧ tr = okPart (List.range n') ++ [.finish true]))

theorem take_range_succ (n k : Nat) (h : k ≤ n) : (List.range (n + 1)).take k = (List.range n).take k := by
  rw [List.range_succ, List.take_append_of_le_length (by simpa using h)]

theorem getElem?_range_some {n k m : Nat} (h : (List.range n)[k]? = some m) : k < n ∧ m = k := by
  rcases Nat.lt_or_ge k n with hk | hk
  · rw [List.getElem?_range hk] at h; exact ⟨hk, by cases h; rfl⟩
  · rw [List.getElem?_eq_none (by simpa using hk)] at h; cases h

theorem GInv_grow {n0 : Nat} {s : ML} {tr : List Ev} (h : GInv n0 s tr) : GInv n0 s.grow tr := by
  obtain ⟨hf, hn, h⟩ := h
  refine ⟨hf, by simp [ML.grow]; omega, ?_⟩
  rcases h with ⟨pos, hr, hp⟩ | ⟨n', h1, h2, h3⟩
  · have hr' : Rel s.grow pos := by simpa [Rel, ML.grow, hf] using hr
    rcases hp with ⟨m, hm, htr⟩ | ⟨k, m, hm, htr⟩ | htr
    · obtain ⟨hk, hmk⟩ := getElem?_range_some hm
      rw [hmk] at htr
      refine .inl ⟨pos, hr', .inl ⟨pos, ?_, ?_⟩⟩
      · simp only [ML.grow]; rw [List.getElem?_range (Nat.lt_succ_of_lt hk)]
      · simp only [ML.grow]; rw [take_range_succ _ _ (Nat.le_of_lt hk)]; exact htr
    · obtain ⟨hk, hmk⟩ := getElem?_range_some hm
      rw [hmk] at htr
      refine .inl ⟨pos, hr', .inr (.inl ⟨k, k, ?_, ?_⟩)⟩
      · simp only [ML.grow]; rw [List.getElem?_range (Nat.lt_succ_of_lt hk)]
      · simp only [ML.grow]; rw [take_range_succ _ _ (Nat.le_of_lt hk)]; exact htr
    · exact .inr ⟨s.n, hn, by simp [ML.grow], htr⟩
  · exact .inr ⟨n', h1, by simp [ML.grow]; omega, h3⟩

theorem GInv_call {n0 : Nat} {s : ML} {tr : List Ev} (h : GInv n0 s tr) (w : Nat) (b : Bool)
    (hl : Ev.enter w ∈ tr ∧ ∀ b', Ev.call w b' ∉ tr) :
    GInv n0 (s.next b).1 (tr ++ .call w b :: (s.next b).2) ∧
    ∃ pos, Shape.posOK (List.range s.n) pos (tr ++ .call w b :: (s.next b).2) := by
  obtain ⟨hf, hn, h⟩ := h
  rcases h with ⟨pos, hr, hp⟩ | ⟨n', _, _, htr⟩
  · obtain ⟨h1, h2, h3, h4⟩ := next_eq s pos b hr
    have hord : ord s.n s.fwd = List.range s.n := by simp [ord, hf]
    rw [hord] at h1 h2
    have hstep := posOK_step hp w b hl
    rw [← h1] at hstep
    refine ⟨⟨by rw [h4]; exact hf, by rw [h3]; exact hn, .inl ⟨_, h2, by rw [h3]; exact hstep⟩⟩, _, hstep⟩
  · exfalso
    obtain ⟨he, hc⟩ := hl
    subst htr
    simp only [List.mem_append, mem_okPart_enter, List.mem_singleton, reduceCtorEq, or_false] at he
    exact hc true (by simp [mem_okPart_call, he])

theorem GInv_init (n : Nat) : GInv n (filter n true).1 (filter n true).2 := by
  obtain ⟨h1, h2, h3, h4⟩ := filter_rel n true
  refine ⟨h3, by rw [h2]; exact Nat.le_refl _, .inl ⟨0, h1, ?_⟩⟩
  rw [h2, h4]
  have := posOK_init (ord n true)
  simpa [ord] using this

theorem GInv_grunFrom (n0 : Nat) : ∀ (cs : List Cmd) (s : ML) (tr : List Ev), GInv n0 s tr →
    Disciplined (grunFrom s tr cs).2 → GInv n0 (grunFrom s tr cs).1 (grunFrom s tr cs).2 := by
  intro cs
  induction cs with
  | nil => intro s tr h _; exact h
  | cons c cs ih =>
    intro s tr h hd
    cases c with
    | add => exact ih _ _ (GInv_grow h) hd
    | call w b =>
      simp only [grunFrom] at hd ⊢
      obtain ⟨rest, hrest⟩ := grunFrom_prefix cs (s.next b).1 (tr ++ .call w b :: (s.next b).2)
      have hl := hd tr w b ((s.next b).2 ++ rest) (by rw [hrest]; simp)
      exact ih _ _ (GInv_call h w b hl).1 hd

theorem GInv_shape {n0 : Nat} {s : ML} {tr : List Ev} (h : GInv n0 s tr) :
    ∃ n', n0 ≤ n' ∧ n' ≤ s.n ∧ Shape (List.range n') tr := by
  obtain ⟨_, hn, h⟩ := h
  rcases h with ⟨pos, _, hp⟩ | ⟨n', h1, h2, rfl⟩
  · exact ⟨s.n, hn, Nat.le_refl _, posOK_shape hp⟩
  · exact ⟨n', h1, h2, .done⟩

/-- the stop direction does not look at the live length at all -/
theorem doNow_bwd_indep (s t : ML) (hs : s.fwd = false) (ht : t.fwd = false) (hi : s.idx = t.idx)
    (h1 : s.idx < (s.n : Int)) (h2 : t.idx < (t.n : Int)) : s.doNow = t.doNow := by
  obtain ⟨sn, sf, si⟩ := s
  obtain ⟨tn, tf, ti⟩ := t
  simp only at hs ht hi h1 h2
  subst hs ht hi
  simp only [ML.doNow, Bool.false_eq_true, ↓reduceIte]
  by_cases h0 : si < 0
  · simp [h0]
  · simp [h0, h1, h2]

theorem grunFrom_bwd : ∀ (cs : List Cmd) (s t : ML) (tr : List Ev), s.fwd = false → t.fwd = false → s.idx = t.idx →
    s.idx < (s.n : Int) → t.idx < (t.n : Int) →
    (grunFrom s tr cs).2 = (runFrom t tr (cmdCalls cs)).2 := by
  intro cs
  induction cs with
  | nil => intro s t tr _ _ _ _ _; rfl
  | cons c cs ih =>
    intro s t tr hs ht hi h1 h2
    cases c with
    | add =>
      simp only [grunFrom, cmdCalls]
      exact ih s.grow t tr hs ht hi (by simp only [ML.grow]; omega) h2
    | call w b =>
      simp only [grunFrom, cmdCalls, runFrom]
      cases b
      · simp only [ML.next, Bool.not_false, ↓reduceIte]
        exact ih s t _ hs ht hi h1 h2
      · have e : ({ s with idx := if s.fwd then s.idx + 1 else s.idx - 1 } : ML).doNow =
            ({ t with idx := if t.fwd then t.idx + 1 else t.idx - 1 } : ML).doNow :=
          doNow_bwd_indep _ _ hs ht (by simp [hs, ht, hi]) (by simp [hs]; omega) (by simp [ht]; omega)
        simp only [ML.next, Bool.not_true, Bool.false_eq_true, ↓reduceIte]
        rw [e]
        exact ih _ _ _ hs ht (by simp [hs, ht, hi]) (by simp [hs]; omega) (by simp [ht]; omega)

/-! ### the wrapper of `ModList.Start/Stop` around each module's callback (D21) -/

theorem snoc_induction {α} (P : List α → Prop) (h0 : P []) (hs : ∀ l a, P l → P (l ++ [a])) : ∀ l, P l := by
  have h : ∀ l : List α, P l.reverse := by
    intro l
    induction l with
    | nil => simpa using h0
    | cons a l ih => simpa using hs _ a ih
  intro l
  simpa using h l.reverse

theorem wstate_append : ∀ (p q : List MAct) (ws : Wrap), wstate ws (p ++ q) = wstate (wstate ws p) q := by
  intro p
  induction p with
  | nil => intro q ws; rfl
  | cons a p ih => intro q ws; simp only [List.cons_append, wstate]; exact ih q _

theorem wcallsFrom_append : ∀ (p q : List MAct) (ws : Wrap),
    wcallsFrom ws (p ++ q) = wcallsFrom ws p ++ wcallsFrom (wstate ws p) q := by
  intro p
  induction p with
  | nil => intro q ws; rfl
  | cons a p ih => intro q ws; simp only [List.cons_append, wcallsFrom, wstate, ih, List.append_assoc]

theorem wcalls_snoc (p : List MAct) (a : MAct) :
    wcalls (p ++ [a]) = wcalls p ++ ((wstate {} p).step a).2.toList := by
  simp [wcalls, wcallsFrom_append, wcallsFrom]

theorem step_reported_mono (ws : Wrap) (a : MAct) (w : Nat) (h : w ∈ ws.reported) : w ∈ (ws.step a).1.reported := by
  cases a with
  | report w' b => simp only [Wrap.step]; split <;> simp [h]
  | panic w' => simp only [Wrap.step]; split <;> simp [h]

theorem step_dead_mono (ws : Wrap) (a : MAct) (w : Nat) (h : w ∈ ws.dead) : w ∈ (ws.step a).1.dead := by
  cases a with
  | report w' b => simp only [Wrap.step]; split <;> simp [h]
  | panic w' => simp only [Wrap.step]; split <;> simp [h]

theorem wstate_reported_mono : ∀ (p : List MAct) (ws : Wrap) (w : Nat), w ∈ ws.reported → w ∈ (wstate ws p).reported := by
  intro p
  induction p with
  | nil => intro ws w h; exact h
  | cons a p ih => intro ws w h; exact ih _ w (step_reported_mono ws a w h)

theorem wstate_dead_mono : ∀ (p : List MAct) (ws : Wrap) (w : Nat), w ∈ ws.dead → w ∈ (wstate ws p).dead := by
  intro p
  induction p with
  | nil => intro ws w h; exact h
  | cons a p ih => intro ws w h; exact ih _ w (step_dead_mono ws a w h)

/-- `reported` is set only by a report of that module -/
theorem wstate_reported_src : ∀ (p : List MAct) (ws : Wrap) (w : Nat), w ∈ (wstate ws p).reported →
    w ∈ ws.reported ∨ ∃ b, MAct.report w b ∈ p := by
  intro p
  induction p with
  | nil => intro ws w h; exact .inl h
  | cons a p ih =>
    intro ws w h
    rcases ih _ w h with h1 | ⟨b, hb⟩
    · cases a with
      | report w' b' =>
        simp only [Wrap.step] at h1
        split at h1
        · exact .inl h1
        · simp only [List.mem_cons] at h1
          rcases h1 with rfl | h1
          · exact .inr ⟨b', by simp⟩
          · exact .inl h1
      | panic w' =>
        simp only [Wrap.step] at h1
        split at h1 <;> exact .inl h1
    · exact .inr ⟨b, List.mem_cons_of_mem _ hb⟩

/-- `failedByPanic` is set only by a panic of that module -/
theorem wstate_dead_src : ∀ (p : List MAct) (ws : Wrap) (w : Nat), w ∈ (wstate ws p).dead →
    w ∈ ws.dead ∨ MAct.panic w ∈ p := by
  intro p
  induction p with
  | nil => intro ws w h; exact .inl h
  | cons a p ih =>
    intro ws w h
    rcases ih _ w h with h1 | hb
    · cases a with
      | report w' b' =>
        simp only [Wrap.step] at h1
        split at h1 <;> exact .inl h1
      | panic w' =>
        simp only [Wrap.step] at h1
        split at h1
        · exact .inl h1
        · simp only [List.mem_cons] at h1
          rcases h1 with rfl | h1
          · exact .inr (by simp)
          · exact .inl h1
    · exact .inr (List.mem_cons_of_mem _ hb)

/-- a `next` call made by a wrapper leaves one of that module's flags set -/
theorem wcallsFrom_flag : ∀ (p : List MAct) (ws : Wrap) (w : Nat) (b : Bool), (w, b) ∈ wcallsFrom ws p →
    w ∈ (wstate ws p).reported ∨ w ∈ (wstate ws p).dead := by
  intro p
  induction p with
  | nil => intro ws w b h; simp [wcallsFrom] at h
  | cons a p ih =>
    intro ws w b h
    simp only [wcallsFrom, List.mem_append] at h
    rcases h with h | h
    · simp only [wstate]
      cases a with
      | report w' b' =>
        simp only [Wrap.step] at h ⊢
        split at h
        · simp at h
        · simp only [Option.toList_some, List.mem_singleton, Prod.mk.injEq] at h
          obtain ⟨rfl, _⟩ := h
          rename_i hnd
          simp only [hnd]
          exact .inl (wstate_reported_mono p _ w (by simp))
      | panic w' =>
        simp only [Wrap.step] at h ⊢
        split at h
        · simp at h
        · simp only [Option.toList_some, List.mem_singleton, Prod.mk.injEq] at h
          obtain ⟨rfl, _⟩ := h
          rename_i hnd
          simp only [hnd]
          exact .inr (wstate_dead_mono p _ w (by simp))
    · exact ih _ w b h

/-- an action of a module makes its wrapper call `next` then or has made it call `next` before -/
theorem step_emits_or_flag (ws : Wrap) (a : MAct) :
    (∃ b, (ws.step a).2 = some (a.who, b)) ∨ a.who ∈ ws.reported ∨ a.who ∈ ws.dead := by
  cases a with
  | report w b =>
    simp only [Wrap.step, MAct.who]
    split
    · rename_i h; exact .inr (.inr (by simpa using h))
    · exact .inl ⟨b, rfl⟩
  | panic w =>
    simp only [Wrap.step, MAct.who]
    split
    · rename_i h; exact .inr (.inl (by simpa using h))
    · exact .inl ⟨false, rfl⟩

/-- a set flag comes with a `next` call of that module's wrapper -/
theorem flag_wcallsFrom : ∀ (p : List MAct) (ws : Wrap) (w : Nat),
    (w ∈ (wstate ws p).reported ∨ w ∈ (wstate ws p).dead) →
    (w ∈ ws.reported ∨ w ∈ ws.dead) ∨ ∃ b, (w, b) ∈ wcallsFrom ws p := by
  intro p
  induction p with
  | nil => intro ws w h; exact .inl h
  | cons a p ih =>
    intro ws w h
    rcases ih _ w h with h1 | ⟨b, hb⟩
    · cases a with
      | report w' b' =>
        simp only [Wrap.step] at h1
        split at h1
        · exact .inl h1
        · simp only [List.mem_cons] at h1
          rcases h1 with (rfl | h1) | h1
          · refine .inr ⟨b', ?_⟩
            rename_i hnd
            have hnd' : w ∉ ws.dead := by simpa using hnd
            simp [wcallsFrom, Wrap.step, hnd']
          · exact .inl (.inl h1)
          · exact .inl (.inr h1)
      | panic w' =>
        simp only [Wrap.step] at h1
        split at h1
        · exact .inl h1
        · simp only [List.mem_cons] at h1
          rcases h1 with h1 | (rfl | h1)
          · exact .inl (.inl h1)
          · refine .inr ⟨false, ?_⟩
            rename_i hnd
            have hnd' : w ∉ ws.reported := by simpa using hnd
            simp [wcallsFrom, Wrap.step, hnd']
          · exact .inl (.inr h1)
    · exact .inr ⟨b, by simp only [wcallsFrom, List.mem_append]; exact .inr hb⟩

/-- every module that reported or panicked has a `next` call of its wrapper -/
theorem acted_wcalls (acts : List MAct) (a : MAct) (ha : a ∈ acts) : ∃ b, (a.who, b) ∈ wcalls acts := by
  obtain ⟨p, q, rfl⟩ := List.append_of_mem ha
  have hsplit : wcalls (p ++ a :: q) = wcalls p ++ (((wstate {} p).step a).2.toList ++ wcallsFrom ((wstate {} p).step a).1 q) := by
    simp [wcalls, wcallsFrom_append, wcallsFrom]
  rcases step_emits_or_flag (wstate {} p) a with ⟨b, hb⟩ | hflag
  · exact ⟨b, by rw [hsplit, hb]; simp⟩
  · rcases flag_wcallsFrom p {} a.who hflag with h0 | ⟨b, hb⟩
    · simp at h0
    · exact ⟨b, by rw [hsplit]; exact List.mem_append_left _ hb⟩

theorem next_no_calls (s : ML) (b : Bool) (w : Nat) (b' : Bool) : Ev.call w b' ∉ (s.next b).2 := by
  cases b <;> simp only [ML.next, ML.doNow, Bool.not_false, Bool.not_true, ↓reduceIte, Bool.false_eq_true] <;>
    (repeat' split) <;> simp

theorem runFrom_append : ∀ (cs r : List (Nat × Bool)) (s : ML) (tr : List Ev),
    runFrom s tr (cs ++ r) = runFrom (runFrom s tr cs).1 (runFrom s tr cs).2 r := by
  intro cs
  induction cs with
  | nil => intro r s tr; rfl
  | cons c cs ih => intro r s tr; obtain ⟨w, b⟩ := c; simp only [List.cons_append, runFrom]; exact ih r _ _

theorem runFrom_prefix : ∀ (cs : List (Nat × Bool)) (s : ML) (tr : List Ev), ∃ rest, (runFrom s tr cs).2 = tr ++ rest := by
  intro cs
  induction cs with
  | nil => intro s tr; exact ⟨[], by simp [runFrom]⟩
  | cons c cs ih =>
    intro s tr
    obtain ⟨w, b⟩ := c
    obtain ⟨rest, h⟩ := ih (s.next b).1 (tr ++ .call w b :: (s.next b).2)
    exact ⟨.call w b :: (s.next b).2 ++ rest, by simp [runFrom, h]⟩

/-- the `next` calls in the log of a `Filter` run are exactly the completion events fed to it -/
theorem calls_runFrom : ∀ (cs : List (Nat × Bool)) (s : ML) (tr : List Ev), calls (runFrom s tr cs).2 = calls tr ++ cs := by
  intro cs
  induction cs with
  | nil => intro s tr; simp [runFrom]
  | cons c cs ih =>
    intro s tr
    obtain ⟨w, b⟩ := c
    have hn : calls (s.next b).2 = [] := by
      cases hc : calls (s.next b).2 with
      | nil => rfl
      | cons x l =>
        have : x ∈ calls (s.next b).2 := by rw [hc]; simp
        exact absurd ((mem_calls _ x.1 x.2).mp this) (next_no_calls s b x.1 x.2)
    simp only [runFrom]
    rw [ih, calls_append]
    simp [calls, hn]

theorem calls_run (n : Nat) (fwd : Bool) (cs : List (Nat × Bool)) : calls (run n fwd cs) = cs := by
  have h0 : calls (filter n fwd).2 = [] := by
    simp only [filter, ML.doNow]
    (repeat' split) <;> simp [calls]
  simp [run, calls_runFrom, h0]

theorem run_snoc (n : Nat) (fwd : Bool) (cs : List (Nat × Bool)) (w : Nat) (b : Bool) :
    ∃ s : ML, run n fwd (cs ++ [(w, b)]) = run n fwd cs ++ Ev.call w b :: (s.next b).2 := by
  exact ⟨(runFrom (filter n fwd).1 (filter n fwd).2 cs).1, by simp [run, runFrom_snoc]⟩

theorem Disciplined_snoc {tr : List Ev} (hd : Disciplined tr) (w : Nat) (b : Bool) (rest : List Ev)
    (he : Ev.enter w ∈ tr) (hn : ∀ b', Ev.call w b' ∉ tr) (hr : ∀ w' b', Ev.call w' b' ∉ rest) :
    Disciplined (tr ++ Ev.call w b :: rest) := by
  intro p w' b' q heq
  rcases List.append_eq_append_iff.mp heq with ⟨a', hp, hevs⟩ | ⟨c', htr, hc⟩
  · cases a' with
    | nil =>
      simp only [List.append_nil] at hp
      simp only [List.nil_append, List.cons.injEq, Ev.call.injEq] at hevs
      obtain ⟨⟨rfl, rfl⟩, rfl⟩ := hevs
      subst hp
      exact ⟨he, hn⟩
    | cons x a' =>
      simp only [List.cons_append, List.cons.injEq] at hevs
      have : Ev.call w' b' ∈ rest := by rw [hevs.2]; simp
      exact absurd this (hr w' b')
  · cases c' with
    | nil =>
      simp only [List.append_nil] at htr
      simp only [List.nil_append, List.cons.injEq, Ev.call.injEq] at hc
      obtain ⟨⟨rfl, rfl⟩, rfl⟩ := hc
      subst htr
      exact ⟨he, hn⟩
    | cons x c' =>
      simp only [List.cons_append, List.cons.injEq] at hc
      obtain ⟨rfl, _⟩ := hc
      exact hd p w' b' c' htr

/-- **the wrapper keeps the discipline**: if every action is made by an entered module, each module
reports at most once and panics at most once, then the `next` calls that reach `Filter` are made for
entered modules, at most once per module. -/
theorem wrapped_disciplined (n : Nat) (fwd : Bool) : ∀ acts, MDisciplined n fwd acts → Disciplined (wrun n fwd acts) := by
  refine snoc_induction _ ?_ ?_
  · intro _
    intro p w b q heq
    have : (w, b) ∈ calls (wrun n fwd []) := by rw [(mem_calls _ _ _), heq]; simp
    simp [wrun, calls_run, wcalls, wcallsFrom] at this
  · intro l a ih hd
    have hdl : MDisciplined n fwd l := by
      intro p x q heq
      exact hd p x (q ++ [a]) (by rw [heq]; simp)
    have ihl := ih hdl
    obtain ⟨hent, hrep, hpan⟩ := hd l a [] (by simp)
    simp only [wrun, wcalls_snoc]
    cases hstep : ((wstate {} l).step a).2 with
    | none => simpa [wrun] using ihl
    | some c =>
      simp only [Option.toList_some]
      obtain ⟨w, b⟩ := c
      -- the call is for the acting module, whose flags were both clear
      have hw : w = a.who ∧ a.who ∉ (wstate {} l).reported ∧ a.who ∉ (wstate {} l).dead := by
        cases a with
        | report w' b' =>
          simp only [Wrap.step] at hstep
          split at hstep
          · simp at hstep
          · rename_i hnd
            simp only [Option.some.injEq, Prod.mk.injEq] at hstep
            refine ⟨hstep.1.symm, ?_, by simpa [MAct.who] using hnd⟩
            intro hr
            rcases wstate_reported_src l {} w' hr with h0 | ⟨b'', hb''⟩
            · simp at h0
            · exact hrep w' b' rfl b'' hb''
        | panic w' =>
          simp only [Wrap.step] at hstep
          split at hstep
          · simp at hstep
          · rename_i hnr
            simp only [Option.some.injEq, Prod.mk.injEq] at hstep
            refine ⟨hstep.1.symm, by simpa [MAct.who] using hnr, ?_⟩
            intro hdd
            rcases wstate_dead_src l {} w' hdd with h0 | hb''
            · simp at h0
            · exact hpan w' rfl hb''
      obtain ⟨rfl, hnr, hnd⟩ := hw
      obtain ⟨s, hs⟩ := run_snoc n fwd (wcalls l) a.who b
      rw [hs]
      refine Disciplined_snoc ihl a.who b _ hent ?_ (fun w' b' => next_no_calls s b w' b')
      intro b' hc
      have : (a.who, b') ∈ wcalls l := by
        have := (mem_calls _ _ _).mpr hc
        simpa [wrun, calls_run] using this
      rcases wcallsFrom_flag l {} a.who b' this with h | h
      · exact hnr h
      · exact hnd h

/-- … and completeness carries over: a module that reported or panicked has had `next` called for it -/
theorem wrapped_complete (n : Nat) (fwd : Bool) (acts : List MAct) (hc : MComplete n fwd acts) :
    Complete (wrun n fwd acts) := by
  intro m hm
  have : ∃ a, a ∈ acts ∧ a.who = m := by
    rcases hc m hm with ⟨b, hb⟩ | hp
    · exact ⟨_, hb, rfl⟩
    · exact ⟨_, hp, rfl⟩
  obtain ⟨a, ha, rfl⟩ := this
  obtain ⟨b, hb⟩ := acted_wcalls acts a ha
  exact ⟨b, (mem_calls _ _ _).mp (by simpa [wrun, calls_run] using hb)⟩

/-! ### node/app.App -/

@[simp] theorem appEvs_append (a b : List NEv) : appEvs (a ++ b) = appEvs a ++ appEvs b := by
  induction a with
  | nil => rfl
  | cons e a ih => cases e <;> simp [appEvs, ih]

@[simp] theorem fins_append (a b : List NEv) : fins (a ++ b) = fins a ++ fins b := by
  induction a with
  | nil => rfl
  | cons e a ih => cases e <;> simp [fins, ih]

@[simp] theorem finXs_append (a b : List NEv) : finXs (a ++ b) = finXs a ++ finXs b := by
  induction a with
  | nil => rfl
  | cons e a ih => cases e <;> simp [finXs, ih]

theorem startedServices_proj (svc : List Bool) :
    appEvs (startedServices svc) = [] ∧ fins (startedServices svc) = [] ∧ finXs (startedServices svc) = [] := by
  unfold startedServices
  generalize (List.range svc.length).filter (fun i => svc.getD i false) = l
  induction l with
  | nil => exact ⟨rfl, rfl, rfl⟩
  | cons i l ih => simpa [appEvs, fins, finXs] using ih

theorem nodeLog_append (svc : List Bool) (a b : List AEv) : nodeLog svc (a ++ b) = nodeLog svc a ++ nodeLog svc b := by
  induction a with
  | nil => rfl
  | cons e a ih =>
    cases e with
    | begin st => simp [nodeLog, ih]
    | ev ph x =>
      cases x with
      | finish f => cases ph <;> simp [nodeLog, ih]
      | enter i => simp [nodeLog, ih]
      | call w c => simp [nodeLog, ih]
      | oob => simp [nodeLog, ih]

/-- the node's closures do not change what the embedded App does -/
theorem appEvs_nodeLog (svc : List Bool) (tr : List AEv) : appEvs (nodeLog svc tr) = tr := by
  induction tr with
  | nil => rfl
  | cons e tr ih =>
    cases e with
    | begin st => simp [nodeLog, appEvs, ih]
    | ev ph x =>
      cases x with
      | finish f => cases ph <;> simp [nodeLog, appEvs, ih, (startedServices_proj svc).1]
      | enter i => simp [nodeLog, appEvs, ih]
      | call w c => simp [nodeLog, appEvs, ih]
      | oob => simp [nodeLog, appEvs, ih]

/-- the caller's start callback is invoked exactly where the App's start phase reports, with the same value -/
theorem fins_nodeLog (svc : List Bool) (tr : List AEv) : fins (nodeLog svc tr) = finishes (phaseEvs true tr) := by
  induction tr with
  | nil => rfl
  | cons e tr ih =>
    cases e with
    | begin st => simp [nodeLog, fins, phaseEvs, ih]
    | ev ph x =>
      cases x with
      | finish f => cases ph <;> simp [nodeLog, fins, phaseEvs, finishes, ih, (startedServices_proj svc).2.1]
      | enter i => cases ph <;> simp [nodeLog, fins, phaseEvs, finishes, ih]
      | call w c => cases ph <;> simp [nodeLog, fins, phaseEvs, finishes, ih]
      | oob => cases ph <;> simp [nodeLog, fins, phaseEvs, finishes, ih]

theorem finXs_nodeLog (svc : List Bool) (tr : List AEv) : finXs (nodeLog svc tr) = finishes (phaseEvs false tr) := by
  induction tr with
  | nil => rfl
  | cons e tr ih =>
    cases e with
    | begin st => simp [nodeLog, finXs, phaseEvs, ih]
    | ev ph x =>
      cases x with
      | finish f => cases ph <;> simp [nodeLog, finXs, phaseEvs, finishes, ih, (startedServices_proj svc).2.2]
      | enter i => cases ph <;> simp [nodeLog, finXs, phaseEvs, finishes, ih]
      | call w c => cases ph <;> simp [nodeLog, finXs, phaseEvs, finishes, ih]
      | oob => cases ph <;> simp [nodeLog, finXs, phaseEvs, finishes, ih]

theorem addModules_init : ∀ (k m : Nat), addModules k (App.init m) = App.init (m + k) := by
  intro k
  induction k with
  | zero => intro m; rfl
  | succ k ih =>
    intro m
    have : (App.init m).addModule = App.init (m + 1) := by simp [App.addModule, App.init]
    simp only [addModules, this, ih]
    congr 1; omega

theorem step_not_prepared (a : App) (op : AOp) (h : a.st ≠ .prepared) : (a.step op).1.st ≠ .prepared := by
  cases op with
  | start => simp [App.step, h]
  | stop =>
    by_cases hn : a.st = .normal
    · simp only [App.step, hn, ne_eq, not_true_eq_false, ↓reduceIte]
      rcases onEvents_cases false (filter a.n false).2 { a with st := .stoping, stopML := some (filter a.n false).1 } with ⟨_, h'⟩ | ⟨_, h'⟩ <;>
        rw [h'] <;> simp
    · simp [App.step, hn, h]
  | call ph w b =>
    simp only [App.step]
    cases hml : (if ph = true then a.startML else a.stopML) with
    | none => exact h
    | some ml =>
      simp only
      generalize hA : (if ph = true then { a with startML := some (ml.next b).1 } else { a with stopML := some (ml.next b).1 }) = a'
      have hst : a'.st = a.st := by subst hA; cases ph <;> simp
      rcases onEvents_cases ph (ml.next b).2 a' with ⟨_, h'⟩ | ⟨_, h'⟩
      · rw [h', hst]; exact h
      · rw [h']; cases ph <;> simp

theorem start_step_not_prepared (a : App) (h : a.st = .prepared) : (a.step .start).1.st ≠ .prepared := by
  simp only [App.step, h, ne_eq, not_true_eq_false, ↓reduceIte]
  rcases onEvents_cases true (filter a.n true).2 { a with st := .starting, startML := some (filter a.n true).1 } with ⟨_, h'⟩ | ⟨_, h'⟩ <;>
    rw [h'] <;> simp

theorem App.runFrom_prefix : ∀ (ops : List AOp) (a : App) (tr : List AEv), ∃ rest, (App.runFrom a tr ops).2 = tr ++ rest := by
  intro ops
  induction ops with
  | nil => intro a tr; exact ⟨[], by simp [App.runFrom]⟩
  | cons op ops ih =>
    intro a tr
    obtain ⟨rest, h⟩ := ih (a.step op).1 (tr ++ (a.step op).2)
    exact ⟨(a.step op).2 ++ rest, by simp [App.runFrom, h]⟩

/-- once StartNode has been accepted, the node *is* its embedded App for every later operation
other than a further accepted StartNode -/
theorem node_runFrom_app : ∀ (ops : List NOp) (s : Node) (tr : List NEv), s.app.st ≠ .prepared →
    (∀ op ∈ ops, ∀ k, op = NOp.startNode true k → k = 0) →
    (Node.runFrom s tr ops).1.app = (App.runFrom s.app (appEvs tr) (ops.map NOp.toAOp)).1 ∧
    appEvs (Node.runFrom s tr ops).2 = (App.runFrom s.app (appEvs tr) (ops.map NOp.toAOp)).2 := by
  intro ops
  induction ops with
  | nil => intro s tr _ _; exact ⟨rfl, rfl⟩
  | cons op ops ih =>
    intro s tr hst hno
    have hno' : ∀ op' ∈ ops, ∀ k, op' = NOp.startNode true k → k = 0 := fun op' h => hno op' (List.mem_cons_of_mem _ h)
    have key : (s.step op).1.app = (s.app.step op.toAOp).1 ∧ appEvs (s.step op).2 = (s.app.step op.toAOp).2 ∧
        (s.step op).1.env = s.env := by
      cases op with
      | startNode known adds =>
        cases known with
        | true =>
          have h0 := hno _ (List.mem_cons_self) adds rfl
          subst h0
          simp only [Node.step, NOp.toAOp, addModules]
          split
          · simp [App.step, hst, appEvs]
          · simp [App.step, hst, appEvs, nodeLog]
        | false => simp [Node.step, NOp.toAOp, App.step, hst, appEvs]
      | stopNode => simp [Node.step, NOp.toAOp, appEvs_nodeLog]
      | call ph w b => simp [Node.step, NOp.toAOp, appEvs_nodeLog]
    have hst' : (s.step op).1.app.st ≠ .prepared := by rw [key.1]; exact step_not_prepared _ _ hst
    have := ih (s.step op).1 (tr ++ (s.step op).2) hst' hno'
    simp only [Node.runFrom, List.map_cons, App.runFrom]
    rw [appEvs_append, key.1, key.2.1] at this
    exact this

end Cell2v.Modules
