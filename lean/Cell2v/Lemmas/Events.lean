import Cell2v.Model.Events
/-!
C17 — invariants of the event-centre model and their preservation by every step.
Groups: `IdsOK` (listener ids are unique and never handed out twice, a removed listener
is gone for good, no invocation of a removed listener in the trace), `RegOK` (global
registration = Global flag = "a listener was subscribed globally and the list was never
empty since"), `FrOK` (dispatch frames: publication numbers, at-most-once), `FixOK`
(no lock is held across a listener call).
-/
set_option linter.unusedSimpArgs false
namespace Cell2v.Events

/-! ### reachable worlds of the repaired code -/

/-- any centre configuration, any templates (listener scripts), any sequence of top-level
calls, any iteration orders (guides) -/
inductive Reach : World → Prop
  | init (cs : List (Bool × Bool)) (tm : List (Nat × Tmpl)) : Reach (init Cfg.fixed cs tm)
  | step {w : World} : Reach w → Reach (step w)
  | call {w : World} (ops : List SOp) (g : List GTok) : Reach w → w.stack = [] → Reach (call w ops g)
  | drain {w : World} (c n : Nat) (g : List GTok) : Reach w → w.stack = [] → Reach (callDrain w c n g)

/-! ### trace predicates -/

/-- listeners removed so far according to the trace (successful unsubscribe, clear) -/
def deadOf : List Tok → List Nat
  | [] => []
  | .unsub _ _ id true :: r => id :: deadOf r
  | .clear _ ids :: r => ids ++ deadOf r
  | _ :: r => deadOf r

/-- no invocation of a listener that an earlier part of the trace removed (trace is newest first) -/
def Good : List Tok → Prop
  | [] => True
  | t :: r => Good r ∧ ∀ p c e id args a, t = .inv p c e id args a → id ∉ deadOf r

/-- tokens that neither remove nor invoke a listener -/
def Tok.plain : Tok → Bool
  | .unsub _ _ _ true => false
  | .clear .. => false
  | .inv .. => false
  | _ => true

theorem deadOf_plain {t : Tok} (r : List Tok) (h : t.plain = true) : deadOf (t :: r) = deadOf r := by
  cases t <;> simp_all [deadOf, Tok.plain]
  rename_i hit; cases hit <;> simp_all [deadOf, Tok.plain]

theorem inj_of_nodup_map {α β} (f : α → β) : ∀ (xs : List α), (xs.map f).Nodup → ∀ a ∈ xs, ∀ b ∈ xs, f a = f b → a = b
  | [], _, _, ha, _, _, _ => by simp at ha
  | x :: xs, h, a, ha, b, hb, hab => by
    simp only [List.map_cons, List.nodup_cons, List.mem_map, not_exists, not_and] at h
    simp only [List.mem_cons] at ha hb
    rcases ha with rfl | ha <;> rcases hb with rfl | hb
    · rfl
    · exact absurd hab.symm (h.1 b hb)
    · exact absurd hab (h.1 a ha)
    · exact inj_of_nodup_map f xs h.2 a ha b hb hab

/-! ### IdsOK -/

structure IdsOK (w : World) : Prop where
  nodup : (w.subs.map (·.id)).Nodup
  used : ∀ l ∈ w.subs, l.id ∈ w.used
  dead_used : ∀ id ∈ deadOf w.out, id ∈ w.used
  dead_gone : ∀ id ∈ deadOf w.out, ∀ l ∈ w.subs, l.id ≠ id
  good : Good w.out

theorem IdsOK.same {w : World} (h : IdsOK w) {l l' : Sub} (hl : l ∈ w.subs) (hl' : l' ∈ w.subs)
    (hid : l.id = l'.id) : l = l' := inj_of_nodup_map _ _ h.nodup l hl l' hl' hid

/-- frame rule: only `subs`, `used`, `out` matter -/
theorem IdsOK.of_eq {w w' : World} (h : IdsOK w) (hs : w'.subs = w.subs) (hu : w'.used = w.used)
    (ho : w'.out = w.out) : IdsOK w' := by
  refine ⟨?_, ?_, ?_, ?_, ?_⟩
  · rw [hs]; exact h.nodup
  · rw [hs, hu]; exact h.used
  · rw [ho, hu]; exact h.dead_used
  · rw [ho, hs]; exact h.dead_gone
  · rw [ho]; exact h.good

/-- a plain token is appended -/
theorem IdsOK.tok {w w' : World} (h : IdsOK w) (t : Tok) (ht : t.plain = true) (hs : w'.subs = w.subs)
    (hu : w'.used = w.used) (ho : w'.out = t :: w.out) : IdsOK w' := by
  have hd := deadOf_plain w.out ht
  refine ⟨?_, ?_, ?_, ?_, ?_⟩
  · rw [hs]; exact h.nodup
  · rw [hs, hu]; exact h.used
  · rw [ho, hu, hd]; exact h.dead_used
  · rw [ho, hs, hd]; exact h.dead_gone
  · rw [ho]; refine ⟨h.good, ?_⟩
    intro p c e id args a he; subst he; simp [Tok.plain] at ht

theorem IdsOK.more_used {w : World} (h : IdsOK w) (t : Nat) : IdsOK { w with used := t :: w.used } :=
  ⟨h.nodup, fun l hl => List.mem_cons_of_mem _ (h.used l hl), fun id hid => List.mem_cons_of_mem _ (h.dead_used id hid),
   h.dead_gone, h.good⟩

/-- a fresh listener is subscribed -/
theorem IdsOK.add {w : World} (h : IdsOK w) (l : Sub) (hf : l.id ∉ w.used) :
    IdsOK { w with used := l.id :: w.used, subs := w.subs ++ [l] } := by
  refine ⟨?_, ?_, ?_, ?_, h.good⟩
  · simp only [List.map_append, List.map_cons, List.map_nil]
    rw [List.nodup_append]
    refine ⟨h.nodup, by simp, ?_⟩
    intro a ha b hb
    simp only [List.mem_map] at ha
    obtain ⟨x, hx, rfl⟩ := ha
    simp only [List.mem_cons, List.not_mem_nil, or_false] at hb
    subst hb
    intro heq; exact hf (heq ▸ h.used x hx)
  · intro x hx
    simp only [List.mem_append, List.mem_cons, List.not_mem_nil, or_false] at hx
    rcases hx with hx | rfl
    · exact List.mem_cons_of_mem _ (h.used x hx)
    · exact List.mem_cons_self
  · intro id hid; exact List.mem_cons_of_mem _ (h.dead_used id hid)
  · intro id hid x hx
    simp only [List.mem_append, List.mem_cons, List.not_mem_nil, or_false] at hx
    rcases hx with hx | rfl
    · exact h.dead_gone id hid x hx
    · intro heq; exact hf (heq ▸ h.dead_used id hid)

theorem IdsOK.filter_only {w : World} (h : IdsOK w) (p : Sub → Bool) : IdsOK { w with subs := w.subs.filter p } :=
  ⟨(List.filter_sublist.map _).nodup h.nodup, fun l hl => h.used l (List.mem_filter.mp hl).1, h.dead_used,
   fun id hid l hl => h.dead_gone id hid l (List.mem_filter.mp hl).1, h.good⟩

/-- `Unsubscribe`: the row (c, e, id) is removed and the trace says whether it was there -/
theorem IdsOK.remove {w w' : World} (h : IdsOK w) (c e id : Nat)
    (hs : w'.subs = w.subs.filter (fun l => !(l.c == c && l.e == e && l.id == id)))
    (hu : w'.used = w.used)
    (ho : w'.out = .unsub c e id ((lisOf w c e).any (fun l => l.id == id)) :: w.out) : IdsOK w' := by
  have hf := h.filter_only (fun l => !(l.c == c && l.e == e && l.id == id))
  cases hhit : (lisOf w c e).any (fun l => l.id == id) with
  | false =>
    rw [hhit] at ho
    exact hf.tok (w' := w') _ (by simp [Tok.plain]) hs hu ho
  | true =>
    rw [hhit] at ho
    simp only [lisOf, List.any_eq_true, List.mem_filter, Bool.and_eq_true, beq_iff_eq] at hhit
    obtain ⟨l0, ⟨hl0, hc0, he0⟩, hid0⟩ := hhit
    refine ⟨?_, ?_, ?_, ?_, ?_⟩
    · rw [hs]; exact hf.nodup
    · rw [hs, hu]; exact hf.used
    · rw [ho, hu]; intro x hx
      simp only [deadOf, List.mem_cons] at hx
      rcases hx with rfl | hx
      · exact hid0 ▸ h.used l0 hl0
      · exact h.dead_used x hx
    · rw [ho, hs]; intro x hx l hl
      simp only [deadOf, List.mem_cons] at hx
      have hl' := List.mem_filter.mp hl
      rcases hx with rfl | hx
      · intro heq
        have : l = l0 := h.same hl'.1 hl0 (heq.trans hid0.symm)
        subst this
        simp [hc0, he0, hid0] at hl'
      · exact h.dead_gone x hx l hl'.1
    · rw [ho]; exact ⟨h.good, by intro p c e id args a he; cases he⟩

/-- `Clear`: every row of the centre is removed -/
theorem IdsOK.clear {w w' : World} (h : IdsOK w) (c : Nat)
    (hs : w'.subs = w.subs.filter (fun l => !(l.c == c)))
    (hu : w'.used = w.used)
    (ho : w'.out = .clear c ((w.subs.filter (fun l => l.c == c)).map (·.id)) :: w.out) : IdsOK w' := by
  have hf := h.filter_only (fun l => !(l.c == c))
  refine ⟨?_, ?_, ?_, ?_, ?_⟩
  · rw [hs]; exact hf.nodup
  · rw [hs, hu]; exact hf.used
  · rw [ho, hu]; intro x hx
    simp only [deadOf, List.mem_append, List.mem_map, List.mem_filter] at hx
    rcases hx with ⟨l, ⟨hl, _⟩, rfl⟩ | hx
    · exact h.used l hl
    · exact h.dead_used x hx
  · rw [ho, hs]; intro x hx l hl
    simp only [deadOf, List.mem_append, List.mem_map, List.mem_filter] at hx
    have hl' := List.mem_filter.mp hl
    rcases hx with ⟨l0, ⟨hl0, hc0⟩, rfl⟩ | hx
    · intro heq
      have : l = l0 := h.same hl'.1 hl0 heq
      subst this
      simp [hc0] at hl'
    · exact h.dead_gone x hx l hl'.1
  · rw [ho]; exact ⟨h.good, by intro p c e id args a he; cases he⟩

/-- a listener that is currently subscribed is invoked -/
theorem IdsOK.invoke {w w' : World} (h : IdsOK w) (l : Sub) (hl : l ∈ w.subs) (p c e : Nat) (args a : List Nat)
    (hs : w'.subs = w.subs) (hu : w'.used = w.used) (ho : w'.out = .inv p c e l.id args a :: w.out) : IdsOK w' := by
  refine ⟨?_, ?_, ?_, ?_, ?_⟩
  · rw [hs]; exact h.nodup
  · rw [hs, hu]; exact h.used
  · rw [ho, hu]; simpa [deadOf] using h.dead_used
  · rw [ho, hs]; simpa [deadOf] using h.dead_gone
  · rw [ho]; refine ⟨h.good, ?_⟩
    intro p' c' e' id args' a' he
    injection he with _ _ _ hid _ _
    subst hid
    intro hd; exact h.dead_gone _ hd l hl rfl

theorem pick_mem {g g' : List GTok} {must may : List Sub} {l : Sub} (h : pick g must may = (some l, g')) :
    l ∈ must ∨ l ∈ may := by
  unfold pick at h
  split at h
  · split at h
    · rename_i l' hf
      simp only [Prod.mk.injEq, Option.some.injEq] at h
      have := List.mem_of_find?_eq_some hf
      rw [← h.1]; simpa using this
    · simp only [Prod.mk.injEq] at h
      exact Or.inl (List.mem_of_mem_head? h.1)
  · split at h
    · simp at h
    · simp only [Prod.mk.injEq, Option.some.injEq] at h
      rw [← h.1]; simp
  · simp only [Prod.mk.injEq] at h
    exact Or.inl (List.mem_of_mem_head? h.1)

theorem pick_none {g g' : List GTok} {must may : List Sub} (h : pick g must may = (none, g')) : must = [] := by
  unfold pick at h
  split at h
  · split at h
    · simp at h
    · simp only [Prod.mk.injEq] at h
      exact List.head?_eq_none_iff.mp h.1
  · split at h
    · rfl
    · simp at h
  · simp only [Prod.mk.injEq] at h
    exact List.head?_eq_none_iff.mp h.1

theorem doSub_ids {w : World} (h : IdsOK w) (c e t : Nat) (g : Bool) : IdsOK (doSub w c e t g) := by
  unfold doSub
  split
  next ct tm _ _ =>
    by_cases hu : w.used.contains t = true
    · simp only [hu, if_true]; exact h.tok .dup rfl rfl rfl rfl
    · have hf : t ∉ w.used := by simpa using hu
      have hu' : w.used.contains t = false := by simpa using hu
      simp only [hu', Bool.false_eq_true, if_false]
      have h1 := h.more_used t
      have h2 := h.add ⟨c, e, t, tm.bound, tm.fn, false⟩ hf
      have h3 := h.add ⟨c, e, t, tm.bound, tm.fn, g⟩ hf
      repeat' split
      all_goals first
        | exact h1.tok _ rfl rfl rfl rfl
        | exact h2.tok _ rfl rfl rfl rfl
        | exact h3.tok _ rfl rfl rfl rfl
  next => exact h.tok .bad rfl rfl rfl rfl

theorem removeSub_ids {w : World} (h : IdsOK w) (c e id : Nat) : IdsOK (removeSub w c e id) := by
  unfold removeSub
  simp only []
  split <;> exact h.remove c e id rfl rfl rfl

theorem doUnsub_ids {w : World} (h : IdsOK w) (c e t : Nat) : IdsOK (doUnsub w c e t) := by
  unfold doUnsub
  repeat' split
  all_goals first
    | exact removeSub_ids h c e t
    | exact h.tok _ rfl rfl rfl rfl

theorem doUnsubFn_ids {w : World} (h : IdsOK w) (c e f : Nat) : IdsOK (doUnsubFn w c e f) := by
  unfold doUnsubFn
  repeat' split
  all_goals first
    | exact removeSub_ids h c e _
    | exact h.tok _ rfl rfl rfl rfl

theorem doUnsubR_ids {w : World} (h : IdsOK w) (c e f r : Nat) : IdsOK (doUnsubR w c e f r) := by
  unfold doUnsubR
  repeat' split
  all_goals first
    | exact removeSub_ids h c e _
    | exact h.tok _ rfl rfl rfl rfl

theorem openDisp_ids {w : World} (h : IdsOK w) (ct : CAttr) (c e : Nat) (a : List Nat) : IdsOK (openDisp w ct c e a) := by
  unfold openDisp
  simp only []
  split <;> exact h.tok (.opn w.pubs c e a) rfl rfl rfl rfl

theorem doPub_ids {w : World} (h : IdsOK w) (c e : Nat) (a : List Nat) : IdsOK (doPub w c e a) := by
  unfold doPub
  repeat' split
  all_goals first
    | exact openDisp_ids h _ c e a
    | exact h.tok _ rfl rfl rfl rfl

theorem doGpub_ids {w : World} (h : IdsOK w) (e : Nat) (a : List Nat) : IdsOK (doGpub w e a) :=
  h.tok _ rfl rfl rfl rfl

theorem doClear_ids {w : World} (h : IdsOK w) (c : Nat) : IdsOK (doClear w c) := by
  unfold doClear
  split
  · exact h.clear c rfl rfl rfl
  · exact h.tok _ rfl rfl rfl rfl

theorem doGsub_ids {w : World} (h : IdsOK w) (e c : Nat) (add : Bool) : IdsOK (doGsub w e c add) := by
  unfold doGsub
  repeat' split
  all_goals exact h.tok _ rfl rfl rfl rfl

theorem doSubR_ids {w : World} (h : IdsOK w) (c e t r : Nat) : IdsOK (doSubR w c e t r) := by
  unfold doSubR
  split
  next ct tm _ _ =>
    split
    · exact h.tok .bad rfl rfl rfl rfl
    · by_cases hu : w.used.contains t = true
      · simp only [hu, if_true]; exact h.tok .dup rfl rfl rfl rfl
      · have hf : t ∉ w.used := by simpa using hu
        have hu' : w.used.contains t = false := by simpa using hu
        simp only [hu', Bool.false_eq_true, if_false]
        have h1 := h.more_used t
        have h2 := h.add ⟨c, e, t, tm.bound, tm.fn, false⟩ hf
        repeat' split
        all_goals first
          | exact h1.tok _ rfl rfl rfl rfl
          | exact h2.tok _ rfl rfl rfl rfl
  next => exact h.tok .bad rfl rfl rfl rfl

theorem doGsubH_ids {w : World} (h : IdsOK w) (e c t : Nat) : IdsOK (doGsubH w e c t) := by
  unfold doGsubH
  repeat' split
  all_goals first
    | exact h.tok _ rfl rfl rfl rfl
    | exact h.of_eq rfl rfl rfl

theorem execOp_ids {w : World} (h : IdsOK w) (op : SOp) : IdsOK (execOp w op) := by
  cases op <;> simp only [execOp]
  · exact doSub_ids h ..
  · exact doUnsub_ids h ..
  · exact doUnsubFn_ids h ..
  · exact doPub_ids h ..
  · exact doGpub_ids h ..
  · exact doClear_ids h ..
  · exact doGsub_ids h ..
  · exact doGsub_ids h ..
  · exact doGsubH_ids h ..
  · exact doSubR_ids h ..
  · exact doUnsubR_ids h ..


theorem closeDisp_ids {w : World} (h : IdsOK w) (g : List GTok) (rest : List Frame) (p c e : Nat) (snap : List Nat) (lt : Bool) :
    IdsOK (closeDisp w g rest p c e snap lt) := h.tok (.cls p) rfl rfl rfl rfl

theorem lisOf_mem {w : World} {c e : Nat} {l : Sub} : l ∈ lisOf w c e ↔ l ∈ w.subs ∧ l.c = c ∧ l.e = e := by
  simp [lisOf, List.mem_filter, and_assoc]

theorem defectOf_fixed {w : World} (hc : w.cfg = Cfg.fixed) (ct : CAttr) : defectOf w ct = false := by
  simp [defectOf, hc, Cfg.fixed]

/-- in the repaired code the loop only ever produces listeners that are subscribed right now -/
theorem mustOf_mem {w : World} {ct : CAttr} {c e : Nat} {snap called : List Nat} {l : Sub}
    (hr : ct.running = true) (h : l ∈ mustOf w ct c e snap called) :
    l ∈ lisOf w c e ∧ l.id ∈ snap ∧ l.id ∉ called := by
  simpa [mustOf, hr, List.mem_filter] using h

theorem mayOf_mem {w : World} {ct : CAttr} {c e : Nat} {snap called : List Nat} {l : Sub}
    (h : l ∈ mayOf w ct c e snap called) :
    l ∈ lisOf w c e ∧ l.id ∉ snap ∧ l.id ∉ called ∧ ct.light = true := by
  unfold mayOf at h
  split at h
  · rename_i hlr
    simp only [List.mem_filter, Bool.and_eq_true, Bool.not_eq_true', List.contains_eq_mem, decide_eq_false_iff_not] at h hlr
    exact ⟨h.1, h.2.1, h.2.2, hlr.1⟩
  · simp at h

theorem stepDisp_ids {w : World} (h : IdsOK w) (hc : w.cfg = Cfg.fixed) (rest : List Frame) (p c e : Nat)
    (a snap called : List Nat) : IdsOK (stepDisp w rest p c e a snap called) := by
  unfold stepDisp
  split
  · exact closeDisp_ids h ..
  · rename_i ct _
    rw [defectOf_fixed hc]
    split
    · exact closeDisp_ids h ..
    · rename_i hrun
      have hr : ct.running = true := by simpa using hrun
      split
      · exact closeDisp_ids h ..
      · rename_i l g hp
        have hl : l ∈ w.subs := by
          rcases pick_mem hp with hm | hm
          · exact (lisOf_mem.mp (mustOf_mem hr hm).1).1
          · exact (lisOf_mem.mp (mayOf_mem hm).1).1
        exact h.invoke l hl p c e _ a rfl rfl rfl

theorem stepDrain_ids {w : World} (h : IdsOK w) (rest : List Frame) (c n : Nat) : IdsOK (stepDrain w rest c n) := by
  unfold stepDrain
  repeat' split
  all_goals first
    | (refine openDisp_ids (IdsOK.of_eq h ?_ ?_ ?_) .. <;> rfl)
    | exact h.of_eq rfl rfl rfl

theorem step_ids {w : World} (h : IdsOK w) (hc : w.cfg = Cfg.fixed) : IdsOK (step w) := by
  unfold step
  repeat' split
  all_goals first
    | exact h
    | exact h.of_eq rfl rfl rfl
    | (refine execOp_ids (IdsOK.of_eq h ?_ ?_ ?_) _ <;> rfl)
    | exact stepDisp_ids h hc ..
    | exact stepDrain_ids h ..

theorem init_ids (cfg : Cfg) (cs : List (Bool × Bool)) (tm : List (Nat × Tmpl)) : IdsOK (init cfg cs tm) :=
  ⟨by simp [init], by simp [init], by simp [init, deadOf], by simp [init, deadOf], by simp [init, Good]⟩


/-! ### FixOK: the repaired code holds no list lock while a listener runs -/
structure FixOK (w : World) : Prop where
  cfg : w.cfg = Cfg.fixed
  locks : w.locks = []
  nob : w.blocked ≠ some .reentrant

theorem FixOK.of_eq {w w' : World} (h : FixOK w) (h1 : w'.cfg = w.cfg) (h2 : w'.locks = w.locks)
    (h3 : w'.blocked = w.blocked) : FixOK w' := ⟨h1 ▸ h.cfg, h2 ▸ h.locks, h3 ▸ h.nob⟩

theorem doSub_fix {w : World} (h : FixOK w) (c e t : Nat) (g : Bool) : FixOK (doSub w c e t g) := by
  have hl := h.locks
  unfold doSub
  split
  · simp only []
    repeat' split
    all_goals first
      | exact h.of_eq rfl rfl rfl
      | (exfalso; simp_all)
  · exact h.of_eq rfl rfl rfl

theorem removeSub_fix {w : World} (h : FixOK w) (c e id : Nat) : FixOK (removeSub w c e id) := by
  unfold removeSub
  simp only []
  split <;> exact h.of_eq rfl rfl rfl

theorem doUnsub_fix {w : World} (h : FixOK w) (c e t : Nat) : FixOK (doUnsub w c e t) := by
  have hl := h.locks
  unfold doUnsub
  repeat' split
  all_goals first
    | exact removeSub_fix h ..
    | exact h.of_eq rfl rfl rfl
    | (exfalso; simp_all)

theorem doUnsubFn_fix {w : World} (h : FixOK w) (c e f : Nat) : FixOK (doUnsubFn w c e f) := by
  unfold doUnsubFn
  repeat' split
  all_goals first
    | exact removeSub_fix h ..
    | exact h.of_eq rfl rfl rfl

theorem doUnsubR_fix {w : World} (h : FixOK w) (c e f r : Nat) : FixOK (doUnsubR w c e f r) := by
  unfold doUnsubR
  repeat' split
  all_goals first
    | exact removeSub_fix h ..
    | exact h.of_eq rfl rfl rfl

theorem openDisp_fix {w : World} (h : FixOK w) (ct : CAttr) (c e : Nat) (a : List Nat) : FixOK (openDisp w ct c e a) := by
  have hc := h.cfg
  unfold openDisp
  simp only [hc, Cfg.fixed, Bool.false_and, Bool.false_eq_true, if_false]
  exact ⟨rfl, h.locks, h.nob⟩

theorem doPub_fix {w : World} (h : FixOK w) (c e : Nat) (a : List Nat) : FixOK (doPub w c e a) := by
  unfold doPub
  repeat' split
  all_goals first
    | exact openDisp_fix h ..
    | exact h.of_eq rfl rfl rfl
    | exact ⟨h.cfg, h.locks, by simp⟩

theorem doClear_fix {w : World} (h : FixOK w) (c : Nat) : FixOK (doClear w c) := by
  unfold doClear
  split <;> exact h.of_eq rfl rfl rfl

theorem doGsub_fix {w : World} (h : FixOK w) (e c : Nat) (add : Bool) : FixOK (doGsub w e c add) := by
  unfold doGsub
  repeat' split
  all_goals exact h.of_eq rfl rfl rfl

theorem doSubR_fix {w : World} (h : FixOK w) (c e t r : Nat) : FixOK (doSubR w c e t r) := by
  unfold doSubR
  split
  · simp only []
    repeat' split
    all_goals exact h.of_eq rfl rfl rfl
  · exact h.of_eq rfl rfl rfl

theorem doGsubH_fix {w : World} (h : FixOK w) (e c t : Nat) : FixOK (doGsubH w e c t) := by
  unfold doGsubH
  repeat' split
  all_goals first
    | exact h.of_eq rfl rfl rfl
    | exact h.of_eq rfl rfl rfl

theorem execOp_fix {w : World} (h : FixOK w) (op : SOp) : FixOK (execOp w op) := by
  cases op <;> simp only [execOp]
  · exact doSub_fix h ..
  · exact doUnsub_fix h ..
  · exact doUnsubFn_fix h ..
  · exact doPub_fix h ..
  · exact h.of_eq rfl rfl rfl
  · exact doClear_fix h ..
  · exact doGsub_fix h ..
  · exact doGsub_fix h ..
  · exact doGsubH_fix h ..
  · exact doSubR_fix h ..
  · exact doUnsubR_fix h ..

theorem closeDisp_fix {w : World} (h : FixOK w) (g : List GTok) (rest : List Frame) (p c e : Nat) (snap : List Nat) (lt : Bool) :
    FixOK (closeDisp w g rest p c e snap lt) := by
  have hc := h.cfg
  unfold closeDisp
  simp only [hc, Cfg.fixed, Bool.false_and, Bool.false_eq_true, if_false]
  exact ⟨rfl, h.locks, h.nob⟩

theorem stepDisp_fix {w : World} (h : FixOK w) (rest : List Frame) (p c e : Nat) (a snap called : List Nat) :
    FixOK (stepDisp w rest p c e a snap called) := by
  unfold stepDisp
  repeat' split
  all_goals first
    | exact closeDisp_fix h ..
    | (refine closeDisp_fix (FixOK.of_eq h ?_ ?_ ?_) .. <;> rfl)
    | exact h.of_eq rfl rfl rfl

theorem stepDrain_fix {w : World} (h : FixOK w) (rest : List Frame) (c n : Nat) : FixOK (stepDrain w rest c n) := by
  unfold stepDrain
  repeat' split
  all_goals first
    | (refine openDisp_fix (FixOK.of_eq h ?_ ?_ ?_) .. <;> rfl)
    | exact h.of_eq rfl rfl rfl

theorem step_fix {w : World} (h : FixOK w) : FixOK (step w) := by
  unfold step
  repeat' split
  all_goals first
    | exact h
    | exact h.of_eq rfl rfl rfl
    | (refine execOp_fix (FixOK.of_eq h ?_ ?_ ?_) _ <;> rfl)
    | exact stepDisp_fix h ..
    | exact stepDrain_fix h ..

theorem reach_fix {w : World} (h : Reach w) : FixOK w := by
  induction h with
  | init cs tm => exact ⟨rfl, rfl, by simp [init]⟩
  | step _ ih => exact step_fix ih
  | call ops g _ _ ih => exact ih.of_eq rfl rfl rfl
  | drain c n g _ _ ih => exact ih.of_eq rfl rfl rfl

theorem reach_ids {w : World} (h : Reach w) : IdsOK w := by
  induction h with
  | init cs tm => exact init_ids _ cs tm
  | step hr ih => exact step_ids ih (reach_fix hr).cfg
  | call ops g _ _ ih => exact ih.of_eq rfl rfl rfl
  | drain c n g _ _ ih => exact ih.of_eq rfl rfl rfl


/-! ### RegOK: registration in the global centre follows the listener lists -/
structure RegOK (w : World) : Prop where
  /-- the global centre lists centre `c` under name `e` exactly when that list's Global flag is set — unless
  somebody called the global centre's Subscribe/Unsubscribe for that pair directly -/
  iff : ∀ c e, (e, c) ∉ w.direct → ((e, c) ∈ w.greg ↔ (c, e) ∈ w.gflag)
  /-- a flagged list is not empty (the last unsubscribe clears the flag and deregisters) -/
  nonempty : ∀ c e, (c, e) ∈ w.gflag → ∃ l ∈ w.subs, l.c = c ∧ l.e = e
  /-- a live global subscription keeps its list flagged -/
  glob : ∀ l ∈ w.subs, l.glob = true → (l.c, l.e) ∈ w.gflag

theorem mem_insertP {x y : Nat × Nat} {l : List (Nat × Nat)} : y ∈ insertP x l ↔ y = x ∨ y ∈ l := by
  unfold insertP
  split
  · rename_i h
    have : x ∈ l := by simpa using h
    constructor
    · exact Or.inr
    · rintro (rfl | h') <;> assumption
  · simp

theorem mem_eraseP {x y : Nat × Nat} {l : List (Nat × Nat)} : y ∈ eraseP x l ↔ y ∈ l ∧ y ≠ x := by
  simp [eraseP, List.mem_filter]

theorem insertP_of_mem {x : Nat × Nat} {l : List (Nat × Nat)} (h : x ∈ l) : insertP x l = l := by
  simp [insertP, h]

theorem insertP_idem (x : Nat × Nat) (l : List (Nat × Nat)) : insertP x (insertP x l) = insertP x l :=
  insertP_of_mem (mem_insertP.mpr (Or.inl rfl))

theorem eraseP_idem (x : Nat × Nat) (l : List (Nat × Nat)) : eraseP x (eraseP x l) = eraseP x l := by
  simp [eraseP, List.filter_filter]

theorem RegOK.of_eq {w w' : World} (h : RegOK w) (h1 : w'.subs = w.subs) (h2 : w'.gflag = w.gflag)
    (h3 : w'.greg = w.greg) (h4 : w'.direct = w.direct := by rfl) : RegOK w' := by
  refine ⟨?_, ?_, ?_⟩
  · rw [h2, h3, h4]; exact h.iff
  · rw [h1, h2]; exact h.nonempty
  · rw [h1, h2]; exact h.glob

theorem RegOK.add_plain {w : World} (h : RegOK w) (l : Sub) (hg : l.glob = true → (l.c, l.e) ∈ w.gflag) :
    RegOK { w with subs := w.subs ++ [l] } := by
  refine ⟨h.iff, ?_, ?_⟩
  · intro c e hm
    obtain ⟨x, hx, hh⟩ := h.nonempty c e hm
    exact ⟨x, List.mem_append_left _ hx, hh⟩
  · intro x hx hxg
    simp only [List.mem_append, List.mem_cons, List.not_mem_nil, or_false] at hx
    rcases hx with hx | rfl
    · exact h.glob x hx hxg
    · exact hg hxg

theorem RegOK.add_flag {w : World} (h : RegOK w) (l : Sub) :
    RegOK { w with subs := w.subs ++ [l], gflag := insertP (l.c, l.e) w.gflag, greg := insertP (l.e, l.c) w.greg } := by
  refine ⟨?_, ?_, ?_⟩
  · intro c e hd
    simp only [mem_insertP, Prod.mk.injEq]
    rw [h.iff c e hd]
    constructor <;> rintro (⟨h1, h2⟩ | h') <;> first | exact Or.inl ⟨h2, h1⟩ | exact Or.inr h'
  · intro c e hm
    simp only [mem_insertP, Prod.mk.injEq] at hm
    rcases hm with ⟨rfl, rfl⟩ | hm
    · exact ⟨l, by simp, rfl, rfl⟩
    · obtain ⟨x, hx, hh⟩ := h.nonempty c e hm
      exact ⟨x, List.mem_append_left _ hx, hh⟩
  · intro x hx hxg
    simp only [List.mem_append, List.mem_cons, List.not_mem_nil, or_false] at hx
    simp only [mem_insertP]
    rcases hx with hx | rfl
    · exact Or.inr (h.glob x hx hxg)
    · exact Or.inl rfl

theorem doSub_reg {w : World} (h : RegOK w) (c e t : Nat) (g : Bool) : RegOK (doSub w c e t g) := by
  unfold doSub
  split
  · rename_i ct tm _ _
    simp only []
    have hA := h.add_plain ⟨c, e, t, tm.bound, tm.fn, false⟩ (by simp)
    have hB := h.add_flag ⟨c, e, t, tm.bound, tm.fn, g⟩
    repeat' split
    all_goals first
      | exact h.of_eq rfl rfl rfl
      | exact hA.of_eq rfl rfl rfl
      | exact hB.of_eq rfl rfl rfl
      | skip
    · rename_i hcond
      refine (h.add_plain ⟨c, e, t, tm.bound, tm.fn, g⟩ ?_).of_eq rfl rfl rfl
      intro hg
      simp only at hg
      simpa [hg] using hcond
  · exact h.of_eq rfl rfl rfl


theorem removeSub_reg {w : World} (h : RegOK w) (c e id : Nat) : RegOK (removeSub w c e id) := by
  unfold removeSub
  simp only []
  split
  · rename_i hcond
    simp only [Bool.and_eq_true, List.contains_eq_mem, decide_eq_true_eq, List.isEmpty_iff] at hcond
    obtain ⟨_, hemp⟩ := hcond
    refine RegOK.of_eq (w := { w with subs := w.subs.filter (fun l => !(l.c == c && l.e == e && l.id == id)),
                                       gflag := eraseP (c, e) w.gflag, greg := eraseP (e, c) w.greg }) ?_ rfl rfl rfl
    have hnone : ∀ l ∈ w.subs.filter (fun l => !(l.c == c && l.e == e && l.id == id)), ¬(l.c = c ∧ l.e = e) := by
      intro l hl hce
      have : l ∈ lisOf { w with subs := w.subs.filter (fun l => !(l.c == c && l.e == e && l.id == id)) } c e :=
        lisOf_mem.mpr ⟨hl, hce.1, hce.2⟩
      rw [hemp] at this; simp at this
    refine ⟨?_, ?_, ?_⟩
    · intro c' e' hd
      simp only [mem_eraseP, ne_eq, Prod.mk.injEq]
      rw [h.iff c' e' hd]
      constructor <;> rintro ⟨h1, h2⟩ <;> exact ⟨h1, fun hh => h2 ⟨hh.2, hh.1⟩⟩
    · intro c' e' hm
      simp only [mem_eraseP, ne_eq, Prod.mk.injEq] at hm
      obtain ⟨x, hx, hxc, hxe⟩ := h.nonempty c' e' hm.1
      refine ⟨x, List.mem_filter.mpr ⟨hx, ?_⟩, hxc, hxe⟩
      have : ¬(x.c = c ∧ x.e = e) := by rw [hxc, hxe]; exact hm.2
      simp only [Bool.not_eq_true', Bool.and_eq_false_iff, beq_eq_false_iff_ne, ne_eq]
      by_cases h1 : x.c = c
      · by_cases h2 : x.e = e
        · exact absurd ⟨h1, h2⟩ this
        · exact Or.inl (Or.inr h2)
      · exact Or.inl (Or.inl h1)
    · intro x hx hxg
      have hx' := (List.mem_filter.mp hx).1
      simp only [mem_eraseP, ne_eq, Prod.mk.injEq]
      exact ⟨h.glob x hx' hxg, hnone x hx⟩
  · rename_i hcond
    refine RegOK.of_eq (w := { w with subs := w.subs.filter (fun l => !(l.c == c && l.e == e && l.id == id)) }) ?_ rfl rfl rfl
    refine ⟨h.iff, ?_, ?_⟩
    · intro c' e' hm
      by_cases hce : c' = c ∧ e' = e
      · obtain ⟨rfl, rfl⟩ := hce
        -- the flag stayed, so the list is not empty after the removal
        have hne : ¬ (lisOf { w with subs := w.subs.filter (fun l => !(l.c == c' && l.e == e' && l.id == id)) } c' e').isEmpty = true := by
          intro hemp; apply hcond
          simp only [Bool.and_eq_true, List.contains_eq_mem, decide_eq_true_eq]
          exact ⟨hm, hemp⟩
        cases hl : lisOf { w with subs := w.subs.filter (fun l => !(l.c == c' && l.e == e' && l.id == id)) } c' e' with
        | nil => exact absurd (by rw [hl]; rfl) hne
        | cons x xs =>
          have hx : x ∈ lisOf { w with subs := w.subs.filter (fun l => !(l.c == c' && l.e == e' && l.id == id)) } c' e' := by
            rw [hl]; simp
          exact ⟨x, (lisOf_mem.mp hx).1, (lisOf_mem.mp hx).2⟩
      · obtain ⟨x, hx, hxc, hxe⟩ := h.nonempty c' e' hm
        refine ⟨x, List.mem_filter.mpr ⟨hx, ?_⟩, hxc, hxe⟩
        have : ¬(x.c = c ∧ x.e = e) := by rw [hxc, hxe]; exact hce
        simp only [Bool.not_eq_true', Bool.and_eq_false_iff, beq_eq_false_iff_ne, ne_eq]
        by_cases h1 : x.c = c
        · by_cases h2 : x.e = e
          · exact absurd ⟨h1, h2⟩ this
          · exact Or.inl (Or.inr h2)
        · exact Or.inl (Or.inl h1)
    · intro x hx hxg
      exact h.glob x (List.mem_filter.mp hx).1 hxg

theorem RegOK.clear {w w' : World} (h : RegOK w) (c : Nat)
    (hs : w'.subs = w.subs.filter (fun l => !(l.c == c)))
    (hg : w'.gflag = w.gflag.filter (fun x => !(x.1 == c)))
    (hr : w'.greg = w.greg.filter (fun x => !(x.2 == c && w.gflag.contains (c, x.1))))
    (hdir : w'.direct = w.direct := by rfl) : RegOK w' := by
  refine ⟨?_, ?_, ?_⟩
  · intro c' e' hd
    rw [hg, hr]
    simp only [List.mem_filter, Bool.not_eq_true', beq_eq_false_iff_ne, ne_eq, Bool.and_eq_false_iff,
      List.contains_eq_mem, decide_eq_false_iff_not]
    rw [h.iff c' e' (hdir ▸ hd)]
    constructor
    · rintro ⟨h1, h2⟩
      refine ⟨h1, ?_⟩
      rcases h2 with h2 | h2
      · exact h2
      · intro hcc; subst hcc; exact h2 h1
    · rintro ⟨h1, h2⟩; exact ⟨h1, Or.inl h2⟩
  · intro c' e' hm
    rw [hg] at hm; rw [hs]
    simp only [List.mem_filter, Bool.not_eq_true', beq_eq_false_iff_ne, ne_eq] at hm
    obtain ⟨x, hx, hxc, hxe⟩ := h.nonempty c' e' hm.1
    refine ⟨x, List.mem_filter.mpr ⟨hx, ?_⟩, hxc, hxe⟩
    simp only [Bool.not_eq_true', beq_eq_false_iff_ne, ne_eq, hxc]; exact hm.2
  · intro x hx hxg
    rw [hs] at hx; rw [hg]
    have hx' := List.mem_filter.mp hx
    simp only [List.mem_filter, Bool.not_eq_true', beq_eq_false_iff_ne, ne_eq] at hx' ⊢
    exact ⟨h.glob x hx'.1 hxg, hx'.2⟩

theorem doClear_reg {w : World} (h : RegOK w) (c : Nat) : RegOK (doClear w c) := by
  unfold doClear
  split
  · exact h.clear c rfl rfl rfl
  · exact h.of_eq rfl rfl rfl

theorem doUnsub_reg {w : World} (h : RegOK w) (c e t : Nat) : RegOK (doUnsub w c e t) := by
  unfold doUnsub
  repeat' split
  all_goals first
    | exact removeSub_reg h ..
    | exact h.of_eq rfl rfl rfl

theorem doUnsubFn_reg {w : World} (h : RegOK w) (c e f : Nat) : RegOK (doUnsubFn w c e f) := by
  unfold doUnsubFn
  repeat' split
  all_goals first
    | exact removeSub_reg h ..
    | exact h.of_eq rfl rfl rfl

theorem doUnsubR_reg {w : World} (h : RegOK w) (c e f r : Nat) : RegOK (doUnsubR w c e f r) := by
  unfold doUnsubR
  repeat' split
  all_goals first
    | exact removeSub_reg h ..
    | exact h.of_eq rfl rfl rfl

theorem openDisp_reg {w : World} (h : RegOK w) (ct : CAttr) (c e : Nat) (a : List Nat) : RegOK (openDisp w ct c e a) := by
  unfold openDisp
  simp only []
  split <;> exact h.of_eq rfl rfl rfl

theorem doPub_reg {w : World} (h : RegOK w) (c e : Nat) (a : List Nat) : RegOK (doPub w c e a) := by
  unfold doPub
  repeat' split
  all_goals first
    | exact openDisp_reg h ..
    | exact h.of_eq rfl rfl rfl

/-- a direct call changes the registration of that one (name, centre) pair only, and marks it -/
theorem doGsub_reg {w : World} (h : RegOK w) (e c : Nat) (add : Bool) : RegOK (doGsub w e c add) := by
  unfold doGsub
  split
  · split
    · exact h.of_eq rfl rfl rfl
    · refine ⟨?_, h.nonempty, h.glob⟩
      intro c' e' hd
      simp only [emit, mem_insertP, not_or, Prod.mk.injEq, not_and] at hd ⊢
      have hne : ¬((e', c') = (e, c)) := by simpa using hd.1
      rw [← h.iff c' e' hd.2]
      cases add
      · simp only [Bool.false_eq_true, if_false, mem_eraseP, ne_eq]
        exact ⟨fun hh => hh.1, fun hh => ⟨hh, hne⟩⟩
      · simp only [if_true, mem_insertP]
        exact ⟨fun hh => hh.resolve_left hne, Or.inr⟩
  · exact h.of_eq rfl rfl rfl

theorem doSubR_reg {w : World} (h : RegOK w) (c e t r : Nat) : RegOK (doSubR w c e t r) := by
  unfold doSubR
  split
  · rename_i ct tm _ _
    simp only []
    have hA := h.add_plain ⟨c, e, t, tm.bound, tm.fn, false⟩ (by simp)
    repeat' split
    all_goals first
      | exact h.of_eq rfl rfl rfl
      | exact hA.of_eq rfl rfl rfl
  · exact h.of_eq rfl rfl rfl

theorem doGsubH_reg {w : World} (h : RegOK w) (e c t : Nat) : RegOK (doGsubH w e c t) := by
  unfold doGsubH
  repeat' split
  all_goals first
    | exact h.of_eq rfl rfl rfl
    | exact h.of_eq rfl rfl rfl

theorem execOp_reg {w : World} (h : RegOK w) (op : SOp) : RegOK (execOp w op) := by
  cases op <;> simp only [execOp]
  · exact doSub_reg h ..
  · exact doUnsub_reg h ..
  · exact doUnsubFn_reg h ..
  · exact doPub_reg h ..
  · exact h.of_eq rfl rfl rfl
  · exact doClear_reg h ..
  · exact doGsub_reg h ..
  · exact doGsub_reg h ..
  · exact doGsubH_reg h ..
  · exact doSubR_reg h ..
  · exact doUnsubR_reg h ..

theorem stepDisp_reg {w : World} (h : RegOK w) (rest : List Frame) (p c e : Nat) (a snap called : List Nat) :
    RegOK (stepDisp w rest p c e a snap called) := by
  unfold stepDisp closeDisp
  repeat' split
  all_goals exact h.of_eq rfl rfl rfl

theorem stepDrain_reg {w : World} (h : RegOK w) (rest : List Frame) (c n : Nat) : RegOK (stepDrain w rest c n) := by
  unfold stepDrain
  repeat' split
  all_goals first
    | (refine openDisp_reg (RegOK.of_eq h ?_ ?_ ?_) .. <;> rfl)
    | exact h.of_eq rfl rfl rfl

theorem step_reg {w : World} (h : RegOK w) : RegOK (step w) := by
  unfold step
  repeat' split
  all_goals first
    | exact h
    | exact h.of_eq rfl rfl rfl
    | (refine execOp_reg (RegOK.of_eq h ?_ ?_ ?_) _ <;> rfl)
    | exact stepDisp_reg h ..
    | exact stepDrain_reg h ..

theorem reach_reg {w : World} (h : Reach w) : RegOK w := by
  induction h with
  | init cs tm => exact ⟨by simp [init], by simp [init], by simp [init]⟩
  | step _ ih => exact step_reg ih
  | call ops g _ _ ih => exact ih.of_eq rfl rfl rfl
  | drain c n g _ _ ih => exact ih.of_eq rfl rfl rfl


/-! ### FrOK: running dispatch loops and the trace -/

/-- the dispatch frames of the call stack, innermost first -/
def disps (w : World) : List Frame := w.stack.filter isDisp

def pOf : Frame → Nat
  | .disp p .. => p
  | _ => 0

/-- no listener is invoked twice for one publication (trace is newest first) -/
def Once : List Tok → Prop
  | [] => True
  | t :: r => Once r ∧ ∀ p c e id args a, t = .inv p c e id args a → ∀ c' e' args' a', Tok.inv p c' e' id args' a' ∉ r

def Tok.isInv : Tok → Bool
  | .inv .. => true
  | _ => false

structure FrOK (w : World) : Prop where
  lt : ∀ p c e a snap called, Frame.disp p c e a snap called ∈ disps w → p < w.pubs
  distinct : ((disps w).map pOf).Nodup
  tok_lt : ∀ p c e id args a, Tok.inv p c e id args a ∈ w.out → p < w.pubs
  /-- every invocation recorded for a publication that is still running is in that loop's `called` -/
  seen : ∀ p c e id args a, Tok.inv p c e id args a ∈ w.out →
    ∀ c' e' a' snap called, Frame.disp p c' e' a' snap called ∈ disps w → id ∈ called
  /-- and vice versa -/
  called_inv : ∀ p c e a snap called, Frame.disp p c e a snap called ∈ disps w →
    ∀ id ∈ called, ∃ args, Tok.inv p c e id args a ∈ w.out
  opened : ∀ p c e a snap called, Frame.disp p c e a snap called ∈ disps w → Tok.opn p c e a ∈ w.out
  once : Once w.out

theorem FrOK.of_eq {w w' : World} (h : FrOK w) (hd : disps w' = disps w) (ho : w'.out = w.out)
    (hp : w'.pubs = w.pubs) : FrOK w' := by
  refine ⟨?_, ?_, ?_, ?_, ?_, ?_, ?_⟩
  · rw [hd, hp]; exact h.lt
  · rw [hd]; exact h.distinct
  · rw [ho, hp]; exact h.tok_lt
  · rw [ho, hd]; exact h.seen
  · rw [ho, hd]; exact h.called_inv
  · rw [ho, hd]; exact h.opened
  · rw [ho]; exact h.once

theorem FrOK.tok {w w' : World} (h : FrOK w) (t : Tok) (ht : t.isInv = false) (hd : disps w' = disps w)
    (ho : w'.out = t :: w.out) (hp : w'.pubs = w.pubs) : FrOK w' := by
  have hne : ∀ p c e id args a, t ≠ Tok.inv p c e id args a := by
    intro p c e id args a he; subst he; simp [Tok.isInv] at ht
  refine ⟨?_, ?_, ?_, ?_, ?_, ?_, ?_⟩
  · rw [hd, hp]; exact h.lt
  · rw [hd]; exact h.distinct
  · rw [ho, hp]; intro p c e id args a hm
    simp only [List.mem_cons] at hm
    rcases hm with hm | hm
    · exact absurd hm.symm (hne _ _ _ _ _ _)
    · exact h.tok_lt p c e id args a hm
  · rw [ho, hd]; intro p c e id args a hm
    simp only [List.mem_cons] at hm
    rcases hm with hm | hm
    · exact absurd hm.symm (hne _ _ _ _ _ _)
    · exact h.seen p c e id args a hm
  · rw [ho, hd]; intro p c e a snap called hf id hid
    obtain ⟨args, hx⟩ := h.called_inv p c e a snap called hf id hid
    exact ⟨args, List.mem_cons_of_mem _ hx⟩
  · rw [ho, hd]; intro p c e a snap called hf
    exact List.mem_cons_of_mem _ (h.opened p c e a snap called hf)
  · rw [ho]; exact ⟨h.once, fun p c e id args a he => absurd he (hne _ _ _ _ _ _)⟩

/-- a new dispatch starts -/
theorem FrOK.open {w w' : World} (h : FrOK w) (c e : Nat) (a snap : List Nat)
    (hd : disps w' = .disp w.pubs c e a snap [] :: disps w) (ho : w'.out = .opn w.pubs c e a :: w.out)
    (hp : w'.pubs = w.pubs + 1) : FrOK w' := by
  refine ⟨?_, ?_, ?_, ?_, ?_, ?_, ?_⟩
  · rw [hd, hp]; intro p c' e' a' snap' called hm
    simp only [List.mem_cons] at hm
    rcases hm with hm | hm
    · injection hm with h1; omega
    · have := h.lt _ _ _ _ _ _ hm; omega
  · rw [hd]; simp only [List.map_cons, List.nodup_cons, pOf]
    refine ⟨?_, h.distinct⟩
    intro hm
    simp only [List.mem_map] at hm
    obtain ⟨f, hf, hpf⟩ := hm
    have hdf : isDisp f = true := (List.mem_filter.mp hf).2
    cases f <;> simp [isDisp] at hdf
    rename_i p c' e' a' s' cl'
    have := h.lt _ _ _ _ _ _ hf
    simp [pOf] at hpf; omega
  · rw [ho, hp]; intro p c' e' id args a' hm
    simp only [List.mem_cons] at hm
    rcases hm with hm | hm
    · cases hm
    · have := h.tok_lt _ _ _ _ _ _ hm; omega
  · rw [ho, hd]; intro p c' e' id args a' hm c'' e'' a'' snap' called hf
    simp only [List.mem_cons] at hm hf
    rcases hm with hm | hm
    · cases hm
    · rcases hf with hf | hf
      · injection hf with h1
        have := h.tok_lt _ _ _ _ _ _ hm; omega
      · exact h.seen _ _ _ _ _ _ hm _ _ _ _ _ hf
  · rw [ho, hd]; intro p c' e' a' snap' called hf id hid
    simp only [List.mem_cons] at hf
    rcases hf with hf | hf
    · injection hf with _ _ _ _ _ h6; subst h6; simp at hid
    · obtain ⟨args, hx⟩ := h.called_inv _ _ _ _ _ _ hf id hid
      exact ⟨args, List.mem_cons_of_mem _ hx⟩
  · rw [ho, hd]; intro p c' e' a' snap' called hf
    simp only [List.mem_cons] at hf
    rcases hf with hf | hf
    · injection hf with h1 h2 h3 h4; subst h1 h2 h3 h4; exact List.mem_cons_self
    · exact List.mem_cons_of_mem _ (h.opened _ _ _ _ _ _ hf)
  · rw [ho]; exact ⟨h.once, fun p c e id args a he => by cases he⟩


/-- the innermost dispatch loop ends -/
theorem FrOK.close {w w' : World} (h : FrOK w) (f : Frame) (t : Tok) (ht : t.isInv = false)
    (hd : disps w = f :: disps w') (ho : w'.out = t :: w.out) (hp : w'.pubs = w.pubs) : FrOK w' := by
  have hsub : ∀ x, x ∈ disps w' → x ∈ disps w := fun x hx => by rw [hd]; exact List.mem_cons_of_mem _ hx
  have hne : ∀ p c e id args a, t ≠ Tok.inv p c e id args a := by
    intro p c e id args a he; subst he; simp [Tok.isInv] at ht
  refine ⟨?_, ?_, ?_, ?_, ?_, ?_, ?_⟩
  · rw [hp]; intro p c e a snap called hm; exact h.lt _ _ _ _ _ _ (hsub _ hm)
  · have := h.distinct; rw [hd] at this
    simp only [List.map_cons, List.nodup_cons] at this; exact this.2
  · rw [ho, hp]; intro p c e id args a hm
    simp only [List.mem_cons] at hm
    rcases hm with hm | hm
    · exact absurd hm.symm (hne _ _ _ _ _ _)
    · exact h.tok_lt p c e id args a hm
  · rw [ho]; intro p c e id args a hm c' e' a' snap called hf
    simp only [List.mem_cons] at hm
    rcases hm with hm | hm
    · exact absurd hm.symm (hne _ _ _ _ _ _)
    · exact h.seen p c e id args a hm _ _ _ _ _ (hsub _ hf)
  · rw [ho]; intro p c e a snap called hf id hid
    obtain ⟨args, hx⟩ := h.called_inv p c e a snap called (hsub _ hf) id hid
    exact ⟨args, List.mem_cons_of_mem _ hx⟩
  · rw [ho]; intro p c e a snap called hf
    exact List.mem_cons_of_mem _ (h.opened p c e a snap called (hsub _ hf))
  · rw [ho]; exact ⟨h.once, fun p c e id args a he => absurd he (hne _ _ _ _ _ _)⟩

/-- the innermost dispatch loop calls listener `id`, which it has not called before -/
theorem FrOK.invoke {w w' : World} (h : FrOK w) (p c e : Nat) (a snap called : List Nat) (D : List Frame)
    (id : Nat) (args : List Nat) (hnc : id ∉ called)
    (hw : disps w = .disp p c e a snap called :: D)
    (hd : disps w' = .disp p c e a snap (id :: called) :: D)
    (ho : w'.out = .inv p c e id args a :: w.out) (hp : w'.pubs = w.pubs) : FrOK w' := by
  have htop : Frame.disp p c e a snap called ∈ disps w := by rw [hw]; exact List.mem_cons_self
  have hD : ∀ x, x ∈ D → x ∈ disps w := fun x hx => by rw [hw]; exact List.mem_cons_of_mem _ hx
  have hdist := h.distinct
  rw [hw] at hdist
  simp only [List.map_cons, List.nodup_cons, pOf, List.mem_map, not_exists, not_and] at hdist
  -- no other running dispatch has publication number p
  have hDp : ∀ c' e' a' s' cl', Frame.disp p c' e' a' s' cl' ∉ D := by
    intro c' e' a' s' cl' hm
    exact hdist.1 _ hm (by simp [pOf])
  refine ⟨?_, ?_, ?_, ?_, ?_, ?_, ?_⟩
  · rw [hd, hp]; intro p' c' e' a' snap' called' hm
    simp only [List.mem_cons] at hm
    rcases hm with hm | hm
    · injection hm with h1; subst h1; exact h.lt _ _ _ _ _ _ htop
    · exact h.lt _ _ _ _ _ _ (hD _ hm)
  · rw [hd]; have := h.distinct; rw [hw] at this; simpa [pOf] using this
  · rw [ho, hp]; intro p' c' e' id' args' a' hm
    simp only [List.mem_cons] at hm
    rcases hm with hm | hm
    · injection hm with h1; subst h1; exact h.lt _ _ _ _ _ _ htop
    · exact h.tok_lt _ _ _ _ _ _ hm
  · rw [ho, hd]; intro p' c' e' id' args' a' hm c'' e'' a'' snap' called' hf
    simp only [List.mem_cons] at hm hf
    rcases hf with hf | hf
    · injection hf with h1 h2 h3 h4 h5 h6
      subst h6
      rcases hm with hm | hm
      · injection hm with _ _ _ h4'; subst h4'; exact List.mem_cons_self
      · subst h1
        exact List.mem_cons_of_mem _ (h.seen _ _ _ _ _ _ hm _ _ _ _ _ htop)
    · rcases hm with hm | hm
      · injection hm with h1; subst h1
        exact absurd hf (hDp _ _ _ _ _)
      · exact h.seen _ _ _ _ _ _ hm _ _ _ _ _ (hD _ hf)
  · rw [ho, hd]; intro p' c' e' a' snap' called' hf id' hid'
    simp only [List.mem_cons] at hf
    rcases hf with hf | hf
    · injection hf with h1 h2 h3 h4 h5 h6
      subst h1 h2 h3 h4 h5 h6
      simp only [List.mem_cons] at hid'
      rcases hid' with rfl | hid'
      · exact ⟨args, List.mem_cons_self⟩
      · obtain ⟨ar, hx⟩ := h.called_inv _ _ _ _ _ _ htop id' hid'
        exact ⟨ar, List.mem_cons_of_mem _ hx⟩
    · obtain ⟨ar, hx⟩ := h.called_inv _ _ _ _ _ _ (hD _ hf) id' hid'
      exact ⟨ar, List.mem_cons_of_mem _ hx⟩
  · rw [ho, hd]; intro p' c' e' a' snap' called' hf
    simp only [List.mem_cons] at hf
    rcases hf with hf | hf
    · injection hf with h1 h2 h3 h4 h5 h6
      subst h1 h2 h3 h4
      exact List.mem_cons_of_mem _ (h.opened _ _ _ _ _ _ htop)
    · exact List.mem_cons_of_mem _ (h.opened _ _ _ _ _ _ (hD _ hf))
  · rw [ho]; refine ⟨h.once, ?_⟩
    intro p' c' e' id' args' a' he c'' e'' args'' a'' hm
    injection he with h1 _ _ h4
    subst h1 h4
    exact hnc (h.seen _ _ _ _ _ _ hm _ _ _ _ _ htop)


theorem doSub_fr {w : World} (h : FrOK w) (c e t : Nat) (g : Bool) : FrOK (doSub w c e t g) := by
  unfold doSub
  split
  · simp only []
    repeat' split
    all_goals exact h.tok _ rfl rfl rfl rfl
  · exact h.tok _ rfl rfl rfl rfl

theorem removeSub_fr {w : World} (h : FrOK w) (c e id : Nat) : FrOK (removeSub w c e id) := by
  unfold removeSub
  simp only []
  split <;> exact h.tok _ rfl rfl rfl rfl

theorem doUnsub_fr {w : World} (h : FrOK w) (c e t : Nat) : FrOK (doUnsub w c e t) := by
  unfold doUnsub
  repeat' split
  all_goals first
    | exact removeSub_fr h ..
    | exact h.tok _ rfl rfl rfl rfl

theorem doUnsubFn_fr {w : World} (h : FrOK w) (c e f : Nat) : FrOK (doUnsubFn w c e f) := by
  unfold doUnsubFn
  repeat' split
  all_goals first
    | exact removeSub_fr h ..
    | exact h.tok _ rfl rfl rfl rfl

theorem doUnsubR_fr {w : World} (h : FrOK w) (c e f r : Nat) : FrOK (doUnsubR w c e f r) := by
  unfold doUnsubR
  repeat' split
  all_goals first
    | exact removeSub_fr h ..
    | exact h.tok _ rfl rfl rfl rfl

theorem openDisp_fr {w : World} (h : FrOK w) (ct : CAttr) (c e : Nat) (a : List Nat) : FrOK (openDisp w ct c e a) := by
  unfold openDisp
  simp only []
  split <;> exact h.open c e a ((lisOf w c e).map (·.id)) (by simp [disps, List.filter_cons, isDisp]) rfl rfl

theorem doPub_fr {w : World} (h : FrOK w) (c e : Nat) (a : List Nat) : FrOK (doPub w c e a) := by
  unfold doPub
  repeat' split
  all_goals first
    | exact openDisp_fr h ..
    | exact h.tok _ rfl rfl rfl rfl

theorem doClear_fr {w : World} (h : FrOK w) (c : Nat) : FrOK (doClear w c) := by
  unfold doClear
  split <;> exact h.tok _ rfl rfl rfl rfl

theorem doGsub_fr {w : World} (h : FrOK w) (e c : Nat) (add : Bool) : FrOK (doGsub w e c add) := by
  unfold doGsub
  repeat' split
  all_goals first
    | exact h.tok _ rfl rfl rfl rfl
    | (cases add <;> exact h.tok _ rfl rfl rfl rfl)

theorem doSubR_fr {w : World} (h : FrOK w) (c e t r : Nat) : FrOK (doSubR w c e t r) := by
  unfold doSubR
  split
  · simp only []
    repeat' split
    all_goals exact h.tok _ rfl rfl rfl rfl
  · exact h.tok _ rfl rfl rfl rfl

theorem doGsubH_fr {w : World} (h : FrOK w) (e c t : Nat) : FrOK (doGsubH w e c t) := by
  unfold doGsubH
  repeat' split
  all_goals first
    | exact h.tok _ rfl rfl rfl rfl
    | (refine h.of_eq ?_ rfl rfl; simp [disps, List.filter_cons, isDisp])

theorem execOp_fr {w : World} (h : FrOK w) (op : SOp) : FrOK (execOp w op) := by
  cases op <;> simp only [execOp]
  · exact doSub_fr h ..
  · exact doUnsub_fr h ..
  · exact doUnsubFn_fr h ..
  · exact doPub_fr h ..
  · exact h.tok _ rfl rfl rfl rfl
  · exact doClear_fr h ..
  · exact doGsub_fr h ..
  · exact doGsub_fr h ..
  · exact doGsubH_fr h ..
  · exact doSubR_fr h ..
  · exact doUnsubR_fr h ..

theorem stepDisp_fr {w : World} (h : FrOK w) (hc : w.cfg = Cfg.fixed) (rest : List Frame) (p c e : Nat)
    (a snap called : List Nat) (hst : w.stack = .disp p c e a snap called :: rest) :
    FrOK (stepDisp w rest p c e a snap called) := by
  have hw : disps w = .disp p c e a snap called :: rest.filter isDisp := by simp [disps, hst, List.filter_cons, isDisp]
  unfold stepDisp
  split
  · exact h.close _ (.cls p) rfl hw rfl rfl
  · rename_i ct _
    rw [defectOf_fixed hc]
    split
    · exact h.close _ (.cls p) rfl hw rfl rfl
    · rename_i hrun
      have hr : ct.running = true := by simpa using hrun
      split
      · exact h.close _ (.cls p) rfl hw rfl rfl
      · rename_i l g hp
        have hnc : l.id ∉ called := by
          rcases pick_mem hp with hm | hm
          · exact (mustOf_mem hr hm).2.2
          · exact (mayOf_mem hm).2.2.1
        exact h.invoke p c e a snap called (rest.filter isDisp) l.id _ hnc hw (by simp [disps, List.filter_cons, isDisp]) rfl rfl

theorem stepDrain_fr {w : World} (h : FrOK w) (rest : List Frame) (c n : Nat) (hst : w.stack = .drain c n :: rest) :
    FrOK (stepDrain w rest c n) := by
  have hw : disps w = rest.filter isDisp := by simp [disps, hst, List.filter_cons, isDisp]
  unfold stepDrain
  repeat' split
  all_goals first
    | (refine openDisp_fr (FrOK.of_eq h ?_ ?_ ?_) .. <;> first | rfl | simp [disps, List.filter_cons, isDisp, ← hw])
    | (refine FrOK.of_eq h ?_ rfl rfl; simp [disps, List.filter_cons, isDisp, ← hw])

theorem step_fr {w : World} (h : FrOK w) (hc : w.cfg = Cfg.fixed) : FrOK (step w) := by
  unfold step
  split
  · exact h
  · split
    · exact h
    · rename_i hst
      refine FrOK.of_eq h ?_ rfl rfl; simp [disps, hst, List.filter_cons, isDisp]
    · rename_i hst
      refine execOp_fr (FrOK.of_eq h ?_ ?_ ?_) _ <;> first | rfl | simp [disps, hst, List.filter_cons, isDisp]
    · rename_i hst; exact stepDisp_fr h hc _ _ _ _ _ _ _ hst
    · rename_i hst; exact stepDrain_fr h _ _ _ hst

theorem reach_fr {w : World} (h : Reach w) : FrOK w := by
  induction h with
  | init cs tm =>
    exact ⟨by simp [init, disps], by simp [init, disps], by simp [init], by simp [init], by simp [init, disps],
           by simp [init, disps], by simp [init, Once]⟩
  | step hr ih => exact step_fr ih (reach_fix hr).cfg
  | call ops g _ hs ih =>
    refine FrOK.of_eq ih ?_ rfl rfl; simp [disps, call, hs, List.filter_cons, isDisp]
  | drain c n g _ hs ih =>
    refine FrOK.of_eq ih ?_ rfl rfl; simp [disps, callDrain, hs, List.filter_cons, isDisp]


/-! ### SubOK: what an invocation passes and on whose behalf -/

def Tok.isSubOk : Tok → Bool
  | .sub _ _ _ _ true => true
  | _ => false

structure SubOK (w : World) : Prop where
  subtok : ∀ l ∈ w.subs, Tok.sub l.c l.e l.id l.bound true ∈ w.out
  sub_used : ∀ c e id b, Tok.sub c e id b true ∈ w.out → id ∈ w.used
  sub_unique : ∀ id c e b c' e' b', Tok.sub c e id b true ∈ w.out → Tok.sub c' e' id b' true ∈ w.out →
    c = c' ∧ e = e' ∧ b = b'
  /-- every invocation: the listener was subscribed to exactly this centre and name, and receives its
  bound arguments followed by the arguments of the publication being delivered -/
  invok : ∀ p c e id args a, Tok.inv p c e id args a ∈ w.out →
    ∃ b, Tok.sub c e id b true ∈ w.out ∧ args = b ++ a ∧ Tok.opn p c e a ∈ w.out

theorem SubOK.of_eq {w w' : World} (h : SubOK w) (hs : ∀ l ∈ w'.subs, l ∈ w.subs) (hu : ∀ x ∈ w.used, x ∈ w'.used)
    (ho : w'.out = w.out) : SubOK w' := by
  refine ⟨?_, ?_, ?_, ?_⟩
  · rw [ho]; intro l hl; exact h.subtok l (hs l hl)
  · rw [ho]; intro c e id b hm; exact hu _ (h.sub_used c e id b hm)
  · rw [ho]; exact h.sub_unique
  · rw [ho]; exact h.invok

theorem SubOK.tok {w w' : World} (h : SubOK w) (t : Tok) (ht : t.isInv = false) (ht' : t.isSubOk = false)
    (hs : ∀ l ∈ w'.subs, l ∈ w.subs) (hu : ∀ x ∈ w.used, x ∈ w'.used) (ho : w'.out = t :: w.out) : SubOK w' := by
  have hne : ∀ p c e id args a, t ≠ Tok.inv p c e id args a := by
    intro p c e id args a he; subst he; simp [Tok.isInv] at ht
  have hne' : ∀ c e id b, t ≠ Tok.sub c e id b true := by
    intro c e id b he; subst he; simp [Tok.isSubOk] at ht'
  have hsub : ∀ c e id b, Tok.sub c e id b true ∈ t :: w.out → Tok.sub c e id b true ∈ w.out := by
    intro c e id b hm
    simp only [List.mem_cons] at hm
    rcases hm with hm | hm
    · exact absurd hm.symm (hne' _ _ _ _)
    · exact hm
  refine ⟨?_, ?_, ?_, ?_⟩
  · rw [ho]; intro l hl; exact List.mem_cons_of_mem _ (h.subtok l (hs l hl))
  · rw [ho]; intro c e id b hm; exact hu _ (h.sub_used c e id b (hsub _ _ _ _ hm))
  · rw [ho]; intro id c e b c' e' b' h1 h2; exact h.sub_unique id c e b c' e' b' (hsub _ _ _ _ h1) (hsub _ _ _ _ h2)
  · rw [ho]; intro p c e id args a hm
    simp only [List.mem_cons] at hm
    rcases hm with hm | hm
    · exact absurd hm.symm (hne _ _ _ _ _ _)
    · obtain ⟨b, h1, h2, h3⟩ := h.invok p c e id args a hm
      exact ⟨b, List.mem_cons_of_mem _ h1, h2, List.mem_cons_of_mem _ h3⟩

theorem SubOK.add {w w' : World} (h : SubOK w) (l : Sub) (hf : l.id ∉ w.used)
    (hs : w'.subs = w.subs ++ [l]) (hu : w'.used = l.id :: w.used)
    (ho : w'.out = .sub l.c l.e l.id l.bound true :: w.out) : SubOK w' := by
  refine ⟨?_, ?_, ?_, ?_⟩
  · rw [ho, hs]; intro x hx
    simp only [List.mem_append, List.mem_cons, List.not_mem_nil, or_false] at hx
    rcases hx with hx | rfl
    · exact List.mem_cons_of_mem _ (h.subtok x hx)
    · exact List.mem_cons_self
  · rw [ho, hu]; intro c e id b hm
    simp only [List.mem_cons] at hm
    rcases hm with hm | hm
    · injection hm with _ _ h3; subst h3; exact List.mem_cons_self
    · exact List.mem_cons_of_mem _ (h.sub_used c e id b hm)
  · rw [ho]; intro id c e b c' e' b' h1 h2
    simp only [List.mem_cons] at h1 h2
    rcases h1 with h1 | h1 <;> rcases h2 with h2 | h2
    · injection h1 with a1 a2 a3 a4; injection h2 with b1 b2 b3 b4
      exact ⟨a1.trans b1.symm, a2.trans b2.symm, a4.trans b4.symm⟩
    · injection h1 with _ _ a3; exact absurd (a3 ▸ h.sub_used _ _ _ _ h2) hf
    · injection h2 with _ _ a3; exact absurd (a3 ▸ h.sub_used _ _ _ _ h1) hf
    · exact h.sub_unique id c e b c' e' b' h1 h2
  · rw [ho]; intro p c e id args a hm
    simp only [List.mem_cons] at hm
    rcases hm with hm | hm
    · cases hm
    · obtain ⟨b, h1, h2, h3⟩ := h.invok p c e id args a hm
      exact ⟨b, List.mem_cons_of_mem _ h1, h2, List.mem_cons_of_mem _ h3⟩

theorem SubOK.invoke {w w' : World} (h : SubOK w) (l : Sub) (hl : l ∈ w.subs) (p : Nat) (a : List Nat)
    (hopn : Tok.opn p l.c l.e a ∈ w.out)
    (hs : w'.subs = w.subs) (hu : w'.used = w.used)
    (ho : w'.out = .inv p l.c l.e l.id (l.bound ++ a) a :: w.out) : SubOK w' := by
  refine ⟨?_, ?_, ?_, ?_⟩
  · rw [ho, hs]; intro x hx; exact List.mem_cons_of_mem _ (h.subtok x hx)
  · rw [ho, hu]; intro c e id b hm
    simp only [List.mem_cons] at hm
    rcases hm with hm | hm
    · cases hm
    · exact h.sub_used c e id b hm
  · rw [ho]; intro id c e b c' e' b' h1 h2
    simp only [List.mem_cons] at h1 h2
    rcases h1 with h1 | h1
    · cases h1
    · rcases h2 with h2 | h2
      · cases h2
      · exact h.sub_unique id c e b c' e' b' h1 h2
  · rw [ho]; intro p' c e id args a' hm
    simp only [List.mem_cons] at hm
    rcases hm with hm | hm
    · injection hm with h1 h2 h3 h4 h5 h6
      subst h1 h2 h3 h4 h5 h6
      exact ⟨l.bound, List.mem_cons_of_mem _ (h.subtok l hl), rfl, List.mem_cons_of_mem _ hopn⟩
    · obtain ⟨b, h1, h2, h3⟩ := h.invok p' c e id args a' hm
      exact ⟨b, List.mem_cons_of_mem _ h1, h2, List.mem_cons_of_mem _ h3⟩


theorem doSub_sub {w : World} (h : SubOK w) (c e t : Nat) (g : Bool) : SubOK (doSub w c e t g) := by
  unfold doSub
  split
  next ct tm _ _ =>
    by_cases hu : w.used.contains t = true
    · simp only [hu, if_true]; exact h.tok .dup rfl rfl (fun _ hl => hl) (fun _ hx => hx) rfl
    · have hf : t ∉ w.used := by simpa using hu
      have hu' : w.used.contains t = false := by simpa using hu
      simp only [hu', Bool.false_eq_true, if_false]
      repeat' split
      all_goals first
        | exact h.tok _ rfl rfl (fun _ hl => hl) (fun _ hx => List.mem_cons_of_mem _ hx) rfl
        | exact h.add ⟨c, e, t, tm.bound, tm.fn, false⟩ hf rfl rfl rfl
        | exact h.add ⟨c, e, t, tm.bound, tm.fn, g⟩ hf rfl rfl rfl
  next => exact h.tok .bad rfl rfl (fun _ hl => hl) (fun _ hx => hx) rfl

theorem removeSub_sub {w : World} (h : SubOK w) (c e id : Nat) : SubOK (removeSub w c e id) := by
  unfold removeSub
  simp only []
  split <;> exact h.tok _ rfl rfl (fun _ hl => (List.mem_filter.mp hl).1) (fun _ hx => hx) rfl

theorem doUnsub_sub {w : World} (h : SubOK w) (c e t : Nat) : SubOK (doUnsub w c e t) := by
  unfold doUnsub
  repeat' split
  all_goals first
    | exact removeSub_sub h ..
    | exact h.tok _ rfl rfl (fun _ hl => hl) (fun _ hx => hx) rfl

theorem doUnsubFn_sub {w : World} (h : SubOK w) (c e f : Nat) : SubOK (doUnsubFn w c e f) := by
  unfold doUnsubFn
  repeat' split
  all_goals first
    | exact removeSub_sub h ..
    | exact h.tok _ rfl rfl (fun _ hl => hl) (fun _ hx => hx) rfl

theorem doUnsubR_sub {w : World} (h : SubOK w) (c e f r : Nat) : SubOK (doUnsubR w c e f r) := by
  unfold doUnsubR
  repeat' split
  all_goals first
    | exact removeSub_sub h ..
    | exact h.tok _ rfl rfl (fun _ hl => hl) (fun _ hx => hx) rfl

theorem openDisp_sub {w : World} (h : SubOK w) (ct : CAttr) (c e : Nat) (a : List Nat) : SubOK (openDisp w ct c e a) := by
  unfold openDisp
  simp only []
  split <;> exact h.tok (.opn w.pubs c e a) rfl rfl (fun _ hl => hl) (fun _ hx => hx) rfl

theorem doPub_sub {w : World} (h : SubOK w) (c e : Nat) (a : List Nat) : SubOK (doPub w c e a) := by
  unfold doPub
  repeat' split
  all_goals first
    | exact openDisp_sub h ..
    | exact h.tok _ rfl rfl (fun _ hl => hl) (fun _ hx => hx) rfl

theorem doClear_sub {w : World} (h : SubOK w) (c : Nat) : SubOK (doClear w c) := by
  unfold doClear
  split
  · exact h.tok _ rfl rfl (fun _ hl => (List.mem_filter.mp hl).1) (fun _ hx => hx) rfl
  · exact h.tok _ rfl rfl (fun _ hl => hl) (fun _ hx => hx) rfl

theorem doGsub_sub {w : World} (h : SubOK w) (e c : Nat) (add : Bool) : SubOK (doGsub w e c add) := by
  unfold doGsub
  repeat' split
  all_goals first
    | exact h.tok _ rfl rfl (fun _ hl => hl) (fun _ hx => hx) rfl
    | (cases add <;> exact h.tok _ rfl rfl (fun _ hl => hl) (fun _ hx => hx) rfl)

theorem doSubR_sub {w : World} (h : SubOK w) (c e t r : Nat) : SubOK (doSubR w c e t r) := by
  unfold doSubR
  split
  next ct tm _ _ =>
    split
    · exact h.tok .bad rfl rfl (fun _ hl => hl) (fun _ hx => hx) rfl
    · by_cases hu : w.used.contains t = true
      · simp only [hu, if_true]; exact h.tok .dup rfl rfl (fun _ hl => hl) (fun _ hx => hx) rfl
      · have hf : t ∉ w.used := by simpa using hu
        have hu' : w.used.contains t = false := by simpa using hu
        simp only [hu', Bool.false_eq_true, if_false]
        repeat' split
        all_goals first
          | exact h.tok _ rfl rfl (fun _ hl => hl) (fun _ hx => List.mem_cons_of_mem _ hx) rfl
          | exact h.add ⟨c, e, t, tm.bound, tm.fn, false⟩ hf rfl rfl rfl
  next => exact h.tok .bad rfl rfl (fun _ hl => hl) (fun _ hx => hx) rfl

theorem doGsubH_sub {w : World} (h : SubOK w) (e c t : Nat) : SubOK (doGsubH w e c t) := by
  unfold doGsubH
  repeat' split
  all_goals first
    | exact h.tok _ rfl rfl (fun _ hl => hl) (fun _ hx => hx) rfl
    | exact h.of_eq (fun _ hl => hl) (fun _ hx => hx) rfl

theorem execOp_sub {w : World} (h : SubOK w) (op : SOp) : SubOK (execOp w op) := by
  cases op <;> simp only [execOp]
  · exact doSub_sub h ..
  · exact doUnsub_sub h ..
  · exact doUnsubFn_sub h ..
  · exact doPub_sub h ..
  · exact h.tok _ rfl rfl (fun _ hl => hl) (fun _ hx => hx) rfl
  · exact doClear_sub h ..
  · exact doGsub_sub h ..
  · exact doGsub_sub h ..
  · exact doGsubH_sub h ..
  · exact doSubR_sub h ..
  · exact doUnsubR_sub h ..

theorem stepDisp_sub {w : World} (h : SubOK w) (hfr : FrOK w) (hc : w.cfg = Cfg.fixed) (rest : List Frame) (p c e : Nat)
    (a snap called : List Nat) (hst : w.stack = .disp p c e a snap called :: rest) :
    SubOK (stepDisp w rest p c e a snap called) := by
  have hopn : Tok.opn p c e a ∈ w.out :=
    hfr.opened p c e a snap called (by simp [disps, hst, List.filter_cons, isDisp])
  unfold stepDisp closeDisp
  split
  · exact h.tok (.cls p) rfl rfl (fun _ hl => hl) (fun _ hx => hx) rfl
  · rename_i ct _
    rw [defectOf_fixed hc]
    split
    · exact h.tok (.cls p) rfl rfl (fun _ hl => hl) (fun _ hx => hx) rfl
    · rename_i hrun
      have hr : ct.running = true := by simpa using hrun
      split
      · exact h.tok (.cls p) rfl rfl (fun _ hl => hl) (fun _ hx => hx) rfl
      · rename_i l g hp
        have hl : l ∈ lisOf w c e := by
          rcases pick_mem hp with hm | hm
          · exact (mustOf_mem hr hm).1
          · exact (mayOf_mem hm).1
        obtain ⟨hl1, rfl, rfl⟩ := lisOf_mem.mp hl
        exact h.invoke l hl1 p a hopn rfl rfl rfl

theorem stepDrain_sub {w : World} (h : SubOK w) (rest : List Frame) (c n : Nat) : SubOK (stepDrain w rest c n) := by
  unfold stepDrain
  repeat' split
  all_goals first
    | (refine openDisp_sub (SubOK.of_eq h ?_ ?_ ?_) .. <;> first | rfl | exact fun _ hx => hx)
    | exact h.of_eq (fun _ hl => hl) (fun _ hx => hx) rfl

theorem step_sub {w : World} (h : SubOK w) (hfr : FrOK w) (hc : w.cfg = Cfg.fixed) : SubOK (step w) := by
  unfold step
  split
  · exact h
  · split
    · exact h
    · exact h.of_eq (fun _ hl => hl) (fun _ hx => hx) rfl
    · refine execOp_sub (SubOK.of_eq h ?_ ?_ ?_) _ <;> first | rfl | exact fun _ hx => hx
    · rename_i hst; exact stepDisp_sub h hfr hc _ _ _ _ _ _ _ hst
    · exact stepDrain_sub h ..

theorem reach_sub {w : World} (h : Reach w) : SubOK w := by
  induction h with
  | init cs tm => exact ⟨by simp [init], by simp [init], by simp [init], by simp [init]⟩
  | step hr ih => exact step_sub ih (reach_fr hr) (reach_fix hr).cfg
  | call ops g _ _ ih => exact ih.of_eq (fun _ hl => hl) (fun _ hx => hx) rfl
  | drain c n g _ _ ih => exact ih.of_eq (fun _ hl => hl) (fun _ hx => hx) rfl



theorem enqAll_get (cs : List CAttr) (greg : List (Nat × Nat)) (e : Nat) (a : List Nat) (i : Nat) :
    (enqAll cs greg e a)[i]? = (cs[i]?).map (fun ct =>
      if greg.contains (e, i) && ct.queue.length < queueCap then { ct with queue := ct.queue ++ [(e, a)] } else ct) := by
  simp [enqAll, List.getElem?_mapIdx]

theorem deadOf_append (post r : List Tok) (id : Nat) (h : id ∈ deadOf r) : id ∈ deadOf (post ++ r) := by
  induction post with
  | nil => exact h
  | cons t post ih =>
    cases t <;> simp only [List.cons_append, deadOf] <;> try exact ih
    · rename_i c e i hit; cases hit
      · exact ih
      · exact List.mem_cons_of_mem _ ih
    · exact List.mem_append_right _ ih

theorem good_split (post r : List Tok) (h : Good (post ++ r)) (id : Nat) (hid : id ∈ deadOf r) :
    ∀ p c e args a, Tok.inv p c e id args a ∉ post := by
  induction post with
  | nil => simp
  | cons t post ih =>
    intro p c e args a hm
    simp only [List.cons_append, Good] at h
    simp only [List.mem_cons] at hm
    rcases hm with hm | hm
    · exact h.2 p c e id args a hm.symm (deadOf_append post r id hid)
    · exact ih h.1 p c e args a hm

theorem once_split (post pre : List Tok) (p c e id : Nat) (args a : List Nat)
    (h : Once (post ++ .inv p c e id args a :: pre)) : ∀ c' e' args' a', Tok.inv p c' e' id args' a' ∉ pre := by
  induction post with
  | nil => simp only [List.nil_append, Once] at h; exact h.2 p c e id args a rfl
  | cons t post ih => simp only [List.cons_append, Once] at h; exact ih h.1

theorem reach_steps {w : World} (h : Reach w) : ∀ n, Reach (steps n w)
  | 0 => h
  | n + 1 => reach_steps (Reach.step h) n


/-! ### QOK: what sits in a centre's event queue was published, and the queue is bounded -/

structure QOK (w : World) : Prop where
  prov : ∀ (c : Nat) (ct : CAttr) (e : Nat) (a : List Nat), w.cs[c]? = some ct → (e, a) ∈ ct.queue →
    Tok.pubq c e a ∈ w.out ∨ ∃ grew, Tok.gpub e a grew ∈ w.out ∧ c ∈ grew
  cap : ∀ (c : Nat) (ct : CAttr), w.cs[c]? = some ct → ct.queue.length ≤ queueCap

theorem setQueue_get (cs : List CAttr) (c : Nat) (q : List (Nat × List Nat)) (i : Nat) :
    (setQueue cs c q)[i]? = if i = c then (cs[c]?).map (fun ct => { ct with queue := q }) else cs[i]? := by
  unfold setQueue
  split
  · rename_i ct hct
    by_cases hi : i = c
    · subst hi; simp [hct, List.getElem?_set]
      have : i < cs.length := by
        rcases Nat.lt_or_ge i cs.length with h | h
        · exact h
        · simp [List.getElem?_eq_none h] at hct
      simp [this]
    · simp [hi, List.getElem?_set, Ne.symm hi]
  · rename_i hnone
    by_cases hi : i = c
    · subst hi; simp [hnone]
    · simp [hi]

theorem setRunning_get (cs : List CAttr) (c : Nat) (r : Bool) (i : Nat) :
    (setRunning cs c r)[i]? = if i = c then (cs[c]?).map (fun ct => { ct with running := r }) else cs[i]? := by
  unfold setRunning
  split
  · rename_i ct hct
    by_cases hi : i = c
    · subst hi; simp [hct, List.getElem?_set]
      have : i < cs.length := by
        rcases Nat.lt_or_ge i cs.length with h | h
        · exact h
        · simp [List.getElem?_eq_none h] at hct
      simp [this]
    · simp [hi, List.getElem?_set, Ne.symm hi]
  · rename_i hnone
    by_cases hi : i = c
    · subst hi; simp [hnone]
    · simp [hi]

theorem mem_grewOf (cs : List CAttr) (greg : List (Nat × Nat)) (e c : Nat) (ct : CAttr) (hc : cs[c]? = some ct) :
    c ∈ grewOf cs greg e ↔ (greg.contains (e, c) && decide (ct.queue.length < queueCap)) = true := by
  have hlt : c < cs.length := by
    rcases Nat.lt_or_ge c cs.length with h | h
    · exact h
    · simp [List.getElem?_eq_none h] at hc
  obtain ⟨_, hget⟩ := List.getElem?_eq_some_iff.mp hc
  simp [grewOf, List.mem_filter, hc, hlt, hget]

theorem QOK.of_eq {w w' : World} (h : QOK w) (h1 : w'.cs = w.cs) (h2 : w'.out = w.out) : QOK w' := by
  refine ⟨?_, ?_⟩
  · rw [h1, h2]; exact h.prov
  · rw [h1]; exact h.cap

/-- the queues are untouched (running flags may change), a token is appended -/
theorem QOK.tok {w w' : World} (h : QOK w) (t : Tok)
    (h1 : ∀ (c : Nat) (ct' : CAttr), w'.cs[c]? = some ct' → ∃ ct : CAttr, w.cs[c]? = some ct ∧ ct'.queue = ct.queue)
    (h2 : w'.out = t :: w.out) : QOK w' := by
  refine ⟨?_, ?_⟩
  · intro c ct' e a hc hm
    obtain ⟨ct, hct, hq⟩ := h1 c ct' hc
    rw [h2]
    rcases h.prov c ct e a hct (hq ▸ hm) with hp | ⟨grew, hg, hcg⟩
    · exact Or.inl (List.mem_cons_of_mem _ hp)
    · exact Or.inr ⟨grew, List.mem_cons_of_mem _ hg, hcg⟩
  · intro c ct' hc
    obtain ⟨ct, hct, hq⟩ := h1 c ct' hc
    rw [hq]; exact h.cap c ct hct

theorem same_queues (w : World) : ∀ (c : Nat) (ct' : CAttr), w.cs[c]? = some ct' → ∃ ct : CAttr, w.cs[c]? = some ct ∧ ct'.queue = ct.queue :=
  fun _ ct' h => ⟨ct', h, rfl⟩

theorem doSub_q {w : World} (h : QOK w) (c e t : Nat) (g : Bool) : QOK (doSub w c e t g) := by
  unfold doSub
  split
  · simp only []
    repeat' split
    all_goals exact h.tok _ (same_queues w) rfl
  · exact h.tok _ (same_queues w) rfl

theorem removeSub_q {w : World} (h : QOK w) (c e id : Nat) : QOK (removeSub w c e id) := by
  unfold removeSub
  simp only []
  split <;> exact h.tok _ (same_queues w) rfl

theorem doUnsub_q {w : World} (h : QOK w) (c e t : Nat) : QOK (doUnsub w c e t) := by
  unfold doUnsub
  repeat' split
  all_goals first
    | exact removeSub_q h ..
    | exact h.tok _ (same_queues w) rfl

theorem doUnsubFn_q {w : World} (h : QOK w) (c e f : Nat) : QOK (doUnsubFn w c e f) := by
  unfold doUnsubFn
  repeat' split
  all_goals first
    | exact removeSub_q h ..
    | exact h.tok _ (same_queues w) rfl

theorem doUnsubR_q {w : World} (h : QOK w) (c e f r : Nat) : QOK (doUnsubR w c e f r) := by
  unfold doUnsubR
  repeat' split
  all_goals first
    | exact removeSub_q h ..
    | exact h.tok _ (same_queues w) rfl

theorem openDisp_q {w : World} (h : QOK w) (ct : CAttr) (c e : Nat) (a : List Nat) : QOK (openDisp w ct c e a) := by
  unfold openDisp
  simp only []
  split <;> exact h.tok (.opn w.pubs c e a) (same_queues w) rfl

theorem doPub_q {w : World} (h : QOK w) (c e : Nat) (a : List Nat) : QOK (doPub w c e a) := by
  unfold doPub
  split
  · rename_i ct hct
    split
    · split
      · exact h.tok .blocked (same_queues w) rfl
      · rename_i hfull
        have hlen : ct.queue.length < queueCap := by simpa using hfull
        refine ⟨?_, ?_⟩
        · intro i cti e' a' hi hm
          simp only [emit, setQueue_get] at hi
          simp only [emit]
          by_cases hic : i = c
          · subst hic
            simp only [if_true, hct, Option.map_some, Option.some.injEq] at hi
            subst hi
            simp only [List.mem_append, List.mem_cons, List.not_mem_nil, or_false, Prod.mk.injEq] at hm
            rcases hm with hm | ⟨rfl, rfl⟩
            · rcases h.prov i ct e' a' hct hm with hp | ⟨grew, hg, hcg⟩
              · exact Or.inl (List.mem_cons_of_mem _ hp)
              · exact Or.inr ⟨grew, List.mem_cons_of_mem _ hg, hcg⟩
            · exact Or.inl List.mem_cons_self
          · simp only [hic, if_false] at hi
            rcases h.prov i cti e' a' hi hm with hp | ⟨grew, hg, hcg⟩
            · exact Or.inl (List.mem_cons_of_mem _ hp)
            · exact Or.inr ⟨grew, List.mem_cons_of_mem _ hg, hcg⟩
        · intro i cti hi
          simp only [emit, setQueue_get] at hi
          by_cases hic : i = c
          · subst hic
            simp only [if_true, hct, Option.map_some, Option.some.injEq] at hi
            subst hi
            simp only [List.length_append, List.length_cons, List.length_nil]
            omega
          · simp only [hic, if_false] at hi
            exact h.cap i cti hi
    · split
      · exact h.tok .deep (same_queues w) rfl
      · exact openDisp_q h ..
  · exact h.tok .bad (same_queues w) rfl

theorem doGpub_q {w : World} (h : QOK w) (e : Nat) (a : List Nat) : QOK (doGpub w e a) := by
  refine ⟨?_, ?_⟩
  · intro i cti e' a' hi hm
    simp only [doGpub, emit, enqAll_get] at hi ⊢
    cases hci : w.cs[i]? with
    | none => simp [hci] at hi
    | some ct =>
      simp only [hci, Option.map_some, Option.some.injEq] at hi
      split at hi
      · rename_i hcond
        subst hi
        simp only [List.mem_append, List.mem_cons, List.not_mem_nil, or_false, Prod.mk.injEq] at hm
        rcases hm with hm | ⟨rfl, rfl⟩
        · rcases h.prov i ct e' a' hci hm with hp | ⟨grew, hg, hcg⟩
          · exact Or.inl (List.mem_cons_of_mem _ hp)
          · exact Or.inr ⟨grew, List.mem_cons_of_mem _ hg, hcg⟩
        · exact Or.inr ⟨_, List.mem_cons_self, (mem_grewOf w.cs w.greg e' i ct hci).mpr hcond⟩
      · subst hi
        rcases h.prov i ct e' a' hci hm with hp | ⟨grew, hg, hcg⟩
        · exact Or.inl (List.mem_cons_of_mem _ hp)
        · exact Or.inr ⟨grew, List.mem_cons_of_mem _ hg, hcg⟩
  · intro i cti hi
    simp only [doGpub, emit, enqAll_get] at hi
    cases hci : w.cs[i]? with
    | none => simp [hci] at hi
    | some ct =>
      simp only [hci, Option.map_some, Option.some.injEq] at hi
      split at hi
      · rename_i hcond
        subst hi
        simp only [Bool.and_eq_true, decide_eq_true_eq] at hcond
        simp only [List.length_append, List.length_cons, List.length_nil]
        omega
      · subst hi; exact h.cap i ct hci

theorem doClear_q {w : World} (h : QOK w) (c : Nat) : QOK (doClear w c) := by
  unfold doClear
  split
  · refine h.tok _ ?_ rfl
    intro i cti hi
    simp only [emit, setRunning_get] at hi
    by_cases hic : i = c
    · subst hic
      cases hci : w.cs[i]? with
      | none => simp [hci] at hi
      | some ct =>
        simp only [if_true, hci, Option.map_some, Option.some.injEq] at hi
        exact ⟨ct, rfl, by rw [← hi]⟩
    · simp only [hic, if_false] at hi
      exact ⟨cti, hi, rfl⟩
  · exact h.tok _ (same_queues w) rfl

theorem doGsub_q {w : World} (h : QOK w) (e c : Nat) (add : Bool) : QOK (doGsub w e c add) := by
  unfold doGsub
  repeat' split
  all_goals exact h.tok _ (same_queues w) rfl

theorem doSubR_q {w : World} (h : QOK w) (c e t r : Nat) : QOK (doSubR w c e t r) := by
  unfold doSubR
  split
  · simp only []
    repeat' split
    all_goals exact h.tok _ (same_queues w) rfl
  · exact h.tok _ (same_queues w) rfl

theorem doGsubH_q {w : World} (h : QOK w) (e c t : Nat) : QOK (doGsubH w e c t) := by
  unfold doGsubH
  repeat' split
  all_goals first
    | exact h.tok _ (same_queues w) rfl
    | exact h.of_eq rfl rfl

theorem execOp_q {w : World} (h : QOK w) (op : SOp) : QOK (execOp w op) := by
  cases op <;> simp only [execOp]
  · exact doSub_q h ..
  · exact doUnsub_q h ..
  · exact doUnsubFn_q h ..
  · exact doPub_q h ..
  · exact doGpub_q h ..
  · exact doClear_q h ..
  · exact doGsub_q h ..
  · exact doGsub_q h ..
  · exact doGsubH_q h ..
  · exact doSubR_q h ..
  · exact doUnsubR_q h ..

theorem stepDisp_q {w : World} (h : QOK w) (rest : List Frame) (p c e : Nat) (a snap called : List Nat) :
    QOK (stepDisp w rest p c e a snap called) := by
  unfold stepDisp closeDisp
  repeat' split
  all_goals exact h.tok _ (same_queues w) rfl

/-- dequeuing keeps provenance and the bound -/
theorem QOK.dequeue {w : World} (h : QOK w) (c : Nat) (ct : CAttr) (x : Nat × List Nat) (q : List (Nat × List Nat))
    (hc : w.cs[c]? = some ct) (hq : ct.queue = x :: q) (st : List Frame) :
    QOK { w with cs := setQueue w.cs c q, stack := st } := by
  refine ⟨?_, ?_⟩
  · intro i cti e a hi hm
    simp only [setQueue_get] at hi
    by_cases hic : i = c
    · subst hic
      simp only [if_true, hc, Option.map_some, Option.some.injEq] at hi
      subst hi
      exact h.prov i ct e a hc (by rw [hq]; exact List.mem_cons_of_mem _ hm)
    · simp only [hic, if_false] at hi
      exact h.prov i cti e a hi hm
  · intro i cti hi
    simp only [setQueue_get] at hi
    by_cases hic : i = c
    · subst hic
      simp only [if_true, hc, Option.map_some, Option.some.injEq] at hi
      subst hi
      have := h.cap i ct hc
      rw [hq] at this
      simp only [List.length_cons] at this ⊢
      omega
    · simp only [hic, if_false] at hi
      exact h.cap i cti hi

theorem stepDrain_q {w : World} (h : QOK w) (rest : List Frame) (c n : Nat) : QOK (stepDrain w rest c n) := by
  unfold stepDrain
  split
  · rename_i n' ct hct
    split
    · rename_i e a q hq
      exact openDisp_q (h.dequeue c ct (e, a) q hct hq _) ..
    · exact h.of_eq rfl rfl
  · exact h.of_eq rfl rfl

theorem step_q {w : World} (h : QOK w) : QOK (step w) := by
  unfold step
  repeat' split
  all_goals first
    | exact h
    | exact h.of_eq rfl rfl
    | (refine execOp_q (QOK.of_eq h ?_ ?_) _ <;> rfl)
    | exact stepDisp_q h ..
    | exact stepDrain_q h ..

theorem reach_q {w : World} (h : Reach w) : QOK w := by
  induction h with
  | init cs tm =>
    refine ⟨?_, ?_⟩
    · intro c ct e a hc hm
      simp only [init, List.getElem?_map] at hc
      cases hcs : cs[c]? with
      | none => simp [hcs] at hc
      | some k => simp [hcs] at hc; subst hc; simp at hm
    · intro c ct hc
      simp only [init, List.getElem?_map] at hc
      cases hcs : cs[c]? with
      | none => simp [hcs] at hc
      | some k => simp [hcs] at hc; subst hc; simp
  | step _ ih => exact step_q ih
  | call ops g _ _ ih => exact ih.of_eq rfl rfl
  | drain c n g _ _ ih => exact ih.of_eq rfl rfl


end Cell2v.Events
