import Cell2v.Model.ServiceLife
import Cell2v.Lemmas.Service
/-
C01 — lemmas for the restart layer (`Model/ServiceLife.lean`): every incarnation of the actor,
live or orphaned, is a reachable state of the one-incarnation model, so every theorem about
`run (init M 0) ops` applies to it.
-/
namespace Cell2v.Service

/-- a state some history of ONE `Service` object reaches -/
def OneLife (s : State) : Prop := ∃ M ops, s = run (init M 0) ops

theorem OneLife.step {s : State} (h : OneLife s) (op : Op) : OneLife (step s op) := by
  obtain ⟨M, ops, rfl⟩ := h
  exact ⟨M, ops ++ [op], by rw [run_append]; rfl⟩

theorem OneLife.run {s : State} (h : OneLife s) (ops : List Op) : OneLife (run s ops) := by
  obtain ⟨M, ops0, rfl⟩ := h
  exact ⟨M, ops0 ++ ops, by rw [run_append]⟩

theorem fresh_Reach (M now : Nat) : OneLife (fresh M now) := ⟨M, [.advance now], rfl⟩

/-- abandoning the stack of a goroutine that is not inside an expiry scan leaves the object in the
state it would be in had every running callback simply returned -/
theorem rets_unwind : ∀ (n : Nat) (s : State), s.nest = n → (∀ i rest, s.base ≠ .inTick i rest) →
    run s (List.replicate (n + 1) .ret) = unwound s
  | 0, s, hn, hb => by
    obtain ⟨M, nextId, pending, armed, now, base, nest, ninst, nalloc, collided, log⟩ := s
    simp only at hn; subst hn
    cases base with
    | idle => simp [run, step, ret, unwound]
    | inResp i => simp [run, step, ret, unwound]
    | inTick i rest => exact absurd rfl (hb i rest)
  | n + 1, s, hn, hb => by
    rw [List.replicate_succ, run_cons]
    have h1 : step s .ret = { s with nest := n } := by simp [step, ret, hn]
    have h2 := rets_unwind n { s with nest := n } rfl hb
    rw [h1, h2]
    simp [unwound]

theorem unwound_Reach {s : State} (h : OneLife s) (hb : ∀ i rest, s.base ≠ .inTick i rest) : OneLife (unwound s) := by
  rw [← rets_unwind s.nest s rfl hb]
  exact h.run _

theorem mem_modNth {f : State → State} : ∀ {k : Nat} {l : List State} {x : State},
    x ∈ modNth f k l → x ∈ l ∨ ∃ s, s ∈ l ∧ x = f s
  | _, [], x, h => by simp [modNth] at h
  | 0, s :: t, x, h => by
    simp only [modNth, List.mem_cons] at h
    rcases h with h | h
    · exact Or.inr ⟨s, List.mem_cons_self .., h⟩
    · exact Or.inl (List.mem_cons_of_mem _ h)
  | k + 1, s :: t, x, h => by
    simp only [modNth, List.mem_cons] at h
    rcases h with h | h
    · exact Or.inl (h ▸ List.mem_cons_self ..)
    · rcases mem_modNth h with h' | ⟨s', hs', e⟩
      · exact Or.inl (List.mem_cons_of_mem _ h')
      · exact Or.inr ⟨s', List.mem_cons_of_mem _ hs', e⟩

/-- every incarnation is a reachable state of the one-object model -/
structure LReach (l : Life) : Prop where
  cur : OneLife l.cur
  old : ∀ s, s ∈ l.old → OneLife s

theorem start_LReach (M : Nat) : LReach (Life.start M) :=
  ⟨⟨M, [], rfl⟩, fun _ h => by cases h⟩

theorem crash_LReach {l : Life} (h : LReach l) : LReach (crash l) := by
  unfold crash
  split
  · exact ⟨h.cur.step .panic, h.old⟩
  · rename_i hb
    refine ⟨fresh_Reach _ _, ?_⟩
    intro s hs
    rcases List.mem_cons.1 hs with rfl | hs
    · exact unwound_Reach h.cur (fun i rest e => hb i rest e)
    · exact h.old s hs

theorem lstep_LReach {l : Life} (h : LReach l) (op : LOp) : LReach (lstep l op) := by
  cases op with
  | live op =>
    refine ⟨h.cur.step op, ?_⟩
    intro s hs
    cases op with
    | advance dt =>
      simp only [lstep, List.mem_map] at hs
      obtain ⟨s0, h0, rfl⟩ := hs
      exact (h.old s0 h0).step _
    | issue r o c => exact h.old s hs
    | noroute r c => exact h.old s hs
    | response id p => exact h.old s hs
    | tick order => exact h.old s hs
    | ret => exact h.old s hs
    | panic => exact h.old s hs
  | orphan k op =>
    simp only [lstep]
    split
    · refine ⟨h.cur, ?_⟩
      intro s hs
      rcases mem_modNth hs with h' | ⟨s0, h0, rfl⟩
      · exact h.old s h'
      · exact (h.old s0 h0).step _
    · exact h
  | crash => exact crash_LReach h

theorem crash_restart {l : Life} (hb : ∀ i rest, l.cur.base ≠ .inTick i rest) :
    lstep l .crash = { cur := fresh l.cur.M l.cur.now, old := unwound l.cur :: l.old } := by
  show crash l = _
  unfold crash
  split
  · rename_i i rest e; exact absurd e (hb i rest)
  · rfl

theorem lrun_LReach : ∀ (ops : List LOp) (l : Life), LReach l → LReach (lrun l ops) := by
  intro ops
  induction ops with
  | nil => intro l h; exact h
  | cons op t ih => intro l h; exact ih _ (lstep_LReach h op)

end Cell2v.Service
