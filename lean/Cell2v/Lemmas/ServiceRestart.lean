import Cell2v.Model.ServiceLife
import Cell2v.Lemmas.Service
import Cell2v.Lemmas.ServiceLive
/-
C01 — lemmas for the restart layer (`Model/ServiceLife.lean`): every incarnation of the actor,
live or orphaned, is a reachable state of the one-incarnation model, so every theorem about
`run (init M 0) ops` applies to it.
-/
namespace Cell2v.Service

/-- a state some history of ONE `Service` object reaches -/
def OneLife (s : State) : Prop := ∃ M ops, s = run (init M 0) ops

theorem OneLife.step {s : State} (h : OneLife s) (op : Op) : OneLife (step s op) := by
  obtain ⟨M, ops, rfl⟩ := h
  exact ⟨M, ops ++ [op], by rw [run_append]; rfl⟩

theorem OneLife.run {s : State} (h : OneLife s) (ops : List Op) : OneLife (run s ops) := by
  obtain ⟨M, ops0, rfl⟩ := h
  exact ⟨M, ops0 ++ ops, by rw [run_append]⟩

theorem fresh_Reach (M now : Nat) : OneLife (fresh M now) := ⟨M, [.advance now], rfl⟩

/-- abandoning the stack of a goroutine that is not inside an expiry scan leaves the object in the
state it would be in had every running callback simply returned -/
theorem rets_unwind : ∀ (n : Nat) (s : State), s.nest = n → (∀ i rest, s.base ≠ .inTick i rest) →
    run s (List.replicate (n + 1) .ret) = unwound s
  | 0, s, hn, hb => by
    obtain ⟨M, nextId, pending, armed, now, base, nest, ninst, nalloc, collided, log⟩ := s
    simp only at hn; subst hn
    cases base with
    | idle => simp [run, step, ret, unwound]
    | inResp i => simp [run, step, ret, unwound]
    | inTick i rest => exact absurd rfl (hb i rest)
  | n + 1, s, hn, hb => by
    rw [List.replicate_succ, run_cons]
    have h1 : step s .ret = { s with nest := n } := by simp [step, ret, hn]
    have h2 := rets_unwind n { s with nest := n } rfl hb
    rw [h1, h2]
    simp [unwound]

theorem unwound_Reach {s : State} (h : OneLife s) (hb : ∀ i rest, s.base ≠ .inTick i rest) : OneLife (unwound s) := by
  rw [← rets_unwind s.nest s rfl hb]
  exact h.run _

theorem mem_modNth {f : State → State} : ∀ {k : Nat} {l : List State} {x : State},
    x ∈ modNth f k l → x ∈ l ∨ ∃ s, s ∈ l ∧ x = f s
  | _, [], x, h => by simp [modNth] at h
  | 0, s :: t, x, h => by
    simp only [modNth, List.mem_cons] at h
    rcases h with h | h
    · exact Or.inr ⟨s, List.mem_cons_self .., h⟩
    · exact Or.inl (List.mem_cons_of_mem _ h)
  | k + 1, s :: t, x, h => by
    simp only [modNth, List.mem_cons] at h
    rcases h with h | h
    · exact Or.inl (h ▸ List.mem_cons_self ..)
    · rcases mem_modNth h with h' | ⟨s', hs', e⟩
      · exact Or.inl (List.mem_cons_of_mem _ h')
      · exact Or.inr ⟨s', List.mem_cons_of_mem _ hs', e⟩

/-- every incarnation is a reachable state of the one-object model -/
structure LReach (l : Life) : Prop where
  cur : OneLife l.cur
  old : ∀ s, s ∈ l.old → OneLife s

theorem start_LReach (M : Nat) : LReach (Life.start M) :=
  ⟨⟨M, [], rfl⟩, fun _ h => by cases h⟩

theorem crash_LReach {l : Life} (h : LReach l) : LReach (crash l) := by
  unfold crash
  split
  · exact ⟨h.cur.step .panic, h.old⟩
  · rename_i hb
    refine ⟨fresh_Reach _ _, ?_⟩
    intro s hs
    rcases List.mem_cons.1 hs with rfl | hs
    · exact unwound_Reach h.cur (fun i rest e => hb i rest e)
    · exact h.old s hs

theorem lstep_LReach {l : Life} (h : LReach l) (op : LOp) : LReach (lstep l op) := by
  cases op with
  | live op =>
    refine ⟨h.cur.step op, ?_⟩
    intro s hs
    cases op with
    | advance dt =>
      simp only [lstep, List.mem_map] at hs
      obtain ⟨s0, h0, rfl⟩ := hs
      exact (h.old s0 h0).step _
    | issue r o c => exact h.old s hs
    | noroute r c => exact h.old s hs
    | response id p => exact h.old s hs
    | tick order => exact h.old s hs
    | ret => exact h.old s hs
    | panic => exact h.old s hs
  | orphan k op =>
    simp only [lstep]
    split
    · refine ⟨h.cur, ?_⟩
      intro s hs
      rcases mem_modNth hs with h' | ⟨s0, h0, rfl⟩
      · exact h.old s h'
      · exact (h.old s0 h0).step _
    · exact h
  | crash => exact crash_LReach h

theorem crash_restart {l : Life} (hb : ∀ i rest, l.cur.base ≠ .inTick i rest) :
    lstep l .crash = { cur := fresh l.cur.M l.cur.now, old := unwound l.cur :: l.old } := by
  show crash l = _
  unfold crash
  split
  · rename_i i rest e; exact absurd e (hb i rest)
  · rfl

theorem lrun_LReach : ∀ (ops : List LOp) (l : Life), LReach l → LReach (lrun l ops) := by
  intro ops
  induction ops with
  | nil => intro l h; exact h
  | cons op t ih => intro l h; exact ih _ (lstep_LReach h op)

/-! ### following ONE orphaned object through the rest of the actor's life

Orphans are only ever added at the head of `Life.old` and changed in place, so "the object orphaned when
`n` older orphans existed" is the element with `n` elements behind it. -/

theorem length_modNth (f : State → State) : ∀ (k : Nat) (l : List State), (modNth f k l).length = l.length := by
  intro k l
  induction l generalizing k with
  | nil => cases k <;> rfl
  | cons a t ih =>
    cases k with
    | zero => rfl
    | succ k => simp [modNth, ih]

/-- `modNth` keeps the position (counted from the end) of every element and changes it by `f` or not at all -/
theorem modNth_decomp (f : State → State) : ∀ (pre : List State) (k : Nat) (s : State) (post : List State),
    ∃ pre' s' post', modNth f k (pre ++ s :: post) = pre' ++ s' :: post' ∧ post'.length = post.length ∧
      (s' = s ∨ s' = f s) := by
  intro pre
  induction pre with
  | nil =>
    intro k s post
    cases k with
    | zero => exact ⟨[], f s, post, rfl, rfl, Or.inr rfl⟩
    | succ k => exact ⟨[], s, modNth f k post, rfl, length_modNth f k post, Or.inl rfl⟩
  | cons a t ih =>
    intro k s post
    cases k with
    | zero => exact ⟨f a :: t, s, post, rfl, rfl, Or.inl rfl⟩
    | succ k =>
      obtain ⟨pre', s', post', h, hl, hs⟩ := ih k s post
      exact ⟨a :: pre', s', post', by simp only [List.cons_append, modNth, h], hl, hs⟩

/-- the object with `n` older orphans behind it is a one-object history and — unless its own id guard failed —
keeps the request `i` (deadline `d`) alive: registered with its callback, or called back exactly once -/
def Tracked (n i d : Nat) (l : Life) : Prop :=
  ∃ pre s post, l.old = pre ++ s :: post ∧ post.length = n ∧ OneLife s ∧ (s.collided = false → Live s i d)

theorem OneLife.WF {s : State} (h : OneLife s) (hc : s.collided = false) : WF s := by
  obtain ⟨M, ops, rfl⟩ := h
  exact run_WF ops _ (init_WF M 0) hc

theorem tracked_step_elem {s : State} {i d : Nat} (h1 : OneLife s) (h2 : s.collided = false → Live s i d) (op : Op) :
    OneLife (step s op) ∧ ((step s op).collided = false → Live (step s op) i d) := by
  refine ⟨h1.step op, fun hc => ?_⟩
  have hc0 : s.collided = false := by
    cases h : s.collided with
    | false => rfl
    | true => rw [step_collided op h] at hc; cases hc
  exact step_Live (h1.WF hc0) op hc (h2 hc0)

theorem lstep_Tracked {n i d : Nat} {l : Life} (h : Tracked n i d l) (op : LOp) : Tracked n i d (lstep l op) := by
  obtain ⟨pre, s, post, e, hn, h1, h2⟩ := h
  cases op with
  | live op =>
    cases op with
    | advance dt =>
      obtain ⟨a, b⟩ := tracked_step_elem h1 h2 (.advance dt)
      exact ⟨pre.map (fun s => step s (.advance dt)), step s (.advance dt), post.map (fun s => step s (.advance dt)),
        by simp [lstep, e], by simpa using hn, a, b⟩
    | issue r o c => exact ⟨pre, s, post, e, hn, h1, h2⟩
    | noroute r c => exact ⟨pre, s, post, e, hn, h1, h2⟩
    | response id p => exact ⟨pre, s, post, e, hn, h1, h2⟩
    | tick order => exact ⟨pre, s, post, e, hn, h1, h2⟩
    | ret => exact ⟨pre, s, post, e, hn, h1, h2⟩
    | panic => exact ⟨pre, s, post, e, hn, h1, h2⟩
  | orphan k op =>
    simp only [lstep]
    split
    · obtain ⟨pre', s', post', hm, hl, hs⟩ := modNth_decomp (fun s => step s op) pre k s post
      refine ⟨pre', s', post', by simp only [e]; exact hm, by omega, ?_⟩
      · rcases hs with rfl | rfl
        · exact ⟨h1, h2⟩
        · exact tracked_step_elem h1 h2 op
    · exact ⟨pre, s, post, e, hn, h1, h2⟩
  | crash =>
    show Tracked n i d (crash l)
    unfold crash
    split
    · exact ⟨pre, s, post, e, hn, h1, h2⟩
    · exact ⟨unwound l.cur :: pre, s, post, by simp [e], hn, h1, h2⟩

theorem lrun_Tracked {n i d : Nat} : ∀ (ops : List LOp) (l : Life), Tracked n i d l → Tracked n i d (lrun l ops) := by
  intro ops
  induction ops with
  | nil => intro l h; exact h
  | cons op t ih => intro l h; exact ih _ (lstep_Tracked h op)

end Cell2v.Service
