import Cell2v.Model.ClientShared
import Cell2v.Lemmas.ClientServe
/-!
Lemmas for the shared-state front-end machine (`Model/ClientShared.lean`): the matching invariant
`Good` (whatever travels under a request id belongs to the pending entry stored under that id) and the
conservation law `total` (per connection and id: written + pending + queued + delayed = sent), both
preserved by EVERY event, hence along every schedule.
-/
namespace Cell2v.ClientServe.Shared
open Cell2v.ClientServe

/-! ## pick -/

theorem pick_perm {α : Type} : ∀ (i : Nat) (l : List α) (x : α) (r : List α),
    pick i l = some (x, r) → l.Perm (x :: r)
  | _, [], _, _, h => by simp [pick] at h
  | 0, y :: ys, x, r, h => by
    simp only [pick, Option.some.injEq, Prod.mk.injEq] at h
    obtain ⟨rfl, rfl⟩ := h
    exact List.Perm.refl _
  | n + 1, y :: ys, x, r, h => by
    simp only [pick] at h
    split at h
    · simp at h
    · rename_i y' r' hp
      simp only [Option.some.injEq, Prod.mk.injEq] at h
      obtain ⟨rfl, rfl⟩ := h
      exact ((pick_perm n ys _ _ hp).cons y).trans (List.Perm.swap _ _ _)

theorem pickFirst_perm {α : Type} (p : α → Bool) : ∀ (l : List α) (x : α) (r : List α),
    pickFirst p l = some (x, r) → l.Perm (x :: r) ∧ p x = true
  | [], _, _, h => by simp [pickFirst] at h
  | y :: ys, x, r, h => by
    simp only [pickFirst] at h
    split at h
    · rename_i hy
      simp only [Option.some.injEq, Prod.mk.injEq] at h
      obtain ⟨rfl, rfl⟩ := h
      exact ⟨List.Perm.refl _, hy⟩
    · split at h
      · simp at h
      · rename_i y' r' hp
        simp only [Option.some.injEq, Prod.mk.injEq] at h
        obtain ⟨rfl, rfl⟩ := h
        obtain ⟨h1, h2⟩ := pickFirst_perm p ys _ _ hp
        exact ⟨(h1.cons y).trans (List.Perm.swap _ _ _), h2⟩

theorem pick_none_of_nil {α : Type} (i : Nat) : pick i ([] : List α) = none := by
  cases i <;> rfl

theorem pick_zero_cons {α : Type} (x : α) (xs : List α) : pick 0 (x :: xs) = some (x, xs) := rfl

/-! ## what one client message does -/

/-- `rep` is the `msgs.Response` that `ProcessForwardMsg` builds at the instance the route function
selects for session `s`, for the envelope `e` of THIS request -/
def IsReplyOf (c : Cfg) (s : Sess) (e : ClientMsg) (rep : BackReply) : Prop :=
  destOf c s e ≠ "" ∧ routeSerialisable e.route = true ∧
  ∃ inst d, c.dir (destOf c s e) = some inst ∧ inst.alive = true ∧
    (processForward fixed c (destOf c s e) inst (fwdOf s e)).2 = some (d, rep)

/-- a response is justified by the request it names: front-local — it is exactly the response of the
per-message model (`processWith`, i.e. `serve`); forwarded — the request-failure/timeout error, or
the result that the request's own target computed for the request's own envelope -/
def Allowed (c : Cfg) (x : Wr) : Prop :=
  if (splitClientRoute x.e.route).1 = c.frontType then
    ∃ d, responses (processWith fixed c x.s x.e) = [(d, x.s.sid, x.e.id, x.res)]
  else x.res = .error ∨ ∃ rep, IsReplyOf c x.s x.e rep ∧ x.res = rep.res

theorem tryCallCol_request_done (c : Cfg) (svc ty g m : String) (id : Nat) (pay : Payload) (hid : id ≠ 0) :
    ∃ dr, (tryCallCol fixed c svc ty g m id pay).done = some dr := by
  rw [tryCallCol_request _ _ _ _ _ _ _ hid]
  split <;> exact ⟨_, rfl⟩

theorem tryCallCol_notify_done (c : Cfg) (svc ty g m : String) (pay : Payload) :
    (tryCallCol fixed c svc ty g m 0 pay).done = none ∨
    ∃ dr, (tryCallCol fixed c svc ty g m 0 pay).done = some dr := by
  cases h : (tryCallCol fixed c svc ty g m 0 pay).done with
  | none => exact .inl rfl
  | some dr => exact .inr ⟨dr, rfl⟩

theorem responses_local (c : Cfg) (s : Sess) (e : ClientMsg)
    (ht : (splitClientRoute e.route).1 = c.frontType) (hid : e.id ≠ 0) (d : Nat) (res : Result)
    (hdr : (tryCallCol fixed c c.frontName c.frontType (splitClientRoute e.route).2.1
      (splitClientRoute e.route).2.2 e.id e.pay).done = some (d, res)) :
    responses (processWith fixed c s e) = [(d, s.sid, e.id, wireLocal res)] := by
  unfold processWith serveLocal
  simp only [ht, ne_eq, not_true_eq_false, ↓reduceIte, hdr, responses_append, responses_invokeEff, hid,
    List.nil_append]
  rfl

/-- the specification of `classify` -/
def OutcomeOk (c : Cfg) (s : Sess) (e : ClientMsg) : Outcome → Prop
  | .nothing => e.id = 0
  | .write x => x.s = s ∧ x.e = e ∧ e.id ≠ 0 ∧ Allowed c x
  | .later x => x.s = s ∧ x.e = e ∧ e.id ≠ 0 ∧ Allowed c x
  | .notify cl => e.id = 0 ∧ cl.r = none
  | .request s' e' dest => s' = s ∧ e' = e ∧ e.id ≠ 0 ∧ (splitClientRoute e.route).1 ≠ c.frontType ∧
      dest = destOf c s e ∧ dest ≠ "" ∧ routeSerialisable e.route = true

theorem classify_ok (c : Cfg) (s : Sess) (e : ClientMsg) : OutcomeOk c s e (classify c s e).1 := by
  unfold classify
  by_cases ht : (splitClientRoute e.route).1 = c.frontType
  · simp only [ht, ↓reduceIte]
    by_cases hid : e.id = 0
    · simp only [hid, ↓reduceIte]
      split <;> exact hid
    · obtain ⟨⟨d, res⟩, hdr⟩ := tryCallCol_request_done c c.frontName c.frontType
        (splitClientRoute e.route).2.1 (splitClientRoute e.route).2.2 e.id e.pay hid
      have hal : Allowed c ⟨s, e, wireLocal res⟩ := by
        unfold Allowed
        simp only [ht, ↓reduceIte]
        exact ⟨d, responses_local c s e ht hid d res hdr⟩
      simp only [hdr, hid, ↓reduceIte]
      by_cases hd : d = 0
      · simp only [hd, ↓reduceIte]; exact ⟨rfl, rfl, hid, hal⟩
      · simp only [hd, ↓reduceIte]; exact ⟨rfl, rfl, hid, hal⟩
  · simp only [ht, ↓reduceIte]
    have herr : Allowed c ⟨s, e, .error⟩ := by
      unfold Allowed
      simp [ht]
    by_cases hid : e.id = 0
    · simp only [hid, ↓reduceIte]
      split
      · exact hid
      · split
        · exact hid
        · exact ⟨hid, rfl⟩
    · simp only [hid, ↓reduceIte]
      by_cases hr : destOf c s e = ""
      · simp only [hr, ↓reduceIte]; exact ⟨rfl, rfl, hid, herr⟩
      · simp only [hr, ↓reduceIte]
        cases hdir : c.dir (destOf c s e) with
        | none => exact ⟨rfl, rfl, hid, herr⟩
        | some inst =>
          simp only
          by_cases hser : routeSerialisable e.route = false
          · simp only [hser, ↓reduceIte]; exact ⟨rfl, rfl, hid, herr⟩
          · simp only [hser]
            exact ⟨rfl, rfl, hid, ht, rfl, hr, by simpa using hser⟩

/-- `ProcessForwardMsg` echoes `SessionId` and `ClientReqId` of the envelope in its reply -/
theorem processForward_echo (c : Cfg) (svc : String) (inst : Inst) (f : FwdMsg) (dr : Nat × BackReply)
    (h : (processForward fixed c svc inst f).2 = some dr) :
    dr.2.sessionId = f.sessionId ∧ dr.2.clientReqId = f.clientReqId := by
  unfold processForward at h
  simp only at h
  split at h
  · simp at h
  · simp only [Option.map_eq_some_iff] at h
    obtain ⟨a, _, rfl⟩ := h
    exact ⟨rfl, rfl⟩

theorem IsReplyOf.echo {c : Cfg} {s : Sess} {e : ClientMsg} {rep : BackReply} (h : IsReplyOf c s e rep) :
    rep.sessionId = s.sid ∧ rep.clientReqId = e.id := by
  obtain ⟨_, _, inst, d, _, _, hp⟩ := h
  exact processForward_echo c _ inst _ (d, rep) hp

/-! ## the matching invariant -/

/-- a queued call that carries a pending entry's request id is that entry's own envelope, addressed
to the instance chosen for that entry's session -/
def IsCallOf (c : Cfg) (e : PEntry) (cl : Call) : Prop :=
  cl.dest = destOf c e.s e.msg ∧ cl.f = fwdOf e.s e.msg

structure Good (c : Cfg) (st : FSt) : Prop where
  pend_lt : ∀ e ∈ st.pending, e.reqId < st.nextId
  call_lt : ∀ cl ∈ st.calls, ∀ r, cl.r = some r → r < st.nextId
  done_lt : ∀ x ∈ st.dones, x.1 < st.nextId
  rep_lt : ∀ r rep, Task.reply r rep ∈ st.mbox → r < st.nextId
  call_ok : ∀ cl ∈ st.calls, ∀ e ∈ st.pending, cl.r = some e.reqId → IsCallOf c e cl
  done_ok : ∀ x ∈ st.dones, ∀ e ∈ st.pending, x.1 = e.reqId → IsReplyOf c e.s e.msg x.2
  rep_ok : ∀ r rep, Task.reply r rep ∈ st.mbox → ∀ e ∈ st.pending, r = e.reqId → IsReplyOf c e.s e.msg rep
  pend_ok : ∀ e ∈ st.pending, e.msg.id ≠ 0 ∧ (splitClientRoute e.msg.route).1 ≠ c.frontType ∧
    destOf c e.s e.msg ≠ "" ∧ routeSerialisable e.msg.route = true
  timer_ok : ∀ x ∈ st.ltimers, x.e.id ≠ 0 ∧ Allowed c x
  out_ok : ∀ x ∈ st.out, x.e.id ≠ 0 ∧ Allowed c x

theorem good_init (c : Cfg) : Good c {} := by
  constructor <;> simp

/-- every transition but the allocation of a new request id only moves or drops things -/
theorem Good.mono {c : Cfg} {st st' : FSt} (h : Good c st) (hn : st'.nextId = st.nextId)
    (hp : ∀ e ∈ st'.pending, e ∈ st.pending)
    (hc : ∀ cl ∈ st'.calls, cl ∈ st.calls ∨ cl.r = none)
    (hd : ∀ x ∈ st'.dones, x ∈ st.dones ∨
      ∃ cl ∈ st.calls, cl.r = some x.1 ∧ ∃ inst d, c.dir cl.dest = some inst ∧ inst.alive = true ∧
        (processForward fixed c cl.dest inst cl.f).2 = some (d, x.2))
    (hm : ∀ r rep, Task.reply r rep ∈ st'.mbox → Task.reply r rep ∈ st.mbox ∨ (r, rep) ∈ st.dones)
    (ht : ∀ x ∈ st'.ltimers, x ∈ st.ltimers ∨ (x.e.id ≠ 0 ∧ Allowed c x))
    (ho : ∀ x ∈ st'.out, x ∈ st.out ∨ (x.e.id ≠ 0 ∧ Allowed c x)) : Good c st' := by
  constructor
  · intro e he; rw [hn]; exact h.pend_lt e (hp e he)
  · intro cl hcl r hr
    rw [hn]
    rcases hc cl hcl with h1 | h1
    · exact h.call_lt cl h1 r hr
    · rw [h1] at hr; cases hr
  · intro x hx
    rw [hn]
    rcases hd x hx with h1 | ⟨cl, hcl, hr, _⟩
    · exact h.done_lt x h1
    · exact h.call_lt cl hcl _ hr
  · intro r rep hr
    rw [hn]
    rcases hm r rep hr with h1 | h1
    · exact h.rep_lt r rep h1
    · exact h.done_lt _ h1
  · intro cl hcl e he hr
    rcases hc cl hcl with h1 | h1
    · exact h.call_ok cl h1 e (hp e he) hr
    · rw [h1] at hr; cases hr
  · intro x hx e he hr
    rcases hd x hx with h1 | ⟨cl, hcl, hr', inst, d, hdir, hal, hpf⟩
    · exact h.done_ok x h1 e (hp e he) hr
    · obtain ⟨hdest, hf⟩ := h.call_ok cl hcl e (hp e he) (by rw [hr', hr])
      obtain ⟨_, _, hne, hser⟩ := h.pend_ok e (hp e he)
      rw [hdest, hf] at hpf
      rw [hdest] at hdir
      exact ⟨hne, hser, inst, d, hdir, hal, hpf⟩
  · intro r rep hr e he hre
    rcases hm r rep hr with h1 | h1
    · exact h.rep_ok r rep h1 e (hp e he) hre
    · exact h.done_ok _ h1 e (hp e he) hre
  · intro e he; exact h.pend_ok e (hp e he)
  · intro x hx
    rcases ht x hx with h1 | h1
    · exact h.timer_ok x h1
    · exact h1
  · intro x hx
    rcases ho x hx with h1 | h1
    · exact h.out_ok x h1
    · exact h1

theorem mem_append_single {α : Type} {x y : α} {l : List α} (h : x ∈ l ++ [y]) : x ∈ l ∨ x = y := by
  simpa using h

theorem good_applyOutcome (c : Cfg) (st : FSt) (s : Sess) (e : ClientMsg) (o : Outcome) (h : Good c st)
    (ho : OutcomeOk c s e o) : Good c (applyOutcome st o) := by
  cases o with
  | nothing => exact h
  | write x =>
    refine h.mono rfl (fun e he => he) (fun x hx => .inl hx) (fun x hx => .inl hx)
      (fun r rep hr => .inl hr) (fun x hx => .inl hx) ?_
    intro y hy
    rcases mem_append_single hy with h1 | rfl
    · exact .inl h1
    · obtain ⟨_, he, hid, hal⟩ := ho
      exact .inr ⟨by rw [he]; exact hid, hal⟩
  | later x =>
    refine h.mono rfl (fun e he => he) (fun x hx => .inl hx) (fun x hx => .inl hx)
      (fun r rep hr => .inl hr) ?_ (fun x hx => .inl hx)
    intro y hy
    rcases mem_append_single hy with h1 | rfl
    · exact .inl h1
    · obtain ⟨_, he, hid, hal⟩ := ho
      exact .inr ⟨by rw [he]; exact hid, hal⟩
  | notify cl =>
    refine h.mono rfl (fun e he => he) ?_ (fun x hx => .inl hx)
      (fun r rep hr => .inl hr) (fun x hx => .inl hx) (fun x hx => .inl hx)
    intro y hy
    rcases mem_append_single hy with h1 | rfl
    · exact .inl h1
    · exact .inr ho.2
  | request s' e' dest =>
    -- a new request id is allocated: everything already around carries a smaller one
    obtain ⟨rfl, rfl, hid, ht, hdest, hne, hser⟩ := ho
    constructor
    · intro x hx
      rcases mem_append_single hx with h1 | rfl
      · have := h.pend_lt x h1; simp only [applyOutcome]; omega
      · simp [applyOutcome]
    · intro cl hcl r hr
      rcases mem_append_single hcl with h1 | rfl
      · have := h.call_lt cl h1 r hr; simp only [applyOutcome]; omega
      · simp only [Option.some.injEq] at hr; simp only [applyOutcome]; omega
    · intro x hx
      have := h.done_lt x hx; simp only [applyOutcome]; omega
    · intro r rep hr
      have := h.rep_lt r rep hr; simp only [applyOutcome]; omega
    · intro cl hcl x hx hr
      rcases mem_append_single hcl with h1 | rfl <;> rcases mem_append_single hx with h2 | rfl
      · exact h.call_ok cl h1 x h2 hr
      · have := h.call_lt cl h1 _ hr; simp at this
      · simp only [Option.some.injEq] at hr
        have := h.pend_lt x h2; omega
      · exact ⟨hdest, rfl⟩
    · intro x hx y hy hr
      rcases mem_append_single hy with h2 | rfl
      · exact h.done_ok x hx y h2 hr
      · have := h.done_lt x hx; simp only at hr; omega
    · intro r rep hr y hy hre
      rcases mem_append_single hy with h2 | rfl
      · exact h.rep_ok r rep hr y h2 hre
      · have := h.rep_lt r rep hr; simp only at hre; omega
    · intro y hy
      rcases mem_append_single hy with h2 | rfl
      · exact h.pend_ok y h2
      · exact ⟨hid, ht, by rw [← hdest]; exact hne, hser⟩
    · exact h.timer_ok
    · exact h.out_ok

theorem good_step (c : Cfg) (st : FSt) (ev : Ev) (h : Good c st) : Good c (step c st ev) := by
  cases ev with
  | «open» sid =>
    refine h.mono rfl (fun e he => he) (fun x hx => .inl hx) (fun x hx => .inl hx) ?_ (fun x hx => .inl hx)
      (fun x hx => .inl hx)
    intro r rep hr
    rcases mem_append_single hr with h1 | h1
    · exact .inl h1
    · cases h1
  | close sid =>
    refine h.mono rfl (fun e he => he) (fun x hx => .inl hx) (fun x hx => .inl hx) ?_ (fun x hx => .inl hx)
      (fun x hx => .inl hx)
    intro r rep hr
    rcases mem_append_single hr with h1 | h1
    · exact .inl h1
    · cases h1
  | send sid m =>
    refine h.mono rfl (fun e he => he) (fun x hx => .inl hx) (fun x hx => .inl hx) ?_ (fun x hx => .inl hx)
      (fun x hx => .inl hx)
    intro r rep hr
    rcases mem_append_single hr with h1 | h1
    · exact .inl h1
    · cases h1
  | setKey sid k =>
    refine h.mono rfl (fun e he => he) (fun x hx => .inl hx) (fun x hx => .inl hx) ?_ (fun x hx => .inl hx)
      (fun x hx => .inl hx)
    intro r rep hr
    rcases mem_append_single hr with h1 | h1
    · exact .inl h1
    · cases h1
  | front =>
    simp only [step]
    split
    · exact h
    · rename_i t ts hmb
      have hsub : ∀ x, x ∈ ts → x ∈ st.mbox := by
        intro x hx; rw [hmb]; exact List.mem_cons_of_mem _ hx
      have h' : Good c { st with mbox := ts } :=
        h.mono rfl (fun e he => he) (fun x hx => .inl hx) (fun x hx => .inl hx)
          (fun r rep hr => .inl (hsub _ hr)) (fun x hx => .inl hx) (fun x hx => .inl hx)
      cases t with
      | add sid =>
        simp only [frontTask]
        exact h'.mono rfl (fun e he => he) (fun x hx => .inl hx) (fun x hx => .inl hx)
          (fun r rep hr => .inl hr) (fun x hx => .inl hx) (fun x hx => .inl hx)
      | remove sid =>
        simp only [frontTask]
        exact h'.mono rfl (fun e he => he) (fun x hx => .inl hx) (fun x hx => .inl hx)
          (fun r rep hr => .inl hr) (fun x hx => .inl hx) (fun x hx => .inl hx)
      | msg sid m =>
        simp only [frontTask]
        split
        · simp only [frontMsg]
          refine good_applyOutcome c _ _ _ _ ?_ (classify_ok c _ _)
          exact h'.mono rfl (fun e he => he) (fun x hx => .inl hx) (fun x hx => .inl hx)
            (fun r rep hr => .inl hr) (fun x hx => .inl hx) (fun x hx => .inl hx)
        · exact h'.mono rfl (fun e he => he) (fun x hx => .inl hx) (fun x hx => .inl hx)
            (fun r rep hr => .inl hr) (fun x hx => .inl hx) (fun x hx => .inl hx)
      | setKey sid k =>
        simp only [frontTask]
        exact h'.mono rfl (fun e he => he) (fun x hx => .inl hx) (fun x hx => .inl hx)
          (fun r rep hr => .inl hr) (fun x hx => .inl hx) (fun x hx => .inl hx)
      | reply r rep =>
        simp only [frontTask]
        split
        · exact h'
        · rename_i e rest hpk
          obtain ⟨hperm, hpe⟩ := pickFirst_perm _ _ _ _ hpk
          have hsubp : ∀ x, x ∈ rest → x ∈ st.pending := by
            intro x hx; exact hperm.mem_iff.mpr (List.mem_cons_of_mem _ hx)
          have hein : e ∈ st.pending := hperm.mem_iff.mpr (List.mem_cons_self ..)
          split
          · exact h'.mono rfl hsubp (fun x hx => .inl hx) (fun x hx => .inl hx)
              (fun r rep hr => .inl hr) (fun x hx => .inl hx) (fun x hx => .inl hx)
          · refine h'.mono rfl hsubp (fun x hx => .inl hx) (fun x hx => .inl hx)
              (fun r rep hr => .inl hr) (fun x hx => .inl hx) ?_
            intro x hx
            rcases mem_append_single hx with h1 | rfl
            · exact .inl h1
            · have hre : r = e.reqId := by simpa using (beq_iff_eq.mp hpe).symm
              have hrep := h.rep_ok r rep (by rw [hmb]; exact List.mem_cons_self ..) e hein hre
              obtain ⟨hid, ht, _, _⟩ := h.pend_ok e hein
              refine .inr ⟨hid, ?_⟩
              unfold Allowed
              simp only [ht, ↓reduceIte]
              exact .inr ⟨rep, hrep, rfl⟩
  | back i =>
    simp only [step]
    split
    · exact h
    · rename_i cl rest hpk
      have hperm := pick_perm _ _ _ _ hpk
      have hsub : ∀ x, x ∈ rest → x ∈ st.calls := fun x hx => hperm.mem_iff.mpr (List.mem_cons_of_mem _ hx)
      have hcl : cl ∈ st.calls := hperm.mem_iff.mpr (List.mem_cons_self ..)
      have hdrop : Good c { st with calls := rest } :=
        h.mono rfl (fun e he => he) (fun x hx => .inl (hsub x hx)) (fun x hx => .inl hx)
          (fun r rep hr => .inl hr) (fun x hx => .inl hx) (fun x hx => .inl hx)
      split
      · exact hdrop
      · rename_i inst hdir
        split
        · exact hdrop
        · rename_i hal
          split
          · rename_i dr r hdone hr
            refine h.mono rfl (fun e he => he) (fun x hx => .inl (hsub x hx)) ?_
              (fun r rep hr => .inl hr) (fun x hx => .inl hx) (fun x hx => .inl hx)
            intro x hx
            rcases mem_append_single hx with h1 | rfl
            · exact .inl h1
            · exact .inr ⟨cl, hcl, hr, inst, dr.1, hdir, by simpa using hal, hdone⟩
          · exact h.mono rfl (fun e he => he) (fun x hx => .inl (hsub x hx)) (fun x hx => .inl hx)
              (fun r rep hr => .inl hr) (fun x hx => .inl hx) (fun x hx => .inl hx)
  | deliver i =>
    simp only [step]
    split
    · exact h
    · rename_i x rest hpk
      have hperm := pick_perm _ _ _ _ hpk
      refine h.mono rfl (fun e he => he) (fun x hx => .inl hx)
        (fun y hy => .inl (hperm.mem_iff.mpr (List.mem_cons_of_mem _ hy))) ?_ (fun x hx => .inl hx)
        (fun x hx => .inl hx)
      intro r rep hr
      rcases mem_append_single hr with h1 | h1
      · exact .inl h1
      · simp only [Task.reply.injEq] at h1
        obtain ⟨rfl, rfl⟩ := h1
        exact .inr (hperm.mem_iff.mpr (List.mem_cons_self ..))
  | fire i =>
    simp only [step]
    split
    · exact h
    · rename_i x rest hpk
      have hperm := pick_perm _ _ _ _ hpk
      refine h.mono rfl (fun e he => he) (fun x hx => .inl hx) (fun x hx => .inl hx)
        (fun r rep hr => .inl hr)
        (fun y hy => .inl (hperm.mem_iff.mpr (List.mem_cons_of_mem _ hy))) ?_
      intro y hy
      rcases mem_append_single hy with h1 | rfl
      · exact .inl h1
      · exact .inr (h.timer_ok _ (hperm.mem_iff.mpr (List.mem_cons_self ..)))
  | expire i =>
    simp only [step]
    split
    · exact h
    · rename_i e rest hpk
      have hperm := pick_perm _ _ _ _ hpk
      have hein : e ∈ st.pending := hperm.mem_iff.mpr (List.mem_cons_self ..)
      refine h.mono rfl (fun y hy => hperm.mem_iff.mpr (List.mem_cons_of_mem _ hy)) (fun x hx => .inl hx)
        (fun x hx => .inl hx) (fun r rep hr => .inl hr) (fun x hx => .inl hx) ?_
      intro y hy
      rcases mem_append_single hy with h1 | rfl
      · exact .inl h1
      · obtain ⟨hid, ht, _, _⟩ := h.pend_ok e hein
        refine .inr ⟨hid, ?_⟩
        unfold Allowed
        simp [ht]

  | lose i =>
    simp only [step]
    split
    · exact h
    · rename_i cl rest hpk
      have hperm := pick_perm _ _ _ _ hpk
      exact h.mono rfl (fun e he => he)
        (fun x hx => .inl (hperm.mem_iff.mpr (List.mem_cons_of_mem _ hx))) (fun x hx => .inl hx)
        (fun r rep hr => .inl hr) (fun x hx => .inl hx) (fun x hx => .inl hx)
  | dup i =>
    simp only [step]
    split
    · exact h
    · rename_i x rest hpk
      have hperm := pick_perm _ _ _ _ hpk
      refine h.mono rfl (fun e he => he) (fun x hx => .inl hx) ?_
        (fun r rep hr => .inl hr) (fun x hx => .inl hx) (fun x hx => .inl hx)
      intro y hy
      rcases mem_append_single hy with h1 | rfl
      · exact .inl h1
      · exact .inl (hperm.mem_iff.mpr (List.mem_cons_self ..))

theorem good_run (c : Cfg) (evs : List Ev) : ∀ st, Good c st → Good c (run c st evs) := by
  induction evs with
  | nil => intro st h; exact h
  | cons ev evs ih => intro st h; exact ih _ (good_step c st ev h)

/-! ## the pending table is a map: one entry per request id -/

def UniqueIds (st : FSt) : Prop := (st.pending.map PEntry.reqId).Nodup

theorem nodup_of_perm_cons {l : List PEntry} {e : PEntry} {rest : List PEntry} (hperm : l.Perm (e :: rest))
    (h : (l.map PEntry.reqId).Nodup) : (rest.map PEntry.reqId).Nodup := by
  have := (hperm.map PEntry.reqId).nodup_iff.mp h
  simp only [List.map_cons, List.nodup_cons] at this
  exact this.2

theorem applyOutcome_unique (c : Cfg) (st : FSt) (o : Outcome) (hg : Good c st) (h : UniqueIds st) :
    UniqueIds (applyOutcome st o) := by
  cases o with
  | request s e dest =>
    unfold UniqueIds at *
    simp only [applyOutcome, List.map_append, List.map_cons, List.map_nil]
    rw [List.nodup_append]
    refine ⟨h, by simp, ?_⟩
    intro a ha b hb
    simp only [List.mem_singleton] at hb
    simp only [List.mem_map] at ha
    obtain ⟨x, hx, rfl⟩ := ha
    have := hg.pend_lt x hx
    omega
  | nothing => exact h
  | write x => exact h
  | later x => exact h
  | notify cl => exact h

theorem unique_step (c : Cfg) (st : FSt) (ev : Ev) (hg : Good c st) (h : UniqueIds st) : UniqueIds (step c st ev) := by
  cases ev with
  | «open» sid => exact h
  | close sid => exact h
  | send sid m => exact h
  | setKey sid k => exact h
  | front =>
    simp only [step]
    split
    · exact h
    · rename_i t ts hmb
      have hg' : Good c { st with mbox := ts } := by
        have hsub : ∀ x, x ∈ ts → x ∈ st.mbox := by
          intro x hx; rw [hmb]; exact List.mem_cons_of_mem _ hx
        exact hg.mono rfl (fun e he => he) (fun x hx => .inl hx) (fun x hx => .inl hx)
          (fun r rep hr => .inl (hsub _ hr)) (fun x hx => .inl hx) (fun x hx => .inl hx)
      cases t with
      | add sid => exact h
      | remove sid => exact h
      | setKey sid k => exact h
      | msg sid m =>
        simp only [frontTask]
        split
        · simp only [frontMsg]
          refine applyOutcome_unique c _ _ ?_ h
          exact hg'.mono rfl (fun e he => he) (fun x hx => .inl hx) (fun x hx => .inl hx)
            (fun r rep hr => .inl hr) (fun x hx => .inl hx) (fun x hx => .inl hx)
        · exact h
      | reply r rep =>
        simp only [frontTask]
        split
        · exact h
        · rename_i e rest hpk
          obtain ⟨hperm, _⟩ := pickFirst_perm _ _ _ _ hpk
          have := nodup_of_perm_cons hperm h
          split <;> exact this
  | back i =>
    simp only [step]
    split
    · exact h
    · split
      · exact h
      · split
        · exact h
        · split <;> exact h
  | deliver i =>
    simp only [step]
    split <;> exact h
  | fire i =>
    simp only [step]
    split <;> exact h
  | expire i =>
    simp only [step]
    split
    · exact h
    · rename_i e rest hpk
      exact nodup_of_perm_cons (pick_perm _ _ _ _ hpk) h
  | lose i =>
    simp only [step]
    split <;> exact h
  | dup i =>
    simp only [step]
    split <;> exact h

theorem unique_run (c : Cfg) (evs : List Ev) : ∀ st, Good c st → UniqueIds st → UniqueIds (run c st evs) := by
  induction evs with
  | nil => intro st _ h; exact h
  | cons ev evs ih => intro st hg h; exact ih _ (good_step c st ev hg) (unique_step c st ev hg h)

/-! ## conservation -/

def pOut (cn i : Nat) (x : Wr) : Bool := decide (x.s.sid = cn ∧ x.e.id = i)
def pPend (cn i : Nat) (e : PEntry) : Bool := decide (e.s.sid = cn ∧ e.msg.id = i)
def pDrop (cn i : Nat) (x : Nat × ClientMsg) : Bool := decide (x.1 = cn ∧ x.2.id % idWrap = i)
def pTask (cn i : Nat) : Task → Bool
  | .msg sid m => decide (sid = cn ∧ m.id % idWrap = i)
  | _ => false

/-- responses to (connection, id) written, plus everything that will still produce one -/
def total (st : FSt) (cn i : Nat) : Nat :=
  st.out.countP (pOut cn i) + st.pending.countP (pPend cn i) + st.mbox.countP (pTask cn i) +
    st.ltimers.countP (pOut cn i) + st.dropped.countP (pDrop cn i)

theorem total_applyOutcome (c : Cfg) (st : FSt) (s : Sess) (e : ClientMsg) (o : Outcome)
    (ho : OutcomeOk c s e o) (cn i : Nat) (hi : i ≠ 0) :
    total (applyOutcome st o) cn i = total st cn i + (if s.sid = cn ∧ e.id = i then 1 else 0) := by
  cases o with
  | nothing =>
    have : ¬ (s.sid = cn ∧ e.id = i) := fun hh => hi (by rw [← hh.2]; exact ho)
    simp [applyOutcome, this]
  | notify cl =>
    have : ¬ (s.sid = cn ∧ e.id = i) := fun hh => hi (by rw [← hh.2]; exact ho.1)
    simp [applyOutcome, total, this]
  | write x =>
    obtain ⟨rfl, rfl, _, _⟩ := ho
    simp only [applyOutcome, total, List.countP_append, List.countP_cons, List.countP_nil, pOut]
    by_cases hh : x.s.sid = cn ∧ x.e.id = i <;> simp [hh] <;> omega
  | later x =>
    obtain ⟨rfl, rfl, _, _⟩ := ho
    simp only [applyOutcome, total, List.countP_append, List.countP_cons, List.countP_nil, pOut]
    by_cases hh : x.s.sid = cn ∧ x.e.id = i <;> simp [hh] <;> omega
  | request s' e' dest =>
    obtain ⟨rfl, rfl, _⟩ := ho
    simp only [applyOutcome, total, List.countP_append, List.countP_cons, List.countP_nil, pPend]
    by_cases hh : s'.sid = cn ∧ e'.id = i <;> simp [hh] <;> omega

theorem total_step (c : Cfg) (st : FSt) (ev : Ev) (h : Good c st) (cn i : Nat) (hi : i ≠ 0) :
    total (step c st ev) cn i = total st cn i + sentCount cn i [ev] := by
  cases ev with
  | «open» sid =>
    simp only [total, step, sentCount, List.countP_append, List.countP_cons, List.countP_nil, pTask]
    simp
  | close sid =>
    simp only [total, step, sentCount, List.countP_append, List.countP_cons, List.countP_nil, pTask]
    simp
  | send sid m =>
    simp only [total, step, sentCount, List.countP_append, List.countP_cons, List.countP_nil, pTask]
    by_cases hh : sid = cn ∧ m.id % idWrap = i <;> simp [hh] <;> omega
  | setKey sid k =>
    simp only [total, step, sentCount, List.countP_append, List.countP_cons, List.countP_nil, pTask]
    simp
  | front =>
    simp only [step, sentCount, Nat.add_zero]
    split
    · rfl
    · rename_i t ts hmb
      cases t with
      | add sid =>
        simp only [frontTask, total, hmb, List.countP_cons, pTask]
        simp
      | remove sid =>
        simp only [frontTask, total, hmb, List.countP_cons, pTask]
        simp
      | msg sid m =>
        simp only [frontTask]
        split
        · simp only [frontMsg]
          rw [total_applyOutcome c _ _ _ _ (classify_ok c _ _) cn i hi]
          simp only [total, hmb, List.countP_cons, pTask, envelope_id]
          by_cases hh : sid = cn ∧ m.id % idWrap = i <;> simp [hh] <;> omega
        · simp only [total, hmb, List.countP_cons, List.countP_append, List.countP_nil, pTask, pDrop]
          by_cases hh : sid = cn ∧ m.id % idWrap = i <;> simp [hh] <;> omega
      | setKey sid k =>
        simp only [frontTask, total, hmb, List.countP_cons, pTask]
        simp
      | reply r rep =>
        simp only [frontTask]
        split
        · simp only [total, hmb, List.countP_cons, pTask]; simp
        · rename_i e rest hpk
          obtain ⟨hperm, hpe⟩ := pickFirst_perm _ _ _ _ hpk
          have hein : e ∈ st.pending := hperm.mem_iff.mpr (List.mem_cons_self ..)
          have hre : r = e.reqId := by simpa using (beq_iff_eq.mp hpe).symm
          have hmatch := (h.rep_ok r rep (by rw [hmb]; exact List.mem_cons_self ..) e hein hre).echo
          have hcnt := hperm.countP_eq (pPend cn i)
          simp only [List.countP_cons] at hcnt
          have hno : ¬ (rep.sessionId ≠ e.s.sid ∨ rep.clientReqId ≠ e.msg.id) := by
            intro hh; rcases hh with hh | hh
            · exact hh hmatch.1
            · exact hh hmatch.2
          rw [if_neg hno]
          simp only [total, hmb, List.countP_cons, List.countP_append, List.countP_nil, pTask, hcnt]
          simp only [pOut, pPend]
          by_cases hh : e.s.sid = cn ∧ e.msg.id = i <;> simp [hh] <;> omega
  | back i' =>
    simp only [step, sentCount, Nat.add_zero]
    split
    · rfl
    · split
      · rfl
      · split
        · rfl
        · split <;> rfl
  | deliver i' =>
    simp only [step, sentCount, Nat.add_zero]
    split
    · rfl
    · simp only [total, List.countP_append, List.countP_cons, List.countP_nil, pTask]; simp
  | fire i' =>
    simp only [step, sentCount, Nat.add_zero]
    split
    · rfl
    · rename_i x rest hpk
      have hcnt := (pick_perm _ _ _ _ hpk).countP_eq (pOut cn i)
      simp only [List.countP_cons] at hcnt
      simp only [total, List.countP_append, List.countP_cons, List.countP_nil, hcnt]
      omega
  | expire i' =>
    simp only [step, sentCount, Nat.add_zero]
    split
    · rfl
    · rename_i e rest hpk
      have hcnt := (pick_perm _ _ _ _ hpk).countP_eq (pPend cn i)
      simp only [List.countP_cons] at hcnt
      simp only [total, List.countP_append, List.countP_cons, List.countP_nil, hcnt, pOut, pPend]
      by_cases hh : e.s.sid = cn ∧ e.msg.id = i <;> simp [hh] <;> omega

  | lose i' =>
    simp only [step, sentCount, Nat.add_zero]
    split <;> rfl
  | dup i' =>
    simp only [step, sentCount, Nat.add_zero]
    split <;> rfl

theorem sentCount_cons (cn i : Nat) (ev : Ev) (evs : List Ev) :
    sentCount cn i (ev :: evs) = sentCount cn i [ev] + sentCount cn i evs := by
  cases ev <;> simp [sentCount]

theorem total_run (c : Cfg) (cn i : Nat) (hi : i ≠ 0) (evs : List Ev) :
    ∀ st, Good c st → total (run c st evs) cn i = total st cn i + sentCount cn i evs := by
  induction evs with
  | nil => intro st _; simp [run, sentCount]
  | cons ev evs ih =>
    intro st h
    simp only [run]
    rw [ih _ (good_step c st ev h), total_step c st ev h cn i hi, sentCount_cons cn i ev evs]
    omega

/-! ## every response names a message that was sent on its connection -/

def sentMsgs : List Ev → List (Nat × ClientMsg)
  | [] => []
  | .send sid m :: evs => (sid, m) :: sentMsgs evs
  | _ :: evs => sentMsgs evs

/-- `(x.s, x.e)` is (the session of) a connection and the envelope of a message sent on it -/
def From (S : List (Nat × ClientMsg)) (s : Sess) (e : ClientMsg) : Prop :=
  ∃ m, (s.sid, m) ∈ S ∧ e = envelope m

structure Sourced (S : List (Nat × ClientMsg)) (st : FSt) : Prop where
  mbox : ∀ sid m, Task.msg sid m ∈ st.mbox → (sid, m) ∈ S
  pend : ∀ e ∈ st.pending, From S e.s e.msg
  timer : ∀ x ∈ st.ltimers, From S x.s x.e
  out : ∀ x ∈ st.out, From S x.s x.e

theorem Sourced.mono {S S' : List (Nat × ClientMsg)} {st st' : FSt} (h : Sourced S st)
    (hS : ∀ y ∈ S, y ∈ S')
    (hm : ∀ sid m, Task.msg sid m ∈ st'.mbox → Task.msg sid m ∈ st.mbox ∨ (sid, m) ∈ S')
    (hp : ∀ e ∈ st'.pending, e ∈ st.pending ∨ From S' e.s e.msg)
    (ht : ∀ x ∈ st'.ltimers, x ∈ st.ltimers ∨ From S' x.s x.e)
    (ho : ∀ x ∈ st'.out, x ∈ st.out ∨ From S' x.s x.e) : Sourced S' st' := by
  have up : ∀ s e, From S s e → From S' s e := fun s e ⟨m, h1, h2⟩ => ⟨m, hS _ h1, h2⟩
  constructor
  · intro sid m hx
    rcases hm sid m hx with h1 | h1
    · exact hS _ (h.mbox sid m h1)
    · exact h1
  · intro e he
    rcases hp e he with h1 | h1
    · exact up _ _ (h.pend e h1)
    · exact h1
  · intro x hx
    rcases ht x hx with h1 | h1
    · exact up _ _ (h.timer x h1)
    · exact h1
  · intro x hx
    rcases ho x hx with h1 | h1
    · exact up _ _ (h.out x h1)
    · exact h1

theorem sourced_step (c : Cfg) (S : List (Nat × ClientMsg)) (st : FSt) (ev : Ev) (h : Sourced S st) :
    Sourced (S ++ sentMsgs [ev]) (step c st ev) := by
  have hS : ∀ y ∈ S, y ∈ S ++ sentMsgs [ev] := fun y hy => List.mem_append_left _ hy
  cases ev with
  | send sid m =>
    refine h.mono hS ?_ (fun e he => .inl he) (fun x hx => .inl hx) (fun x hx => .inl hx)
    intro sid' m' hx
    rcases mem_append_single hx with h1 | h1
    · exact .inl h1
    · simp only [Task.msg.injEq] at h1
      obtain ⟨rfl, rfl⟩ := h1
      exact .inr (by simp [sentMsgs])
  | setKey sid k =>
    refine h.mono hS ?_ (fun e he => .inl he) (fun x hx => .inl hx) (fun x hx => .inl hx)
    intro sid' m' hx
    rcases mem_append_single hx with h1 | h1
    · exact .inl h1
    · cases h1
  | «open» sid =>
    refine h.mono hS ?_ (fun e he => .inl he) (fun x hx => .inl hx) (fun x hx => .inl hx)
    intro sid' m' hx
    rcases mem_append_single hx with h1 | h1
    · exact .inl h1
    · cases h1
  | close sid =>
    refine h.mono hS ?_ (fun e he => .inl he) (fun x hx => .inl hx) (fun x hx => .inl hx)
    intro sid' m' hx
    rcases mem_append_single hx with h1 | h1
    · exact .inl h1
    · cases h1
  | front =>
    simp only [step]
    split
    · exact h.mono hS (fun _ _ hx => .inl hx) (fun e he => .inl he) (fun x hx => .inl hx) (fun x hx => .inl hx)
    · rename_i t ts hmb
      have hsub : ∀ x, x ∈ ts → x ∈ st.mbox := by
        intro x hx; rw [hmb]; exact List.mem_cons_of_mem _ hx
      cases t with
      | add sid =>
        exact h.mono hS (fun _ _ hx => .inl (hsub _ hx)) (fun e he => .inl he) (fun x hx => .inl hx)
          (fun x hx => .inl hx)
      | remove sid =>
        exact h.mono hS (fun _ _ hx => .inl (hsub _ hx)) (fun e he => .inl he) (fun x hx => .inl hx)
          (fun x hx => .inl hx)
      | msg sid m =>
        simp only [frontTask]
        split
        case isFalse =>
          exact h.mono hS (fun _ _ hx => .inl (hsub _ hx)) (fun e he => .inl he) (fun x hx => .inl hx)
            (fun x hx => .inl hx)
        have hin : (sid, m) ∈ S ++ sentMsgs [Ev.front] :=
          hS _ (h.mbox sid m (by rw [hmb]; exact List.mem_cons_self ..))
        have hfrom : From (S ++ sentMsgs [Ev.front]) ⟨sid, keyOf st.keys sid, true⟩ (envelope m) := ⟨m, hin, rfl⟩
        have hok := classify_ok c ⟨sid, keyOf st.keys sid, true⟩ (envelope m)
        simp only [frontMsg]
        cases ho : (classify c ⟨sid, keyOf st.keys sid, true⟩ (envelope m)).1 with
        | nothing =>
          exact h.mono hS (fun _ _ hx => .inl (hsub _ hx)) (fun e he => .inl he) (fun x hx => .inl hx)
            (fun x hx => .inl hx)
        | notify cl =>
          exact h.mono hS (fun _ _ hx => .inl (hsub _ hx)) (fun e he => .inl he) (fun x hx => .inl hx)
            (fun x hx => .inl hx)
        | write x =>
          rw [ho] at hok
          obtain ⟨hs, he, _, _⟩ := hok
          refine h.mono hS (fun _ _ hx => .inl (hsub _ hx)) (fun e he => .inl he) (fun x hx => .inl hx) ?_
          intro y hy
          rcases mem_append_single hy with h1 | rfl
          · exact .inl h1
          · exact .inr (by rw [hs, he]; exact hfrom)
        | later x =>
          rw [ho] at hok
          obtain ⟨hs, he, _, _⟩ := hok
          refine h.mono hS (fun _ _ hx => .inl (hsub _ hx)) (fun e he => .inl he) ?_ (fun x hx => .inl hx)
          intro y hy
          rcases mem_append_single hy with h1 | rfl
          · exact .inl h1
          · exact .inr (by rw [hs, he]; exact hfrom)
        | request s' e' dest =>
          rw [ho] at hok
          obtain ⟨hs, he, _⟩ := hok
          refine h.mono hS (fun _ _ hx => .inl (hsub _ hx)) ?_ (fun x hx => .inl hx) (fun x hx => .inl hx)
          intro y hy
          rcases mem_append_single hy with h1 | rfl
          · exact .inl h1
          · exact .inr (by simp only; rw [hs, he]; exact hfrom)
      | setKey sid k =>
        exact h.mono hS (fun _ _ hx => .inl (hsub _ hx)) (fun e he => .inl he) (fun x hx => .inl hx)
          (fun x hx => .inl hx)
      | reply r rep =>
        simp only [frontTask]
        split
        · exact h.mono hS (fun _ _ hx => .inl (hsub _ hx)) (fun e he => .inl he) (fun x hx => .inl hx)
            (fun x hx => .inl hx)
        · rename_i e rest hpk
          obtain ⟨hperm, _⟩ := pickFirst_perm _ _ _ _ hpk
          have hsubp : ∀ x, x ∈ rest → x ∈ st.pending := by
            intro x hx; exact hperm.mem_iff.mpr (List.mem_cons_of_mem _ hx)
          have hein : e ∈ st.pending := hperm.mem_iff.mpr (List.mem_cons_self ..)
          split
          · exact h.mono hS (fun _ _ hx => .inl (hsub _ hx)) (fun e he => .inl (hsubp e he))
              (fun x hx => .inl hx) (fun x hx => .inl hx)
          · refine h.mono hS (fun _ _ hx => .inl (hsub _ hx)) (fun e he => .inl (hsubp e he))
              (fun x hx => .inl hx) ?_
            intro y hy
            rcases mem_append_single hy with h1 | rfl
            · exact .inl h1
            · obtain ⟨m, h1, h2⟩ := h.pend e hein
              exact .inr ⟨m, hS _ h1, h2⟩
  | back i =>
    simp only [step]
    split
    · exact h.mono hS (fun _ _ hx => .inl hx) (fun e he => .inl he) (fun x hx => .inl hx) (fun x hx => .inl hx)
    · split
      · exact h.mono hS (fun _ _ hx => .inl hx) (fun e he => .inl he) (fun x hx => .inl hx) (fun x hx => .inl hx)
      · split
        · exact h.mono hS (fun _ _ hx => .inl hx) (fun e he => .inl he) (fun x hx => .inl hx) (fun x hx => .inl hx)
        · split <;>
            exact h.mono hS (fun _ _ hx => .inl hx) (fun e he => .inl he) (fun x hx => .inl hx) (fun x hx => .inl hx)
  | deliver i =>
    simp only [step]
    split
    · exact h.mono hS (fun _ _ hx => .inl hx) (fun e he => .inl he) (fun x hx => .inl hx) (fun x hx => .inl hx)
    · refine h.mono hS ?_ (fun e he => .inl he) (fun x hx => .inl hx) (fun x hx => .inl hx)
      intro sid m hx
      rcases mem_append_single hx with h1 | h1
      · exact .inl h1
      · cases h1
  | fire i =>
    simp only [step]
    split
    · exact h.mono hS (fun _ _ hx => .inl hx) (fun e he => .inl he) (fun x hx => .inl hx) (fun x hx => .inl hx)
    · rename_i x rest hpk
      have hperm := pick_perm _ _ _ _ hpk
      refine h.mono hS (fun _ _ hx => .inl hx) (fun e he => .inl he)
        (fun y hy => .inl (hperm.mem_iff.mpr (List.mem_cons_of_mem _ hy))) ?_
      intro y hy
      rcases mem_append_single hy with h1 | rfl
      · exact .inl h1
      · obtain ⟨m, h1, h2⟩ := h.timer _ (hperm.mem_iff.mpr (List.mem_cons_self ..))
        exact .inr ⟨m, hS _ h1, h2⟩
  | expire i =>
    simp only [step]
    split
    · exact h.mono hS (fun _ _ hx => .inl hx) (fun e he => .inl he) (fun x hx => .inl hx) (fun x hx => .inl hx)
    · rename_i e rest hpk
      have hperm := pick_perm _ _ _ _ hpk
      refine h.mono hS (fun _ _ hx => .inl hx)
        (fun y hy => .inl (hperm.mem_iff.mpr (List.mem_cons_of_mem _ hy))) (fun x hx => .inl hx) ?_
      intro y hy
      rcases mem_append_single hy with h1 | rfl
      · exact .inl h1
      · obtain ⟨m, h1, h2⟩ := h.pend _ (hperm.mem_iff.mpr (List.mem_cons_self ..))
        exact .inr ⟨m, hS _ h1, h2⟩

  | lose i =>
    simp only [step]
    split <;>
      exact h.mono hS (fun _ _ hx => .inl hx) (fun e he => .inl he) (fun x hx => .inl hx) (fun x hx => .inl hx)
  | dup i =>
    simp only [step]
    split <;>
      exact h.mono hS (fun _ _ hx => .inl hx) (fun e he => .inl he) (fun x hx => .inl hx) (fun x hx => .inl hx)

theorem sentMsgs_cons (ev : Ev) (evs : List Ev) : sentMsgs (ev :: evs) = sentMsgs [ev] ++ sentMsgs evs := by
  cases ev <;> simp [sentMsgs]

theorem sourced_run (c : Cfg) (evs : List Ev) : ∀ S st, Sourced S st → Sourced (S ++ sentMsgs evs) (run c st evs) := by
  induction evs with
  | nil => intro S st h; simpa [sentMsgs, run] using h
  | cons ev evs ih =>
    intro S st h
    have := ih _ _ (sourced_step c S st ev h)
    rw [sentMsgs_cons, ← List.append_assoc]
    exact this

theorem sourced_init : Sourced [] {} := by
  constructor <;> simp

/-! ## mailbox order: a connection that is opened before it sends and is not closed loses no message -/

/-- the session table after the owner has processed these tasks -/
def regsAfter : List Nat → List Task → List Nat
  | S, [] => S
  | S, .add sid :: ts => regsAfter (sid :: S) ts
  | S, .remove sid :: ts => regsAfter (S.filter (fun x => x != sid)) ts
  | S, .msg _ _ :: ts => regsAfter S ts
  | S, .setKey _ _ :: ts => regsAfter S ts
  | S, .reply _ _ :: ts => regsAfter S ts

/-- every queued message of connection `cn` will find `cn` registered when the owner gets to it, and
no removal of `cn` is queued -/
def okFor (cn : Nat) : List Nat → List Task → Prop
  | _, [] => True
  | S, .add sid :: ts => okFor cn (sid :: S) ts
  | S, .remove sid :: ts => sid ≠ cn ∧ okFor cn (S.filter (fun x => x != sid)) ts
  | S, .msg sid _ :: ts => (sid = cn → cn ∈ S) ∧ okFor cn S ts
  | S, .setKey _ _ :: ts => okFor cn S ts
  | S, .reply _ _ :: ts => okFor cn S ts

theorem regsAfter_append (ts : List Task) (t : Task) : ∀ S, regsAfter S (ts ++ [t]) = regsAfter (regsAfter S ts) [t] := by
  induction ts with
  | nil => intro S; rfl
  | cons u us ih => intro S; cases u <;> simp only [List.cons_append, regsAfter, ih]

theorem okFor_append (cn : Nat) (ts : List Task) (t : Task) :
    ∀ S, okFor cn S (ts ++ [t]) ↔ okFor cn S ts ∧ okFor cn (regsAfter S ts) [t] := by
  induction ts with
  | nil => intro S; simp [okFor, regsAfter]
  | cons u us ih =>
    intro S
    cases u <;> simp only [List.cons_append, okFor, regsAfter, ih, and_assoc]

/-- the invariant along a well-used schedule -/
structure WU (cn : Nat) (o : Bool) (st : FSt) : Prop where
  ok : okFor cn st.sessions st.mbox
  reg : o = true → cn ∈ regsAfter st.sessions st.mbox
  nodrop : ∀ x ∈ st.dropped, x.1 ≠ cn

theorem mem_filter_ne {cn sid : Nat} {S : List Nat} (h : cn ∈ S) (hne : sid ≠ cn) :
    cn ∈ S.filter (fun x => x != sid) := by
  simp only [List.mem_filter, bne_iff_ne, ne_eq]
  exact ⟨h, fun e => hne e.symm⟩

theorem WU.same {cn : Nat} {o : Bool} {st st' : FSt} (h : WU cn o st) (hs : st'.sessions = st.sessions)
    (hm : st'.mbox = st.mbox) (hd : st'.dropped = st.dropped) : WU cn o st' :=
  ⟨by rw [hs, hm]; exact h.ok, by rw [hs, hm]; exact h.reg, by rw [hd]; exact h.nodrop⟩

theorem applyOutcome_same (st : FSt) (o : Outcome) :
    (applyOutcome st o).sessions = st.sessions ∧ (applyOutcome st o).mbox = st.mbox ∧
    (applyOutcome st o).dropped = st.dropped := by
  cases o <;> exact ⟨rfl, rfl, rfl⟩

theorem wu_step (c : Cfg) (cn : Nat) (o : Bool) (st : FSt) (ev : Ev) (evs : List Ev)
    (hw : wellUsed cn o (ev :: evs) = true) (h : WU cn o st) :
    ∃ o', wellUsed cn o' evs = true ∧ WU cn o' (step c st ev) := by
  cases ev with
  | «open» sid =>
    simp only [wellUsed] at hw
    refine ⟨o || sid == cn, hw, ?_, ?_, h.nodrop⟩
    · simp only [step, okFor_append, okFor, and_true]; exact h.ok
    · intro ho
      simp only [step, regsAfter_append, regsAfter]
      simp only [Bool.or_eq_true, beq_iff_eq] at ho
      rcases ho with ho | ho
      · exact List.mem_cons_of_mem _ (h.reg ho)
      · rw [ho]; exact List.mem_cons_self ..
  | close sid =>
    simp only [wellUsed, Bool.and_eq_true, bne_iff_ne, ne_eq] at hw
    refine ⟨o, hw.2, ?_, ?_, h.nodrop⟩
    · simp only [step, okFor_append, okFor, and_true]; exact ⟨h.ok, hw.1⟩
    · intro ho
      simp only [step, regsAfter_append, regsAfter]
      exact mem_filter_ne (h.reg ho) hw.1
  | send sid m =>
    simp only [wellUsed, Bool.and_eq_true, Bool.or_eq_true, bne_iff_ne, ne_eq] at hw
    refine ⟨o, hw.2, ?_, ?_, h.nodrop⟩
    · simp only [step, okFor_append, okFor, and_true]
      refine ⟨h.ok, fun e => ?_⟩
      rcases hw.1 with h1 | h1
      · exact absurd e h1
      · exact h.reg h1
    · intro ho
      simp only [step, regsAfter_append, regsAfter]
      exact h.reg ho
  | setKey sid k =>
    simp only [wellUsed] at hw
    refine ⟨o, hw, ?_, ?_, h.nodrop⟩
    · simp only [step, okFor_append, okFor, and_true]; exact h.ok
    · intro ho
      simp only [step, regsAfter_append, regsAfter]
      exact h.reg ho
  | front =>
    simp only [wellUsed] at hw
    refine ⟨o, hw, ?_⟩
    simp only [step]
    split
    · exact h
    · rename_i t ts hmb
      have hok := h.ok
      have hreg := h.reg
      rw [hmb] at hok hreg
      cases t with
      | add sid => exact ⟨hok, hreg, h.nodrop⟩
      | remove sid => exact ⟨hok.2, hreg, h.nodrop⟩
      | setKey sid k => exact ⟨hok, hreg, h.nodrop⟩
      | reply r rep =>
        simp only [frontTask]
        split
        · exact ⟨hok, hreg, h.nodrop⟩
        · split <;> exact ⟨hok, hreg, h.nodrop⟩
      | msg sid m =>
        simp only [frontTask]
        split
        · simp only [frontMsg]
          obtain ⟨e1, e2, e3⟩ := applyOutcome_same
            { st with mbox := ts, inv := st.inv ++ (classify c ⟨sid, keyOf st.keys sid, true⟩ (envelope m)).2 }
            (classify c ⟨sid, keyOf st.keys sid, true⟩ (envelope m)).1
          exact ⟨by rw [e1, e2]; exact hok.2, by rw [e1, e2]; exact hreg, by rw [e3]; exact h.nodrop⟩
        · rename_i hnot
          refine ⟨hok.2, hreg, ?_⟩
          intro x hx
          rcases mem_append_single hx with h1 | rfl
          · exact h.nodrop x h1
          · intro e
            apply hnot
            simp only [List.contains_iff_mem]
            simp only at e
            rw [e]; exact hok.1 e
  | back i =>
    simp only [wellUsed] at hw
    refine ⟨o, hw, ?_⟩
    simp only [step]
    split
    · exact h
    · split
      · exact h.same rfl rfl rfl
      · split
        · exact h.same rfl rfl rfl
        · split <;> exact h.same rfl rfl rfl
  | deliver i =>
    simp only [wellUsed] at hw
    refine ⟨o, hw, ?_⟩
    simp only [step]
    split
    · exact h
    · refine ⟨?_, ?_, h.nodrop⟩
      · simp only [okFor_append, okFor, and_true]; exact h.ok
      · intro ho
        simp only [regsAfter_append, regsAfter]
        exact h.reg ho
  | fire i =>
    simp only [wellUsed] at hw
    refine ⟨o, hw, ?_⟩
    simp only [step]
    split
    · exact h
    · exact h.same rfl rfl rfl
  | expire i =>
    simp only [wellUsed] at hw
    refine ⟨o, hw, ?_⟩
    simp only [step]
    split
    · exact h
    · exact h.same rfl rfl rfl
  | lose i =>
    simp only [wellUsed] at hw
    refine ⟨o, hw, ?_⟩
    simp only [step]
    split
    · exact h
    · exact h.same rfl rfl rfl
  | dup i =>
    simp only [wellUsed] at hw
    refine ⟨o, hw, ?_⟩
    simp only [step]
    split
    · exact h
    · exact h.same rfl rfl rfl

theorem wu_run (c : Cfg) (cn : Nat) (evs : List Ev) : ∀ (o : Bool) (st : FSt), wellUsed cn o evs = true → WU cn o st →
    ∀ x ∈ (run c st evs).dropped, x.1 ≠ cn := by
  induction evs with
  | nil => intro o st _ h; exact h.nodrop
  | cons ev evs ih =>
    intro o st hw h
    obtain ⟨o', hw', h'⟩ := wu_step c cn o st ev evs hw h
    exact ih o' _ hw' h'

theorem wu_init (cn : Nat) : WU cn false {} := by
  refine ⟨trivial, ?_, ?_⟩
  · intro h; cases h
  · intro x hx; cases hx

/-! ## what an allowed response can be -/

theorem data_of_wire {svc g m : String} {v : Nat} {b : Beh} {o g' m' : String} {v' : Nat}
    (h : wireLocal (behResult svc g m v b).2 = .data o g' m' v' ∨ wireBack (behResult svc g m v b).2 = .data o g' m' v') :
    svc = o ∧ g = g' ∧ m = m' ∧ v = v' := by
  cases b <;> simp [behResult, wireLocal, wireBack] at h <;> exact h

/-- data in an allowed response was produced by the handler that THIS request names (group, method,
payload of its own envelope), running at the target of ITS session -/
theorem allowed_data_origin (c : Cfg) (x : Wr) (hid : x.e.id ≠ 0) (h : Allowed c x) (o g m : String) (v : Nat)
    (hres : x.res = .data o g m v) : ∃ b, served c x.s x.e = some (o, g, m, v, b) := by
  unfold Allowed at h
  by_cases ht : (splitClientRoute x.e.route).1 = c.frontType
  · simp only [ht, ↓reduceIte] at h
    obtain ⟨d, hd⟩ := h
    cases hs : served c x.s x.e with
    | none =>
      obtain ⟨d', _, he⟩ := process_unserved c x.s x.e hid hs
      unfold process at he
      rw [he] at hd
      simp [responses, hres] at hd
    | some y =>
      obtain ⟨svc, g', m', v', b⟩ := y
      have he := process_served c x.s x.e hid svc g' m' v' b hs
      unfold process at he
      rw [he] at hd
      simp only [ht, ne_eq, not_true_eq_false, false_and, ↓reduceIte, responses, List.cons.injEq,
        Prod.mk.injEq, and_true, true_and] at hd
      obtain ⟨_, hr⟩ := hd
      rw [hres] at hr
      obtain ⟨rfl, rfl, rfl, rfl⟩ := data_of_wire (.inl hr)
      exact ⟨b, rfl⟩
  · simp only [ht, ↓reduceIte] at h
    rcases h with h | ⟨rep, ⟨hne, hser, inst, d, hdir, hal, hpf⟩, hr⟩
    · rw [hres] at h; cases h
    · unfold processForward at hpf
      simp only [fwdOf] at hpf
      by_cases hty : (splitClientRoute x.e.route).1 = inst.type
      · simp only [hty, ne_eq, not_true_eq_false, ↓reduceIte] at hpf
        rw [tryCallCol_request _ _ _ _ _ _ _ hid] at hpf
        have htg : target c x.s (splitClientRoute x.e.route).1 = some (destOf c x.s x.e) := by
          unfold target
          simp only [destOf] at hne hdir ⊢
          simp [ht, hne, hdir, hal, hty.symm]
        have hreach : reachable c x.s x.e = some (destOf c x.s x.e) := by
          unfold reachable
          simp [hser, htg]
        rw [← hty] at hpf
        split at hpf
        · rename_i b v' hh hp
          simp only [Option.map_some, Option.some.injEq, Prod.mk.injEq] at hpf
          obtain ⟨_, hrep⟩ := hpf
          rw [← hrep, hres] at hr
          simp only at hr
          obtain ⟨h1, h2, h3, h4⟩ := data_of_wire (.inr hr.symm)
          unfold served
          simp only [hreach, hh, hp]
          exact ⟨b, by rw [← h1, ← h2, ← h3, ← h4]⟩
        · simp only [Option.map_some, Option.some.injEq, Prod.mk.injEq] at hpf
          obtain ⟨_, hrep⟩ := hpf
          rw [← hrep, hres] at hr
          simp [wireBack] at hr
      · simp [hty] at hpf

/-- the answer of the per-message model (the one the correspondence run compares with the code) is
always among the answers the shared machine may give -/
theorem serve_is_allowed (c : Cfg) (s : Sess) (e : ClientMsg) (hid : e.id ≠ 0) (d : Nat) (res : Result)
    (h : responses (processWith fixed c s e) = [(d, s.sid, e.id, res)]) : Allowed c ⟨s, e, res⟩ := by
  unfold Allowed
  by_cases ht : (splitClientRoute e.route).1 = c.frontType
  · simp only [ht, ↓reduceIte]
    exact ⟨d, h⟩
  · simp only [ht, ↓reduceIte]
    by_cases herr : res = .error
    · exact .inl herr
    · right
      unfold processWith forward at h
      simp only [ne_eq, ht, not_false_eq_true, ↓reduceIte, stamp_fixed] at h
      by_cases hr : c.route (splitClientRoute e.route).1 s = ""
      · simp [hr, fixed, hid, responses] at h; exact absurd h.2.symm herr
      · simp only [hr, ↓reduceIte] at h
        cases hdir : c.dir (c.route (splitClientRoute e.route).1 s) with
        | none => simp [hdir, fixed, hid, responses] at h; exact absurd h.2.symm herr
        | some inst =>
          simp only [hdir, hid, ↓reduceIte] at h
          by_cases hser : routeSerialisable e.route = false
          · simp [hser, responses] at h; exact absurd h.2.symm herr
          · have hser' : routeSerialisable e.route = true := by simpa using hser
            simp only [hser', Bool.true_eq_false, ↓reduceIte] at h
            by_cases hal : inst.alive = false
            · simp [hal, relay, responses] at h; exact absurd h.2.symm herr
            · have hal' : inst.alive = true := by simpa using hal
              simp only [hal', Bool.true_eq_false, ↓reduceIte, responses_append] at h
              have hresp : responses (processForward fixed c (c.route (splitClientRoute e.route).1 s) inst
                  ⟨s.sid, e.id, e.route, e.pay⟩).1 = [] := by
                unfold processForward
                simp only
                split <;> simp [responses]
              rw [hresp, List.nil_append] at h
              cases hpf : (processForward fixed c (c.route (splitClientRoute e.route).1 s) inst
                  ⟨s.sid, e.id, e.route, e.pay⟩).2 with
              | none => simp [hpf, relay, responses] at h; exact absurd h.2.symm herr
              | some dr =>
                obtain ⟨d', rep⟩ := dr
                have hecho := processForward_echo c _ inst _ (d', rep) hpf
                simp only at hecho
                simp only [hpf, relay] at h
                by_cases hlate : requestTimeout < d'
                · simp [hlate, responses] at h; exact absurd h.2.symm herr
                · simp only [hlate, ↓reduceIte, hecho.1, hecho.2, ne_eq, not_true_eq_false, or_self,
                    responses, List.cons.injEq, Prod.mk.injEq, and_true, true_and] at h
                  exact ⟨rep, ⟨hr, hser', inst, d', hdir, hal', hpf⟩, h.2.symm⟩

/-! ## quiescence is reachable: the owner drains its mailbox, the expiry scan and the timers do the rest -/

theorem front_mbox (c : Cfg) (st : FSt) (t : Task) (ts : List Task) (h : st.mbox = t :: ts) :
    (step c st .front).mbox = ts := by
  simp only [step, h]
  cases t with
  | add sid => rfl
  | remove sid => rfl
  | msg sid m =>
    simp only [frontTask]
    split
    · simp only [frontMsg]
      cases (classify c ⟨sid, keyOf st.keys sid, true⟩ (envelope m)).1 <;> rfl
    · rfl
  | setKey sid k => rfl
  | reply r rep =>
    simp only [frontTask]
    split
    · rfl
    · split <;> rfl

theorem drain_mbox (c : Cfg) : ∀ (n : Nat) (st : FSt), st.mbox.length = n →
    (run c st (List.replicate n .front)).mbox = [] := by
  intro n
  induction n with
  | zero => intro st h; simpa [run] using h
  | succ n ih =>
    intro st h
    cases hm : st.mbox with
    | nil => rw [hm] at h; cases h
    | cons t ts =>
      simp only [List.replicate_succ, run]
      apply ih
      rw [front_mbox c st t ts hm]
      rw [hm] at h
      simpa using h

theorem expire_all (c : Cfg) : ∀ (n : Nat) (st : FSt), st.pending.length = n →
    (run c st (List.replicate n (.expire 0))).pending = [] ∧
    (run c st (List.replicate n (.expire 0))).mbox = st.mbox ∧
    (run c st (List.replicate n (.expire 0))).ltimers = st.ltimers := by
  intro n
  induction n with
  | zero => intro st h; simpa [run] using h
  | succ n ih =>
    intro st h
    cases hm : st.pending with
    | nil => rw [hm] at h; cases h
    | cons t ts =>
      simp only [List.replicate_succ, run]
      have hs : (step c st (.expire 0)).pending = ts ∧ (step c st (.expire 0)).mbox = st.mbox ∧
          (step c st (.expire 0)).ltimers = st.ltimers := by
        simp [step, hm, pick]
      have := ih (step c st (.expire 0)) (by rw [hs.1]; rw [hm] at h; simpa using h)
      rw [hs.2.1, hs.2.2] at this
      exact this

theorem fire_all (c : Cfg) : ∀ (n : Nat) (st : FSt), st.ltimers.length = n →
    (run c st (List.replicate n (.fire 0))).ltimers = [] ∧
    (run c st (List.replicate n (.fire 0))).mbox = st.mbox ∧
    (run c st (List.replicate n (.fire 0))).pending = st.pending := by
  intro n
  induction n with
  | zero => intro st h; simpa [run] using h
  | succ n ih =>
    intro st h
    cases hm : st.ltimers with
    | nil => rw [hm] at h; cases h
    | cons t ts =>
      simp only [List.replicate_succ, run]
      have hs : (step c st (.fire 0)).ltimers = ts ∧ (step c st (.fire 0)).mbox = st.mbox ∧
          (step c st (.fire 0)).pending = st.pending := by
        simp [step, hm, pick]
      have := ih (step c st (.fire 0)) (by rw [hs.1]; rw [hm] at h; simpa using h)
      rw [hs.2.1, hs.2.2] at this
      exact this

theorem run_append (c : Cfg) (a b : List Ev) : ∀ st, run c st (a ++ b) = run c (run c st a) b := by
  induction a with
  | nil => intro st; rfl
  | cons ev evs ih => intro st; simp [run, ih]

/-- the events of a schedule that are not client traffic -/
def Internal : Ev → Prop
  | .send .. => False
  | .setKey .. => False
  | _ => True

theorem can_quiesce (c : Cfg) (st : FSt) :
    ∃ evs, (∀ ev ∈ evs, Internal ev) ∧ Quiet (run c st evs) := by
  let a := List.replicate st.mbox.length Ev.front
  let st1 := run c st a
  let b := List.replicate st1.pending.length (Ev.expire 0)
  let st2 := run c st1 b
  let d := List.replicate st2.ltimers.length (Ev.fire 0)
  refine ⟨a ++ (b ++ d), ?_, ?_⟩
  · intro ev hev
    simp only [List.mem_append, a, b, d] at hev
    rcases hev with h | h | h <;> rw [(List.mem_replicate.mp h).2] <;> trivial
  · rw [run_append, run_append]
    have h1 : st1.mbox = [] := drain_mbox c _ st rfl
    obtain ⟨h2, h3, _⟩ := expire_all c _ st1 rfl
    obtain ⟨h5, h6, h7⟩ := fire_all c _ st2 rfl
    exact ⟨by rw [h6, h3, h1], by rw [h7, h2], h5⟩

/-! ### the accept loop and `wellUsed` -/

/-- a connection that has been opened stays well used as long as no connection event closes one -/
theorem wellUsed_true_of_no_close (cn : Nat) (evs : List Ev) (h : ∀ sid, Ev.close sid ∉ evs) :
    wellUsed cn true evs = true := by
  induction evs with
  | nil => rfl
  | cons e t ih =>
    have ht : ∀ sid, Ev.close sid ∉ t := fun sid hm => h sid (List.mem_cons_of_mem _ hm)
    cases e with
    | close sid => exact absurd List.mem_cons_self (h sid)
    | «open» sid => simp [wellUsed, ih ht]
    | send sid m => simp [wellUsed, ih ht]
    | setKey sid k => simp [wellUsed, ih ht]
    | front => simp [wellUsed, ih ht]
    | back i => simp [wellUsed, ih ht]
    | deliver i => simp [wellUsed, ih ht]
    | fire i => simp [wellUsed, ih ht]
    | expire i => simp [wellUsed, ih ht]
    | lose i => simp [wellUsed, ih ht]
    | dup i => simp [wellUsed, ih ht]

/-- the `open` events of a batch of accepted connections -/
theorem wellUsed_opens (cn : Nat) (conns : List Nat) (o : Bool) (evs : List Ev) :
    wellUsed cn o (conns.map Ev.open ++ evs) = wellUsed cn (o || conns.contains cn) evs := by
  induction conns generalizing o with
  | nil => simp
  | cons a t ih =>
    simp only [List.map_cons, List.cons_append, wellUsed, ih, List.contains_cons]
    congr 1
    cases o <;> cases hc : t.contains cn <;> simp [Bool.beq_comm] <;> exact eq_comm

end Cell2v.ClientServe.Shared
