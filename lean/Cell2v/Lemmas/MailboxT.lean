import Cell2v.Model.MailboxT
import Cell2v.Lemmas.MailboxX
/-! C09 — lemmas about the timed mailbox model `FineT` (used by `Props/C09T.lean`) -/
namespace Cell2v.Mailbox
namespace FineT

theorem runL_append (a b : List Lbl) : ∀ (s s1 s2 : St), runL s a = some s1 → runL s1 b = some s2 → runL s (a ++ b) = some s2 := by
  induction a with
  | nil => intro s s1 s2 h1 h2; simp [runL] at h1; subst h1; simpa using h2
  | cons l a ih =>
    intro s s1 s2 h1 h2
    simp only [runL, List.cons_append] at *
    cases hf : fire s l with
    | none => simp [hf] at h1
    | some s' => simp only [hf] at h1 ⊢; exact ih s' s1 s2 h1 h2

/-- **every step of the timed model is a step of `FineX` on the embedded state, or leaves it alone** -/
theorem step_refines (s s' : FineT.St) (l : FineT.Lbl) (h : FineT.fire s l = some s') :
    s'.budget = s.budget ∧
    ((∃ lx, l = .x lx ∧ FineX.fire s.x lx = some s'.x) ∨ ((∀ lx, l ≠ .x lx) ∧ s'.x = s.x)) := by
  cases l with
  | tick d => simp only [FineT.fire, Option.some.injEq] at h; subst h; simp
  | retEmpty =>
    simp only [FineT.fire] at h
    split at h
    · simp only [Option.some.injEq] at h; subst h; simp
    · cases h
  | x lx =>
    simp only [FineT.fire] at h
    split at h
    · cases h
    · cases hf : FineX.fire s.x lx with
      | none => simp [hf] at h
      | some x' =>
        simp only [hf, Option.some.injEq] at h; subst h
        exact ⟨rfl, Or.inl ⟨lx, rfl, hf⟩⟩

theorem run_projects (ls : List FineT.Lbl) : ∀ (s s' : FineT.St), FineT.runL s ls = some s' →
    ∃ lx, FineX.runL s.x lx = some s'.x := by
  induction ls with
  | nil => intro s s' h; simp only [FineT.runL, Option.some.injEq] at h; subst h; exact ⟨[], rfl⟩
  | cons l ls ih =>
    intro s s' h
    simp only [FineT.runL] at h
    cases hf : FineT.fire s l with
    | none => simp [hf] at h
    | some s1 =>
      simp only [hf] at h
      obtain ⟨lx, hlx⟩ := ih s1 s' h
      rcases (step_refines s s1 l hf).2 with ⟨l0, _, h0⟩ | ⟨_, h0⟩
      · exact ⟨l0 :: lx, by simp [FineX.runL, h0, hlx]⟩
      · exact ⟨lx, by rw [← h0]; exact hlx⟩

def TInv (ms : Nat) (s : FineT.St) : Prop := s.start ≤ s.now ∧ s.budget = FineT.producerBudget ms

theorem tinv_step (ms : Nat) (s s' : FineT.St) (l : FineT.Lbl) (hi : TInv ms s) (h : FineT.fire s l = some s') : TInv ms s' := by
  obtain ⟨h1, h2⟩ := hi
  cases l with
  | tick d => simp only [FineT.fire, Option.some.injEq] at h; subst h; exact ⟨by simp only; omega, h2⟩
  | retEmpty =>
    simp only [FineT.fire] at h
    split at h
    · simp only [Option.some.injEq] at h; subst h; exact ⟨h1, h2⟩
    · cases h
  | x lx =>
    simp only [FineT.fire] at h
    split at h
    · cases h
    · cases hf : FineX.fire s.x lx with
      | none => simp [hf] at h
      | some x' =>
        simp only [hf, Option.some.injEq] at h; subst h
        refine ⟨?_, h2⟩
        simp only
        split
        · exact Nat.le_refl _
        · exact h1

theorem tinv_run (ms : Nat) (ls : List FineT.Lbl) : ∀ (s s' : FineT.St), TInv ms s → FineT.runL s ls = some s' → TInv ms s' := by
  induction ls with
  | nil => intro s s' hi h; simp only [FineT.runL, Option.some.injEq] at h; subst h; exact hi
  | cons l ls ih =>
    intro s s' hi h
    simp only [FineT.runL] at h
    cases hf : FineT.fire s l with
    | none => simp [hf] at h
    | some s1 => simp only [hf] at h; exact ih s1 s' (tinv_step ms s s1 l hi hf) h

def isTick : FineT.Lbl → Bool
  | .tick _ => true
  | _ => false

theorem frozen_step (s s' : FineT.St) (l : FineT.Lbl) (hn : isTick l = false) (ho : FineT.over s = false)
    (h : FineT.fire s l = some s') : FineT.over s' = false ∧ s'.now = s.now := by
  cases l with
  | tick d => simp [isTick] at hn
  | retEmpty =>
    simp only [FineT.fire] at h
    split at h
    · simp only [Option.some.injEq] at h; subst h; exact ⟨ho, rfl⟩
    · cases h
  | x lx =>
    simp only [FineT.fire] at h
    split at h
    · cases h
    · cases hf : FineX.fire s.x lx with
      | none => simp [hf] at h
      | some x' =>
        simp only [hf, Option.some.injEq] at h; subst h
        refine ⟨?_, rfl⟩
        simp only [FineT.over, decide_eq_false_iff_not] at ho ⊢
        split <;> omega

/-- a step of a thread that already exists (no new post, no helper-sleep stutter, no passing of time) -/
def isInternalT : FineT.Lbl → Bool
  | .x (.base l) => Fine.isInternal l
  | .x _ => true
  | .retEmpty => true
  | .tick _ => false

def b2n (b : Bool) : Nat := if b then 1 else 0

/-- potential of the timed model: `Fine.Phi` (twice) plus the pending way out of `run()` -/
def PhiT (s : FineT.St) : Nat := 2 * Fine.Phi s.x.s + b2n s.ret

theorem frozen_step_decreases (s s' : FineT.St) (l : FineT.Lbl) (hi : Fine.AllInv s.x.s) (hl : isInternalT l = true)
    (ho : FineT.over s = false) (h : FineT.fire s l = some s') :
    PhiT s' < PhiT s ∧ s'.x.s.pushedU = s.x.s.pushedU ∧ s'.x.s.pushedS = s.x.s.pushedS ∧ Fine.AllInv s'.x.s := by
  cases l with
  | tick d => simp [isInternalT] at hl
  | retEmpty =>
    simp only [FineT.fire] at h
    split at h
    · rename_i hr
      simp only [Option.some.injEq] at h; subst h
      simp [PhiT, b2n, hr, hi]
    · cases h
  | x lx =>
    have hprog : FineX.isProgress lx = true := by
      cases lx with
      | base lb =>
        simp only [FineX.isProgress, Fine.isProgress, Bool.and_eq_true, Bool.not_eq_true']
        refine ⟨by simpa [isInternalT] using hl, ?_⟩
        cases hb : (lb == Fine.Lbl.iterOver) with
        | false => rfl
        | true =>
          have : lb = .iterOver := by simpa using hb
          subst this
          simp [FineT.fire, FineT.clockOk, ho] at h
      | popUPanic => rfl
      | popSPanic => rfl
      | iterGosched => rfl
    simp only [FineT.fire] at h
    split at h
    · cases h
    · cases hf : FineX.fire s.x lx with
      | none => simp [hf] at h
      | some x' =>
        simp only [hf, Option.some.injEq] at h; subst h
        obtain ⟨d1, d2, d3⟩ := FineX.any_step_decreases s.x x' lx hi hf hprog
        refine ⟨?_, d2, d3, FineX.allinv_step s.x x' lx hi hf⟩
        simp only [PhiT, b2n]
        split <;> split <;> omega

theorem frozen_run_bounded (ls : List FineT.Lbl) : ∀ (s s' : FineT.St), Fine.AllInv s.x.s →
    (∀ l ∈ ls, isInternalT l = true) → FineT.over s = false → FineT.runL s ls = some s' →
    ls.length + PhiT s' ≤ PhiT s ∧ s'.x.s.pushedU = s.x.s.pushedU ∧ s'.x.s.pushedS = s.x.s.pushedS := by
  induction ls with
  | nil => intro s s' _ _ _ h; simp only [FineT.runL, Option.some.injEq] at h; subst h; simp
  | cons l ls ih =>
    intro s s' hi hl ho h
    simp only [FineT.runL] at h
    cases hf : FineT.fire s l with
    | none => simp [hf] at h
    | some s1 =>
      simp only [hf] at h
      have hint := hl l (by simp)
      have hnt : isTick l = false := by cases l <;> simp_all [isInternalT, isTick]
      obtain ⟨d1, d2, d3, d4⟩ := frozen_step_decreases s s1 l hi hint ho hf
      obtain ⟨o1, _⟩ := frozen_step s s1 l hnt ho hf
      obtain ⟨e1, e2, e3⟩ := ih s1 s' d4 (fun l hl' => hl l (by simp [hl'])) o1 h
      refine ⟨?_, by rw [e2, d2], by rw [e3, d3]⟩
      simp only [List.length_cons]; omega

/-- if no step of an existing thread is enabled in the timed model (clock standing still, run within budget), none is
enabled in `FineX` either -/
theorem frozen_stuck_is_x_stuck (s : FineT.St) (ho : FineT.over s = false)
    (hst : ∀ l, isInternalT l = true → FineT.fire s l = none) :
    ∀ lx, FineX.isProgress lx = true → FineX.fire s.x lx = none := by
  have hret : s.ret = false := by
    cases hr : s.ret with
    | false => rfl
    | true => have := hst .retEmpty rfl; simp [FineT.fire, hr] at this
  intro lx hp
  cases hf : FineX.fire s.x lx with
  | none => rfl
  | some x' =>
    exfalso
    by_cases hg : lx = .iterGosched
    · -- the Gosched branch is closed by the clock; then the plain iteration step is open
      subst hg
      have hok : (FineX.fire s.x (.base .iterOk)).isSome = true := by
        simp only [FineX.fire] at hf ⊢
        split at hf
        · cases h2 : Fine.fire s.x.s .iterOk with
          | none => simp [h2] at hf
          | some s2 => simp [h2]
        · cases hf
      have := hst (.x (.base .iterOk)) rfl
      cases h3 : FineX.fire s.x (.base .iterOk) with
      | none => simp [h3] at hok
      | some x3 => simp [FineT.fire, hret, FineT.clockOk, ho, h3] at this
    · have hint : isInternalT (.x lx) = true := by
        cases lx with
        | base lb => simpa [isInternalT] using Fine.isProgress_internal lb (by simpa [FineX.isProgress] using hp)
        | popUPanic => rfl
        | popSPanic => rfl
        | iterGosched => rfl
      have := hst (.x lx) hint
      have hck : FineT.clockOk s lx = true := by
        cases lx with
        | base lb =>
          cases lb <;> simp [FineT.clockOk, ho]
          simp [FineX.isProgress, Fine.isProgress] at hp
        | popUPanic => rfl
        | popSPanic => rfl
        | iterGosched => exact absurd rfl hg
      simp [FineT.fire, hret, hck, hf] at this

end FineT
end Cell2v.Mailbox
