import Cell2v.Lemmas.Channel
/-!
Helper lemmas for C16, retained channel handles: identity-based lookup and in-place
mutation of channel objects, the invariant of reachable handle states (names and
identities in the map are distinct, detached objects never share an identity with a
mapped one), and the per-step lemmas behind the handle theorems of `Props/C16.lean`.
-/
namespace Cell2v.Channel

/-! ### small list facts -/

theorem nodup_map_inj {α β : Type} (f : α → β) (l : List α) (h : (l.map f).Nodup) (a b : α)
    (ha : a ∈ l) (hb : b ∈ l) (hab : f a = f b) : a = b := by
  induction l with
  | nil => cases ha
  | cons x l ih =>
    simp only [List.map_cons, List.nodup_cons, List.mem_map, not_exists, not_and] at h
    simp only [List.mem_cons] at ha hb
    rcases ha with ha | ha <;> rcases hb with hb | hb
    · rw [ha, hb]
    · subst ha; exact absurd hab.symm (h.1 b hb)
    · subst hb; exact absurd hab (h.1 a ha)
    · exact ih h.2 ha hb

theorem mem_of_aget' {α : Type} (m : AL α) (k : String) (v : α) (h : aget m k = some v) : (k, v) ∈ m := by
  induction m with
  | nil => simp [aget] at h
  | cons e m ih =>
    obtain ⟨k₀, v₀⟩ := e
    by_cases h1 : k₀ = k
    · simp [aget, h1] at h; simp [h1, h]
    · simp [aget, h1] at h; simp [ih h]

theorem aget_of_mem {α : Type} (m : AL α) (k : String) (v : α) (hn : (akeys m).Nodup) (h : (k, v) ∈ m) :
    aget m k = some v := by
  obtain ⟨v', hv'⟩ := aget_some_of_mem_keys m k (by simp only [akeys, List.mem_map]; exact ⟨(k, v), h, rfl⟩)
  have h2 := mem_of_aget' m k v' hv'
  have := nodup_map_inj (fun e : String × α => e.1) m (by simpa [akeys] using hn) (k, v) (k, v') h h2 rfl
  rw [hv']; simp at this; rw [this]

theorem not_mem_keys_of_aget_none {α : Type} (m : AL α) (k : String) (h : aget m k = none) : k ∉ akeys m := by
  intro hk
  obtain ⟨v, hv⟩ := aget_some_of_mem_keys m k hk
  rw [h] at hv; cases hv

theorem aset_of_not_mem {α : Type} (m : AL α) (k : String) (v : α) (h : k ∉ akeys m) : aset m k v = m ++ [(k, v)] := by
  induction m with
  | nil => rfl
  | cons e m ih =>
    obtain ⟨k₀, v₀⟩ := e
    simp only [akeys, List.map_cons, List.mem_cons, not_or] at h
    have h1 : ¬ k₀ = k := fun hh => h.1 hh.symm
    simp only [aset, h1, if_false, List.cons_append]
    rw [ih (by simpa [akeys] using h.2)]

/-! ### identities -/

def uidsOf (m : AL Chan) : List Nat := m.map (·.2.uid)

theorem uidsOf_aset_same (m : AL Chan) (k : String) (v₀ v : Chan) (h : aget m k = some v₀) (hu : v.uid = v₀.uid) :
    uidsOf (aset m k v) = uidsOf m := by
  induction m with
  | nil => simp [aget] at h
  | cons e m ih =>
    obtain ⟨k₁, v₁⟩ := e
    by_cases h1 : k₁ = k
    · simp [aget, h1] at h; simp [aset, h1, uidsOf, hu, h]
    · simp [aget, h1] at h
      have := ih h
      simp only [uidsOf] at this
      simp [aset, h1, uidsOf, this]

theorem akeys_updObj (m : AL Chan) (u : Nat) (g : Chan → Chan) : akeys (updObj m u g) = akeys m := by
  induction m with
  | nil => rfl
  | cons e m ih =>
    simp only [updObj, akeys, List.map_cons] at ih ⊢
    by_cases h : e.2.uid = u <;> simp [h, ih]

theorem uidsOf_updObj (m : AL Chan) (u : Nat) (g : Chan → Chan) (hg : ∀ c, (g c).uid = c.uid) :
    uidsOf (updObj m u g) = uidsOf m := by
  induction m with
  | nil => rfl
  | cons e m ih =>
    simp only [updObj, uidsOf, List.map_cons] at ih ⊢
    by_cases h : e.2.uid = u <;> simp [h, ih, hg]

theorem updObj_id_of_not_mem (m : AL Chan) (u : Nat) (g : Chan → Chan) (h : ∀ e ∈ m, e.2.uid ≠ u) : updObj m u g = m := by
  induction m with
  | nil => rfl
  | cons e m ih =>
    have h1 : ¬ e.2.uid = u := h e (by simp)
    simp only [updObj, List.map_cons, h1, if_false] at ih ⊢
    rw [ih (fun e' he' => h e' (by simp [he']))]

theorem mem_updObj (m : AL Chan) (u : Nat) (g : Chan → Chan) (e : String × Chan) (h : e ∈ updObj m u g) :
    e ∈ m ∨ ∃ e₀ ∈ m, e₀.2.uid = u ∧ e = (e₀.1, g e₀.2) := by
  simp only [updObj, List.mem_map] at h
  obtain ⟨e₀, he₀, rfl⟩ := h
  by_cases hu : e₀.2.uid = u
  · right; exact ⟨e₀, he₀, hu, by simp [hu]⟩
  · left; simp [hu, he₀]

/-- with distinct names and identities, mutating the object a name denotes through its
identity is storing the mutated object under that name -/
theorem updObj_eq_aset (m : AL Chan) (c : String) (ch : Chan) (g : Chan → Chan)
    (hu : (uidsOf m).Nodup) (h : aget m c = some ch) : updObj m ch.uid g = aset m c (g ch) := by
  induction m with
  | nil => simp [aget] at h
  | cons e m ih =>
    obtain ⟨k₁, v₁⟩ := e
    simp only [uidsOf, List.map_cons, List.nodup_cons, List.mem_map, not_exists, not_and] at hu
    by_cases h1 : k₁ = c
    · simp [aget, h1] at h
      subst h
      have : updObj m v₁.uid g = m := updObj_id_of_not_mem m _ g (fun e he hh => hu.1 e he hh)
      simp only [updObj, List.map_cons, if_true] at this ⊢
      simp [aset, h1, this]
    · simp [aget, h1] at h
      have hmem := mem_of_aget' m c ch h
      have hne : ¬ v₁.uid = ch.uid := fun hh => hu.1 (c, ch) hmem hh.symm
      have := ih (by simpa [uidsOf] using hu.2) h
      simp only [updObj, List.map_cons] at this ⊢
      simp [aset, h1, hne, this]

theorem findUid_of_aget (m : AL Chan) (c : String) (ch : Chan)
    (hu : (uidsOf m).Nodup) (h : aget m c = some ch) : findUid m ch.uid = some (c, ch) := by
  induction m with
  | nil => simp [aget] at h
  | cons e m ih =>
    obtain ⟨k₁, v₁⟩ := e
    simp only [uidsOf, List.map_cons, List.nodup_cons, List.mem_map, not_exists, not_and] at hu
    by_cases h1 : k₁ = c
    · simp [aget, h1] at h
      subst h; simp [findUid, h1]
    · simp [aget, h1] at h
      have hmem := mem_of_aget' m c ch h
      have hne : ¬ v₁.uid = ch.uid := fun hh => hu.1 (c, ch) hmem hh.symm
      have := ih (by simpa [uidsOf] using hu.2) h
      have hb : (v₁.uid == ch.uid) = false := by simp [hne]
      simp only [findUid] at this ⊢
      simp [List.find?_cons, hb, this]

theorem findUid_none_of_not_mem (m : AL Chan) (u : Nat) (h : ∀ e ∈ m, e.2.uid ≠ u) : findUid m u = none := by
  simp only [findUid, List.find?_eq_none]
  intro e he; simpa using h e he

theorem findUid_some_mem (m : AL Chan) (u : Nat) (e : String × Chan) (h : findUid m u = some e) : e ∈ m ∧ e.2.uid = u := by
  simp only [findUid] at h
  exact ⟨List.mem_of_find?_eq_some h, by simpa using List.find?_some h⟩

theorem findUid_updObj (m : AL Chan) (u u' : Nat) (g : Chan → Chan) (hg : ∀ c, (g c).uid = c.uid) :
    findUid (updObj m u' g) u = (findUid m u).map fun e => if e.2.uid = u' then (e.1, g e.2) else e := by
  induction m with
  | nil => rfl
  | cons e m ih =>
    have hb : ((if e.2.uid = u' then (e.1, g e.2) else e).2.uid == u) = (e.2.uid == u) := by
      split <;> simp [hg]
    simp only [findUid, updObj, List.map_cons, List.find?_cons, hb]
    cases hc : (e.2.uid == u)
    · simpa [findUid, updObj] using ih
    · simp

/-! ### what `c.Add` / `c.Leave` do to one front of an object -/

theorem aget_add (ch : Chan) (f' f : String) (x : Nat) :
    aget (ch.add f' x).groups f = if f' = f then some ((aget ch.groups f).getD [] ++ [x]) else aget ch.groups f := by
  unfold Chan.add
  by_cases hf : f' = f
  · subst hf
    cases hg : aget ch.groups f' <;> simp [aget_aset_same]
  · cases hg : aget ch.groups f' <;> simp [aget_aset_other _ _ _ _ hf, hf]

theorem aget_leave (ch : Chan) (f' f : String) (x : Nat) :
    aget (ch.leave f' x).groups f = if f' = f then (aget ch.groups f).map (·.erase x) else aget ch.groups f := by
  unfold Chan.leave
  by_cases hf : f' = f
  · subst hf
    cases hg : aget ch.groups f' <;> simp [hg, aget_aset_same, removeGo_eq_erase]
  · cases hg : aget ch.groups f' <;> simp [aget_aset_other _ _ _ _ hf, hf]

/-! ### names and identities in the map are distinct -/

structure WF2 (s : Svc) : Prop where
  keys : (akeys s.chans).Nodup
  uids : (uidsOf s.chans).Nodup

theorem WF2.init : WF2 ⟨[], 0⟩ := ⟨by simp [akeys], by simp [uidsOf]⟩

/-- where the identities in the map after `AddChannel` come from -/
theorem addChannel_src (s : Svc) (n : String) :
    s.created ≤ (s.addChannel n).1.created ∧
    (∀ e' ∈ (s.addChannel n).1.chans, e' ∈ s.chans ∨ e'.2.uid = s.created + 1) ∧
    ((∃ k, (k, (s.addChannel n).2) ∈ s.chans) ∨ (s.addChannel n).2.uid = s.created + 1) := by
  unfold Svc.addChannel
  cases hg : aget s.chans n with
  | some c => exact ⟨Nat.le_refl _, fun e' he' => Or.inl he', Or.inl (mem_of_aget _ _ _ hg)⟩
  | none =>
    refine ⟨Nat.le_succ _, ?_, Or.inr rfl⟩
    intro e' he'
    rcases mem_aset _ _ _ _ he' with h1 | h1
    · exact Or.inl h1
    · right; rw [h1]

theorem WF2.addChannel {s : Svc} (h : WF2 s) (hw : WF s) (n : String) : WF2 (s.addChannel n).1 := by
  unfold Svc.addChannel
  cases hg : aget s.chans n with
  | some c => exact h
  | none =>
    refine ⟨akeys_aset_nodup _ _ _ h.keys, ?_⟩
    simp only
    rw [aset_of_not_mem _ _ _ (not_mem_keys_of_aget_none _ _ hg)]
    simp only [uidsOf, List.map_append, List.map_cons, List.map_nil]
    rw [List.nodup_append]
    refine ⟨h.uids, by simp, ?_⟩
    intro a ha b hb
    simp at hb; subst hb
    simp only [List.mem_map] at ha
    obtain ⟨e, he, rfl⟩ := ha
    have := hw.uids e he
    omega

theorem WF2.addToChannel {s : Svc} (h : WF2 s) (hw : WF s) (n f : String) (x : Nat) : WF2 (s.addToChannel n f x).1 := by
  have h1 := h.addChannel hw n
  unfold Svc.addToChannel
  refine ⟨akeys_aset_nodup _ _ _ h1.keys, ?_⟩
  simp only
  rw [uidsOf_aset_same _ _ _ _ (addChannel_get s n) (Chan.add_uid _ _ _)]
  exact h1.uids

theorem WF2.leaveFromChannel {s : Svc} (h : WF2 s) (n f : String) (x : Nat) : WF2 (s.leaveFromChannel n f x) := by
  unfold Svc.leaveFromChannel Svc.getChannel
  cases hg : aget s.chans n with
  | none => exact h
  | some c =>
    refine ⟨akeys_aset_nodup _ _ _ h.keys, ?_⟩
    simp only
    rw [uidsOf_aset_same _ _ _ _ hg (Chan.leave_uid _ _ _)]
    exact h.uids

theorem WF2.deleteChannel {s : Svc} (h : WF2 s) (n : String) : WF2 (s.deleteChannel n) := by
  have hs : (adel s.chans n).Sublist s.chans := List.filter_sublist
  exact ⟨(hs.map _).nodup h.keys, (hs.map _).nodup h.uids⟩

theorem WF2.step (ser : String → List Nat) {s : St} (h : WF2 s.svc) (hw : WF s.svc) (op : Op) : WF2 (step ser s op).1.svc := by
  cases op with
  | addch c => exact h.addChannel hw c
  | getch c => exact h
  | delch c => exact h.deleteChannel c
  | join c f x => exact h.addToChannel hw c f x
  | leave c f x => exact h.leaveFromChannel c f x
  | bcast c r m => exact h
  | sadd => exact h
  | sdel id => exact h
  | spush ids r d => exact h
  | sclose id => exact h

/-- identities in the map after a by-name operation: those that were there, or the next fresh one -/
theorem uid_src (ser : String → List Nat) (s : St) (op : Op) :
    s.svc.created ≤ (step ser s op).1.svc.created ∧
    ∀ e' ∈ (step ser s op).1.svc.chans, (∃ e'' ∈ s.svc.chans, e''.2.uid = e'.2.uid) ∨ e'.2.uid = s.svc.created + 1 := by
  have same : s.svc.created ≤ s.svc.created ∧
      ∀ e' ∈ s.svc.chans, (∃ e'' ∈ s.svc.chans, e''.2.uid = e'.2.uid) ∨ e'.2.uid = s.svc.created + 1 :=
    ⟨Nat.le_refl _, fun e' he' => Or.inl ⟨e', he', rfl⟩⟩
  cases op with
  | addch c =>
    obtain ⟨h1, h2, _⟩ := addChannel_src s.svc c
    refine ⟨h1, fun e' he' => ?_⟩
    rcases h2 e' he' with h | h
    · exact Or.inl ⟨e', h, rfl⟩
    · exact Or.inr h
  | join c f x =>
    obtain ⟨h1, h2, h3⟩ := addChannel_src s.svc c
    refine ⟨h1, fun e' he' => ?_⟩
    simp only [step, Svc.addToChannel] at he'
    rcases mem_aset _ _ _ _ he' with h | h
    · rcases h2 e' h with h | h
      · exact Or.inl ⟨e', h, rfl⟩
      · exact Or.inr h
    · rw [h, Chan.add_uid]
      rcases h3 with ⟨k, hk⟩ | h3
      · exact Or.inl ⟨_, hk, rfl⟩
      · exact Or.inr h3
  | leave c f x =>
    refine ⟨by simp only [step, Svc.leaveFromChannel]; split <;> exact Nat.le_refl _, fun e' he' => ?_⟩
    simp only [step, Svc.leaveFromChannel, Svc.getChannel] at he'
    cases hg : aget s.svc.chans c with
    | none => rw [hg] at he'; exact Or.inl ⟨e', he', rfl⟩
    | some ch =>
      rw [hg] at he'
      rcases mem_aset _ _ _ _ he' with h | h
      · exact Or.inl ⟨e', h, rfl⟩
      · rw [h, Chan.leave_uid]; exact Or.inl ⟨_, mem_of_aget' _ _ _ hg, rfl⟩
  | delch c => exact ⟨Nat.le_refl _, fun e' he' => Or.inl ⟨e', mem_adel _ _ _ he', rfl⟩⟩
  | getch c => exact same
  | bcast c r m => exact same
  | sadd => exact same
  | sdel id => exact same
  | spush ids r d => exact same
  | sclose id => exact same

/-! ### the invariant of reachable handle states -/

structure HWF (s : HSt) : Prop where
  wf : WF s.st.svc
  wf2 : WF2 s.st.svc
  sep : ∀ e ∈ s.detached, (∀ e' ∈ s.st.svc.chans, e'.2.uid ≠ e.2.uid) ∧ e.2.uid ≤ s.st.svc.created ∧
    (akeys e.2.groups).Nodup

theorem HWF.init (lf : String) : HWF (hinit lf) := ⟨WF.init, WF2.init, by simp [hinit]⟩

theorem HWF.hname (ser : String → List Nat) {s : HSt} (h : HWF s) (op : Op) : HWF (hname ser s op).1 := by
  obtain ⟨hc, hsrc⟩ := uid_src ser s.st op
  have hold : ∀ e ∈ s.detached, (∀ e' ∈ (step ser s.st op).1.svc.chans, e'.2.uid ≠ e.2.uid) ∧
      e.2.uid ≤ (step ser s.st op).1.svc.created ∧ (akeys e.2.groups).Nodup := by
    intro e he
    obtain ⟨h1, h2, h3⟩ := h.sep e he
    refine ⟨fun e' he' => ?_, Nat.le_trans h2 hc, h3⟩
    rcases hsrc e' he' with ⟨e'', he'', hu⟩ | hu
    · rw [← hu]; exact h1 e'' he''
    · omega
  refine ⟨h.wf.step ser op, h.wf2.step ser h.wf op, ?_⟩
  simp only [Channel.hname]
  cases op with
  | delch c =>
    simp only [detachOf]
    cases hg : s.st.svc.getChannel c with
    | none => exact hold
    | some ch =>
      intro e he
      simp only [List.mem_cons] at he
      rcases he with he | he
      · subst he
        have hmem := mem_of_aget' _ _ _ hg
        refine ⟨fun e' he' hu => ?_, h.wf.uids _ hmem, h.wf.groups _ hmem⟩
        simp only [step, Svc.deleteChannel, adel, List.mem_filter] at he'
        have := nodup_map_inj (fun e : String × Chan => e.2.uid) _ h.wf2.uids e' (c, ch) he'.1 hmem hu
        rw [this] at he'
        simp at he'
      · exact hold e he
  | addch c => exact hold
  | getch c => exact hold
  | join c f x => exact hold
  | leave c f x => exact hold
  | bcast c r m => exact hold
  | sadd => exact hold
  | sdel id => exact hold
  | spush ids r d => exact hold
  | sclose id => exact hold

theorem HWF.updObj {s : HSt} (h : HWF s) (u : Nat) (g : Chan → Chan) (hg : ∀ c, (g c).uid = c.uid)
    (hk : ∀ c, (akeys c.groups).Nodup → (akeys (g c).groups).Nodup) : HWF (s.updObj u g) := by
  have hmemu : ∀ e' ∈ Channel.updObj s.st.svc.chans u g, ∃ e'' ∈ s.st.svc.chans, e''.2.uid = e'.2.uid := by
    intro e' he'
    rcases mem_updObj _ _ _ _ he' with h1 | ⟨e₀, h0, _, rfl⟩
    · exact ⟨e', h1, rfl⟩
    · exact ⟨e₀, h0, (hg _).symm⟩
  refine ⟨⟨?_, ?_⟩, ⟨?_, ?_⟩, ?_⟩
  · intro e he
    rcases mem_updObj _ _ _ _ he with h1 | ⟨e₀, h0, _, rfl⟩
    · exact h.wf.groups e h1
    · exact hk _ (h.wf.groups e₀ h0)
  · intro e he
    obtain ⟨e'', he'', hu⟩ := hmemu e he
    simp only [HSt.updObj]; rw [← hu]; exact h.wf.uids e'' he''
  · simp only [HSt.updObj, akeys_updObj]; exact h.wf2.keys
  · simp only [HSt.updObj, uidsOf_updObj _ _ _ hg]; exact h.wf2.uids
  · intro e he
    simp only [HSt.updObj] at he ⊢
    have key : ∃ e₀ ∈ s.detached, e₀.2.uid = e.2.uid ∧ ((akeys e₀.2.groups).Nodup → (akeys e.2.groups).Nodup) := by
      rcases mem_updObj _ _ _ _ he with h1 | ⟨e₀, h0, _, rfl⟩
      · exact ⟨e, h1, rfl, id⟩
      · exact ⟨e₀, h0, (hg _).symm, hk _⟩
    obtain ⟨e₀, h0, hu, hn⟩ := key
    obtain ⟨h1, h2, h3⟩ := h.sep e₀ h0
    refine ⟨fun e' he' => ?_, hu ▸ h2, hn h3⟩
    obtain ⟨e'', he'', hu'⟩ := hmemu e' he'
    rw [← hu', ← hu]; exact h1 e'' he''

theorem HWF.hstep (ser : String → List Nat) {s : HSt} (h : HWF s) (op : HOp) : HWF (hstep ser s op).1 := by
  cases op with
  | name op => exact h.hname ser op
  | hjoin u f x => exact h.updObj u _ (fun c => Chan.add_uid c f x) (fun c => Chan.add_keys_nodup c f x)
  | hleave u f x => exact h.updObj u _ (fun c => Chan.leave_uid c f x) (fun c => Chan.leave_keys_nodup c f x)
  | hbcast u r m => exact h
  | hfree u =>
    simp only [Channel.hstep]
    cases s.findObj u with
    | none => exact h
    | some e => exact h.hname ser _

theorem HWF.hrun (ser : String → List Nat) (ops : List HOp) {s : HSt} (h : HWF s) : HWF (hrun ser s ops) := by
  induction ops generalizing s with
  | nil => exact h
  | cons op ops ih => exact ih (h.hstep ser op)

/-! ### broadcasts on an object -/

theorem pushMessage_filter (ch : Chan) (r m f : String) (hn : (akeys ch.groups).Nodup) :
    (ch.pushMessage r m).filter (fun p => decide (p.front = f)) =
      match aget ch.groups f with
      | none => []
      | some l => [⟨f, l, r, m⟩] := by
  have hf := filter_key ch.groups f hn
  unfold Chan.pushMessage
  rw [List.filter_map]
  have : ((fun p : Push => decide (p.front = f)) ∘ fun e : String × List Nat => (⟨e.1, e.2, r, m⟩ : Push))
      = fun e => decide (e.1 = f) := rfl
  rw [this, hf]
  cases aget ch.groups f <;> rfl

theorem localDeliveries_eq (ser : String → List Nat) (st : St) (ps : List Push) (v : Option (List Nat)) (r m : String)
    (hs : st.noSessions = false)
    (h : ps.filter (fun p => decide (p.front = st.localFront)) =
      match v with
      | none => []
      | some l => [⟨st.localFront, l, r, m⟩]) :
    localDeliveries ser st ps = pushMsg st.front.reachable (v.getD []) r (ser m) := by
  unfold localDeliveries
  rw [hs, flatMap_front, h]
  cases v <;> simp [pushMsg]

/-! ### a handle whose object is still in the map -/

theorem findObj_mapped {s : HSt} (h : HWF s) (c : String) (ch : Chan) (hg : s.st.svc.getChannel c = some ch) :
    s.findObj ch.uid = some (c, ch) := by
  unfold HSt.findObj findUid
  rw [List.find?_append]
  have := findUid_of_aget _ c ch h.wf2.uids hg
  unfold findUid at this
  rw [this]; rfl

theorem updObj_mapped {s : HSt} (h : HWF s) (c : String) (ch : Chan) (hg : s.st.svc.getChannel c = some ch)
    (g : Chan → Chan) :
    s.updObj ch.uid g = { st := { s.st with svc := { s.st.svc with chans := aset s.st.svc.chans c (g ch) } },
                          detached := s.detached } := by
  unfold HSt.updObj
  rw [updObj_eq_aset _ c ch g h.wf2.uids hg]
  rw [updObj_id_of_not_mem s.detached ch.uid g]
  intro e he hu
  exact (h.sep e he).1 (c, ch) (mem_of_aget' _ _ _ hg) hu.symm

/-- while the object is the one the name `c` denotes, `c.Add / c.Leave / c.PushMessage /
FreeTempChannel(c)` through the handle are the by-name operations on `c` -/
theorem mapped_handle (ser : String → List Nat) {s : HSt} (h : HWF s) (c : String) (ch : Chan)
    (hg : s.st.svc.getChannel c = some ch) :
    (∀ f x, (hstep ser s (.hjoin ch.uid f x)).1 = (hstep ser s (.name (.join c f x))).1) ∧
    (∀ f x, (hstep ser s (.hleave ch.uid f x)).1 = (hstep ser s (.name (.leave c f x))).1) ∧
    (∀ r m, hstep ser s (.hbcast ch.uid r m) = hstep ser s (.name (.bcast c r m))) ∧
    hstep ser s (.hfree ch.uid) = hstep ser s (.name (.delch c)) := by
  have hg' : aget s.st.svc.chans c = some ch := hg
  refine ⟨fun f x => ?_, fun f x => ?_, fun r m => ?_, ?_⟩
  · simp only [hstep, updObj_mapped h c ch hg, hname, step, Svc.addToChannel, Svc.addChannel, hg', detachOf]
  · simp only [hstep, updObj_mapped h c ch hg, hname, step, Svc.leaveFromChannel, hg, detachOf]
  · simp only [hstep, findObj_mapped h c ch hg, hname, step, hg, detachOf]
  · simp only [hstep, findObj_mapped h c ch hg]

/-- a handle operation either leaves the by-name state alone or is one by-name operation on it -/
theorem hstep_st (ser : String → List Nat) {s : HSt} (h : HWF s) (op : HOp) :
    (hstep ser s op).1.st = s.st ∨ ∃ o, (hstep ser s op).1.st = (step ser s.st o).1 := by
  have upd : ∀ (u : Nat) (g : Chan → Chan) (o : String → Op),
      (∀ c ch, s.st.svc.getChannel c = some ch → ch.uid = u → (s.updObj u g).st = (step ser s.st (o c)).1) →
      (s.updObj u g).st = s.st ∨ ∃ o, (s.updObj u g).st = (step ser s.st o).1 := by
    intro u g o ho
    cases hf : findUid s.st.svc.chans u with
    | none =>
      left
      have : ∀ e ∈ s.st.svc.chans, e.2.uid ≠ u := by
        intro e he
        simp only [findUid, List.find?_eq_none] at hf
        simpa using hf e he
      simp only [HSt.updObj, updObj_id_of_not_mem _ u g this]
    | some e =>
      right
      obtain ⟨hm, hu⟩ := findUid_some_mem _ _ _ hf
      exact ⟨o e.1, ho e.1 e.2 (aget_of_mem _ _ _ h.wf2.keys hm) hu⟩
  cases op with
  | name op => exact Or.inr ⟨op, rfl⟩
  | hjoin u f x =>
    apply upd u _ (fun c => .join c f x)
    intro c ch hg hu; subst hu
    exact congrArg HSt.st ((mapped_handle ser h c ch hg).1 f x)
  | hleave u f x =>
    apply upd u _ (fun c => .leave c f x)
    intro c ch hg hu; subst hu
    exact congrArg HSt.st ((mapped_handle ser h c ch hg).2.1 f x)
  | hbcast u r m => exact Or.inl rfl
  | hfree u =>
    simp only [hstep]
    cases s.findObj u with
    | none => exact Or.inl rfl
    | some e => exact Or.inr ⟨.delch e.1, rfl⟩

theorem run_snoc (ser : String → List Nat) (s : St) (ops : List Op) (o : Op) :
    run ser s (ops ++ [o]) = (step ser (run ser s ops) o).1 := by
  simp [run, List.foldl_append]

theorem hrun_st (ser : String → List Nat) (lf : String) (hops : List HOp) {s : HSt} (h : HWF s) (ops₀ : List Op)
    (h0 : s.st = run ser (init lf) ops₀) : ∃ ops, (hrun ser s hops).st = run ser (init lf) ops := by
  induction hops generalizing s ops₀ with
  | nil => exact ⟨ops₀, h0⟩
  | cons op hops ih =>
    simp only [hrun, List.foldl_cons] at ih ⊢
    rcases hstep_st ser h op with hs | ⟨o, hs⟩
    · exact ih (h.hstep ser op) ops₀ (hs.trans h0)
    · exact ih (h.hstep ser op) (ops₀ ++ [o]) (by rw [hs, run_snoc, h0])

/-! ### an object that left the map and is retained -/

/-- the object `u` is no longer in the map and is held by someone -/
def Detached (s : HSt) (u : Nat) : Prop := (∀ e ∈ s.st.svc.chans, e.2.uid ≠ u) ∧ (findUid s.detached u).isSome

theorem findObj_detached {s : HSt} (u : Nat) (hd : Detached s u) : s.findObj u = findUid s.detached u := by
  unfold HSt.findObj findUid
  rw [List.find?_append]
  have := findUid_none_of_not_mem _ u hd.1
  unfold findUid at this
  rw [this]; rfl

theorem detached_hname (ser : String → List Nat) {s : HSt} (h : HWF s) (u : Nat) (hd : Detached s u) (op : Op) (f : String) :
    Detached (hname ser s op).1 u ∧ detView (hname ser s op).1 u f = detView s u f := by
  obtain ⟨e, he⟩ := Option.isSome_iff_exists.1 hd.2
  obtain ⟨hem, heu⟩ := findUid_some_mem _ _ _ he
  have hle : u ≤ s.st.svc.created := heu ▸ (h.sep e hem).2.1
  obtain ⟨_, hsrc⟩ := uid_src ser s.st op
  have hfind : findUid (detachOf s op) u = findUid s.detached u := by
    cases op with
    | delch c =>
      simp only [detachOf]
      cases hg : s.st.svc.getChannel c with
      | none => rfl
      | some ch =>
        have : ¬ ch.uid = u := hd.1 _ (mem_of_aget' _ _ _ hg)
        simp [findUid, this]
    | _ => rfl
  refine ⟨⟨fun e' he' => ?_, ?_⟩, ?_⟩
  · rcases hsrc e' he' with ⟨e'', he'', hu⟩ | hu
    · rw [← hu]; exact hd.1 e'' he''
    · omega
  · simp only [hname, hfind]; exact hd.2
  · simp only [detView, hname, hfind]

theorem detached_updObj {s : HSt} (u u' : Nat) (hd : Detached s u) (g : Chan → Chan) (hg : ∀ c, (g c).uid = c.uid) :
    Detached (s.updObj u' g) u := by
  refine ⟨fun e' he' => ?_, ?_⟩
  · rcases mem_updObj _ _ _ _ he' with h1 | ⟨e₀, h0, _, rfl⟩
    · exact hd.1 e' h1
    · simp only [hg]; exact hd.1 e₀ h0
  · simp only [HSt.updObj, findUid_updObj _ _ _ _ hg, Option.isSome_map]; exact hd.2

/-- **one step, seen from a retained object.**  Only `c.Add` / `c.Leave` through that very
handle change what it holds; every by-name operation (also deleting or re-creating its
name), every operation on another handle, and `FreeTempChannel` of anything leave it alone. -/
theorem stale_step (ser : String → List Nat) {s : HSt} (h : HWF s) (u : Nat) (hd : Detached s u) (op : HOp) (f : String) :
    Detached (hstep ser s op).1 u ∧ detView (hstep ser s op).1 u f = stepStale u f (detView s u f) op := by
  obtain ⟨e, he⟩ := Option.isSome_iff_exists.1 hd.2
  obtain ⟨_, heu⟩ := findUid_some_mem _ _ _ he
  cases op with
  | name op => exact detached_hname ser h u hd op f
  | hjoin u' f' x =>
    refine ⟨detached_updObj u u' hd _ (fun c => Chan.add_uid c f' x), ?_⟩
    simp only [hstep, detView, HSt.updObj, findUid_updObj _ _ _ _ (fun c => Chan.add_uid c f' x), he, stepStale,
      Option.map_some, Option.bind_some]
    by_cases hu : u' = u
    · subst hu; simp [heu, aget_add]
    · have : ¬ e.2.uid = u' := fun hh => hu (hh.symm.trans heu)
      simp [hu, this]
  | hleave u' f' x =>
    refine ⟨detached_updObj u u' hd _ (fun c => Chan.leave_uid c f' x), ?_⟩
    simp only [hstep, detView, HSt.updObj, findUid_updObj _ _ _ _ (fun c => Chan.leave_uid c f' x), he, stepStale,
      Option.map_some, Option.bind_some]
    by_cases hu : u' = u
    · subst hu; simp [heu, aget_leave]
    · have : ¬ e.2.uid = u' := fun hh => hu (hh.symm.trans heu)
      simp [hu, this]
  | hbcast u' r m => exact ⟨hd, rfl⟩
  | hfree u' =>
    simp only [hstep, stepStale]
    cases s.findObj u' with
    | none => exact ⟨hd, rfl⟩
    | some e' => exact detached_hname ser h u hd _ f

theorem stale_run (ser : String → List Nat) (hops : List HOp) {s : HSt} (h : HWF s) (u : Nat) (hd : Detached s u) (f : String) :
    Detached (hrun ser s hops) u ∧ detView (hrun ser s hops) u f = hops.foldl (stepStale u f) (detView s u f) := by
  induction hops generalizing s with
  | nil => exact ⟨hd, rfl⟩
  | cons op hops ih =>
    obtain ⟨h1, h2⟩ := stale_step ser h u hd op f
    simp only [hrun, List.foldl_cons] at ih ⊢
    rw [← h2]
    exact ih (h.hstep ser op) h1

theorem stale_bcast (ser : String → List Nat) {s : HSt} (h : HWF s) (u : Nat) (hd : Detached s u) (r m : String) :
    ∃ ps dl, (hstep ser s (.hbcast u r m)).2 = .pushes ps dl ∧
      (∀ f, ps.filter (fun p => decide (p.front = f)) =
        match detView s u f with
        | none => []
        | some l => [⟨f, l, r, m⟩]) ∧
      (s.st.noSessions = false → dl = pushMsg s.st.front.reachable ((detView s u s.st.localFront).getD []) r (ser m)) := by
  obtain ⟨e, he⟩ := Option.isSome_iff_exists.1 hd.2
  obtain ⟨hem, _⟩ := findUid_some_mem _ _ _ he
  have hfil : ∀ f, (e.2.pushMessage r m).filter (fun p => decide (p.front = f)) =
      match detView s u f with
      | none => []
      | some l => [⟨f, l, r, m⟩] := by
    intro f
    rw [pushMessage_filter _ _ _ _ (h.sep e hem).2.2]
    simp only [detView, he, Option.bind_some]
  refine ⟨e.2.pushMessage r m, localDeliveries ser s.st (e.2.pushMessage r m),
    by simp only [hstep, findObj_detached u hd, he], hfil, ?_⟩
  exact fun hs => localDeliveries_eq ser s.st _ _ r m hs (hfil s.st.localFront)

/-- `DeleteChannel(c)` detaches the object `c` denoted, with everything it lists -/
theorem delete_detaches (ser : String → List Nat) {s : HSt} (h : HWF s) (c : String) (ch : Chan)
    (hg : s.st.svc.getChannel c = some ch) :
    Detached (hstep ser s (.name (.delch c))).1 ch.uid ∧
    (∀ f, detView (hstep ser s (.name (.delch c))).1 ch.uid f = view s.st.svc c f) ∧
    (hstep ser s (.name (.delch c))).1.st.svc.getChannel c = none := by
  have h' := h.hstep ser (.name (.delch c))
  have hdet : (hstep ser s (.name (.delch c))).1.detached = (c, ch) :: s.detached := by
    simp only [hstep, hname, detachOf, hg]
  refine ⟨⟨fun e' he' => ?_, ?_⟩, fun f => ?_, ?_⟩
  · exact (h'.sep (c, ch) (by rw [hdet]; simp)).1 e' he'
  · rw [hdet]; simp [findUid, List.find?_cons]
  · have hg' : aget s.st.svc.chans c = some ch := hg
    simp only [detView, hdet, view, hg', Option.bind_some]
    simp [findUid, List.find?_cons]
  · exact aget_adel_same _ _

/-! ### every object: one step -/

theorem findUid_append (a b : AL Chan) (u : Nat) : findUid (a ++ b) u = (findUid a u).or (findUid b u) := by
  simp [findUid, List.find?_append]

theorem findUid_aset_other (m : AL Chan) (k : String) (v : Chan) (u : Nat) (hv : v.uid ≠ u)
    (h0 : ∀ v₀, aget m k = some v₀ → v₀.uid ≠ u) : findUid (aset m k v) u = findUid m u := by
  induction m with
  | nil => simp [aset, findUid, hv]
  | cons e m ih =>
    obtain ⟨k₁, v₁⟩ := e
    by_cases h1 : k₁ = k
    · have : v₁.uid ≠ u := h0 v₁ (by simp [aget, h1])
      simp [aset, h1, findUid, hv, this]
    · have ih' := ih (fun v₀ hv₀ => h0 v₀ (by simpa [aget, h1] using hv₀))
      simp only [findUid] at ih' ⊢
      simp only [aset, h1, if_false, List.find?_cons]
      rw [ih']

theorem findUid_adel_other (m : AL Chan) (c : String) (u : Nat) (h0 : ∀ v₀, (c, v₀) ∈ m → v₀.uid ≠ u) :
    findUid (adel m c) u = findUid m u := by
  induction m with
  | nil => rfl
  | cons e m ih =>
    obtain ⟨k₁, v₁⟩ := e
    have ih' := ih (fun v₀ hv₀ => h0 v₀ (by simp [hv₀]))
    rw [adel_cons]
    by_cases h1 : k₁ = c
    · have : v₁.uid ≠ u := h0 v₁ (by simp [h1])
      simp only [h1, if_true, ih']
      simp [findUid, this]
    · simp only [h1, if_false]
      simp only [findUid] at ih' ⊢
      simp only [List.find?_cons]
      rw [ih']

theorem findObj_none_of_gt {s : HSt} (h : HWF s) (u : Nat) (hu : s.st.svc.created < u) : s.findObj u = none := by
  apply findUid_none_of_not_mem
  intro e he hh
  rcases List.mem_append.1 he with he | he
  · have := h.wf.uids e he; omega
  · have := (h.sep e he).2.1; omega

theorem findObj_updObj (s : HSt) (u u' : Nat) (g : Chan → Chan) (hg : ∀ c, (g c).uid = c.uid) :
    (s.updObj u' g).findObj u = (s.findObj u).map fun e => if e.2.uid = u' then (e.1, g e.2) else e := by
  have : Channel.updObj s.st.svc.chans u' g ++ Channel.updObj s.detached u' g = Channel.updObj (s.st.svc.chans ++ s.detached) u' g := by
    simp [Channel.updObj]
  simp only [HSt.findObj, HSt.updObj, this]
  exact findUid_updObj _ _ _ _ hg

/-- storing a mutated copy of the object `ch` under the name that denotes it -/
theorem objView_aset {s : HSt} (h : HWF s) (c : String) (ch ch' : Chan) (hg : s.st.svc.getChannel c = some ch)
    (hu : ch'.uid = ch.uid) (det : AL Chan) (u : Nat) (f : String) :
    ((findUid (aset s.st.svc.chans c ch' ++ det) u).bind fun e => aget e.2.groups f) =
      if ch.uid = u then aget ch'.groups f else (findUid (s.st.svc.chans ++ det) u).bind fun e => aget e.2.groups f := by
  have hg' : aget s.st.svc.chans c = some ch := hg
  by_cases huu : ch.uid = u
  · have hnd : (uidsOf (aset s.st.svc.chans c ch')).Nodup := by
      rw [uidsOf_aset_same _ _ _ _ hg' hu]; exact h.wf2.uids
    have := findUid_of_aget _ c ch' hnd (aget_aset_same _ _ _)
    rw [hu, huu] at this
    simp [findUid_append, this, huu]
  · have hne : ch'.uid ≠ u := by rw [hu]; exact huu
    have := findUid_aset_other s.st.svc.chans c ch' u hne (fun v₀ hv₀ => by rw [hg'] at hv₀; cases hv₀; exact huu)
    simp [findUid_append, this, huu]

theorem objView_mapped {s : HSt} (h : HWF s) (c : String) (ch : Chan) (hg : s.st.svc.getChannel c = some ch) (f : String) :
    objView s ch.uid f = aget ch.groups f := by
  simp [objView, findObj_mapped h c ch hg]

/-- **one step, seen from any object**: what an object holds changes exactly by the membership
operation that resolved to it — appended / first occurrence erased; creating, fetching, deleting
and re-creating names, broadcasts, session operations and operations resolved to other objects
change nothing in it. -/
theorem object_step (ser : String → List Nat) {s : HSt} (h : HWF s) (op : HOp) (u : Nat) (f : String) :
    objView (hstep ser s op).1 u f = applyT u f (objView s u f) (targetOf s op) := by
  have hdel : ∀ c, objView (hname ser s (.delch c)).1 u f = objView s u f := by
    intro c
    simp only [objView, HSt.findObj, hname, step, Svc.deleteChannel, detachOf]
    cases hg : s.st.svc.getChannel c with
    | none =>
      have : findUid (adel s.st.svc.chans c) u = findUid s.st.svc.chans u := by
        apply findUid_adel_other
        intro v₀ hv₀
        have := aget_of_mem _ _ _ h.wf2.keys hv₀
        rw [show aget s.st.svc.chans c = none from hg] at this; cases this
      simp only [findUid_append, this]
    | some ch =>
      by_cases huu : ch.uid = u
      · have h' := h.hname ser (.delch c)
        have hnone : findUid (adel s.st.svc.chans c) u = none := by
          apply findUid_none_of_not_mem
          intro e' he'
          have := (h'.sep (c, ch) (by simp [hname, detachOf, hg])).1 e' he'
          rw [← huu]; exact this
        have hm := findObj_mapped h c ch hg
        simp only [HSt.findObj, huu] at hm
        simp only [findUid_append, hnone, Option.none_or] at hm ⊢
        have : findUid ((c, ch) :: s.detached) u = some (c, ch) := by simp [findUid, huu]
        rw [this, hm]
      · have : findUid (adel s.st.svc.chans c) u = findUid s.st.svc.chans u := by
          apply findUid_adel_other
          intro v₀ hv₀
          have := aget_of_mem _ _ _ h.wf2.keys hv₀
          rw [show aget s.st.svc.chans c = some ch from hg] at this
          cases this; exact huu
        have h2 : findUid ((c, ch) :: s.detached) u = findUid s.detached u := by simp [findUid, huu]
        simp only [findUid_append, this, h2]
  cases op with
  | name op =>
    cases op with
    | addch c =>
      simp only [targetOf, applyT, hstep, hname, objView, HSt.findObj, detachOf, step, Svc.addChannel]
      cases hg : aget s.st.svc.chans c with
      | some ch => rfl
      | none =>
        simp only
        by_cases huu : s.st.svc.created + 1 = u
        · have hnone := findObj_none_of_gt h u (by omega)
          simp only [HSt.findObj] at hnone
          rw [hnone]
          have hnd := (h.hstep ser (.name (.addch c))).wf2.uids
          simp only [hstep, hname, step, Svc.addChannel, hg] at hnd
          have := findUid_of_aget _ c ⟨s.st.svc.created + 1, []⟩ hnd (aget_aset_same _ _ _)
          simp only [huu] at this
          simp [findUid_append, huu, this, aget]
        · have := findUid_aset_other s.st.svc.chans c ⟨s.st.svc.created + 1, []⟩ u huu (fun v₀ hv₀ => by rw [hg] at hv₀; cases hv₀)
          simp only [findUid_append, this]
    | getch c => rfl
    | delch c => exact hdel c
    | join c f' x =>
      simp only [targetOf, applyT, hstep, hname, objView, HSt.findObj, detachOf, step, Svc.addToChannel, Svc.addChannel]
      cases hg : aget s.st.svc.chans c with
      | some ch =>
        simp only
        rw [objView_aset h c ch (ch.add f' x) hg (Chan.add_uid _ _ _) s.detached u f]
        by_cases huu : ch.uid = u
        · have := objView_mapped h c ch hg f
          simp only [objView, HSt.findObj, huu] at this
          simp [huu, aget_add, this]
        · simp [huu]
      | none =>
        simp only
        -- the state after `AddChannel` alone
        have h1 := h.hstep ser (.name (.addch c))
        have hs1 : (hstep ser s (.name (.addch c))).1.st.svc.chans = aset s.st.svc.chans c ⟨s.st.svc.created + 1, []⟩ := by
          simp [hstep, hname, step, Svc.addChannel, hg]
        have hd1 : (hstep ser s (.name (.addch c))).1.detached = s.detached := rfl
        have hg1 : (hstep ser s (.name (.addch c))).1.st.svc.getChannel c = some ⟨s.st.svc.created + 1, []⟩ := by
          simp [Svc.getChannel, hs1, aget_aset_same]
        have := objView_aset h1 c _ ((⟨s.st.svc.created + 1, []⟩ : Chan).add f' x) hg1 (Chan.add_uid _ _ _) s.detached u f
        rw [hs1] at this
        rw [this]
        by_cases huu : s.st.svc.created + 1 = u
        · have hnone := findObj_none_of_gt h u (by omega)
          simp only [HSt.findObj] at hnone
          simp [huu, hnone, aget_add, aget]
        · have h2 := findUid_aset_other s.st.svc.chans c ⟨s.st.svc.created + 1, []⟩ u huu (fun v₀ hv₀ => by rw [hg] at hv₀; cases hv₀)
          simp [huu, findUid_append, h2]
    | leave c f' x =>
      simp only [targetOf, applyT, hstep, hname, objView, HSt.findObj, detachOf, step, Svc.leaveFromChannel]
      cases hg : s.st.svc.getChannel c with
      | none => rfl
      | some ch =>
        simp only [Option.map_some]
        rw [objView_aset h c ch (ch.leave f' x) hg (Chan.leave_uid _ _ _) s.detached u f]
        by_cases huu : ch.uid = u
        · have := objView_mapped h c ch hg f
          simp only [objView, HSt.findObj, huu] at this
          simp [huu, aget_leave, this]
        · simp [huu]
    | bcast c r m => rfl
    | sadd => rfl
    | sdel id => rfl
    | spush ids r d => rfl
    | sclose id => rfl
  | hjoin u' f' x =>
    simp only [hstep, objView, findObj_updObj s u u' _ (fun c => Chan.add_uid c f' x), targetOf]
    cases hf : s.findObj u with
    | none =>
      by_cases huu : u' = u
      · subst huu; simp [hf, applyT]
      · cases (s.findObj u').isSome <;> simp [applyT, huu]
    | some e =>
      have heu : e.2.uid = u := (findUid_some_mem _ _ _ hf).2
      by_cases huu : u' = u
      · subst huu; simp [hf, applyT, heu, aget_add]
      · have : ¬ e.2.uid = u' := fun hh => huu (hh.symm.trans heu)
        cases (s.findObj u').isSome <;> simp [applyT, huu, this]
  | hleave u' f' x =>
    simp only [hstep, objView, findObj_updObj s u u' _ (fun c => Chan.leave_uid c f' x), targetOf]
    cases hf : s.findObj u with
    | none =>
      by_cases huu : u' = u
      · subst huu; simp [hf, applyT]
      · cases (s.findObj u').isSome <;> simp [applyT, huu]
    | some e =>
      have heu : e.2.uid = u := (findUid_some_mem _ _ _ hf).2
      by_cases huu : u' = u
      · subst huu; simp [hf, applyT, heu, aget_leave]
      · have : ¬ e.2.uid = u' := fun hh => huu (hh.symm.trans heu)
        cases (s.findObj u').isSome <;> simp [applyT, huu, this]
  | hbcast u' r m => rfl
  | hfree u' =>
    simp only [hstep, targetOf, applyT]
    cases s.findObj u' with
    | none => rfl
    | some e => exact hdel e.1

theorem object_run (ser : String → List Nat) (hops : List HOp) {s : HSt} (h : HWF s) (u : Nat) (f : String) :
    objView (hrun ser s hops) u f = (otrace ser s hops).foldl (applyT u f) (objView s u f) := by
  induction hops generalizing s with
  | nil => rfl
  | cons op hops ih =>
    simp only [hrun, List.foldl_cons, otrace] at ih ⊢
    rw [ih (h.hstep ser op), object_step ser h op u f]

/-- a broadcast through any handle: nobody if no such object was handed out, else one tuple per
front the object has a group for, listing what the object holds for it -/
theorem object_bcast (ser : String → List Nat) {s : HSt} (h : HWF s) (u : Nat) (r m : String) :
    (s.findObj u = none → (hstep ser s (.hbcast u r m)).2 = .nil) ∧
    (∀ e, s.findObj u = some e → ∃ ps dl, (hstep ser s (.hbcast u r m)).2 = .pushes ps dl ∧
      ∀ f, ps.filter (fun p => decide (p.front = f)) =
        match objView s u f with
        | none => []
        | some l => [⟨f, l, r, m⟩]) := by
  refine ⟨fun hn => by simp only [hstep, hn], fun e he => ?_⟩
  have hnd : (akeys e.2.groups).Nodup := by
    obtain ⟨hm, _⟩ := findUid_some_mem _ _ _ he
    rcases List.mem_append.1 hm with hm | hm
    · exact h.wf.groups e hm
    · exact (h.sep e hm).2.2
  refine ⟨e.2.pushMessage r m, localDeliveries ser s.st (e.2.pushMessage r m), by simp only [hstep, he], fun f => ?_⟩
  rw [pushMessage_filter _ _ _ _ hnd]
  simp only [objView, he, Option.bind_some]

end Cell2v.Channel
