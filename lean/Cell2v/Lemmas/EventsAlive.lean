import Cell2v.Lemmas.Events
/-!
C17 — `AliveOK`: a subscription lasts until it is removed.  Every successful subscribe recorded in the
trace is either followed (later in the trace) by a successful unsubscribe of that listener / a clear of its
centre, or the listener is still in `subs` under exactly the centre, name and bound arguments it was
subscribed with.  No other step of the model (end of a dispatch loop, nested publication, global
publication, drain, direct registration …) drops a listener.  Together with `SubOK.subtok` and
`IdsOK.dead_gone` this makes `subs` — "the current subscribers" of every other theorem — a function of the
trace: subscribed and not removed since.
-/
set_option linter.unusedSimpArgs false
namespace Cell2v.Events

structure AliveOK (w : World) : Prop where
  alive : ∀ c e id b, Tok.sub c e id b true ∈ w.out →
    id ∈ deadOf w.out ∨ ∃ l ∈ w.subs, l.id = id ∧ l.c = c ∧ l.e = e ∧ l.bound = b

theorem deadOf_cons_mono (t : Tok) (r : List Tok) (id : Nat) (h : id ∈ deadOf r) : id ∈ deadOf (t :: r) :=
  deadOf_append [t] r id h

theorem AliveOK.of_eq {w w' : World} (h : AliveOK w) (hs : ∀ l ∈ w.subs, l ∈ w'.subs) (ho : w'.out = w.out) :
    AliveOK w' := by
  refine ⟨?_⟩
  intro c e id b hm
  rw [ho] at hm ⊢
  rcases h.alive c e id b hm with hd | ⟨l, hl, h1⟩
  · exact Or.inl hd
  · exact Or.inr ⟨l, hs l hl, h1⟩

theorem AliveOK.tok {w w' : World} (h : AliveOK w) (t : Tok) (ht : t.isSubOk = false)
    (hs : ∀ l ∈ w.subs, l ∈ w'.subs) (ho : w'.out = t :: w.out) : AliveOK w' := by
  refine ⟨?_⟩
  intro c e id b hm
  rw [ho] at hm ⊢
  simp only [List.mem_cons] at hm
  rcases hm with hm | hm
  · subst hm; simp [Tok.isSubOk] at ht
  · rcases h.alive c e id b hm with hd | ⟨l, hl, h1⟩
    · exact Or.inl (deadOf_cons_mono t _ id hd)
    · exact Or.inr ⟨l, hs l hl, h1⟩

theorem AliveOK.add {w w' : World} (h : AliveOK w) (l : Sub)
    (hs : w'.subs = w.subs ++ [l]) (ho : w'.out = .sub l.c l.e l.id l.bound true :: w.out) : AliveOK w' := by
  refine ⟨?_⟩
  intro c e id b hm
  rw [ho] at hm ⊢
  simp only [List.mem_cons] at hm
  rcases hm with hm | hm
  · injection hm with h1 h2 h3 h4
    exact Or.inr ⟨l, by rw [hs]; simp, h3.symm, h1.symm, h2.symm, h4.symm⟩
  · rcases h.alive c e id b hm with hd | ⟨x, hx, h1⟩
    · exact Or.inl (deadOf_cons_mono _ _ id hd)
    · exact Or.inr ⟨x, by rw [hs]; exact List.mem_append_left _ hx, h1⟩

theorem AliveOK.remove {w w' : World} (h : AliveOK w) (c e id : Nat)
    (hs : w'.subs = w.subs.filter (fun l => !(l.c == c && l.e == e && l.id == id)))
    (ho : w'.out = .unsub c e id ((lisOf w c e).any (fun l => l.id == id)) :: w.out) : AliveOK w' := by
  refine ⟨?_⟩
  intro c' e' id' b hm
  rw [ho] at hm ⊢
  simp only [List.mem_cons] at hm
  rcases hm with hm | hm
  · cases hm
  · rcases h.alive c' e' id' b hm with hd | ⟨l, hl, h1, h2, h3, h4⟩
    · exact Or.inl (deadOf_cons_mono _ _ _ hd)
    · by_cases hx : (l.c == c && l.e == e && l.id == id) = true
      · left
        simp only [Bool.and_eq_true, beq_iff_eq] at hx
        have hany : (lisOf w c e).any (fun l => l.id == id) = true :=
          List.any_eq_true.mpr ⟨l, lisOf_mem.mpr ⟨hl, hx.1.1, hx.1.2⟩, by simp [hx.2]⟩
        rw [hany]
        simp [deadOf, ← h1, hx.2]
      · right
        have hb : (!(l.c == c && l.e == e && l.id == id)) = true := by
          cases hb : (l.c == c && l.e == e && l.id == id) with
          | true => exact absurd hb hx
          | false => rfl
        exact ⟨l, by rw [hs]; exact List.mem_filter.mpr ⟨hl, hb⟩, h1, h2, h3, h4⟩

theorem AliveOK.clear {w w' : World} (h : AliveOK w) (c : Nat)
    (hs : w'.subs = w.subs.filter (fun l => !(l.c == c)))
    (ho : w'.out = .clear c ((w.subs.filter (fun l => l.c == c)).map (·.id)) :: w.out) : AliveOK w' := by
  refine ⟨?_⟩
  intro c' e' id' b hm
  rw [ho] at hm ⊢
  simp only [List.mem_cons] at hm
  rcases hm with hm | hm
  · cases hm
  · rcases h.alive c' e' id' b hm with hd | ⟨l, hl, h1, h2, h3, h4⟩
    · exact Or.inl (deadOf_cons_mono _ _ _ hd)
    · by_cases hx : (l.c == c) = true
      · left
        simp only [deadOf, List.mem_append, List.mem_map, List.mem_filter]
        exact Or.inl ⟨l, ⟨hl, hx⟩, h1⟩
      · right
        have hb : (!(l.c == c)) = true := by
          cases hb : (l.c == c) with
          | true => exact absurd hb hx
          | false => rfl
        exact ⟨l, by rw [hs]; exact List.mem_filter.mpr ⟨hl, hb⟩, h1, h2, h3, h4⟩

theorem doSub_alive {w : World} (h : AliveOK w) (c e t : Nat) (g : Bool) : AliveOK (doSub w c e t g) := by
  unfold doSub
  split
  next ct tm _ _ =>
    by_cases hu : w.used.contains t = true
    · simp only [hu, if_true]; exact h.tok .dup rfl (fun _ hl => hl) rfl
    · have hu' : w.used.contains t = false := by simpa using hu
      simp only [hu', Bool.false_eq_true, if_false]
      repeat' split
      all_goals first
        | exact h.tok _ rfl (fun _ hl => hl) rfl
        | exact h.add ⟨c, e, t, tm.bound, tm.fn, false⟩ rfl rfl
        | exact h.add ⟨c, e, t, tm.bound, tm.fn, g⟩ rfl rfl
  next => exact h.tok .bad rfl (fun _ hl => hl) rfl

theorem removeSub_alive {w : World} (h : AliveOK w) (c e id : Nat) : AliveOK (removeSub w c e id) := by
  unfold removeSub
  simp only []
  split <;> exact h.remove c e id rfl rfl

theorem doUnsub_alive {w : World} (h : AliveOK w) (c e t : Nat) : AliveOK (doUnsub w c e t) := by
  unfold doUnsub
  repeat' split
  all_goals first
    | exact removeSub_alive h ..
    | exact h.tok _ rfl (fun _ hl => hl) rfl

theorem doUnsubFn_alive {w : World} (h : AliveOK w) (c e f : Nat) : AliveOK (doUnsubFn w c e f) := by
  unfold doUnsubFn
  repeat' split
  all_goals first
    | exact removeSub_alive h ..
    | exact h.tok _ rfl (fun _ hl => hl) rfl

theorem doUnsubR_alive {w : World} (h : AliveOK w) (c e f r : Nat) : AliveOK (doUnsubR w c e f r) := by
  unfold doUnsubR
  repeat' split
  all_goals first
    | exact removeSub_alive h ..
    | exact h.tok _ rfl (fun _ hl => hl) rfl

theorem openDisp_alive {w : World} (h : AliveOK w) (ct : CAttr) (c e : Nat) (a : List Nat) :
    AliveOK (openDisp w ct c e a) := by
  unfold openDisp
  simp only []
  split <;> exact h.tok (.opn w.pubs c e a) rfl (fun _ hl => hl) rfl

theorem doPub_alive {w : World} (h : AliveOK w) (c e : Nat) (a : List Nat) : AliveOK (doPub w c e a) := by
  unfold doPub
  repeat' split
  all_goals first
    | exact openDisp_alive h ..
    | exact h.tok _ rfl (fun _ hl => hl) rfl

theorem doClear_alive {w : World} (h : AliveOK w) (c : Nat) : AliveOK (doClear w c) := by
  unfold doClear
  split
  · exact h.clear c rfl rfl
  · exact h.tok _ rfl (fun _ hl => hl) rfl

theorem doGsub_alive {w : World} (h : AliveOK w) (e c : Nat) (add : Bool) : AliveOK (doGsub w e c add) := by
  unfold doGsub
  repeat' split
  all_goals first
    | exact h.tok _ rfl (fun _ hl => hl) rfl
    | (cases add <;> exact h.tok _ rfl (fun _ hl => hl) rfl)

theorem doSubR_alive {w : World} (h : AliveOK w) (c e t r : Nat) : AliveOK (doSubR w c e t r) := by
  unfold doSubR
  split
  next ct tm _ _ =>
    split
    · exact h.tok .bad rfl (fun _ hl => hl) rfl
    · by_cases hu : w.used.contains t = true
      · simp only [hu, if_true]; exact h.tok .dup rfl (fun _ hl => hl) rfl
      · have hu' : w.used.contains t = false := by simpa using hu
        simp only [hu', Bool.false_eq_true, if_false]
        repeat' split
        all_goals first
          | exact h.tok _ rfl (fun _ hl => hl) rfl
          | exact h.add ⟨c, e, t, tm.bound, tm.fn, false⟩ rfl rfl
  next => exact h.tok .bad rfl (fun _ hl => hl) rfl

theorem doGsubH_alive {w : World} (h : AliveOK w) (e c t : Nat) : AliveOK (doGsubH w e c t) := by
  unfold doGsubH
  repeat' split
  all_goals first
    | exact h.tok _ rfl (fun _ hl => hl) rfl
    | exact h.of_eq (fun _ hl => hl) rfl

theorem execOp_alive {w : World} (h : AliveOK w) (op : SOp) : AliveOK (execOp w op) := by
  cases op <;> simp only [execOp]
  · exact doSub_alive h ..
  · exact doUnsub_alive h ..
  · exact doUnsubFn_alive h ..
  · exact doPub_alive h ..
  · exact h.tok _ rfl (fun _ hl => hl) rfl
  · exact doClear_alive h ..
  · exact doGsub_alive h ..
  · exact doGsub_alive h ..
  · exact doGsubH_alive h ..
  · exact doSubR_alive h ..
  · exact doUnsubR_alive h ..

/-- neither an iteration of a dispatch loop nor its end touches a subscription -/
theorem stepDisp_alive {w : World} (h : AliveOK w) (rest : List Frame) (p c e : Nat) (a snap called : List Nat) :
    AliveOK (stepDisp w rest p c e a snap called) := by
  unfold stepDisp closeDisp
  repeat' split
  all_goals exact h.tok _ rfl (fun _ hl => hl) rfl

theorem stepDrain_alive {w : World} (h : AliveOK w) (rest : List Frame) (c n : Nat) : AliveOK (stepDrain w rest c n) := by
  unfold stepDrain
  repeat' split
  all_goals first
    | (refine openDisp_alive (AliveOK.of_eq h ?_ ?_) .. <;> first | rfl | exact fun _ hx => hx)
    | exact h.of_eq (fun _ hl => hl) rfl

theorem step_alive {w : World} (h : AliveOK w) : AliveOK (step w) := by
  unfold step
  split
  · exact h
  · split
    · exact h
    · exact h.of_eq (fun _ hl => hl) rfl
    · refine execOp_alive (AliveOK.of_eq h ?_ ?_) _ <;> first | rfl | exact fun _ hx => hx
    · exact stepDisp_alive h ..
    · exact stepDrain_alive h ..

theorem reach_alive {w : World} (h : Reach w) : AliveOK w := by
  induction h with
  | init cs tm => exact ⟨by intro c e id b hm; simp [init] at hm⟩
  | step _ ih => exact step_alive ih
  | call ops g _ _ ih => exact ih.of_eq (fun _ hl => hl) rfl
  | drain c n g _ _ ih => exact ih.of_eq (fun _ hl => hl) rfl

end Cell2v.Events
