import Cell2v.Lemmas.Timer
/-!
Progress of the timer model under a FIFO consumer (a Go channel hands out its oldest
element), the `Stop` exception, and the non-atomic `doLater` → `timers.Store` of
`After/AddTimer`.

* `FifoSched` : schedules in which every consumer receive is `doNext 0`.
* `recvs s ops` : how many receives of a schedule really take an element (no callback in
  progress, queue not empty).
* `bounded_wait` : an object at position `k` of the queue has had its callback entered, or has
  been cancelled, at the latest when the FIFO consumer has taken `k + 1` elements — whatever
  else happens meanwhile (expiries, creations, cancels, time passing, callbacks of the objects
  ahead, `Stop`).  This is the finite form of "a fair consumer fires it".
* `can_fire_fifo` : such a continuation exists (callback scripts are finite).
* `silent_after_stop` : what `Mgr.Stop` does to timers that were not yet queued.
-/
namespace Cell2v.Timer

/-! ### FIFO schedules -/

def Op.isFifo : Op → Bool
  | .doNext i => i == 0
  | _ => true

/-- every receive of the schedule takes the head of the queue channel -/
def FifoSched (ops : List Op) : Prop := ∀ op, op ∈ ops → op.isFifo = true

theorem fifoSched_nil : FifoSched [] := by intro op h; simp at h

theorem fifoSched_cons {op : Op} {ops : List Op} : FifoSched (op :: ops) ↔ op.isFifo = true ∧ FifoSched ops := by
  constructor
  · intro h; exact ⟨h op (by simp), fun o ho => h o (by simp [ho])⟩
  · intro h o ho
    simp at ho
    rcases ho with rfl | ho
    · exact h.1
    · exact h.2 o ho

theorem fifoSched_append {a b : List Op} (ha : FifoSched a) (hb : FifoSched b) : FifoSched (a ++ b) := by
  intro o ho
  simp at ho
  rcases ho with ho | ho
  · exact ha o ho
  · exact hb o ho

theorem fifoSched_replicate_cbStep (n : Nat) : FifoSched (List.replicate n Op.cbStep) := by
  intro o ho
  have := List.eq_of_mem_replicate ho
  subst this; rfl

/-- does this step take an element out of the queue channel? -/
def takes (s : State) : Op → Nat
  | .doNext _ => if s.cur.isNone && !s.queue.isEmpty then 1 else 0
  | _ => 0

/-- number of receives of the schedule that really take an element -/
def recvs : State → List Op → Nat
  | _, [] => 0
  | s, op :: ops => takes s op + recvs (step s op).1 ops

/-! ### traces only grow -/

theorem runFrom_trace (s : State) (tr : List Event) (ops : List Op) : ∃ ev, (runFrom s tr ops).2 = tr ++ ev := by
  induction ops generalizing s tr with
  | nil => exact ⟨[], by simp [runFrom]⟩
  | cons op ops ih =>
    obtain ⟨ev, h⟩ := ih (step s op).1 (tr ++ (step s op).2)
    exact ⟨(step s op).2 ++ ev, by simp [runFrom, h]⟩

theorem cbCount_append (a b : List Event) (id : Nat) : cbCount (a ++ b) id = cbCount a id + cbCount b id := by
  simp [cbCount, List.countP_append]

theorem cancelledIn_append (a b : List Event) (id : Nat) : cancelledIn (a ++ b) id = (cancelledIn a id || cancelledIn b id) := by
  simp [cancelledIn, List.any_append]

theorem cbCount_mono (s : State) (tr : List Event) (ops : List Op) (id : Nat) :
    cbCount tr id ≤ cbCount (runFrom s tr ops).2 id := by
  obtain ⟨ev, h⟩ := runFrom_trace s tr ops
  rw [h, cbCount_append]; omega

theorem cancelledIn_mono (s : State) (tr : List Event) (ops : List Op) (id : Nat) (h : cancelledIn tr id = true) :
    cancelledIn (runFrom s tr ops).2 id = true := by
  obtain ⟨ev, h'⟩ := runFrom_trace s tr ops
  rw [h', cancelledIn_append, h]; rfl

/-! ### what a step does to the queue -/

theorem create_queue (s : State) (d : Int) (r : Bool) (k : Nat) (a : List Nat) : (create s d r k a).1.queue = s.queue := by
  simp [create]

theorem cancelTm_queue (s : State) (x : Nat) : (cancelTm s x).1.queue = s.queue := by
  simp only [cancelTm]; split <;> simp

theorem finish_queue (s : State) (x : Nat) : (finish s x).1.queue = s.queue := by
  simp only [finish]; split <;> (try split) <;> simp

theorem cbStep_queue (s : State) : (cbStep s).1.queue = s.queue := by
  unfold cbStep
  split
  · rfl
  · rw [finish_queue]; rfl
  next id a rest _ =>
    cases a <;> simp [cancelTm_queue, create_queue]

/-- the expiry goroutine appends its object, and only on a running manager; nothing else adds -/
theorem expire_queue (s : State) (x : Nat) :
    (expire s x).1.queue = s.queue ∨
    (s.running = true ∧ (s.tm x).armed = true ∧ (s.tm x).cancelled = false ∧ (expire s x).1.queue = s.queue ++ [x]) := by
  unfold expire
  split
  next hg =>
    simp only [Bool.and_eq_true, decide_eq_true_eq] at hg
    split
    · left; simp
    next hc =>
      split
      · left; simp
      next hr =>
        right
        refine ⟨by simpa using hr, hg.1, by simpa using hc, by simp⟩
  · left; rfl

/-- every step other than a consumer receive leaves the queue alone or appends one object -/
theorem nonrecv_queue (s : State) (op : Op) (h : ∀ i, op ≠ .doNext i) :
    (step s op).1.queue = s.queue ∨ ∃ x, s.running = true ∧ (step s op).1.queue = s.queue ++ [x] := by
  cases op with
  | after d k a => left; simp only [step]; split; rfl; exact create_queue _ _ _ _ _
  | add d k a => left; simp only [step]; split; rfl; exact create_queue _ _ _ _ _
  | cancel id => left; simp only [step]; split; rfl; exact cancelTm_queue _ _
  | expire x =>
    rcases expire_queue s x with h1 | ⟨hr, _, _, h1⟩
    · left; exact h1
    · right; exact ⟨x, hr, h1⟩
  | doNext i => exact absurd rfl (h i)
  | cbStep => left; exact cbStep_queue s
  | advance d => left; rfl
  | stop => left; rfl
  | defScript k acts => left; rfl

theorem idxOf_append_mem {l : List Nat} {a : Nat} (x : List Nat) (h : a ∈ l) : (l ++ x).idxOf a = l.idxOf a := by
  induction l with
  | nil => simp at h
  | cons b rest ih =>
    simp only [List.cons_append, List.idxOf_cons]
    by_cases e : b = a
    · subst e; simp
    · have : a ∈ rest := by
        simp at h
        rcases h with h | h
        · exact absurd h.symm e
        · exact h
      simp [ih this]

theorem idxOf_cons_ne' {a b : Nat} (l : List Nat) (h : b ≠ a) : (b :: l).idxOf a = l.idxOf a + 1 := by
  have : (b == a) = false := by simp [h]
  simp [List.idxOf_cons, this]

theorem doNext_zero_cons {s : State} {hd : Nat} {tl : List Nat} (hcur : s.cur = none) (hqq : s.queue = hd :: tl) :
    doNext s 0 = if (s.tm hd).cancelled then (s.pop 0, [])
      else ((s.pop 0).setCur (some (hd, s.scripts (s.tm hd).script)), [.cb hd s.now (s.tm hd).args]) := by
  simp [doNext, hcur, hqq]

theorem pop_zero_queue {s : State} {hd : Nat} {tl : List Nat} (hqq : s.queue = hd :: tl) : (s.pop 0).queue = tl := by
  simp [State.pop, hqq]

/-! ### one step, seen from a queued object -/

/-- A queued object `id` under one step of a FIFO schedule: either it is still queued, no
further back than before, and one place further to the front if the step was a receive
that took an element; or it was the head and the consumer took it — then its `Canceled`
flag was set (so `Do` returns at once) or its callback was entered. -/
theorem queued_step {s : State} (hw : WF s) {id : Nat} (hq : id ∈ s.queue) (op : Op) (hf : op.isFifo = true) :
    (id ∈ (step s op).1.queue ∧ (step s op).1.queue.idxOf id + takes s op ≤ s.queue.idxOf id) ∨
    (takes s op = 1 ∧ s.queue.idxOf id = 0 ∧
      ((s.tm id).cancelled = true ∨ (step s op).2 = [Event.cb id s.now (s.tm id).args])) := by
  by_cases hrecv : ∃ i, op = .doNext i
  · obtain ⟨i, rfl⟩ := hrecv
    have hi : i = 0 := by simpa [Op.isFifo] using hf
    subst hi
    simp only [step, takes]
    cases hcur : s.cur with
    | some c => left; simp [doNext, hcur, hq]
    | none =>
      cases hqq : s.queue with
      | nil => rw [hqq] at hq; simp at hq
      | cons hd tl =>
        have hnd : hd ∉ tl := by
          have := hw.nodup; rw [hqq] at this; exact (List.nodup_cons.1 this).1
        by_cases e : hd = id
        · right
          subst e
          refine ⟨by simp, by simp, ?_⟩
          rw [doNext_zero_cons hcur hqq]
          cases hc : (s.tm hd).cancelled with
          | true => left; rfl
          | false => right; simp
        · left
          have hmem : id ∈ tl := by
            rw [hqq] at hq; simp at hq
            rcases hq with h | h
            · exact absurd h.symm e
            · exact h
          have hidx : (hd :: tl).idxOf id = tl.idxOf id + 1 := idxOf_cons_ne' tl e
          rw [doNext_zero_cons hcur hqq]
          cases hc : (s.tm hd).cancelled with
          | true => simp [hqq, hmem, hidx]
          | false => simp [hqq, hmem, hidx]
  · have hne : ∀ i, op ≠ .doNext i := fun i e => hrecv ⟨i, e⟩
    have ht : takes s op = 0 := by
      cases op <;> simp [takes]
      exact absurd rfl (hne _)
    left
    rcases nonrecv_queue s op hne with h1 | ⟨x, _, h1⟩
    · rw [h1, ht]; exact ⟨hq, by omega⟩
    · rw [h1, ht, idxOf_append_mem _ hq]; exact ⟨by simp [hq], by omega⟩

/-! ### bounded wait under a FIFO consumer -/

/-- An object at position `k` of the queue: once the FIFO consumer has taken more than `k`
elements, the object's callback has been entered or the timer has been cancelled — in every
schedule, whatever the other steps are. -/
theorem bounded_wait {s : State} {tr : List Event} (h : Inv s tr) (id : Nat) (ops : List Op)
    (hf : FifoSched ops) (hq : id ∈ s.queue) (hn : s.queue.idxOf id < recvs s ops) :
    cbCount tr id < cbCount (runFrom s tr ops).2 id ∨ cancelledIn (runFrom s tr ops).2 id = true := by
  induction ops generalizing s tr with
  | nil => simp [recvs] at hn
  | cons op ops ih =>
    obtain ⟨hf1, hf2⟩ := fifoSched_cons.1 hf
    have h' := inv_step h op
    simp only [runFrom]
    simp only [recvs] at hn
    rcases queued_step h.wf hq op hf1 with ⟨hq', hle⟩ | ⟨_, _, hc | hev⟩
    · rcases ih h' hf2 hq' (by omega) with h1 | h1
      · left
        have : cbCount tr id ≤ cbCount (tr ++ (step s op).2) id := by rw [cbCount_append]; omega
        omega
      · right; exact h1
    · right
      have := (h.hist id).cancelComplete hc
      exact cancelledIn_mono _ _ _ _ (by rw [cancelledIn_append, this]; rfl)
    · left
      have h1 : cbCount (tr ++ (step s op).2) id = cbCount tr id + 1 := by
        rw [hev, cbCount_snoc]; simp [Event.isCbOf]
      have h2 := cbCount_mono (step s op).1 (tr ++ (step s op).2) ops id
      omega

/-! ### callbacks end (scripts are finite), so the FIFO consumer can always go on -/

def curLen (s : State) : Nat :=
  match s.cur with
  | none => 0
  | some (_, acts) => acts.length + 1

theorem cancelTm_cur (s : State) (x : Nat) : (cancelTm s x).1.cur = s.cur := by
  simp only [cancelTm]; split <;> simp

theorem create_cur (s : State) (d : Int) (r : Bool) (k : Nat) (a : List Nat) : (create s d r k a).1.cur = s.cur := by
  simp [create]

theorem finish_cur (s : State) (x : Nat) : (finish s x).1.cur = s.cur := by
  simp only [finish]; split <;> (try split) <;> simp

theorem cbStep_curLen (s : State) (h : s.cur ≠ none) : curLen (cbStep s).1 < curLen s := by
  unfold cbStep
  split
  next hc => exact absurd hc h
  next id hc => simp [curLen, finish_cur, hc]
  next id a rest hc =>
    cases a <;> simp [curLen, hc, cancelTm_cur, create_cur]

theorem runFrom_replicate_succ (s : State) (tr : List Event) (n : Nat) (op : Op) :
    runFrom s tr (List.replicate (n + 1) op) = runFrom (step s op).1 (tr ++ (step s op).2) (List.replicate n op) := by
  simp [List.replicate_succ, runFrom]

/-- the callback in progress, if any, is over after finitely many `cbStep`s; the queue is untouched -/
theorem cb_completes (s : State) (tr : List Event) :
    ∃ n, (runFrom s tr (List.replicate n .cbStep)).1.cur = none ∧
      (runFrom s tr (List.replicate n .cbStep)).1.queue = s.queue := by
  have key : ∀ m (s : State) (tr : List Event), curLen s ≤ m →
      ∃ n, (runFrom s tr (List.replicate n .cbStep)).1.cur = none ∧
        (runFrom s tr (List.replicate n .cbStep)).1.queue = s.queue := by
    intro m
    induction m with
    | zero =>
      intro s tr hm
      refine ⟨0, ?_, rfl⟩
      cases hc : s.cur with
      | none => simp [runFrom, hc]
      | some c => simp [curLen, hc] at hm
    | succ m ih =>
      intro s tr hm
      cases hc : s.cur with
      | none => exact ⟨0, by simp [runFrom, hc], rfl⟩
      | some c =>
        have hlt := cbStep_curLen s (by simp [hc])
        obtain ⟨n, h1, h2⟩ := ih (cbStep s).1 (tr ++ (cbStep s).2) (by omega)
        refine ⟨n + 1, ?_, ?_⟩
        · rw [runFrom_replicate_succ]; exact h1
        · rw [runFrom_replicate_succ]; simp only [step]; rw [h2, cbStep_queue]
  exact key (curLen s) s tr (Nat.le_refl _)

/-- A queued object, no callback in progress: there is a continuation in which the consumer
only ever takes the head of the queue (and lets each callback run to its end) after which the
object's callback has been entered or the timer has been cancelled by a callback ahead of it. -/
theorem can_fire_fifo {s : State} {tr : List Event} (h : Inv s tr) (id : Nat) (hq : id ∈ s.queue) (hc : s.cur = none) :
    ∃ ops, FifoSched ops ∧
      (cbCount tr id < cbCount (runFrom s tr ops).2 id ∨ cancelledIn (runFrom s tr ops).2 id = true) := by
  have key : ∀ k (s : State) (tr : List Event), Inv s tr → id ∈ s.queue → s.cur = none → s.queue.idxOf id ≤ k →
      ∃ ops, FifoSched ops ∧
        (cbCount tr id < cbCount (runFrom s tr ops).2 id ∨ cancelledIn (runFrom s tr ops).2 id = true) := by
    intro k
    induction k with
    | zero =>
      intro s tr h hq hc hk
      have hne : s.queue.isEmpty = false := by
        cases hqq : s.queue with
        | nil => rw [hqq] at hq; simp at hq
        | cons a b => rfl
      have hf1 : FifoSched [Op.doNext 0] := by intro o ho; simp at ho; subst ho; rfl
      refine ⟨[.doNext 0], hf1, bounded_wait h id _ hf1 hq ?_⟩
      simp [recvs, takes, hc, hne]; omega
    | succ k ih =>
      intro s tr h hq hc hk
      have hne : s.queue.isEmpty = false := by
        cases hqq : s.queue with
        | nil => rw [hqq] at hq; simp at hq
        | cons a b => rfl
      have hf1 : FifoSched [Op.doNext 0] := by intro o ho; simp at ho; subst ho; rfl
      have ht : takes s (.doNext 0) = 1 := by simp [takes, hc, hne]
      rcases queued_step h.wf hq (.doNext 0) rfl with ⟨hq1, hle⟩ | ⟨_, h0, _⟩
      · -- one round: take the head, run its callback to the end
        have i1 : Inv (step s (.doNext 0)).1 (tr ++ (step s (.doNext 0)).2) := inv_step h _
        obtain ⟨n, hcur2, hq2⟩ := cb_completes (step s (.doNext 0)).1 (tr ++ (step s (.doNext 0)).2)
        have i2 := inv_runFrom i1 (List.replicate n .cbStep)
        rw [ht] at hle
        obtain ⟨ops, hfo, hres⟩ := ih _ _ i2 (by rw [hq2]; exact hq1) hcur2 (by rw [hq2]; omega)
        refine ⟨.doNext 0 :: (List.replicate n .cbStep ++ ops), ?_, ?_⟩
        · exact fifoSched_cons.2 ⟨rfl, fifoSched_append (fifoSched_replicate_cbStep n) hfo⟩
        · simp only [runFrom]
          rw [runFrom_append]
          have m1 : cbCount tr id ≤ cbCount (tr ++ (step s (.doNext 0)).2) id := by
            rw [cbCount_append]; omega
          have m2 := cbCount_mono (step s (.doNext 0)).1 (tr ++ (step s (.doNext 0)).2) (List.replicate n .cbStep) id
          rcases hres with h1 | h1
          · left; omega
          · right; exact h1
      · refine ⟨[.doNext 0], hf1, bounded_wait h id _ hf1 hq ?_⟩
        simp [recvs, takes, hc, hne]; omega
  exact key _ s tr h hq hc (Nat.le_refl _)

/-- an armed timer on a running manager: let the duration elapse, let the expiry goroutine run —
the object is in the queue (at its end), nothing else changed, no event -/
theorem armed_enqueues {s : State} {tr : List Event} (hw : WF s) (id : Nat)
    (ha : (s.tm id).armed = true) (hr : s.running = true) :
    id ∈ (runFrom s tr [.advance ((s.tm id).exp - s.now), .expire id]).1.queue ∧
    (runFrom s tr [.advance ((s.tm id).exp - s.now), .expire id]).1.cur = s.cur ∧
    (runFrom s tr [.advance ((s.tm id).exp - s.now), .expire id]).2 = tr := by
  obtain ⟨hcc, _, _, _⟩ := hw.armedOk id ha
  have hexp : (s.tm id).exp ≤ s.now + ((s.tm id).exp - s.now) := by omega
  simp [runFrom, step, expire, ha, hexp, hcc, hr, State.tick, State.setTm, State.push]

/-- a timer that is armed or queued, manager running, no callback in progress: waiting and a
FIFO consumer bring it to fire, unless a callback ahead of it cancels it -/
theorem alive_can_fire_fifo {s : State} {tr : List Event} (h : Inv s tr) (id : Nat) (hr : s.running = true) (hc : s.cur = none)
    (hs : (s.tm id).armed = true ∨ id ∈ s.queue) :
    ∃ ops, FifoSched ops ∧
      (cbCount tr id < cbCount (runFrom s tr ops).2 id ∨ cancelledIn (runFrom s tr ops).2 id = true) := by
  rcases hs with ha | hq
  · obtain ⟨hq1, hc1, ht1⟩ := armed_enqueues (tr := tr) h.wf id ha hr
    have i1 := inv_runFrom h [.advance ((s.tm id).exp - s.now), .expire id]
    obtain ⟨ops, hf, hres⟩ := can_fire_fifo i1 id hq1 (by rw [hc1]; exact hc)
    refine ⟨[.advance ((s.tm id).exp - s.now), .expire id] ++ ops, fifoSched_append ?_ hf, ?_⟩
    · intro o ho; simp at ho; rcases ho with rfl | rfl <;> rfl
    · rw [runFrom_append, ht1]; rw [ht1] at hres; exact hres
  · exact can_fire_fifo h id hq hc

theorem createdOf_append_some (tr ev : List Event) (id : Nat) (c : Nat × Nat × Nat × List Nat)
    (h : createdOf tr id = some c) : createdOf (tr ++ ev) id = some c := by
  induction tr with
  | nil => simp [createdOf] at h
  | cons e rest ih =>
    cases e with
    | created i t dl p a =>
      simp only [List.cons_append, createdOf] at h ⊢
      split
      · simp_all
      · simp_all
    | _ => simpa [createdOf] using ih (by simpa [createdOf] using h)

/-! ### `Stop`: what is not yet queued never fires -/

structure Silent (s : State) (id : Nat) : Prop where
  stopped : s.running = false
  notQueued : id ∉ s.queue
  notRunning : s.curId ≠ some id

theorem finish_curId (s : State) (x : Nat) : (finish s x).1.curId = s.curId := by
  simp only [finish]; split <;> (try split) <;> simp

theorem finish_running (s : State) (x : Nat) : (finish s x).1.running = s.running := by
  simp only [finish]; split <;> (try split) <;> simp

theorem cancelTm_running (s : State) (x : Nat) : (cancelTm s x).1.running = s.running := by
  simp only [cancelTm]; split <;> simp

theorem cancelTm_curId (s : State) (x : Nat) : (cancelTm s x).1.curId = s.curId := by
  simp only [cancelTm]; split <;> simp

theorem create_running (s : State) (d : Int) (r : Bool) (k : Nat) (a : List Nat) : (create s d r k a).1.running = s.running := by
  simp [create]

theorem create_curId (s : State) (d : Int) (r : Bool) (k : Nat) (a : List Nat) : (create s d r k a).1.curId = s.curId := by
  simp [create]

theorem silent_step {s : State} {id : Nat} (h : Silent s id) (op : Op) :
    Silent (step s op).1 id ∧ ∀ t a, Event.cb id t a ∉ (step s op).2 := by
  have hnocb : ∀ t a, Event.cb id t a ∉ (step s op).2 := by
    intro t a hm
    obtain ⟨i, _, _, hqi, _⟩ := cb_of_step hm
    exact h.notQueued (List.mem_of_getElem? hqi)
  refine ⟨?_, hnocb⟩
  obtain ⟨hr, hq, hc⟩ := h
  cases op with
  | after d k a =>
    simp only [step]; split
    · exact ⟨hr, hq, hc⟩
    · exact ⟨by simpa [create] using hr, by rw [create_queue]; exact hq, by simpa [create] using hc⟩
  | add d k a =>
    simp only [step]; split
    · exact ⟨hr, hq, hc⟩
    · exact ⟨by simpa [create] using hr, by rw [create_queue]; exact hq, by simpa [create] using hc⟩
  | cancel x =>
    simp only [step]; split
    · exact ⟨hr, hq, hc⟩
    · refine ⟨?_, by rw [cancelTm_queue]; exact hq, ?_⟩
      · simp only [cancelTm]; split <;> simpa using hr
      · simp only [cancelTm]; split <;> simpa using hc
  | expire x =>
    simp only [step]
    refine ⟨?_, ?_, ?_⟩
    · unfold expire; split <;> (try split) <;> (try split) <;> simpa using hr
    · rcases expire_queue s x with h1 | ⟨hr', _⟩
      · rw [h1]; exact hq
      · rw [hr] at hr'; cases hr'
    · unfold expire; split <;> (try split) <;> (try split) <;> simpa using hc
  | doNext i =>
    simp only [step, doNext]
    split
    · exact ⟨hr, hq, hc⟩
    · split
      · exact ⟨hr, hq, hc⟩
      next x hx =>
        have hxq : x ∈ s.queue := List.mem_of_getElem? hx
        have hne : x ≠ id := fun e => hq (e ▸ hxq)
        split
        · exact ⟨by simpa using hr, fun hm => hq (mem_of_mem_eraseIdx hm), by simpa using hc⟩
        · exact ⟨by simpa using hr, fun hm => hq (mem_of_mem_eraseIdx hm), by simpa using hne⟩
  | cbStep =>
    simp only [step]
    refine ⟨?_, by rw [cbStep_queue]; exact hq, ?_⟩
    · unfold cbStep
      split
      · exact hr
      · rw [finish_running]; exact hr
      next c a rest _ =>
        cases a <;> simp [cancelTm_running, create_running, hr]
    · unfold cbStep
      split
      · exact hc
      · rw [finish_curId]; simp
      next c a rest hcur =>
        have hcne : c ≠ id := by
          intro e; apply hc; simp [State.curId, hcur, e]
        cases a <;> simp [cancelTm_curId, create_curId, hcne]
  | advance d => exact ⟨hr, hq, hc⟩
  | stop => exact ⟨rfl, hq, hc⟩
  | defScript k acts => exact ⟨hr, hq, hc⟩

/-- After `Mgr.Stop` a timer whose object is neither in the queue nor running never has its
callback entered again, in any continuation: its expiry goroutine drops the object
(`if !m.running { return }`). -/
theorem silent_after_stop {s : State} {tr : List Event} {id : Nat} (h : Silent s id) (ops : List Op) :
    cbCount (runFrom s tr ops).2 id = cbCount tr id := by
  induction ops generalizing s tr with
  | nil => rfl
  | cons op ops ih =>
    obtain ⟨h', hno⟩ := silent_step h op
    simp only [runFrom]
    rw [ih h', cbCount_append]
    have : cbCount (step s op).2 id = 0 := by
      simp only [cbCount, List.countP_eq_zero]
      intro e he
      cases e with
      | cb i t a =>
        by_cases hi : i = id
        · subst hi; exact absurd he (hno t a)
        · simp [Event.isCbOf, hi]
      | _ => simp [Event.isCbOf]
    omega

/-! ### `After/AddTimer` are not atomic: `doLater` first, `timers.Store` second -/

/-- first half of `After/AddTimer`: allocate the id, `doLater` (the object is armed but the
manager does not know it yet) -/
def createArm (s : State) (dur : Int) (rep : Bool) (script : Nat) (args : List Nat) : State :=
  s.alloc.setTm (s.nextId + 1)
    { live := true, period := if rep then dur.toNat else 0, script := script, args := args, cancelled := false,
      armed := true, exp := s.now + dur.toNat, inMap := false }

/-- second half: `timers.Store(id, t)` -/
def createStore (s : State) (id : Nat) : State := s.setTm id { s.tm id with inMap := true }

theorem state_ext {a b : State} (h1 : a.now = b.now) (h2 : a.nextId = b.nextId) (h3 : a.running = b.running)
    (h4 : ∀ j, a.tm j = b.tm j) (h5 : a.queue = b.queue) (h6 : a.cur = b.cur) (h7 : a.scripts = b.scripts) : a = b := by
  cases a; cases b
  simp only [State.mk.injEq]
  exact ⟨h1, h2, h3, funext h4, h5, h6, h7⟩

theorem create_eq_arm_store (s : State) (d : Int) (r : Bool) (k : Nat) (a : List Nat) :
    (create s d r k a).1 = createStore (createArm s d r k a) (s.nextId + 1) := by
  apply state_ext <;> simp [create, createArm, createStore]
  intro j
  by_cases e : j = s.nextId + 1 <;> simp [State.setTm, upd, e]

/-- The expiry goroutine of a timer created with no delay may run between `doLater` and
`timers.Store` (it is another goroutine; the owner cannot do anything in between).  The result
is the one of the atomic `create` followed by the expiry: the model's atomic `create` loses
no behaviour. -/
theorem create_store_expire_commute (s : State) (d : Int) (r : Bool) (k : Nat) (a : List Nat) :
    createStore (expire (createArm s d r k a) (s.nextId + 1)).1 (s.nextId + 1) = (expire (create s d r k a).1 (s.nextId + 1)).1 ∧
    (expire (createArm s d r k a) (s.nextId + 1)).2 = (expire (create s d r k a).1 (s.nextId + 1)).2 := by
  by_cases hdue : s.now + d.toNat ≤ s.now <;> by_cases hr : s.running = true
  all_goals
    constructor
    · apply state_ext <;> simp [create, createArm, createStore, expire, hdue, hr]
      all_goals (try (intro j; by_cases e : j = s.nextId + 1 <;> simp [State.setTm, State.push, upd, e]))
    · simp [create, createArm, expire, hdue, hr]

end Cell2v.Timer
