import Cell2v.Model.Codec
/-! helper lemmas for C06 (property theorems live in `Props/C06.lean`) -/
namespace Cell2v.Codec

theorem decVarAux_enc (n : Nat) : ∀ (rest : Bytes) (acc k i : Nat),
    acc + n * 2 ^ (7 * k) < 2 ^ 64 →
    decVarAux (encVar n ++ rest) acc k i = (acc + n * 2 ^ (7 * k), i + (encVar n).length) := by
  induction n using Nat.strongRecOn with
  | _ n ih =>
    intro rest acc k i h
    rw [encVar]
    split
    · rename_i hlt
      simp [decVarAux, hlt, Nat.mod_eq_of_lt hlt, Nat.mod_eq_of_lt h]
    · rename_i hge
      have hge : 128 ≤ n := by omega
      simp only [List.cons_append, decVarAux, List.length_cons]
      have h1 : ¬ (n % 128 + 128 < 128) := by omega
      simp only [h1, ↓reduceIte]
      have h2 : (n % 128 + 128) % 128 = n % 128 := by omega
      rw [h2]
      have hdiv : n / 128 < n := by omega
      have key : n * 2 ^ (7 * k) = (n % 128) * 2 ^ (7 * k) + (n / 128) * 2 ^ (7 * (k + 1)) := by
        have : 2 ^ (7 * (k + 1)) = 128 * 2 ^ (7 * k) := by
          rw [Nat.mul_add, Nat.pow_add]; simp [Nat.mul_comm]
        rw [this]
        have hn : n = n % 128 + 128 * (n / 128) := by omega
        conv => lhs; rw [hn]
        rw [Nat.add_mul, Nat.mul_assoc]
        congr 1
        ac_rfl
      have hlt' : acc + n % 128 * 2 ^ (7 * k) < 2 ^ 64 := by
        have : n % 128 * 2 ^ (7 * k) ≤ n * 2 ^ (7 * k) := Nat.mul_le_mul_right _ (Nat.mod_le _ _)
        omega
      rw [Nat.mod_eq_of_lt hlt']
      have := ih (n / 128) hdiv rest (acc + n % 128 * 2 ^ (7 * k)) (k + 1) (i + 1) (by rw [key] at h; omega)
      rw [this, key]
      simp; omega

theorem encVar_length_pos (n : Nat) : 0 < (encVar n).length := by
  rw [encVar]; split <;> simp

/-- the id loop never reports more bytes than it was given -/
theorem decVarAux_used_le : ∀ (bs : Bytes) (acc k i : Nat), (decVarAux bs acc k i).2 ≤ i + bs.length := by
  intro bs
  induction bs with
  | nil => intro acc k i; simp [decVarAux]
  | cons b bs ih =>
    intro acc k i
    simp only [decVarAux]
    split
    · simp
    · have := ih ((acc + b % 128 * 2 ^ (7 * k)) % 2 ^ 64) (k + 1) (i + 1)
      simp only [List.length_cons]; omega

theorem decVar_used_le (bs : Bytes) : (decVar bs).2 ≤ bs.length := by
  have := decVarAux_used_le bs 0 0 0
  simpa [decVar] using this

end Cell2v.Codec

namespace Cell2v.Codec

/-- pattern-matching presentation of `decodeMsg` (no checked accesses left: it
can only answer `ok` or `err`) -/
def decodeMsgPM (E : Env) (bs : Bytes) : Out Msg :=
  if bs.length < 2 then .err .invalid else
  match bs with
  | [] => .err .invalid
  | flag :: rest =>
    match MType.ofCode (flag / 2 % 8) with
    | none => .err .wrongType
    | some t =>
      let (id, used) := if t.hasId then decVar rest else (0, 0)
      let rest1 := rest.drop used
      let e := flag / 32 % 2 == 1
      let fin (route : Bytes) (body : Bytes) : Out Msg :=
        if flag / 16 % 2 == 1 then
          (match E.inflate body with
           | some d => .ok ⟨t, id, route, d, e⟩
           | none => .err .inflate)
        else .ok ⟨t, id, route, body, e⟩
      if t.routable then
        if flag % 2 == 1 then
          (match rest1 with
           | b0 :: b1 :: rest2 =>
             (match E.codes (b0 * 256 + b1) with
              | some r => fin r rest2
              | none => .err .noRoute)
           | _ => .err .invalid)
        else
          (match rest1 with
           | rl :: rest2 => if rest2.length < rl then .err .invalid else fin (rest2.take rl) (rest2.drop rl)
           | [] => .err .invalid)
      else fin [] rest1

theorem slice?_cons (a : Nat) (l : Bytes) (u n : Nat) (h : u + n ≤ l.length) :
    slice? (a :: l) (1 + u) (1 + u + n) = some ((l.drop u).take n) := by
  unfold slice?
  have h1 : 1 + u ≤ 1 + u + n ∧ 1 + u + n ≤ (a :: l).length := by simp; omega
  rw [if_pos h1]
  have : 1 + u + n - (1 + u) = n := by omega
  rw [this, Nat.add_comm 1 u]
  simp

theorem slice?_cons_end (a : Nat) (l : Bytes) (u : Nat) (h : u ≤ l.length) :
    slice? (a :: l) (1 + u) (a :: l).length = some (l.drop u) := by
  have := slice?_cons a l u (l.length - u) (by omega)
  have e : 1 + u + (l.length - u) = (a :: l).length := by simp; omega
  rw [e] at this
  rw [this]
  congr 1
  apply List.take_of_length_le
  simp

theorem decodeMsg_eq_PM (E : Env) (bs : Bytes) : decodeMsg E bs = decodeMsgPM E bs := by
  unfold decodeMsg decodeMsgPM
  split
  · rfl
  · rename_i hlen
    match bs with
    | [] => simp at hlen
    | flag :: rest =>
      simp only [idx?, List.getElem?_cons_zero, List.drop_succ_cons, List.drop_zero, List.length_cons]
      cases hty : MType.ofCode (flag / 2 % 8) with
      | none => rfl
      | some t =>
        simp only
        -- name the id loop's result
        generalize hdv : (if t.hasId = true then decVar rest else (0, 0)) = iu
        obtain ⟨id, used⟩ := iu
        have hused : used ≤ rest.length := by
          by_cases hh : t.hasId = true
          · simp [hh] at hdv
            have := decVar_used_le rest
            rw [hdv] at this; exact this
          · simp [hh] at hdv; omega
        simp only
        have hend : ∀ v, v ≤ rest.length → slice? (flag :: rest) (1 + v) (rest.length + 1) = some (rest.drop v) :=
          fun v hv => slice?_cons_end flag rest v hv
        cases hroutable : t.routable with
        | false =>
          simp only [Bool.false_eq_true, ↓reduceIte]
          rw [hend used hused]
          rfl
        | true =>
          simp only [↓reduceIte]
          by_cases hcomp : (flag % 2 == 1) = true
          · simp only [hcomp, ↓reduceIte]
            match hr1 : rest.drop used with
            | [] =>
              have : rest.length - used = 0 := by simpa using congrArg List.length hr1
              have hgt : 1 + used + 2 > rest.length + 1 := by omega
              rw [if_pos hgt]
            | [b0] =>
              have : rest.length - used = 1 := by simpa using congrArg List.length hr1
              have hgt : 1 + used + 2 > rest.length + 1 := by omega
              rw [if_pos hgt]
            | b0 :: b1 :: rest2 =>
              have hl : rest.length - used = rest2.length + 2 := by simpa using congrArg List.length hr1
              have hgt : ¬ (1 + used + 2 > rest.length + 1) := by omega
              rw [if_neg hgt]
              rw [slice?_cons flag rest used 2 (by omega), hr1]
              simp only [List.take_succ_cons, List.take_zero]
              cases E.codes (b0 * 256 + b1) with
              | none => rfl
              | some r =>
                simp only
                have h2 : rest.drop (used + 2) = rest2 := by
                  rw [← List.drop_drop, hr1]; rfl
                have := hend (used + 2) (by omega)
                rw [show 1 + (used + 2) = 1 + used + 2 by omega] at this
                rw [this, h2]
                rfl
          · have hcomp' : (flag % 2 == 1) = false := by simpa using hcomp
            simp only [hcomp', Bool.false_eq_true, ↓reduceIte]
            match hr1 : rest.drop used with
            | [] =>
              have : rest.length - used = 0 := by simpa using congrArg List.length hr1
              have hge : 1 + used ≥ rest.length + 1 := by omega
              rw [if_pos hge]
            | rl :: rest2 =>
              have hl : rest.length - used = rest2.length + 1 := by simpa using congrArg List.length hr1
              have hge : ¬ (1 + used ≥ rest.length + 1) := by omega
              have hidx : (flag :: rest)[1 + used]? = some rl := by
                rw [Nat.add_comm]
                simp only [List.getElem?_cons_succ]
                have : rest[used]? = (rest.drop used)[0]? := by simp
                rw [this, hr1]; rfl
              simp only [↓reduceIte, hge, hidx]
              have hdrop1 : rest.drop (used + 1) = rest2 := by
                rw [← List.drop_drop, hr1]; rfl
              by_cases hshort : rest2.length < rl
              · have : 1 + used + 1 + rl > rest.length + 1 := by omega
                simp [this, hshort]
              · have hn : ¬ (1 + used + 1 + rl > rest.length + 1) := by omega
                simp only [hn, ↓reduceIte, hshort]
                have := slice?_cons flag rest (used + 1) rl (by omega)
                rw [show 1 + (used + 1) + rl = 1 + used + 1 + rl by omega,
                    show 1 + (used + 1) = 1 + used + 1 by omega] at this
                rw [this, hdrop1]
                simp only
                have h3 := hend (used + 1 + rl) (by omega)
                rw [show 1 + (used + 1 + rl) = 1 + used + 1 + rl by omega] at h3
                rw [h3]
                have : rest.drop (used + 1 + rl) = rest2.drop rl := by
                  rw [← hdrop1, List.drop_drop]
                rw [this]
                rfl

end Cell2v.Codec

namespace Cell2v.Codec

/-- the bytes `PomeloPacketEncoder.Encode` produces when it accepts the packet -/
def frameBytes (p : Packet) : Bytes := p.typ :: intToBytes p.body.length ++ p.body

def Packet.Valid (p : Packet) : Prop := 1 ≤ p.typ ∧ p.typ ≤ 5 ∧ p.body.length < 2 ^ 24

theorem frame_ok (p : Packet) (h : p.Valid) : frame p = .ok (frameBytes p) := by
  obtain ⟨h1, h2, h3⟩ := h
  unfold frame maxPacketSize frameBytes
  have : ¬ (p.typ < 1 ∨ p.typ > 5) := by omega
  have h4 : ¬ (p.body.length ≥ 2 ^ 24) := by omega
  rw [if_neg this, if_neg h4]

theorem parseHeader_frame (t n : Nat) (h1 : 1 ≤ t) (h2 : t ≤ 5) (hn : n < 2 ^ 24) :
    parseHeader (t :: intToBytes n) = .ok (n, t) := by
  unfold parseHeader intToBytes maxPacketSize
  have : ¬ (t < 1 ∨ t > 5) := by omega
  have e : (n / 65536 % 256 * 256 + n / 256 % 256) * 256 + n % 256 = n := by omega
  simp only [this, ↓reduceIte, e]
  have : ¬ (n > 2 ^ 24) := by omega
  simp [this]

theorem frameBytes_take4 (p : Packet) (rest : Bytes) :
    (frameBytes p ++ rest).take 4 = p.typ :: intToBytes p.body.length := by
  simp [frameBytes, intToBytes]

theorem frameBytes_drop4 (p : Packet) (rest : Bytes) :
    (frameBytes p ++ rest).drop 4 = p.body ++ rest := by
  simp [frameBytes, intToBytes]

theorem frameBytes_length (p : Packet) : (frameBytes p).length = 4 + p.body.length := by
  simp [frameBytes, intToBytes]; omega

theorem decLoop_frames (ps : List Packet) : ∀ (p : Packet), (∀ q ∈ ps, q.Valid) →
    decLoop p.body.length p.typ (p.body ++ ps.flatMap frameBytes) = .ok (p :: ps) := by
  induction ps with
  | nil =>
    intro p _
    rw [decLoop]
    simp
  | cons q qs ih =>
    intro p hv
    have hq : q.Valid := hv q (by simp)
    obtain ⟨h1, h2, h3⟩ := hq
    rw [decLoop]
    have hle : p.body.length ≤ (p.body ++ (q :: qs).flatMap frameBytes).length := by simp
    rw [if_pos hle]
    have hdrop : (p.body ++ (q :: qs).flatMap frameBytes).drop p.body.length
        = frameBytes q ++ qs.flatMap frameBytes := by simp
    have htake : (p.body ++ (q :: qs).flatMap frameBytes).take p.body.length = p.body := by simp
    rw [hdrop, htake]
    have hlen : ¬ ((frameBytes q ++ qs.flatMap frameBytes).length < 4) := by
      rw [List.length_append, frameBytes_length]; omega
    rw [if_neg hlen, frameBytes_take4, parseHeader_frame _ _ h1 h2 h3, frameBytes_drop4]
    simp only
    rw [ih q (fun r hr => hv r (by simp [hr]))]

end Cell2v.Codec

namespace Cell2v.Codec

/-- routes pairwise different, codes pairwise different, codes are uint16 -/
def DictWF (d : Dict) : Prop :=
  (d.map (·.1)).Nodup ∧ (d.map (·.2)).Nodup ∧ ∀ e ∈ d, e.2 < 65536

theorem dictWF_nil : DictWF [] := by simp [DictWF]

theorem any_route_false (d : Dict) (r : Bytes) (h : d.any (fun e => e.1 == r) = false) : r ∉ d.map (·.1) := by
  intro hm
  simp only [List.mem_map] at hm
  obtain ⟨e, he, rfl⟩ := hm
  have : d.any (fun x => x.1 == e.1) = true := List.any_eq_true.mpr ⟨e, he, by simp⟩
  rw [h] at this; cases this

theorem any_code_false (d : Dict) (c : Nat) (h : d.any (fun e => e.2 == c) = false) : c ∉ d.map (·.2) := by
  intro hm
  simp only [List.mem_map] at hm
  obtain ⟨e, he, rfl⟩ := hm
  have : d.any (fun x => x.2 == e.2) = true := List.any_eq_true.mpr ⟨e, he, by simp⟩
  rw [h] at this; cases this

theorem add1_wf (d d' : Dict) (r : Bytes) (c : Nat) (hw : DictWF d) (hc : c < 65536)
    (h : d.add1 r c = some d') : DictWF d' := by
  unfold Dict.add1 at h
  split at h
  · cases h
  · split at h
    · cases h
    · rename_i h1 h2
      cases h
      obtain ⟨w1, w2, w3⟩ := hw
      have n1 := any_route_false d r (Bool.eq_false_iff.mpr h1)
      have n2 := any_code_false d c (Bool.eq_false_iff.mpr h2)
      refine ⟨?_, ?_, ?_⟩
      · rw [List.map_append, List.nodup_append]
        refine ⟨w1, by simp, ?_⟩
        intro a ha b hb
        simp at hb; subst hb
        intro e; subst e; exact n1 ha
      · rw [List.map_append, List.nodup_append]
        refine ⟨w2, by simp, ?_⟩
        intro a ha b hb
        simp at hb; subst hb
        intro e; subst e; exact n2 ha
      · intro e he
        simp at he
        rcases he with he | he
        · exact w3 e he
        · subst he; exact hc

theorem setDictionary_wf (trim : Bytes → Bytes) (es : List (Bytes × Nat)) : ∀ (d : Dict), DictWF d →
    (∀ e ∈ es, e.2 < 65536) → DictWF (setDictionary trim d es).1 := by
  induction es with
  | nil => intro d hw _; simpa [setDictionary] using hw
  | cons e es ih =>
    intro d hw hc
    obtain ⟨r, c⟩ := e
    simp only [setDictionary]
    cases h : d.add1 (trim r) c with
    | none => exact hw
    | some d' =>
      simp only
      exact ih d' (add1_wf d d' _ c hw (hc (r, c) (by simp)) h) (fun e he => hc e (by simp [he]))

theorem nodup_map_inj {α β : Type} (l : List α) (f : α → β) (h : (l.map f).Nodup) :
    ∀ a b, a ∈ l → b ∈ l → f a = f b → a = b := by
  induction l with
  | nil => intro a b ha; cases ha
  | cons x xs ih =>
    intro a b ha hb hab
    simp only [List.map_cons, List.nodup_cons] at h
    obtain ⟨hx, hxs⟩ := h
    simp only [List.mem_cons] at ha hb
    rcases ha with rfl | ha <;> rcases hb with rfl | hb
    · rfl
    · exfalso; apply hx; rw [hab]; exact List.mem_map_of_mem hb
    · exfalso; apply hx; rw [← hab]; exact List.mem_map_of_mem ha
    · exact ih hxs a b ha hb hab

theorem setDictionary_calls_wf (trim : Bytes → Bytes) (calls : List (List (Bytes × Nat))) :
    ∀ (d0 : Dict), DictWF d0 → (∀ es ∈ calls, ∀ e ∈ es, e.2 < 65536) →
    DictWF (calls.foldl (fun d es => (setDictionary trim d es).1) d0) := by
  induction calls with
  | nil => intro d0 h0 _; simpa using h0
  | cons es rest ih =>
    intro d0 h0 hc
    simp only [List.foldl_cons]
    exact ih _ (setDictionary_wf trim es d0 h0 (hc es (by simp))) (fun es' hes => hc es' (by simp [hes]))

/-- in a well-formed dictionary the two maps are mutually inverse -/
theorem dict_routes_codes (d : Dict) (hw : DictWF d) (r : Bytes) (c : Nat) (h : d.routes r = some c) :
    d.codes c = some r ∧ c < 65536 := by
  obtain ⟨w1, w2, w3⟩ := hw
  unfold Dict.routes at h
  cases hf : d.find? (fun e => e.1 == r) with
  | none => simp [hf] at h
  | some e =>
    simp [hf] at h
    have hm := List.mem_of_find?_eq_some hf
    have hr : e.1 = r := by simpa using List.find?_some hf
    subst h
    refine ⟨?_, w3 e hm⟩
    unfold Dict.codes
    cases hg : d.find? (fun x => x.2 == e.2) with
    | none =>
      have := List.find?_eq_none.mp hg e hm
      simp at this
    | some e' =>
      have hm' := List.mem_of_find?_eq_some hg
      have hc' : e'.2 = e.2 := by simpa using List.find?_some hg
      -- codes are pairwise different, so e' = e
      have : e' = e := nodup_map_inj d (·.2) w2 e' e hm' hm hc'
      subst this
      simp [hr]

end Cell2v.Codec
