import Cell2v.Model.Codec
/-! helper lemmas for C06 (property theorems live in `Props/C06.lean`) -/
namespace Cell2v.Codec

theorem decVarAux_enc (n : Nat) : ∀ (rest : Bytes) (acc k i : Nat),
    acc + n * 2 ^ (7 * k) < 2 ^ 64 →
    decVarAux (encVar n ++ rest) acc k i = (acc + n * 2 ^ (7 * k), i + (encVar n).length) := by
  induction n using Nat.strongRecOn with
  | _ n ih =>
    intro rest acc k i h
    rw [encVar]
    split
    · rename_i hlt
      simp [decVarAux, hlt, Nat.mod_eq_of_lt hlt, Nat.mod_eq_of_lt h]
    · rename_i hge
      have hge : 128 ≤ n := by omega
      simp only [List.cons_append, decVarAux, List.length_cons]
      have h1 : ¬ (n % 128 + 128 < 128) := by omega
      simp only [h1, ↓reduceIte]
      have h2 : (n % 128 + 128) % 128 = n % 128 := by omega
      rw [h2]
      have hdiv : n / 128 < n := by omega
      have key : n * 2 ^ (7 * k) = (n % 128) * 2 ^ (7 * k) + (n / 128) * 2 ^ (7 * (k + 1)) := by
        have : 2 ^ (7 * (k + 1)) = 128 * 2 ^ (7 * k) := by
          rw [Nat.mul_add, Nat.pow_add]; simp [Nat.mul_comm]
        rw [this]
        have hn : n = n % 128 + 128 * (n / 128) := by omega
        conv => lhs; rw [hn]
        rw [Nat.add_mul, Nat.mul_assoc]
        congr 1
        ac_rfl
      have hlt' : acc + n % 128 * 2 ^ (7 * k) < 2 ^ 64 := by
        have : n % 128 * 2 ^ (7 * k) ≤ n * 2 ^ (7 * k) := Nat.mul_le_mul_right _ (Nat.mod_le _ _)
        omega
      rw [Nat.mod_eq_of_lt hlt']
      have := ih (n / 128) hdiv rest (acc + n % 128 * 2 ^ (7 * k)) (k + 1) (i + 1) (by rw [key] at h; omega)
      rw [this, key]
      simp; omega

theorem encVar_length_pos (n : Nat) : 0 < (encVar n).length := by
  rw [encVar]; split <;> simp

/-- the id loop never reports more bytes than it was given -/
theorem decVarAux_used_le : ∀ (bs : Bytes) (acc k i : Nat), (decVarAux bs acc k i).2 ≤ i + bs.length := by
  intro bs
  induction bs with
  | nil => intro acc k i; simp [decVarAux]
  | cons b bs ih =>
    intro acc k i
    simp only [decVarAux]
    split
    · simp
    · have := ih ((acc + b % 128 * 2 ^ (7 * k)) % 2 ^ 64) (k + 1) (i + 1)
      simp only [List.length_cons]; omega

theorem decVar_used_le (bs : Bytes) : (decVar bs).2 ≤ bs.length := by
  have := decVarAux_used_le bs 0 0 0
  simpa [decVar] using this

end Cell2v.Codec

namespace Cell2v.Codec

/-- pattern-matching presentation of `decodeMsg` (no checked accesses left: it
can only answer `ok` or `err`) -/
def decodeMsgPM (E : Env) (bs : Bytes) : Out Msg :=
  if bs.length < 2 then .err .invalid else
  match bs with
  | [] => .err .invalid
  | flag :: rest =>
    match MType.ofCode (flag / 2 % 8) with
    | none => .err .wrongType
    | some t =>
      let (id, used) := if t.hasId then decVar rest else (0, 0)
      let rest1 := rest.drop used
      let e := flag / 32 % 2 == 1
      let fin (route : Bytes) (body : Bytes) : Out Msg :=
        if flag / 16 % 2 == 1 then
          (match E.inflate body with
           | some d => .ok ⟨t, id, route, d, e⟩
           | none => .err .inflate)
        else .ok ⟨t, id, route, body, e⟩
      if t.routable then
        if flag % 2 == 1 then
          (match rest1 with
           | b0 :: b1 :: rest2 =>
             (match E.codes (b0 * 256 + b1) with
              | some r => fin r rest2
              | none => .err .noRoute)
           | _ => .err .invalid)
        else
          (match rest1 with
           | rl :: rest2 => if rest2.length < rl then .err .invalid else fin (rest2.take rl) (rest2.drop rl)
           | [] => .err .invalid)
      else fin [] rest1

theorem slice?_cons (a : Nat) (l : Bytes) (u n : Nat) (h : u + n ≤ l.length) :
    slice? (a :: l) (1 + u) (1 + u + n) = some ((l.drop u).take n) := by
  unfold slice?
  have h1 : 1 + u ≤ 1 + u + n ∧ 1 + u + n ≤ (a :: l).length := by simp; omega
  rw [if_pos h1]
  have : 1 + u + n - (1 + u) = n := by omega
  rw [this, Nat.add_comm 1 u]
  simp

theorem slice?_cons_end (a : Nat) (l : Bytes) (u : Nat) (h : u ≤ l.length) :
    slice? (a :: l) (1 + u) (a :: l).length = some (l.drop u) := by
  have := slice?_cons a l u (l.length - u) (by omega)
  have e : 1 + u + (l.length - u) = (a :: l).length := by simp; omega
  rw [e] at this
  rw [this]
  congr 1
  apply List.take_of_length_le
  simp

theorem decodeMsg_eq_PM (E : Env) (bs : Bytes) : decodeMsg E bs = decodeMsgPM E bs := by
  unfold decodeMsg decodeMsgPM
  split
  · rfl
  · rename_i hlen
    match bs with
    | [] => simp at hlen
    | flag :: rest =>
      simp only [idx?, List.getElem?_cons_zero, List.drop_succ_cons, List.drop_zero, List.length_cons]
      cases hty : MType.ofCode (flag / 2 % 8) with
      | none => rfl
      | some t =>
        simp only
        -- name the id loop's result
        generalize hdv : (if t.hasId = true then decVar rest else (0, 0)) = iu
        obtain ⟨id, used⟩ := iu
        have hused : used ≤ rest.length := by
          by_cases hh : t.hasId = true
          · simp [hh] at hdv
            have := decVar_used_le rest
            rw [hdv] at this; exact this
          · simp [hh] at hdv; omega
        simp only
        have hend : ∀ v, v ≤ rest.length → slice? (flag :: rest) (1 + v) (rest.length + 1) = some (rest.drop v) :=
          fun v hv => slice?_cons_end flag rest v hv
        cases hroutable : t.routable with
        | false =>
          simp only [Bool.false_eq_true, ↓reduceIte]
          rw [hend used hused]
          rfl
        | true =>
          simp only [↓reduceIte]
          by_cases hcomp : (flag % 2 == 1) = true
          · simp only [hcomp, ↓reduceIte]
            match hr1 : rest.drop used with
            | [] =>
              have : rest.length - used = 0 := by simpa using congrArg List.length hr1
              have hgt : 1 + used + 2 > rest.length + 1 := by omega
              rw [if_pos hgt]
            | [b0] =>
              have : rest.length - used = 1 := by simpa using congrArg List.length hr1
              have hgt : 1 + used + 2 > rest.length + 1 := by omega
              rw [if_pos hgt]
            | b0 :: b1 :: rest2 =>
              have hl : rest.length - used = rest2.length + 2 := by simpa using congrArg List.length hr1
              have hgt : ¬ (1 + used + 2 > rest.length + 1) := by omega
              rw [if_neg hgt]
              rw [slice?_cons flag rest used 2 (by omega), hr1]
              simp only [List.take_succ_cons, List.take_zero]
              cases E.codes (b0 * 256 + b1) with
              | none => rfl
              | some r =>
                simp only
                have h2 : rest.drop (used + 2) = rest2 := by
                  rw [← List.drop_drop, hr1]; rfl
                have := hend (used + 2) (by omega)
                rw [show 1 + (used + 2) = 1 + used + 2 by omega] at this
                rw [this, h2]
                rfl
          · have hcomp' : (flag % 2 == 1) = false := by simpa using hcomp
            simp only [hcomp', Bool.false_eq_true, ↓reduceIte]
            match hr1 : rest.drop used with
            | [] =>
              have : rest.length - used = 0 := by simpa using congrArg List.length hr1
              have hge : 1 + used ≥ rest.length + 1 := by omega
              rw [if_pos hge]
            | rl :: rest2 =>
              have hl : rest.length - used = rest2.length + 1 := by simpa using congrArg List.length hr1
              have hge : ¬ (1 + used ≥ rest.length + 1) := by omega
              have hidx : (flag :: rest)[1 + used]? = some rl := by
                rw [Nat.add_comm]
                simp only [List.getElem?_cons_succ]
                have : rest[used]? = (rest.drop used)[0]? := by simp
                rw [this, hr1]; rfl
              simp only [↓reduceIte, hge, hidx]
              have hdrop1 : rest.drop (used + 1) = rest2 := by
                rw [← List.drop_drop, hr1]; rfl
              by_cases hshort : rest2.length < rl
              · have : 1 + used + 1 + rl > rest.length + 1 := by omega
                simp [this, hshort]
              · have hn : ¬ (1 + used + 1 + rl > rest.length + 1) := by omega
                simp only [hn, ↓reduceIte, hshort]
                have := slice?_cons flag rest (used + 1) rl (by omega)
                rw [show 1 + (used + 1) + rl = 1 + used + 1 + rl by omega,
                    show 1 + (used + 1) = 1 + used + 1 by omega] at this
                rw [this, hdrop1]
                simp only
                have h3 := hend (used + 1 + rl) (by omega)
                rw [show 1 + (used + 1 + rl) = 1 + used + 1 + rl by omega] at h3
                rw [h3]
                have : rest.drop (used + 1 + rl) = rest2.drop rl := by
                  rw [← hdrop1, List.drop_drop]
                rw [this]
                rfl

end Cell2v.Codec

namespace Cell2v.Codec

/-- the bytes `PomeloPacketEncoder.Encode` produces when it accepts the packet -/
def frameBytes (p : Packet) : Bytes := p.typ :: intToBytes p.body.length ++ p.body

def Packet.Valid (p : Packet) : Prop := 1 ≤ p.typ ∧ p.typ ≤ 5 ∧ p.body.length < 2 ^ 24

theorem frame_ok (p : Packet) (h : p.Valid) : frame p = .ok (frameBytes p) := by
  obtain ⟨h1, h2, h3⟩ := h
  unfold frame maxPacketSize frameBytes
  have : ¬ (p.typ < 1 ∨ p.typ > 5) := by omega
  have h4 : ¬ (p.body.length ≥ 2 ^ 24) := by omega
  rw [if_neg this, if_neg h4]

theorem parseHeader_frame (t n : Nat) (h1 : 1 ≤ t) (h2 : t ≤ 5) (hn : n < 2 ^ 24) :
    parseHeader (t :: intToBytes n) = .ok (n, t) := by
  unfold parseHeader intToBytes maxPacketSize
  have : ¬ (t < 1 ∨ t > 5) := by omega
  have e : (n / 65536 % 256 * 256 + n / 256 % 256) * 256 + n % 256 = n := by omega
  simp only [this, ↓reduceIte, e]
  have : ¬ (n > 2 ^ 24) := by omega
  simp [this]

theorem frameBytes_take4 (p : Packet) (rest : Bytes) :
    (frameBytes p ++ rest).take 4 = p.typ :: intToBytes p.body.length := by
  simp [frameBytes, intToBytes]

theorem frameBytes_drop4 (p : Packet) (rest : Bytes) :
    (frameBytes p ++ rest).drop 4 = p.body ++ rest := by
  simp [frameBytes, intToBytes]

theorem frameBytes_length (p : Packet) : (frameBytes p).length = 4 + p.body.length := by
  simp [frameBytes, intToBytes]; omega

theorem decLoop_frames (ps : List Packet) : ∀ (p : Packet), (∀ q ∈ ps, q.Valid) →
    decLoop p.body.length p.typ (p.body ++ ps.flatMap frameBytes) = .ok (p :: ps) := by
  induction ps with
  | nil =>
    intro p _
    rw [decLoop]
    simp
  | cons q qs ih =>
    intro p hv
    have hq : q.Valid := hv q (by simp)
    obtain ⟨h1, h2, h3⟩ := hq
    rw [decLoop]
    have hle : p.body.length ≤ (p.body ++ (q :: qs).flatMap frameBytes).length := by simp
    rw [if_pos hle]
    have hdrop : (p.body ++ (q :: qs).flatMap frameBytes).drop p.body.length
        = frameBytes q ++ qs.flatMap frameBytes := by simp
    have htake : (p.body ++ (q :: qs).flatMap frameBytes).take p.body.length = p.body := by simp
    rw [hdrop, htake]
    have hlen : ¬ ((frameBytes q ++ qs.flatMap frameBytes).length < 4) := by
      rw [List.length_append, frameBytes_length]; omega
    rw [if_neg hlen, frameBytes_take4, parseHeader_frame _ _ h1 h2 h3, frameBytes_drop4]
    simp only
    rw [ih q (fun r hr => hv r (by simp [hr]))]

end Cell2v.Codec

namespace Cell2v.Codec

/-- routes pairwise different, codes pairwise different, codes are uint16 -/
def DictWF (d : Dict) : Prop :=
  (d.map (·.1)).Nodup ∧ (d.map (·.2)).Nodup ∧ ∀ e ∈ d, e.2 < 65536

theorem dictWF_nil : DictWF [] := by simp [DictWF]

theorem any_route_false (d : Dict) (r : Bytes) (h : d.any (fun e => e.1 == r) = false) : r ∉ d.map (·.1) := by
  intro hm
  simp only [List.mem_map] at hm
  obtain ⟨e, he, rfl⟩ := hm
  have : d.any (fun x => x.1 == e.1) = true := List.any_eq_true.mpr ⟨e, he, by simp⟩
  rw [h] at this; cases this

theorem any_code_false (d : Dict) (c : Nat) (h : d.any (fun e => e.2 == c) = false) : c ∉ d.map (·.2) := by
  intro hm
  simp only [List.mem_map] at hm
  obtain ⟨e, he, rfl⟩ := hm
  have : d.any (fun x => x.2 == e.2) = true := List.any_eq_true.mpr ⟨e, he, by simp⟩
  rw [h] at this; cases this

theorem add1_wf (d d' : Dict) (r : Bytes) (c : Nat) (hw : DictWF d) (hc : c < 65536)
    (h : d.add1 r c = some d') : DictWF d' := by
  unfold Dict.add1 at h
  split at h
  · cases h
  · split at h
    · cases h
    · rename_i h1 h2
      cases h
      obtain ⟨w1, w2, w3⟩ := hw
      have n1 := any_route_false d r (Bool.eq_false_iff.mpr h1)
      have n2 := any_code_false d c (Bool.eq_false_iff.mpr h2)
      refine ⟨?_, ?_, ?_⟩
      · rw [List.map_append, List.nodup_append]
        refine ⟨w1, by simp, ?_⟩
        intro a ha b hb
        simp at hb; subst hb
        intro e; subst e; exact n1 ha
      · rw [List.map_append, List.nodup_append]
        refine ⟨w2, by simp, ?_⟩
        intro a ha b hb
        simp at hb; subst hb
        intro e; subst e; exact n2 ha
      · intro e he
        simp at he
        rcases he with he | he
        · exact w3 e he
        · subst he; exact hc

theorem setDictionary_wf (trim : Bytes → Bytes) (es : List (Bytes × Nat)) : ∀ (d : Dict), DictWF d →
    (∀ e ∈ es, e.2 < 65536) → DictWF (setDictionary trim d es).1 := by
  induction es with
  | nil => intro d hw _; simpa [setDictionary] using hw
  | cons e es ih =>
    intro d hw hc
    obtain ⟨r, c⟩ := e
    simp only [setDictionary]
    cases h : d.add1 (trim r) c with
    | none => exact hw
    | some d' =>
      simp only
      exact ih d' (add1_wf d d' _ c hw (hc (r, c) (by simp)) h) (fun e he => hc e (by simp [he]))

theorem nodup_map_inj {α β : Type} (l : List α) (f : α → β) (h : (l.map f).Nodup) :
    ∀ a b, a ∈ l → b ∈ l → f a = f b → a = b := by
  induction l with
  | nil => intro a b ha; cases ha
  | cons x xs ih =>
    intro a b ha hb hab
    simp only [List.map_cons, List.nodup_cons] at h
    obtain ⟨hx, hxs⟩ := h
    simp only [List.mem_cons] at ha hb
    rcases ha with rfl | ha <;> rcases hb with rfl | hb
    · rfl
    · exfalso; apply hx; rw [hab]; exact List.mem_map_of_mem hb
    · exfalso; apply hx; rw [← hab]; exact List.mem_map_of_mem ha
    · exact ih hxs a b ha hb hab

theorem setDictionary_calls_wf (trim : Bytes → Bytes) (calls : List (List (Bytes × Nat))) :
    ∀ (d0 : Dict), DictWF d0 → (∀ es ∈ calls, ∀ e ∈ es, e.2 < 65536) →
    DictWF (calls.foldl (fun d es => (setDictionary trim d es).1) d0) := by
  induction calls with
  | nil => intro d0 h0 _; simpa using h0
  | cons es rest ih =>
    intro d0 h0 hc
    simp only [List.foldl_cons]
    exact ih _ (setDictionary_wf trim es d0 h0 (hc es (by simp))) (fun es' hes => hc es' (by simp [hes]))

/-- in a well-formed dictionary the two maps are mutually inverse -/
theorem dict_routes_codes (d : Dict) (hw : DictWF d) (r : Bytes) (c : Nat) (h : d.routes r = some c) :
    d.codes c = some r ∧ c < 65536 := by
  obtain ⟨w1, w2, w3⟩ := hw
  unfold Dict.routes at h
  cases hf : d.find? (fun e => e.1 == r) with
  | none => simp [hf] at h
  | some e =>
    simp [hf] at h
    have hm := List.mem_of_find?_eq_some hf
    have hr : e.1 = r := by simpa using List.find?_some hf
    subst h
    refine ⟨?_, w3 e hm⟩
    unfold Dict.codes
    cases hg : d.find? (fun x => x.2 == e.2) with
    | none =>
      have := List.find?_eq_none.mp hg e hm
      simp at this
    | some e' =>
      have hm' := List.mem_of_find?_eq_some hg
      have hc' : e'.2 = e.2 := by simpa using List.find?_some hg
      -- codes are pairwise different, so e' = e
      have : e' = e := nodup_map_inj d (·.2) w2 e' e hm' hm hc'
      subst this
      simp [hr]

end Cell2v.Codec

namespace Cell2v.Codec

/-! ## `trimWs` (model of `strings.TrimSpace` on the generator's blanks) and the result window -/
theorem dropWhile_head_not (p : Nat → Bool) (l : Bytes) (b : Nat) (h : (l.dropWhile p).head? = some b) : p b = false := by
  induction l with
  | nil => simp at h
  | cons x xs ih =>
    simp only [List.dropWhile_cons] at h
    split at h
    · exact ih h
    · rename_i hx
      simp at h; subst h; simpa using hx

theorem dropWhile_eq_self (p : Nat → Bool) (l : Bytes) (h : ∀ b, l.head? = some b → p b = false) : l.dropWhile p = l := by
  cases l with
  | nil => rfl
  | cons x xs =>
    have := h x (by simp)
    simp [this]

theorem trimRight_split (l : Bytes) : l = trimRight l ++ (l.reverse.takeWhile isBlank).reverse := by
  unfold trimRight
  rw [← List.reverse_append, List.takeWhile_append_dropWhile, List.reverse_reverse]

theorem trimRight_last_not (l : Bytes) (b : Nat) (h : (trimRight l).getLast? = some b) : isBlank b = false := by
  unfold trimRight at h
  rw [List.getLast?_reverse] at h
  exact dropWhile_head_not _ _ _ h

theorem trimRight_cons_keep (x : Nat) (l : Bytes) (hx : isBlank x = false) : trimRight (x :: l) = x :: trimRight l := by
  unfold trimRight
  rw [List.reverse_cons, List.dropWhile_append]
  split
  · rename_i h
    have := List.isEmpty_iff.mp h
    simp [this, hx]
  · simp

theorem trimRight_eq_self (l : Bytes) (h : ∀ b, l.getLast? = some b → isBlank b = false) : trimRight l = l := by
  unfold trimRight
  rw [dropWhile_eq_self _ _ (by intro b hb; rw [List.head?_reverse] at hb; exact h b hb), List.reverse_reverse]

theorem trimWs_head_not (bs : Bytes) (b : Nat) (h : (trimWs bs).head? = some b) : isBlank b = false := by
  unfold trimWs at h
  match hd : bs.dropWhile isBlank with
  | [] => rw [hd] at h; simp [trimRight] at h
  | x :: l =>
    have hx : isBlank x = false := dropWhile_head_not isBlank bs x (by rw [hd]; rfl)
    rw [hd, trimRight_cons_keep x l hx] at h
    simp at h; subst h; exact hx

theorem trimWs_last_not (bs : Bytes) (b : Nat) (h : (trimWs bs).getLast? = some b) : isBlank b = false :=
  trimRight_last_not _ b h

theorem trimWs_eq_self (bs : Bytes) (h1 : ∀ b, bs.head? = some b → isBlank b = false)
    (h2 : ∀ b, bs.getLast? = some b → isBlank b = false) : trimWs bs = bs := by
  unfold trimWs
  rw [dropWhile_eq_self _ _ h1, trimRight_eq_self _ h2]

theorem trimWs_idem (bs : Bytes) : trimWs (trimWs bs) = trimWs bs :=
  trimWs_eq_self _ (trimWs_head_not bs) (trimWs_last_not bs)

theorem mem_takeWhile_p (p : Nat → Bool) (l : Bytes) (b : Nat) (h : b ∈ l.takeWhile p) : p b = true := by
  induction l with
  | nil => simp at h
  | cons x xs ih =>
    simp only [List.takeWhile_cons] at h
    split at h
    · rename_i hx
      simp only [List.mem_cons] at h
      rcases h with rfl | h
      · exact hx
      · exact ih h
    · simp at h

theorem trimWs_split (bs : Bytes) : ∃ pre post, bs = pre ++ trimWs bs ++ post ∧
    (∀ b ∈ pre, isBlank b = true) ∧ (∀ b ∈ post, isBlank b = true) := by
  refine ⟨bs.takeWhile isBlank, ((bs.dropWhile isBlank).reverse.takeWhile isBlank).reverse, ?_, ?_, ?_⟩
  · unfold trimWs
    rw [List.append_assoc, ← trimRight_split, List.takeWhile_append_dropWhile]
  · intro b hb; exact mem_takeWhile_p _ _ _ hb
  · intro b hb; rw [List.mem_reverse] at hb; exact mem_takeWhile_p _ _ _ hb

/-! window -/
theorem winPush_get {α : Type} (w : List α) (x : α) (i : Nat) (hi : i + 1 < winCap) :
    (winPush w x)[i + 1]? = w[i]? := by
  unfold winPush
  rw [List.getElem?_take]
  simp [hi]

theorem winPush_head {α : Type} (w : List α) (x : α) : (winPush w x)[0]? = some x := by
  simp [winPush, winCap]

theorem window_stable {α : Type} (xs : List α) : ∀ (w : List α) (r : α) (i : Nat), w[i]? = some r → i + xs.length < winCap →
    (xs.foldl winPush w)[i + xs.length]? = some r := by
  induction xs with
  | nil => intro w r i h _; simpa using h
  | cons x xs ih =>
    intro w r i h hl
    simp only [List.foldl_cons, List.length_cons] at *
    have := ih (winPush w x) r (i + 1) (by rw [winPush_get w x i (by omega)]; exact h) (by omega)
    rw [show i + (xs.length + 1) = i + 1 + xs.length by omega]
    exact this

end Cell2v.Codec

namespace Cell2v.Codec

/-! ## `SetDictionary`: entries are stored under the trimmed key; duplicate-free calls are order independent -/

theorem routes_append (d e : Dict) (x : Bytes) : (d ++ e).routes x = (d.routes x).or (e.routes x) := by
  unfold Dict.routes
  rw [List.find?_append]
  cases d.find? (fun e => e.1 == x) <;> simp

theorem codes_append (d e : Dict) (x : Nat) : (d ++ e).codes x = (d.codes x).or (e.codes x) := by
  unfold Dict.codes
  rw [List.find?_append]
  cases d.find? (fun e => e.2 == x) <;> simp

theorem routes_none_any (d : Dict) (r : Bytes) (h : d.routes r = none) : d.any (fun e => e.1 == r) = false := by
  unfold Dict.routes at h
  simp only [Option.map_eq_none_iff, List.find?_eq_none] at h
  rw [List.any_eq_false]
  exact h

theorem codes_none_any (d : Dict) (c : Nat) (h : d.codes c = none) : d.any (fun e => e.2 == c) = false := by
  unfold Dict.codes at h
  simp only [Option.map_eq_none_iff, List.find?_eq_none] at h
  rw [List.any_eq_false]
  exact h

theorem any_routes_none (d : Dict) (r : Bytes) (h : d.any (fun e => e.1 == r) = false) : d.routes r = none := by
  unfold Dict.routes
  rw [List.any_eq_false] at h
  simp only [Option.map_eq_none_iff, List.find?_eq_none]
  exact h

theorem any_codes_none (d : Dict) (c : Nat) (h : d.any (fun e => e.2 == c) = false) : d.codes c = none := by
  unfold Dict.codes
  rw [List.any_eq_false] at h
  simp only [Option.map_eq_none_iff, List.find?_eq_none]
  exact h

theorem add1_some_iff (d d' : Dict) (r : Bytes) (c : Nat) :
    d.add1 r c = some d' ↔ (d.routes r = none ∧ d.codes c = none ∧ d' = d ++ [(r, c)]) := by
  unfold Dict.add1
  constructor
  · intro h
    split at h
    · cases h
    · split at h
      · cases h
      · rename_i h1 h2
        cases h
        exact ⟨any_routes_none d r (Bool.eq_false_iff.mpr h1), any_codes_none d c (Bool.eq_false_iff.mpr h2), rfl⟩
  · intro ⟨h1, h2, h3⟩
    rw [routes_none_any d r h1, codes_none_any d c h2, h3]
    simp

theorem single_routes (r x : Bytes) (c : Nat) : Dict.routes [(r, c)] x = if r = x then some c else none := by
  unfold Dict.routes
  by_cases h : r = x <;> simp [h]

theorem single_codes (r : Bytes) (c x : Nat) : Dict.codes [(r, c)] x = if c = x then some r else none := by
  unfold Dict.codes
  by_cases h : c = x <;> simp [h]

/-- a `SetDictionary` call that ran to the end: every entry is stored under its TRIMMED
key in both maps, and nothing that was there before changed -/
theorem setDictionary_stores (trim : Bytes → Bytes) (es : List (Bytes × Nat)) : ∀ (d d' : Dict),
    setDictionary trim d es = (d', true) →
    (∀ x c, d.routes x = some c → d'.routes x = some c) ∧
    (∀ c x, d.codes c = some x → d'.codes c = some x) ∧
    (∀ e ∈ es, d'.routes (trim e.1) = some e.2 ∧ d'.codes e.2 = some (trim e.1)) := by
  induction es with
  | nil =>
    intro d d' h
    simp only [setDictionary, Prod.mk.injEq, and_true] at h
    subst h
    exact ⟨fun _ _ h => h, fun _ _ h => h, by simp⟩
  | cons e es ih =>
    intro d d' h
    obtain ⟨r, c⟩ := e
    simp only [setDictionary] at h
    cases h1 : d.add1 (trim r) c with
    | none => rw [h1] at h; simp at h
    | some d1 =>
      rw [h1] at h
      simp only at h
      obtain ⟨p1, p2, p3⟩ := ih d1 d' h
      obtain ⟨n1, n2, rfl⟩ := (add1_some_iff d d1 (trim r) c).mp h1
      have k1 : ∀ x c', d.routes x = some c' → (d ++ [(trim r, c)]).routes x = some c' := by
        intro x c' hx; rw [routes_append, hx]; rfl
      have k2 : ∀ c' x, d.codes c' = some x → (d ++ [(trim r, c)]).codes c' = some x := by
        intro c' x hx; rw [codes_append, hx]; rfl
      refine ⟨fun x c' hx => p1 x c' (k1 x c' hx), fun c' x hx => p2 c' x (k2 c' x hx), ?_⟩
      intro e he
      simp only [List.mem_cons] at he
      rcases he with rfl | he
      · constructor
        · apply p1; rw [routes_append, n1, single_routes]; simp
        · apply p2; rw [codes_append, n2, single_codes]; simp
      · exact p3 e he

/-! order independence -/

/-- the call `X` (keys already trimmed) has no duplicate, neither inside nor against `d` -/
def FreshFor (d : Dict) (X : Dict) : Prop :=
  (X.map (·.1)).Nodup ∧ (X.map (·.2)).Nodup ∧ ∀ e ∈ X, d.routes e.1 = none ∧ d.codes e.2 = none

def trimmed (trim : Bytes → Bytes) (es : List (Bytes × Nat)) : Dict := es.map (fun e => (trim e.1, e.2))

theorem setDictionary_fresh (trim : Bytes → Bytes) (es : List (Bytes × Nat)) : ∀ (d : Dict),
    FreshFor d (trimmed trim es) → setDictionary trim d es = (d ++ trimmed trim es, true) := by
  induction es with
  | nil => intro d _; simp [setDictionary, trimmed]
  | cons e es ih =>
    intro d hf
    obtain ⟨r, c⟩ := e
    obtain ⟨f1, f2, f3⟩ := hf
    simp only [trimmed, List.map_cons, List.nodup_cons, List.map_map] at f1 f2
    have ⟨n1, n2⟩ := f3 (trim r, c) (by simp [trimmed])
    simp only at n1 n2
    have h1 : d.add1 (trim r) c = some (d ++ [(trim r, c)]) := (add1_some_iff _ _ _ _).mpr ⟨n1, n2, rfl⟩
    simp only [setDictionary, h1]
    rw [ih (d ++ [(trim r, c)])]
    · simp [trimmed]
    · refine ⟨by simpa [trimmed] using f1.2, by simpa [trimmed] using f2.2, ?_⟩
      intro e he
      have ⟨m1, m2⟩ := f3 e (by simp only [trimmed, List.map_cons, List.mem_cons]; right; exact he)
      constructor
      · rw [routes_append, m1, single_routes]
        have : trim r ≠ e.1 := by
          intro hh; apply f1.1
          simp only [trimmed, List.mem_map] at he ⊢
          obtain ⟨a, ha, rfl⟩ := he
          exact ⟨a, ha, by simpa using hh.symm⟩
        simp [this]
      · rw [codes_append, m2, single_codes]
        have : c ≠ e.2 := by
          intro hh; apply f2.1
          simp only [trimmed, List.mem_map] at he ⊢
          obtain ⟨a, ha, rfl⟩ := he
          exact ⟨a, ha, by simpa using hh.symm⟩
        simp [this]


theorem routes_mem_iff (X : Dict) (h : (X.map (·.1)).Nodup) (x : Bytes) (c : Nat) :
    X.routes x = some c ↔ (x, c) ∈ X := by
  induction X with
  | nil => simp [Dict.routes]
  | cons e X ih =>
    obtain ⟨k, v⟩ := e
    simp only [List.map_cons, List.nodup_cons] at h
    have hh := routes_append [(k, v)] X x
    simp only [List.singleton_append] at hh
    rw [hh, single_routes]
    by_cases hk : k = x
    · subst hk
      rw [if_pos rfl, show (some v).or (Dict.routes X k) = some v from rfl]
      simp only [Option.some.injEq, List.mem_cons, Prod.mk.injEq, true_and]
      constructor
      · intro h'; left; exact h'.symm
      · intro h'
        rcases h' with h' | h'
        · exact h'.symm
        · exfalso; apply h.1; exact List.mem_map.mpr ⟨(k, c), h', rfl⟩
    · simp only [hk, ↓reduceIte, Option.none_or, List.mem_cons, Prod.mk.injEq]
      rw [ih h.2]
      constructor
      · intro h'; right; exact h'
      · intro h'
        rcases h' with h' | h'
        · exact absurd h'.1.symm hk
        · exact h'

theorem codes_mem_iff (X : Dict) (h : (X.map (·.2)).Nodup) (c : Nat) (x : Bytes) :
    X.codes c = some x ↔ (x, c) ∈ X := by
  induction X with
  | nil => simp [Dict.codes]
  | cons e X ih =>
    obtain ⟨k, v⟩ := e
    simp only [List.map_cons, List.nodup_cons] at h
    have hh := codes_append [(k, v)] X c
    simp only [List.singleton_append] at hh
    rw [hh, single_codes]
    by_cases hk : v = c
    · subst hk
      rw [if_pos rfl, show (some k).or (Dict.codes X v) = some k from rfl]
      simp only [Option.some.injEq, List.mem_cons, Prod.mk.injEq, and_true]
      constructor
      · intro h'; left; exact h'.symm
      · intro h'
        rcases h' with h' | h'
        · exact h'.symm
        · exfalso; apply h.1; exact List.mem_map.mpr ⟨(x, v), h', rfl⟩
    · simp only [hk, ↓reduceIte, Option.none_or, List.mem_cons, Prod.mk.injEq]
      rw [ih h.2]
      constructor
      · intro h'; right; exact h'
      · intro h'
        rcases h' with h' | h'
        · exact absurd h'.2.symm hk
        · exact h'

theorem option_ext_some {α : Type} (a b : Option α) (h : ∀ x, a = some x ↔ b = some x) : a = b := by
  cases a with
  | none =>
    cases b with
    | none => rfl
    | some y => exact absurd ((h y).mpr rfl) (by simp)
  | some x => exact ((h x).mp rfl).symm

theorem freshFor_perm (d X X' : Dict) (hp : X.Perm X') (h : FreshFor d X) : FreshFor d X' := by
  obtain ⟨h1, h2, h3⟩ := h
  exact ⟨(hp.map _).nodup_iff.mp h1, (hp.map _).nodup_iff.mp h2, fun e he => h3 e (hp.mem_iff.mpr he)⟩

theorem lookups_perm (X X' : Dict) (hp : X.Perm X') (h1 : (X.map (·.1)).Nodup) (h2 : (X.map (·.2)).Nodup) :
    (∀ x, X.routes x = X'.routes x) ∧ (∀ c, X.codes c = X'.codes c) := by
  have h1' := (hp.map (·.1)).nodup_iff.mp h1
  have h2' := (hp.map (·.2)).nodup_iff.mp h2
  constructor
  · intro x; apply option_ext_some; intro c
    rw [routes_mem_iff X h1, routes_mem_iff X' h1', hp.mem_iff]
  · intro c; apply option_ext_some; intro x
    rw [codes_mem_iff X h2, codes_mem_iff X' h2', hp.mem_iff]

/-- converse of `setDictionary_fresh`: a call that ran to the end had no duplicate -/
theorem setDictionary_true_fresh (trim : Bytes → Bytes) (es : List (Bytes × Nat)) : ∀ (d d' : Dict),
    setDictionary trim d es = (d', true) → FreshFor d (trimmed trim es) := by
  induction es with
  | nil => intro d d' _; simp [FreshFor, trimmed]
  | cons e es ih =>
    intro d d' h
    obtain ⟨r, c⟩ := e
    simp only [setDictionary] at h
    cases h1 : d.add1 (trim r) c with
    | none => rw [h1] at h; simp at h
    | some d1 =>
      rw [h1] at h
      simp only at h
      obtain ⟨n1, n2, rfl⟩ := (add1_some_iff d d1 (trim r) c).mp h1
      obtain ⟨f1, f2, f3⟩ := ih _ d' h
      -- entries of the rest are absent from d ++ [(trim r, c)], hence from d and different from (trim r, c)
      have sep : ∀ e ∈ trimmed trim es, d.routes e.1 = none ∧ d.codes e.2 = none ∧ trim r ≠ e.1 ∧ c ≠ e.2 := by
        intro e he
        have ⟨a, b⟩ := f3 e he
        rw [routes_append, single_routes] at a
        rw [codes_append, single_codes] at b
        refine ⟨?_, ?_, ?_, ?_⟩
        · cases hd : d.routes e.1 with
          | none => rfl
          | some v => rw [hd] at a; simp at a
        · cases hd : d.codes e.2 with
          | none => rfl
          | some v => rw [hd] at b; simp at b
        · intro hh; rw [if_pos hh] at a; cases hd : d.routes e.1 <;> rw [hd] at a <;> simp at a
        · intro hh; rw [if_pos hh] at b; cases hd : d.codes e.2 <;> rw [hd] at b <;> simp at b
      refine ⟨?_, ?_, ?_⟩
      · simp only [trimmed, List.map_cons, List.nodup_cons]
        refine ⟨?_, f1⟩
        intro hm
        obtain ⟨e, he, heq⟩ := List.mem_map.mp hm
        exact (sep e he).2.2.1 heq.symm
      · simp only [trimmed, List.map_cons, List.nodup_cons]
        refine ⟨?_, f2⟩
        intro hm
        obtain ⟨e, he, heq⟩ := List.mem_map.mp hm
        exact (sep e he).2.2.2 heq.symm
      · intro e he
        simp only [trimmed, List.map_cons, List.mem_cons] at he
        rcases he with rfl | he
        · exact ⟨n1, n2⟩
        · exact ⟨(sep e he).1, (sep e he).2.1⟩

end Cell2v.Codec

namespace Cell2v.Codec

/-! ## stream reassembly (`GetNextMessage`) does not depend on the fragmentation -/

theorem readN_flatten : ∀ (fs : List Bytes) (n : Nat),
    (readN fs n).1 = fs.flatten.take n ∧ (readN fs n).2.flatten = fs.flatten.drop n := by
  intro fs
  induction fs with
  | nil => intro n; simp [readN]
  | cons f fs ih =>
    intro n
    unfold readN
    split
    · rename_i h; subst h; simp
    · split
      · rename_i h0 hle
        obtain ⟨i1, i2⟩ := ih (n - f.length)
        simp only [List.flatten_cons]
        rw [i1, i2, List.take_append, List.drop_append, List.take_of_length_le hle, List.drop_eq_nil_of_le hle]
        simp
      · rename_i h0 hgt
        have hlt : n ≤ f.length := by omega
        simp only [List.flatten_cons]
        rw [List.take_append_of_le_length hlt, List.drop_append_of_le_length hlt]
        simp

theorem getNextMessageF_flatten (fs : List Bytes) :
    (getNextMessageF fs).1 = (getNextMessage fs.flatten).1 ∧
    (getNextMessageF fs).2.flatten = (getNextMessage fs.flatten).2 := by
  unfold getNextMessageF getNextMessage
  obtain ⟨h1, h2⟩ := readN_flatten fs 4
  simp only
  rw [h1]
  split
  · exact ⟨rfl, h2⟩
  · cases hp : parseHeader (List.take 4 fs.flatten) with
    | error e => exact ⟨rfl, h2⟩
    | ok v =>
      obtain ⟨size, t⟩ := v
      obtain ⟨b1, b2⟩ := readN_flatten (readN fs 4).2 size
      simp only
      rw [b1, h2]
      rw [h2] at b2
      by_cases hc : (List.take size (List.drop 4 fs.flatten)).length < size
      · rw [if_pos hc, if_pos hc]; exact ⟨rfl, b2⟩
      · rw [if_neg hc, if_neg hc]; exact ⟨rfl, b2⟩

theorem readStreamF_flatten : ∀ (fuel : Nat) (fs : List Bytes), readStreamF fuel fs = readStream fuel fs.flatten := by
  intro fuel
  induction fuel with
  | zero => intro fs; rfl
  | succ k ih =>
    intro fs
    obtain ⟨g1, g2⟩ := getNextMessageF_flatten fs
    unfold readStreamF readStream
    rcases hF : getNextMessageF fs with ⟨o, rest⟩
    rcases hS : getNextMessage fs.flatten with ⟨o', rest'⟩
    rw [hF, hS] at g1 g2
    simp only at g1 g2
    subst g1
    cases o with
    | msg m => simp only; rw [ih rest, g2]
    | closed => rfl
    | err => rfl


theorem parseHeader_ok_length (h : Bytes) (v : Nat × Nat) (hp : parseHeader h = .ok v) : h.length = 4 := by
  unfold parseHeader at hp
  split at hp
  · rfl
  · cases hp

theorem getNextMessage_msg_shrinks (s m rest : Bytes) (h : getNextMessage s = (.msg m, rest)) :
    rest.length + 4 ≤ s.length := by
  unfold getNextMessage at h
  simp only at h
  split at h
  · cases h
  · cases hp : parseHeader (List.take 4 s) with
    | error e => rw [hp] at h; cases h
    | ok v =>
      rw [hp] at h
      obtain ⟨size, t⟩ := v
      have h4 := parseHeader_ok_length _ _ hp
      simp only at h
      split at h
      · cases h
      · simp only [Prod.mk.injEq] at h
        obtain ⟨_, hr⟩ := h
        subst hr
        simp only [List.length_take] at h4
        simp only [List.length_drop]
        omega

theorem readStream_fuel_enough : ∀ (fuel : Nat) (s : Bytes), s.length < fuel → (readStream fuel s).2 ≠ .fuel := by
  intro fuel
  induction fuel with
  | zero => intro s h; omega
  | succ k ih =>
    intro s hl
    unfold readStream
    rcases hS : getNextMessage s with ⟨o, rest⟩
    cases o with
    | msg m =>
      simp only
      exact ih rest (by have := getNextMessage_msg_shrinks s m rest hS; omega)
    | closed => simp
    | err => simp

theorem getNextMessage_frame (p : Packet) (hv : p.Valid) (rest : Bytes) :
    getNextMessage (frameBytes p ++ rest) = (.msg (frameBytes p), rest) := by
  obtain ⟨h1, h2, h3⟩ := hv
  unfold getNextMessage
  simp only
  rw [frameBytes_take4, frameBytes_drop4, parseHeader_frame _ _ h1 h2 h3]
  have hl : ¬ ((p.typ :: intToBytes p.body.length).length = 0) := by simp [intToBytes]
  rw [if_neg hl]
  simp only [List.take_left', List.drop_left']
  have : ¬ (p.body.length < p.body.length) := by omega
  rw [if_neg this]
  rfl

theorem readStream_frames (ps : List Packet) : ∀ (fuel : Nat), (∀ p ∈ ps, p.Valid) → ps.length < fuel →
    readStream fuel (ps.flatMap frameBytes) = (ps.map frameBytes, .closed) := by
  induction ps with
  | nil =>
    intro fuel _ hf
    cases fuel with
    | zero => omega
    | succ k => simp [readStream, getNextMessage]
  | cons p ps ih =>
    intro fuel hv hf
    cases fuel with
    | zero => omega
    | succ k =>
      simp only [List.flatMap_cons, List.map_cons]
      unfold readStream
      rw [getNextMessage_frame p (hv p (by simp))]
      simp only
      rw [ih k (fun q hq => hv q (by simp [hq])) (by simp at hf; omega)]

end Cell2v.Codec

namespace Cell2v.Codec

/-- the bytes `Client.readPackets` drops for the packets of whole frames = the length of those frames -/
theorem packetsLen_frames (ps : List Packet) : packetsLen ps = (ps.flatMap frameBytes).length := by
  induction ps with
  | nil => simp [packetsLen]
  | cons p ps ih =>
    simp only [packetsLen, List.map_cons, List.sum_cons, List.flatMap_cons, List.length_append, frameBytes_length] at *
    omega

theorem decodePackets_frames (ps : List Packet) (hv : ∀ p ∈ ps, p.Valid) :
    decodePackets (ps.flatMap frameBytes) = .ok ps := by
  cases ps with
  | nil => simp [decodePackets]
  | cons p ps =>
    obtain ⟨h1, h2, h3⟩ := hv p (by simp)
    unfold decodePackets
    have hl : ¬ (((p :: ps).flatMap frameBytes).length < 4) := by
      simp only [List.flatMap_cons, List.length_append, frameBytes_length]; omega
    rw [if_neg hl]
    simp only [List.flatMap_cons]
    rw [frameBytes_take4, parseHeader_frame _ _ h1 h2 h3, frameBytes_drop4]
    exact decLoop_frames ps p (fun q hq => hv q (by simp [hq]))

/-- a read that brings whole frames into an empty buffer returns exactly their packets and leaves the buffer empty -/
theorem clientRead_frames (ps : List Packet) (hv : ∀ p ∈ ps, p.Valid) :
    clientRead [] (ps.flatMap frameBytes) = ([], ps) := by
  unfold clientRead
  simp only [List.nil_append]
  rw [decodePackets_frames ps hv]
  simp only [packetsLen_frames, List.drop_length]

end Cell2v.Codec

namespace Cell2v.Codec

/-- the packet decoder on a valid frame followed by ANY bytes: the frame's packet in front of whatever the rest decodes to -/
theorem decodePackets_frame_append (p : Packet) (hv : p.Valid) (b' : Bytes) :
    decodePackets (frameBytes p ++ b') =
      (match decodePackets b' with | .ok qs => .ok (p :: qs) | .error e => .error e) := by
  obtain ⟨h1, h2, h3⟩ := hv
  have hl : ¬ ((frameBytes p ++ b').length < 4) := by
    rw [List.length_append, frameBytes_length]; omega
  conv => lhs; unfold decodePackets
  rw [if_neg hl, frameBytes_take4, parseHeader_frame _ _ h1 h2 h3, frameBytes_drop4]
  simp only
  rw [decLoop]
  have hle : p.body.length ≤ (p.body ++ b').length := by simp
  rw [if_pos hle]
  have hdrop : (p.body ++ b').drop p.body.length = b' := by simp
  have htake : (p.body ++ b').take p.body.length = p.body := by simp
  rw [hdrop, htake]
  by_cases hb : b'.length < 4
  · rw [if_pos hb]
    unfold decodePackets
    rw [if_pos hb]
  · rw [if_neg hb]
    conv => rhs; unfold decodePackets
    rw [if_neg hb]
    cases hp : parseHeader (b'.take 4) with
    | error e => rfl
    | ok v =>
      obtain ⟨s', t'⟩ := v
      simp only
      cases decLoop s' t' (b'.drop 4) <;> rfl

/-- a strict prefix of one valid frame decodes to no packet (and no error) -/
theorem decodePackets_strict_prefix (p : Packet) (hv : p.Valid) (b tail : Bytes)
    (hb : b ++ tail = frameBytes p ++ rest) (hlt : b.length < 4 + p.body.length) :
    decodePackets b = .ok [] := by
  obtain ⟨h1, h2, h3⟩ := hv
  unfold decodePackets
  by_cases h4 : b.length < 4
  · rw [if_pos h4]
  · rw [if_neg h4]
    have ht : b.take 4 = p.typ :: intToBytes p.body.length := by
      have := congrArg (List.take 4) hb
      rw [List.take_append_of_le_length (by omega), frameBytes_take4] at this
      exact this
    rw [ht, parseHeader_frame _ _ h1 h2 h3]
    simp only
    rw [decLoop]
    have : ¬ (p.body.length ≤ (b.drop 4).length) := by
      rw [List.length_drop]; omega
    rw [if_neg this]

/-- **prefix decoding**: every prefix `b` of a stream of valid frames decodes to the packets of the frames that are
complete in it; what is left after them is a strict prefix of the next frame (empty when there is none) -/
theorem decodePackets_prefix (ps : List Packet) : ∀ (b tail : Bytes), (∀ p ∈ ps, p.Valid) →
    b ++ tail = ps.flatMap frameBytes →
    ∃ qs rs rest', ps = qs ++ rs ∧ decodePackets b = .ok qs ∧ b = qs.flatMap frameBytes ++ rest' ∧
      rest' ++ tail = rs.flatMap frameBytes ∧ (∀ p rs', rs = p :: rs' → rest'.length < 4 + p.body.length) ∧
      (rs = [] → rest' = []) := by
  induction ps with
  | nil =>
    intro b tail _ hb
    simp only [List.flatMap_nil, List.append_eq_nil_iff] at hb
    obtain ⟨rfl, rfl⟩ := hb
    exact ⟨[], [], [], rfl, by simp [decodePackets], by simp, by simp, (fun p rs' h => by cases h), fun _ => rfl⟩
  | cons p ps ih =>
    intro b tail hv hb
    have hpv : p.Valid := hv p (by simp)
    simp only [List.flatMap_cons] at hb
    by_cases hlt : b.length < 4 + p.body.length
    · refine ⟨[], p :: ps, b, rfl, decodePackets_strict_prefix (rest := ps.flatMap frameBytes) p hpv b tail hb hlt, by simp, ?_, ?_, ?_⟩
      · simpa using hb
      · intro q rs' h
        cases h
        exact hlt
      · intro h; cases h
    · have hn : (frameBytes p).length ≤ b.length := by rw [frameBytes_length]; omega
      have e1 : b.take (frameBytes p).length = frameBytes p := by
        have := congrArg (List.take (frameBytes p).length) hb
        rw [List.take_append_of_le_length hn, List.take_left' rfl] at this
        exact this
      have e2 : b.drop (frameBytes p).length ++ tail = ps.flatMap frameBytes := by
        have := congrArg (List.drop (frameBytes p).length) hb
        rw [List.drop_append_of_le_length hn, List.drop_left' rfl] at this
        exact this
      have eb : b = frameBytes p ++ b.drop (frameBytes p).length := by
        conv => lhs; rw [← List.take_append_drop (frameBytes p).length b, e1]
      obtain ⟨qs, rs, rest', hps, hd, hbb, hrest, hstrict, hnil⟩ :=
        ih (b.drop (frameBytes p).length) tail (fun q hq => hv q (by simp [hq])) e2
      refine ⟨p :: qs, rs, rest', by simp [hps], ?_, ?_, hrest, hstrict, hnil⟩
      · rw [eb, decodePackets_frame_append p hpv, hd]
      · conv => lhs; rw [eb, hbb]
        simp

/-- one `readPackets` round on a buffer that is a strict prefix of the next frame -/
theorem clientReadLoop_frames (fs : List Bytes) : ∀ (buf : Bytes) (ps : List Packet), (∀ p ∈ ps, p.Valid) →
    buf ++ fs.flatten = ps.flatMap frameBytes →
    (∀ p ps', ps = p :: ps' → buf.length < 4 + p.body.length) → (ps = [] → buf = []) →
    clientReadLoop buf fs = ps := by
  induction fs with
  | nil =>
    intro buf ps _ hb hstrict _
    cases ps with
    | nil => rfl
    | cons p ps' =>
      exfalso
      have h1 := hstrict p ps' rfl
      have h2 := congrArg List.length hb
      simp only [List.flatten_nil, List.append_nil, List.flatMap_cons, List.length_append, frameBytes_length] at h2
      omega
  | cons f fs ih =>
    intro buf ps hv hb hstrict hnil
    have hb' : (buf ++ f) ++ fs.flatten = ps.flatMap frameBytes := by
      simpa [List.append_assoc] using hb
    obtain ⟨qs, rs, rest', hps, hd, hbb, hrest, hs', hn'⟩ := decodePackets_prefix ps (buf ++ f) fs.flatten hv hb'
    have hvr : ∀ p ∈ rs, p.Valid := fun q hq => hv q (by rw [hps]; simp [hq])
    unfold clientReadLoop
    have hr : clientRead buf f = (rest', qs) := by
      unfold clientRead
      simp only
      rw [hd]
      simp only
      rw [packetsLen_frames]
      conv => lhs; arg 1; rw [hbb]
      simp
    rw [hr]
    simp only
    rw [ih rest' rs hvr hrest hs' hn', hps]

end Cell2v.Codec

namespace Cell2v.Codec

/-- references and packets agree: same error, or the references read (on `data`) as the packets -/
def RefsAgree (data : Bytes) : Except PErr (List PRef) → Except PErr (List Packet) → Prop
  | .ok rs, .ok ps => rs.map (fun r => r.on data) = ps
  | .error e, .error e' => e = e'
  | _, _ => False

theorem decRefLoop_agree (id : Nat) (data : Bytes) : ∀ (n off size typ : Nat), data.length - off ≤ n → off ≤ data.length →
    RefsAgree data (decRefLoop id size typ data off) (decLoop size typ (data.drop off)) := by
  intro n
  induction n with
  | zero =>
    intro off size typ hn ho
    rw [decRefLoop, decLoop]
    have hl : (data.drop off).length = 0 := by rw [List.length_drop]; omega
    by_cases hs : size ≤ data.length - off
    · have hs' : size ≤ (data.drop off).length := by rw [List.length_drop]; exact hs
      rw [if_pos hs, if_pos hs']
      have h1 : data.length - (off + size) < 4 := by omega
      have h2 : ((data.drop off).drop size).length < 4 := by simp only [List.length_drop]; omega
      rw [if_pos h1, if_pos h2]
      simp [RefsAgree, PRef.on]
    · have hs' : ¬ size ≤ (data.drop off).length := by rw [List.length_drop]; exact hs
      rw [if_neg hs, if_neg hs']
      simp [RefsAgree]
  | succ n ih =>
    intro off size typ hn ho
    rw [decRefLoop, decLoop]
    by_cases hs : size ≤ data.length - off
    · have hs' : size ≤ (data.drop off).length := by rw [List.length_drop]; exact hs
      rw [if_pos hs, if_pos hs']
      have hdd : (data.drop off).drop size = data.drop (off + size) := by rw [List.drop_drop]
      rw [hdd]
      by_cases h4 : data.length - (off + size) < 4
      · have h4' : (data.drop (off + size)).length < 4 := by rw [List.length_drop]; exact h4
        rw [if_pos h4, if_pos h4']
        simp [RefsAgree, PRef.on]
      · have h4' : ¬ (data.drop (off + size)).length < 4 := by rw [List.length_drop]; exact h4
        rw [if_neg h4, if_neg h4']
        cases hp : parseHeader ((data.drop (off + size)).take 4) with
        | error e => simp [RefsAgree]
        | ok v =>
          obtain ⟨s', t'⟩ := v
          simp only
          have hd4 : (data.drop (off + size)).drop 4 = data.drop (off + size + 4) := by rw [List.drop_drop]
          rw [hd4]
          have := ih (off + size + 4) s' t' (by omega) (by omega)
          revert this
          cases decRefLoop id s' t' data (off + size + 4) <;> cases decLoop s' t' (data.drop (off + size + 4)) <;>
            simp [RefsAgree, PRef.on]
    · have hs' : ¬ size ≤ (data.drop off).length := by rw [List.length_drop]; exact hs
      rw [if_neg hs, if_neg hs']
      simp [RefsAgree]

/-- the slices `Decode` returns read, on its private copy, as exactly the packets of the pure decoder -/
theorem decodeRefs_agree (id : Nat) (data : Bytes) : RefsAgree data (decodeRefs id data) (decodePackets data) := by
  unfold decodeRefs decodePackets
  by_cases h : data.length < 4
  · simp [h, RefsAgree]
  · rw [if_neg h, if_neg h]
    cases hp : parseHeader (data.take 4) with
    | error e => simp [RefsAgree]
    | ok v =>
      obtain ⟨s, t⟩ := v
      simp only
      exact decRefLoop_agree id data data.length 4 s t (by omega) (by omega)

theorem decRefLoop_buf (id : Nat) (data : Bytes) : ∀ (n off size typ : Nat), data.length - off ≤ n →
    ∀ rs, decRefLoop id size typ data off = .ok rs → ∀ r ∈ rs, r.buf = id := by
  intro n
  induction n with
  | zero =>
    intro off size typ hn rs h r hr
    rw [decRefLoop] at h
    split at h
    · split at h
      · cases h; simp at hr; rw [hr]
      · omega
    · cases h; simp at hr
  | succ n ih =>
    intro off size typ hn rs h r hr
    rw [decRefLoop] at h
    split at h
    · split at h
      · cases h; simp at hr; rw [hr]
      · split at h
        · cases h
        · rename_i s' t' _
          cases h2 : decRefLoop id s' t' data (off + size + 4) with
          | error e => rw [h2] at h; cases h
          | ok rs' =>
            rw [h2] at h
            cases h
            simp only [List.mem_cons] at hr
            rcases hr with hr | hr
            · rw [hr]
            · exact ih (off + size + 4) s' t' (by omega) rs' h2 r hr
    · cases h; simp at hr

theorem decodeRefs_buf (id : Nat) (data : Bytes) (rs : List PRef) (h : decodeRefs id data = .ok rs) : ∀ r ∈ rs, r.buf = id := by
  unfold decodeRefs at h
  split at h
  · cases h; simp
  · split at h
    · cases h
    · exact decRefLoop_buf id data data.length 4 _ _ (by omega) rs h

/-- no later operation changes a decoder-private buffer (or moves it) -/
theorem step_keeps_decoder (h : Heap) (op : HOp) (id : Nat) (d : Bytes) (hb : h[id]? = some ⟨.decoder, d⟩) :
    (h.step op)[id]? = some ⟨.decoder, d⟩ := by
  have hlt : id < h.length := by
    rcases Nat.lt_or_ge id h.length with hl | hl
    · exact hl
    · rw [List.getElem?_eq_none hl] at hb; cases hb
  cases op with
  | write i bs =>
    simp only [Heap.step]
    split
    · rename_i x hi
      by_cases e : i = id
      · subst e; rw [hi] at hb; cases hb
      · rw [List.getElem?_set_ne e]; exact hb
    · exact hb
  | alloc bs =>
    simp only [Heap.step]
    rw [List.getElem?_append_left hlt]; exact hb
  | decode inp =>
    simp only [Heap.step, decodeH]
    split
    · exact hb
    · simp only; rw [List.getElem?_append_left hlt]; exact hb

theorem steps_keep_decoder (ops : List HOp) : ∀ (h : Heap) (id : Nat) (d : Bytes), h[id]? = some ⟨.decoder, d⟩ →
    (ops.foldl Heap.step h)[id]? = some ⟨.decoder, d⟩ := by
  induction ops with
  | nil => intro h id d hb; exact hb
  | cons op ops ih => intro h id d hb; exact ih _ id d (step_keeps_decoder h op id d hb)

end Cell2v.Codec
