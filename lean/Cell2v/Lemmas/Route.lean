import Cell2v.Spec.C07
/-!
C07 — helper lemmas about the routing model (core Lean only).

* association lists (`lookup` of an append, membership ↔ lookup under unique keys)
* `buildList`: `lookup k (buildList prs) = ` the items of type `k` in pair order
* the name map: every iteration order yields a map satisfying `ServicesOk`
* the directory is sound and complete for the view (`getServicePID_cases`)
* `defaultRoute` names the first working instance of the type, or `no_service`
-/
set_option autoImplicit false
namespace Cell2v.Route

/-! ### association lists -/

theorem lookup_append {β : Type} (a b : List (String × β)) (k : String) :
    (a ++ b).lookup k = (a.lookup k).or (b.lookup k) := by
  induction a with
  | nil => simp
  | cons x xs ih =>
    obtain ⟨k', v⟩ := x
    by_cases h : k = k'
    · subst h; simp [List.lookup]
    · have : (k == k') = false := by simpa using h
      simp [List.lookup, this, ih]

theorem lookup_mem {β : Type} (al : List (String × β)) (k : String) (v : β)
    (h : al.lookup k = some v) : (k, v) ∈ al := by
  induction al with
  | nil => simp at h
  | cons x xs ih =>
    obtain ⟨k', v'⟩ := x
    by_cases hk : k = k'
    · subst hk; simp [List.lookup] at h; simp [h]
    · have : (k == k') = false := by simpa using hk
      simp [List.lookup, this] at h
      simp [ih h]

theorem mem_lookup {β : Type} (al : List (String × β)) (k : String) (v : β)
    (hn : (al.map Prod.fst).Nodup) (h : (k, v) ∈ al) : al.lookup k = some v := by
  induction al with
  | nil => simp at h
  | cons x xs ih =>
    obtain ⟨k', v'⟩ := x
    simp only [List.map_cons, List.nodup_cons] at hn
    rcases List.mem_cons.mp h with h1 | h2
    · cases h1; simp [List.lookup]
    · have hk : k ≠ k' := by
        intro e
        exact hn.1 (List.mem_map.mpr ⟨(k, v), h2, e⟩)
      have : (k == k') = false := by simpa using hk
      simp [List.lookup, this, ih hn.2 h2]

theorem alAppend_lookup (c : TypeList) (t : String) (it : Item) (k : String) :
    (alAppend c t it).lookup k =
      if k = t then some ((c.lookup t).getD [] ++ [it]) else c.lookup k := by
  induction c with
  | nil =>
    by_cases h : k = t
    · subst h; simp [alAppend, List.lookup]
    · have : (k == t) = false := by simpa using h
      simp [alAppend, List.lookup, this, h]
  | cons x xs ih =>
    obtain ⟨k', l⟩ := x
    by_cases hkt : k' = t
    · subst hkt
      by_cases h : k = k'
      · subst h; simp [alAppend, List.lookup]
      · have : (k == k') = false := by simpa using h
        simp [alAppend, List.lookup, this, h]
    · have hne : (t == k') = false := by simpa using (fun e : t = k' => hkt e.symm)
      by_cases h : k = k'
      · subst h
        simp [alAppend, hkt, List.lookup]
      · have : (k == k') = false := by simpa using h
        simp [alAppend, hkt, List.lookup, this, ih, hne]

theorem alAppend_keys (c : TypeList) (t : String) (it : Item) :
    (alAppend c t it).map Prod.fst =
      if t ∈ c.map Prod.fst then c.map Prod.fst else c.map Prod.fst ++ [t] := by
  induction c with
  | nil => simp [alAppend]
  | cons x xs ih =>
    obtain ⟨k', l⟩ := x
    by_cases hkt : k' = t
    · subst hkt; simp [alAppend]
    · have : ¬ t = k' := fun e => hkt e.symm
      simp only [alAppend, hkt, if_false, List.map_cons, ih, List.mem_cons, this, false_or]
      split <;> simp

theorem alAppend_nodup (c : TypeList) (t : String) (it : Item) (h : (c.map Prod.fst).Nodup) :
    ((alAppend c t it).map Prod.fst).Nodup := by
  rw [alAppend_keys]
  split
  · exact h
  · rename_i hn
    exact List.nodup_append.mpr ⟨h, by simp, by intro a ha b hb; simp at hb; subst hb; intro e; subst e; exact hn ha⟩

/-- the item `addService` appends to the list of type `k` for one (member, service) pair -/
def itemOf (k : String) (p : Member × String) : Option Item :=
  match wellFormed p.2 with
  | none => none
  | some x => if x.1 = k then some { name := x.2, node := p.1.id, state := p.1.state, addr := none } else none

def items (k : String) (prs : List (Member × String)) : List Item := prs.filterMap (itemOf k)

theorem addService_lookup (c : TypeList) (p : Member × String) (k : String) :
    (addService c p.1.id p.1.state p.2).lookup k =
      match itemOf k p with
      | some it => some ((c.lookup k).getD [] ++ [it])
      | none => c.lookup k := by
  unfold addService itemOf wellFormed
  by_cases h : (splitServiceName p.2).1 = "" ∨ (splitServiceName p.2).2 = ""
  · simp [h]
  · simp only [h, if_false]
    rw [alAppend_lookup]
    by_cases hk : k = (splitServiceName p.2).1
    · subst hk; simp
    · have : ¬ (splitServiceName p.2).1 = k := fun e => hk e.symm
      simp [hk, this]

theorem addService_nodup (c : TypeList) (id : String) (st : Nat) (s : String) (h : (c.map Prod.fst).Nodup) :
    ((addService c id st s).map Prod.fst).Nodup := by
  unfold addService
  simp only []
  split
  · exact h
  · exact alAppend_nodup _ _ _ h

theorem foldl_lookup (prs : List (Member × String)) (c : TypeList) (k : String) :
    (prs.foldl (fun c p => addService c p.1.id p.1.state p.2) c).lookup k =
      if items k prs = [] then c.lookup k else some ((c.lookup k).getD [] ++ items k prs) := by
  induction prs generalizing c with
  | nil => simp [items]
  | cons p rest ih =>
    simp only [List.foldl_cons]
    rw [ih, addService_lookup]
    have e : items k (p :: rest) = (match itemOf k p with | none => items k rest | some it => it :: items k rest) := by
      simp only [items, List.filterMap_cons]
      cases itemOf k p <;> rfl
    rw [e]
    cases itemOf k p with
    | none => simp
    | some it =>
      by_cases hr : items k rest = []
      · simp [hr]
      · simp [hr]

theorem buildList_lookup (prs : List (Member × String)) (k : String) :
    (buildList prs).lookup k = if items k prs = [] then none else some (items k prs) := by
  unfold buildList
  rw [foldl_lookup]
  simp

theorem foldl_nodup (prs : List (Member × String)) (c : TypeList) (h : (c.map Prod.fst).Nodup) :
    ((prs.foldl (fun c p => addService c p.1.id p.1.state p.2) c).map Prod.fst).Nodup := by
  induction prs generalizing c with
  | nil => simpa using h
  | cons p rest ih => exact ih _ (addService_nodup _ _ _ _ h)

theorem buildList_nodup (prs : List (Member × String)) : ((buildList prs).map Prod.fst).Nodup :=
  foldl_nodup prs [] (by simp)

/-! ### members, pairs -/

theorem memberOf_some (ms : List Member) (id : String) (m' : Member) (h : memberOf ms id = some m') :
    m' ∈ ms ∧ m'.id = id := by
  induction ms with
  | nil => simp [memberOf] at h
  | cons m rest ih =>
    unfold memberOf at h
    cases hr : memberOf rest id with
    | some x =>
      rw [hr] at h
      cases h
      exact ⟨List.mem_cons_of_mem _ (ih hr).1, (ih hr).2⟩
    | none =>
      rw [hr] at h
      by_cases hm : m.id = id
      · simp [hm] at h; subst h; exact ⟨List.mem_cons_self, hm⟩
      · simp [hm] at h

theorem memberOf_of_mem (ms : List Member) (m : Member) (h : m ∈ ms) :
    ∃ m', memberOf ms m.id = some m' := by
  induction ms with
  | nil => simp at h
  | cons x rest ih =>
    unfold memberOf
    cases hr : memberOf rest m.id with
    | some y => exact ⟨y, rfl⟩
    | none =>
      rcases List.mem_cons.mp h with h1 | h2
      · subst h1; exact ⟨m, by simp⟩
      · obtain ⟨m', hm'⟩ := ih h2
        rw [hr] at hm'; cases hm'

theorem mem_pairs (ms : List Member) (p : Member × String) :
    p ∈ pairs ms ↔ p.1 ∈ ms ∧ p.2 ∈ p.1.services := by
  obtain ⟨m, s⟩ := p
  simp only [pairs, List.mem_flatMap, List.mem_map, Prod.mk.injEq]
  constructor
  · rintro ⟨a, ha, b, hb, rfl, rfl⟩; exact ⟨ha, hb⟩
  · rintro ⟨h1, h2⟩; exact ⟨m, h1, s, h2, rfl, rfl⟩

theorem itemOf_some (k : String) (p : Member × String) (it : Item) (h : itemOf k p = some it) :
    wellFormed p.2 = some (k, it.name) ∧ it.node = p.1.id ∧ it.state = p.1.state ∧ it.addr = none := by
  unfold itemOf at h
  cases hw : wellFormed p.2 with
  | none => rw [hw] at h; cases h
  | some x =>
    rw [hw] at h
    by_cases hx : x.1 = k
    · simp [hx] at h; subst h; subst hx; simp
    · simp [hx] at h

theorem itemOf_of_wellFormed (k n : String) (p : Member × String) (h : wellFormed p.2 = some (k, n)) :
    itemOf k p = some { name := n, node := p.1.id, state := p.1.state, addr := none } := by
  unfold itemOf; rw [h]; simp

theorem wellFormed_ne (s t n : String) (h : wellFormed s = some (t, n)) : t ≠ "" ∧ n ≠ "" := by
  unfold wellFormed at h
  by_cases hx : (splitServiceName s).1 = "" ∨ (splitServiceName s).2 = ""
  · simp [hx] at h
  · simp only [hx, if_false, Option.some.injEq] at h
    rw [h] at hx
    simpa [not_or] using hx

theorem mem_items (k : String) (prs : List (Member × String)) (it : Item) :
    it ∈ items k prs ↔ ∃ p ∈ prs, itemOf k p = some it := by
  simp [items, List.mem_filterMap]

/-! ### the per-type lists of a view -/

theorem mem_buildList (prs : List (Member × String)) (k : String) (l : List Item) :
    (k, l) ∈ buildList prs ↔ l = items k prs ∧ l ≠ [] := by
  constructor
  · intro h
    have := mem_lookup _ _ _ (buildList_nodup prs) h
    rw [buildList_lookup] at this
    by_cases he : items k prs = []
    · simp [he] at this
    · simp only [he, if_false, Option.some.injEq] at this
      subst this; exact ⟨rfl, he⟩
  · rintro ⟨rfl, hne⟩
    apply lookup_mem
    rw [buildList_lookup]; simp [hne]

theorem mem_typeList (ms : List Member) (k : String) (l : List Item) :
    (k, l) ∈ typeList ms ↔ l = (items k (pairs ms)).map (withPID ms) ∧ l ≠ [] := by
  unfold typeList
  simp only [List.mem_map, Prod.mk.injEq]
  constructor
  · rintro ⟨⟨k', l0⟩, hm, rfl, rfl⟩
    obtain ⟨rfl, hne⟩ := (mem_buildList _ _ _).mp hm
    exact ⟨rfl, by simpa using hne⟩
  · rintro ⟨rfl, hne⟩
    refine ⟨(k, items k (pairs ms)), (mem_buildList _ _ _).mpr ⟨rfl, ?_⟩, rfl, rfl⟩
    simpa using hne

/-! ### the name map is sound and complete for the view -/

theorem candidates_sound (ms : List Member) (n : String) (it : Item)
    (h : it ∈ candidates (typeList ms) n) :
    it.name = n ∧ ∃ a, it.addr = some a ∧ Named ms n (a, n) := by
  unfold candidates at h
  obtain ⟨⟨k, l⟩, hm, hf⟩ := List.mem_filterMap.mp h
  obtain ⟨rfl, _⟩ := (mem_typeList _ _ _).mp hm
  simp only at hf
  have hname : it.name = n := by simpa using List.find?_some hf
  have hmem := List.mem_of_find?_eq_some hf
  obtain ⟨it0, h0, rfl⟩ := List.mem_map.mp hmem
  obtain ⟨p, hp, hi⟩ := (mem_items _ _ _).mp h0
  obtain ⟨hw, hnode, hstate, _⟩ := itemOf_some _ _ _ hi
  obtain ⟨hp1, hp2⟩ := (mem_pairs _ _).mp hp
  obtain ⟨m', hm'⟩ := memberOf_of_mem ms p.1 hp1
  have hn0 : it0.name = n := by simpa [withPID] using hname
  refine ⟨hname, addrOf m', ?_, ?_⟩
  · simp [withPID, hnode, hm']
  · refine ⟨k, p.1.state, p.1, hp1, p.2, hp2, ?_, rfl, m', hm', rfl⟩
    rw [hw, hn0]

theorem candidates_complete (ms : List Member) (n : String) (h : Known ms n) :
    candidates (typeList ms) n ≠ [] := by
  obtain ⟨pid, t, st, m, hm, s, hs, hw, _, _⟩ := h
  have hp : (m, s) ∈ pairs ms := (mem_pairs _ _).mpr ⟨hm, hs⟩
  have hi := itemOf_of_wellFormed t n (m, s) hw
  have h0 : _ ∈ items t (pairs ms) := (mem_items _ _ _).mpr ⟨(m, s), hp, hi⟩
  have hl : withPID ms { name := n, node := m.id, state := m.state, addr := none } ∈
      (items t (pairs ms)).map (withPID ms) := List.mem_map.mpr ⟨_, h0, rfl⟩
  have hne : (items t (pairs ms)).map (withPID ms) ≠ [] := List.ne_nil_of_mem hl
  have hT : (t, (items t (pairs ms)).map (withPID ms)) ∈ typeList ms := (mem_typeList _ _ _).mpr ⟨rfl, hne⟩
  cases hf : ((items t (pairs ms)).map (withPID ms)).find? (fun it => it.name = n) with
  | none =>
    have := List.find?_eq_none.mp hf _ hl
    simp [withPID] at this
  | some x =>
    have : x ∈ candidates (typeList ms) n := List.mem_filterMap.mpr ⟨_, hT, hf⟩
    exact List.ne_nil_of_mem this

/-- **directory lookup = the view**: for every name map an iteration order can
produce, `GetServicePID n` is a PID exactly when the view announces an instance
named `n`, and then it is the PID of such an instance -/
theorem getServicePID_cases (d : Dir) (hd : d.Ok) (n : String) :
    (getServicePID d n = none ∧ ¬ Known d.ms n) ∨
    (∃ pid, getServicePID d n = some pid ∧ Named d.ms n pid) := by
  have h := hd n
  unfold getServicePID
  cases hl : d.services.lookup n with
  | none =>
    rw [hl] at h
    left
    refine ⟨rfl, fun hk => candidates_complete d.ms n hk h⟩
  | some it =>
    rw [hl] at h
    right
    obtain ⟨hname, a, ha, hN⟩ := candidates_sound d.ms n it h
    exact ⟨(a, n), by simp [ha, hname], hN⟩

theorem getServicePID_none (d : Dir) (hd : d.Ok) (n : String) (h : ¬ Known d.ms n) :
    getServicePID d n = none := by
  rcases getServicePID_cases d hd n with h1 | ⟨pid, _, hN⟩
  · exact h1.1
  · exact absurd ⟨pid, hN⟩ h

theorem getServicePID_known (d : Dir) (hd : d.Ok) (n : String) (h : Known d.ms n) :
    ∃ pid, getServicePID d n = some pid ∧ Named d.ms n pid := by
  rcases getServicePID_cases d hd n with h1 | h2
  · exact absurd h h1.2
  · exact h2

/-- decidable route to `¬ Known` / `Known` for concrete views -/
theorem not_known_of_lookup_none (d : Dir) (hd : d.Ok) (n : String) (h : getServicePID d n = none) :
    ¬ Known d.ms n := by
  rcases getServicePID_cases d hd n with h1 | ⟨pid, h2, _⟩
  · exact h1.2
  · rw [h] at h2; cases h2

theorem known_of_lookup_some (d : Dir) (hd : d.Ok) (n : String) (pid : Pid) (h : getServicePID d n = some pid) :
    Named d.ms n pid := by
  rcases getServicePID_cases d hd n with h1 | ⟨pid', h2, hN⟩
  · rw [h] at h1; cases h1.1
  · rw [h] at h2; cases h2; exact hN

theorem not_known_empty (ms : List Member) : ¬ Known ms "" := by
  rintro ⟨pid, t, st, m, _, s, _, hw, _⟩
  exact (wellFormed_ne _ _ _ hw).2 rfl

theorem no_instance_of_empty_type (ms : List Member) (n : String) (st : Nat) (pid : Pid) :
    ¬ IsInstance ms "" n st pid := by
  rintro ⟨m, _, s, _, hw, _⟩
  exact (wellFormed_ne _ _ _ hw).1 rfl

/-! ### every iteration order of the per-type map yields an admissible name map -/

theorem insertItems_lookup (l : List Item) (sv : List (String × Item)) (n : String) :
    (insertItems sv l).lookup n = (sv.lookup n).or (l.find? (fun it => it.name = n)) := by
  induction l generalizing sv with
  | nil => simp [insertItems]
  | cons it rest ih =>
    have e : insertItems sv (it :: rest) =
        insertItems (if (sv.lookup it.name).isSome then sv else sv ++ [(it.name, it)]) rest := by
      simp [insertItems]
    rw [e, ih]
    by_cases hn : it.name = n
    · subst hn
      by_cases hs : (sv.lookup it.name).isSome
      · obtain ⟨v, hv⟩ := Option.isSome_iff_exists.mp hs
        simp [hv]
      · have hv : sv.lookup it.name = none := by
          cases hx : sv.lookup it.name with
          | none => rfl
          | some v => rw [hx] at hs; simp at hs
        simp [hv, lookup_append, List.lookup]
    · have hb : (n == it.name) = false := by simpa using (fun e : n = it.name => hn e.symm)
      by_cases hs : (sv.lookup it.name).isSome
      · simp [hs, hn]
      · simp [hs, lookup_append, List.lookup, hb, hn]

theorem foldl_insert_lookup (ordered : TypeList) (sv : List (String × Item)) (n : String) :
    (ordered.foldl (fun sv e => insertItems sv e.2) sv).lookup n =
      (sv.lookup n).or (candidates ordered n).head? := by
  induction ordered generalizing sv with
  | nil => simp [candidates]
  | cons e rest ih =>
    simp only [List.foldl_cons]
    rw [ih, insertItems_lookup]
    cases h1 : sv.lookup n with
    | some v => simp
    | none =>
      cases h2 : e.2.find? (fun it => it.name = n) with
      | none => simp [candidates, h2]
      | some x => simp [candidates, h2]

theorem servicesBy_lookup (ordered : TypeList) (n : String) :
    (servicesBy ordered).lookup n = (candidates ordered n).head? := by
  unfold servicesBy
  rw [foldl_insert_lookup]; simp

/-- whatever order Go's `range newTypeList` visits the types in, the resulting
name map satisfies `ServicesOk` -/
theorem servicesBy_ok (tl ordered : TypeList) (hp : ordered.Perm tl) :
    ServicesOk tl (servicesBy ordered) := by
  intro n
  have hperm : (candidates ordered n).Perm (candidates tl n) := hp.filterMap _
  rw [servicesBy_lookup]
  cases h : (candidates ordered n).head? with
  | none =>
    have : candidates ordered n = [] := List.head?_eq_none_iff.mp h
    rw [this] at hperm
    simpa using hperm.symm.eq_nil
  | some it =>
    exact hperm.mem_iff.mp (List.mem_of_head? h)

theorem mkDir_ok (ms : List Member) : (mkDir ms).Ok :=
  servicesBy_ok _ _ (List.Perm.refl _)

theorem emptyDir_ok : emptyDir.Ok := by
  intro n
  simp [emptyDir, Dir.types, typeList, buildList, pairs, candidates]

theorem servicesOkOn_sound (tl : TypeList) (sv : List (String × Item)) (names : List String)
    (h : servicesOkOn tl sv names = true) (n : String) (hn : n ∈ names) :
    match sv.lookup n with
    | some it => it ∈ candidates tl n
    | none => candidates tl n = [] := by
  unfold servicesOkOn at h
  have := List.all_eq_true.mp h n hn
  cases hl : sv.lookup n with
  | none => simpa [hl] using this
  | some it => simpa [hl] using this

/-! ### the default route -/

theorem filterMap_eq_cons {α β : Type} (f : α → Option β) (l : List α) (x : β) (rest : List β)
    (h : l.filterMap f = x :: rest) :
    ∃ pre a post, l = pre ++ a :: post ∧ f a = some x ∧ ∀ b ∈ pre, f b = none := by
  induction l with
  | nil => simp at h
  | cons a l' ih =>
    cases hf : f a with
    | none =>
      rw [List.filterMap_cons, hf] at h
      obtain ⟨pre, a', post, rfl, h1, h2⟩ := ih h
      refine ⟨a :: pre, a', post, rfl, h1, ?_⟩
      intro b hb
      rcases List.mem_cons.mp hb with rfl | hb'
      · exact hf
      · exact h2 b hb'
    | some y =>
      rw [List.filterMap_cons, hf] at h
      simp only [List.cons.injEq] at h
      obtain ⟨rfl, _⟩ := h
      exact ⟨[], a, l', rfl, hf, by simp⟩

/-- item of the working list of type `t` contributed by one pair -/
def workItemOf (t : String) (p : Member × String) : Option Item :=
  if p.1.state = working then itemOf t p else none

theorem work_items (t : String) (prs : List (Member × String)) :
    items t (prs.filter fun p => p.1.state = working) = prs.filterMap (workItemOf t) := by
  induction prs with
  | nil => simp [items]
  | cons p rest ih =>
    unfold items at ih ⊢
    by_cases hw : p.1.state = working
    · simp [hw, workItemOf, List.filterMap_cons] at ih ⊢
      cases itemOf t p <;> simp [ih]
    · simp [hw, workItemOf] at ih ⊢
      exact ih

theorem workList_lookup (ms : List Member) (t : String) :
    (workList ms).lookup t =
      if (pairs ms).filterMap (workItemOf t) = [] then none else some ((pairs ms).filterMap (workItemOf t)) := by
  unfold workList
  rw [buildList_lookup, work_items]

theorem firstWorking_instance (ms : List Member) (t n : String) (h : FirstWorking ms t n) :
    n ≠ "" ∧ ∃ pid, IsInstance ms t n working pid := by
  obtain ⟨pre, p, post, hp, hw, hwf, _⟩ := h
  have hmem : p ∈ pairs ms := by rw [hp]; simp
  obtain ⟨h1, h2⟩ := (mem_pairs _ _).mp hmem
  obtain ⟨m', hm'⟩ := memberOf_of_mem ms p.1 h1
  exact ⟨(wellFormed_ne _ _ _ hwf).2, (addrOf m', n), p.1, h1, p.2, h2, hwf, hw, m', hm', rfl⟩

/-- `defaultRoute`: `no_service` exactly when the view has no instance of the type on a
working node, otherwise the name of the FIRST such instance in view order -/
theorem defaultRoute_cases (d : Dir) (t : String) :
    (defaultRoute d t = noService ∧ ¬ ∃ n pid, IsInstance d.ms t n working pid) ∨
    (∃ n, defaultRoute d t = n ∧ FirstWorking d.ms t n) := by
  unfold defaultRoute Dir.work
  rw [workList_lookup]
  cases hl : (pairs d.ms).filterMap (workItemOf t) with
  | nil =>
    left
    refine ⟨by simp, ?_⟩
    rintro ⟨n, pid, m, hm, s, hs, hwf, hst, _⟩
    have hp : (m, s) ∈ pairs d.ms := (mem_pairs _ _).mpr ⟨hm, hs⟩
    have : workItemOf t (m, s) = some { name := n, node := m.id, state := m.state, addr := none } := by
      have e : workItemOf t (m, s) = itemOf t (m, s) := by unfold workItemOf; rw [if_pos hst]
      rw [e]; exact itemOf_of_wellFormed t n (m, s) hwf
    have hx := List.mem_filterMap.mpr ⟨(m, s), hp, this⟩
    rw [hl] at hx; simp at hx
  | cons it rest =>
    right
    refine ⟨it.name, by simp, ?_⟩
    obtain ⟨pre, a, post, hp, ha, hpre⟩ := filterMap_eq_cons _ _ _ _ hl
    unfold workItemOf at ha
    by_cases hw : a.1.state = working
    · simp only [hw, if_true] at ha
      refine ⟨pre, a, post, hp, hw, (itemOf_some _ _ _ ha).1, ?_⟩
      rintro q hq ⟨hqw, n', hqf⟩
      have := hpre q hq
      simp only [workItemOf, hqw, if_true] at this
      rw [itemOf_of_wellFormed t n' q hqf] at this
      cases this
    · simp [hw] at ha

/-! ### route strings -/

theorem splitClientRoute_malformed (r : String) (h : (splitDots r).length ≠ 3) :
    splitClientRoute r = ("", "", "") := by
  unfold splitClientRoute
  split
  · rename_i a b c heq; rw [heq] at h; simp at h
  · rfl

theorem splitClientRoute_wellformed (r a b c : String) (h : splitDots r = [a, b, c]) :
    splitClientRoute r = (a, b, c) := by
  unfold splitClientRoute; rw [h]

/-! ### Route returns what the rule names -/

theorem route_viaFunc (R : Rules) (d : Dir) (t : String) (p : Param) (fp : FParam)
    (h : p.viaFunc = some fp) : route R d t p = doRoute R d t fp := by
  cases p <;> simp [Param.viaFunc] at h <;> subst h <;> rfl

/-- a key-reading function (plain, nesting a re-entrant `Route`, with a default, nil-aware)
answers a session / key map — empty ones included — from the parameter's own key -/
theorem applyBeh_kvs (b : Beh) (k dflt : String) (l : KVs) (h : b.keyOf = some (k, dflt)) :
    applyBeh b (.kvs l) = applyKey k dflt (.kvs l) := by
  cases b <;> simp [Beh.keyOf] at h <;> obtain ⟨rfl, rfl⟩ := h <;> rfl

theorem viaFunc_of_kvs (p : Param) (l : KVs) (hk : p.kvs? = some l) : p.viaFunc = some (.kvs l) := by
  cases p <;> simp [Param.kvs?] at hk <;> subst hk <;> rfl

theorem route_names (R : Rules) (d : Dir) (t : String) (p : Param) (n : String)
    (h : RuleNames R t p n) : route R d t p = n := by
  cases h with
  | explicit => rfl
  | const hl hv => rw [route_viaFunc R d t p _ hv]; simp [doRoute, hl, applyBeh]
  | key hl hb hk hg =>
    rename_i l b k dflt
    rw [route_viaFunc R d t p _ (viaFunc_of_kvs p l hk)]
    simp [doRoute, hl, applyBeh_kvs b k dflt l hb, applyKey, hg]
  | keyDefault hl hb hk hg =>
    rename_i l b k
    rw [route_viaFunc R d t p _ (viaFunc_of_kvs p l hk)]
    simp [doRoute, hl, applyBeh_kvs b k n l hb, applyKey, hg]
  | nilName hl => simp [route, doRoute, hl, applyBeh]

/-- `RoutePID` for a rule that names `n ≠ ""` is the directory lookup of `n` -/
theorem routePID_names (R : Rules) (d : Dir) (t : String) (p : Param) (n : String)
    (h : RuleNames R t p n) (hne : n ≠ "") : routePID R d t p = getServicePID d n := by
  simp [routePID, route_names R d t p n h, hne]


/-! ### failing rules -/

theorem sentinels_ne : noService ≠ "" ∧ badRouteParam ≠ "" ∧ missRouteFunc ≠ "" := by decide

/-- every failing rule makes `RoutePID` nil (guard: no instance carries a sentinel name) -/
theorem routePID_fails (R : Rules) (d : Dir) (hd : d.Ok) (t : String) (p : Param)
    (hg : NoSentinelNames d.ms) (hf : RuleFails R d.ms t p) : routePID R d t p = none := by
  obtain ⟨g1, g2, g3⟩ := hg
  cases hf with
  | emptyName hn => simp [routePID, route_names R d t p "" hn]
  | unknownName hn hk =>
    rename_i n
    by_cases hne : n = ""
    · subst hne; simp [routePID, route_names R d t p "" hn]
    · rw [routePID_names R d t p n hn hne]; exact getServicePID_none d hd n hk
  | emptyFunc hl hv => simp [routePID, route_viaFunc R d t p _ hv, doRoute, hl, applyBeh]
  | funcPanics hl hv hp => simp [routePID, route_viaFunc R d t p _ hv, doRoute, hl, hp]
  | keyAbsent hl hb hk hgk =>
    rename_i l b k
    simp [routePID, route_viaFunc R d t p _ (viaFunc_of_kvs p l hk), doRoute, hl, applyBeh_kvs b k "" l hb, applyKey, hgk]
  | badParam =>
    simp only [routePID, route, sentinels_ne.2.1, if_false]
    exact getServicePID_none d hd _ g2
  | noWorkingInstance hl hv hdf hno =>
    rcases defaultRoute_cases d t with ⟨he, _⟩ | ⟨n, _, hfw⟩
    · simp only [routePID, route_viaFunc R d t p _ hv, doRoute, hl, hdf, he, sentinels_ne.1, if_true, if_false]
      exact getServicePID_none d hd _ g1
    · obtain ⟨_, pid, hi⟩ := firstWorking_instance d.ms t n hfw
      exact absurd ⟨n, pid, hi⟩ hno
  | noFunction hl hv hdf =>
    simp only [routePID, route_viaFunc R d t p _ hv, doRoute, hl, hdf, Bool.false_eq_true, if_false,
      sentinels_ne.2.2]
    exact getServicePID_none d hd _ g3


/-! ### histories -/

def isView : Op → Bool
  | .view _ _ => true
  | _ => false

/-- calls and rule registrations never touch the directory … -/
theorem step_keeps_dir (s : St) (op : Op) (h : isView op = false) : (step s op).1.dir = s.dir := by
  cases op <;> simp [isView] at h <;> rfl


end Cell2v.Route
