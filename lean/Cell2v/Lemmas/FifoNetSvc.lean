import Cell2v.Lemmas.FifoNet
/-!
C03 — the SERVICE as the unit of order (the property's own wording: "the pushes
and the response that one service issues … in the order the service's code
issued them").

`Lemmas/FifoNet.lean` proves the per-thread statement (`sel σ c`, ghost log
`issued`, appended when a worker calls `Post`).  Here the order in which the
service's *goroutine* hands items to the framework — code on the goroutine
itself (`issue`) and the closures of all its workers as they are executed
(`run`), interleaved as they really ran — is the ghost log `e` threaded through
`ReachableX`, and the invariant is about everything service `S` (any of its
threads) sent towards client `c`.
-/
namespace Cell2v.FifoNet

/-- the items of service `S` (any of its threads) towards client `c`, in list order -/
def selS (S c : Nat) (l : List Item) : List Item := l.filter (fun x => x.src.svc = S ∧ x.client = c)

/-- what the service goroutine hands to the framework in step `l` taken from state `s` -/
def handed (s : St) : Label → List Item
  | .issue S c k => [⟨⟨S, 0⟩, c, nextSeq s ⟨S, 0⟩ c, k⟩]
  | .run S => (s.task S).take 1
  | _ => []

/-- all schedules, with the hand-over log: every item in the order in which a
service goroutine handed it to the framework (`PushMessageById(s)` /
completion callback executed — by handler code, a timer callback or a posted
closure) -/
inductive ReachableX (cfg : Cfg) : St → List Item → Prop
  | init : ReachableX cfg {} []
  | step {s s' : St} {e : List Item} (l : Label) :
      ReachableX cfg s e → fire cfg s l = some s' → ReachableX cfg s' (e ++ handed s l)

theorem ReachableX.reachable {cfg : Cfg} {s : St} {e : List Item} (h : ReachableX cfg s e) : Reachable cfg s := by
  induction h with
  | init => exact Reachable.init
  | step l _ hf ih => exact Reachable.step l ih hf

/-- every schedule has a hand-over log -/
theorem reachableX_of_reachable {cfg : Cfg} {s : St} (h : Reachable cfg s) : ∃ e, ReachableX cfg s e := by
  induction h with
  | init => exact ⟨[], ReachableX.init⟩
  | step l _ hf ih => obtain ⟨e, he⟩ := ih; exact ⟨_, ReachableX.step l he hf⟩

/-- everything between service `S`'s goroutine and client `c`'s socket, socket first -/
def downS (s : St) (S c : Nat) : List Item :=
  s.socket c ++ (s.chSend c ++ (s.lost c ++ (s.mailbox ++ s.transport S)))

theorem selS_append (S c : Nat) (a b : List Item) : selS S c (a ++ b) = selS S c a ++ selS S c b := by
  simp [selS, List.filter_append]

@[simp] theorem selS_nil (S c : Nat) : selS S c [] = [] := rfl

theorem selS_single_miss (S c : Nat) (x : Item) (h : ¬ (x.src.svc = S ∧ x.client = c)) : selS S c [x] = [] := by
  simp [selS, h]

theorem selS_cons (S c : Nat) (x : Item) (l : List Item) : selS S c (x :: l) = selS S c [x] ++ selS S c l := by
  rw [← selS_append]; rfl

theorem selS_eq_nil (S c : Nat) (l : List Item) (h : ∀ x, x ∈ l → ¬ (x.src.svc = S ∧ x.client = c)) :
    selS S c l = [] := by
  simp only [selS, List.filter_eq_nil_iff]
  intro x hx
  simpa using h x hx

/-- a thread's items are among its service's -/
theorem sel_selS (σ : Src) (c : Nat) (l : List Item) : sel σ c (selS σ.svc c l) = sel σ c l := by
  simp only [sel, selS, List.filter_filter]
  apply List.filter_congr
  intro x _
  by_cases h : x.src = σ
  · simp [h]
  · simp [h]

/-- the service-level invariant -/
def SvcOrd (s : St) (e : List Item) : Prop := ∀ S c, selS S c (downS s S c) = selS S c e

theorem toSession_tailS (s : St) (x : Item) (hl : s.closed x.client = false → s.lost x.client = []) (S c : Nat) :
    selS S c ((toSession s x).chSend c) ++ selS S c ((toSession s x).lost c) =
      selS S c (s.chSend c) ++ selS S c (s.lost c) ++ (if x.client = c then selS S c [x] else []) := by
  unfold toSession
  by_cases hc : x.client = c
  · subst hc
    cases hcl : s.closed x.client with
    | true => simp [selS_append]
    | false => simp [selS_append, hl hcl]
  · have hc' : ¬ c = x.client := fun e => hc e.symm
    split <;> simp [upd_other _ _ _ _ hc']

/-- handing `x` to its session puts it behind everything in the connection's
queues and in front of `T` (the stages further up) -/
theorem toSession_downS (s : St) (x : Item) (hl : s.closed x.client = false → s.lost x.client = []) (S c : Nat)
    (T : List Item) :
    selS S c ((toSession s x).socket c ++ ((toSession s x).chSend c ++ ((toSession s x).lost c ++ T))) =
      selS S c (s.socket c ++ (s.chSend c ++ s.lost c)) ++ (selS S c [x] ++ selS S c T) := by
  have ht := toSession_tailS s x hl S c
  have hs : (toSession s x).socket = s.socket := (toSession_fields s x).2.2.2.2.2.2.1
  simp only [selS_append, hs]
  rw [← List.append_assoc (selS S c ((toSession s x).chSend c)), ht]
  by_cases hc : x.client = c
  · simp [hc, List.append_assoc]
  · have : selS S c [x] = [] := selS_single_miss S c x (fun h => hc h.2)
    simp [hc, this, List.append_assoc]

/-- `emit`: the item lands behind everything service `x.src.svc` has under way towards any client -/
theorem emit_downS (cfg : Cfg) (hld : cfg.localDirect = true) (s : St) (h : Shape s) (S : Nat) (x : Item)
    (hx : x.src.svc = S) (S' c : Nat) :
    selS S' c (downS (emit cfg s S x) S' c) = selS S' c (downS s S' c) ++ selS S' c [x] := by
  unfold emit
  by_cases hS : S = front
  · simp only [hS, if_true, hld, true_or]
    have hm : (toSession s x).mailbox = s.mailbox := (toSession_fields s x).2.2.2.2.2.1
    have htr : (toSession s x).transport = s.transport := (toSession_fields s x).2.2.2.2.1
    unfold downS
    rw [hm, htr, toSession_downS s x (h.lostOpen x.client) S' c]
    by_cases hsel : x.src.svc = S' ∧ x.client = c
    · -- the front's own item: nothing of the front sits in its mailbox or in a transport
      have hS' : S' = front := by rw [← hsel.1, hx, hS]
      have h1 : selS S' c s.mailbox = [] :=
        selS_eq_nil _ _ _ (fun y hy hq => h.mailboxBack y hy (by rw [hq.1, hS']))
      have h2 : selS S' c (s.transport S') = [] :=
        selS_eq_nil _ _ _ (fun y hy _ => (h.transportSvc S' y hy).2 hS')
      simp [selS_append, h1, h2]
    · simp [selS_append, selS_single_miss S' c x hsel]
  · simp only [hS, if_false]
    unfold downS
    by_cases e : S' = S
    · subst e
      simp [selS_append, List.append_assoc]
    · have hsel : ¬ (x.src.svc = S' ∧ x.client = c) := fun hq => e (by rw [← hq.1, hx])
      simp [upd_other _ _ _ _ e, selS_single_miss S' c x hsel]

/-- **the service-level invariant is inductive** (overflow paths off, front-local pushes in place) -/
theorem svcOrd_step (cfg : Cfg) (hd : cfg.defend = false) (hld : cfg.localDirect = true) (hso : cfg.sendOverflow = false)
    (s s' : St) (e : List Item) (l : Label) (h : Shape s) (hns : s.spill = []) (hj : SvcOrd s e)
    (hf : fire cfg s l = some s') : SvcOrd s' (e ++ handed s l) := by
  intro S' c
  have hj' := hj S' c
  cases l with
  | spillSend i => simp [fire, fireAt, hns] at hf
  | issue S c0 k =>
    simp only [fire, fireAt] at hf
    generalize hxd : (⟨⟨S, 0⟩, c0, nextSeq s ⟨S, 0⟩ c0, k⟩ : Item) = x at hf
    split at hf
    · simp [hso] at hf
    simp only [Option.some.injEq] at hf
    have hxs : x.src.svc = S := by subst hxd; rfl
    have h1 : Shape { s with issued := s.issued ++ [x] } :=
      ⟨h.lostOpen, h.transportSvc, h.mailboxBack, h.taskSrc, h.outSrc, h.noDetached⟩
    subst hf
    rw [emit_downS cfg hld _ h1 S x hxs S' c]
    show selS S' c (downS s S' c) ++ selS S' c [x] = _
    simp only [handed, hxd, selS_append, hj']
  | run S =>
    simp only [fire, fireAt] at hf
    split at hf
    · cases hf
    · rename_i x rest ht
      split at hf
      · simp [hso] at hf
      simp only [Option.some.injEq] at hf
      have hxs : x.src.svc = S := (h.taskSrc S x (by rw [ht]; simp)).1
      have h1 : Shape { s with task := upd s.task S rest } := by
        refine ⟨h.lostOpen, h.transportSvc, h.mailboxBack, ?_, h.outSrc, h.noDetached⟩
        intro S2 y hy
        by_cases e2 : S2 = S
        · subst e2
          simp only [upd_same] at hy
          exact h.taskSrc _ y (by rw [ht]; exact List.mem_cons_of_mem _ hy)
        · simp only [upd_other _ _ _ _ e2] at hy
          exact h.taskSrc _ y hy
      subst hf
      rw [emit_downS cfg hld _ h1 S x hxs S' c]
      show selS S' c (downS s S' c) ++ selS S' c [x] = _
      simp only [handed, ht, List.take, selS_append, hj']
  | post S p c0 k =>
    simp only [fire, fireAt, hd, Bool.false_eq_true, false_and, if_false] at hf
    split at hf
    · cases hf
    · simp only [Option.some.injEq] at hf
      subst hf
      simpa [handed, downS] using hj'
  | send S p =>
    simp only [fire, fireAt] at hf
    split at hf
    · cases hf
    · split at hf
      · simp only [Option.some.injEq] at hf; subst hf; simpa [handed, downS] using hj'
      · cases hf
  | sendDetached S i =>
    simp only [fire, fireAt] at hf
    split at hf
    · cases hf
    · split at hf
      · simp only [Option.some.injEq] at hf; subst hf; simpa [handed, downS] using hj'
      · cases hf
  | deliver S =>
    simp only [fire, fireAt] at hf
    split at hf
    · cases hf
    · rename_i x rest ht
      simp only [Option.some.injEq] at hf
      subst hf
      simp only [handed, List.append_nil, ← hj', downS]
      by_cases e2 : S' = S
      · subst e2
        simp [ht, selS_append, selS_cons S' c x rest]
      · have hxs : x.src.svc = S := (h.transportSvc S x (by rw [ht]; simp)).1
        have hsel : ¬ (x.src.svc = S' ∧ x.client = c) := fun hq => e2 (by rw [← hq.1, hxs])
        simp only [upd_other _ _ _ _ e2, selS_append, selS_single_miss S' c x hsel, List.append_nil]
  | process =>
    simp only [fire, fireAt] at hf
    split at hf
    · cases hf
    · rename_i x rest hm
      split at hf
      · simp [hso] at hf
      simp only [Option.some.injEq] at hf
      subst hf
      have hmb : (toSession { s with mailbox := rest } x).mailbox = rest := (toSession_fields _ x).2.2.2.2.2.1
      have htr : (toSession { s with mailbox := rest } x).transport = s.transport := (toSession_fields _ x).2.2.2.2.1
      simp only [handed, List.append_nil, ← hj']
      unfold downS
      rw [hmb, htr, toSession_downS { s with mailbox := rest } x (h.lostOpen x.client) S' c]
      simp [hm, selS_append, List.append_assoc]
      rw [selS_cons S' c x (rest ++ s.transport S'), selS_append]
  | write c0 =>
    simp only [fire, fireAt] at hf
    split at hf
    · cases hf
    · rename_i x rest hc
      simp only [Option.some.injEq] at hf
      subst hf
      simp only [handed, List.append_nil, ← hj', downS]
      by_cases e2 : c = c0
      · subst e2
        simp [hc, selS_append, List.append_assoc]
      · simp [upd_other _ _ _ _ e2]
  | close c0 =>
    simp only [fire, fireAt] at hf
    split at hf
    · cases hf
    · simp only [Option.some.injEq] at hf; subst hf; simpa [handed, downS] using hj'
  | writerStop c0 =>
    simp only [fire, fireAt] at hf
    split at hf
    · simp only [Option.some.injEq] at hf
      subst hf
      simp only [handed, List.append_nil, ← hj', downS]
      by_cases e2 : c = c0
      · subst e2
        simp [selS_append, List.append_assoc]
      · simp [upd_other _ _ _ _ e2]
    · cases hf

theorem svcOrd_reachable (cfg : Cfg) (hd : cfg.defend = false) (hld : cfg.localDirect = true)
    (hso : cfg.sendOverflow = false) (s : St) (e : List Item) (h : ReachableX cfg s e) : SvcOrd s e := by
  induction h with
  | init => intro S c; rfl
  | step l hr hf ih =>
    have hw := wf_reachable' cfg hd hld hso _ hr.reachable
    exact svcOrd_step cfg hd hld hso _ _ _ l hw.1.toShape hw.2 ih hf

/-- the part of a connection's socket stream that originates from service `S` (any thread) -/
def arrivedS (s : St) (S c : Nat) : List Item := (s.socket c).filter (fun x => x.src.svc = S)

theorem arrivedS_eq_selS (s : St) (h : Tagged s) (S c : Nat) : arrivedS s S c = selS S c (s.socket c) := by
  unfold arrivedS selS
  apply List.filter_congr
  intro x hx
  simp [h c x (Or.inl hx)]

/-- what a thread handed over so far is an initial segment of what it issued
(for a worker: of what it passed to `Post`): `sel σ c e` followed by what still
waits in the task queue / in the blocked `Post` is the thread's issue log -/
theorem handed_then_waiting (s : St) (e : List Item) (hw : WF s) (hj : SvcOrd s e) (σ : Src) (c : Nat) :
    sel σ c e ++ sel σ c (s.task σ.svc ++ outL s σ) = sel σ c s.issued := by
  have hp := hw.proj σ c
  have h1 : sel σ c (downS s σ.svc c) = sel σ c e := by
    rw [← sel_selS σ c (downS s σ.svc c), hj σ.svc c, sel_selS]
  rw [← hp, ← h1]
  simp [pipe, downS, sel_append, List.append_assoc]

/-- run a label sequence, threading the hand-over log -/
def runX (cfg : Cfg) : St → List Item → List Label → Option (St × List Item)
  | s, e, [] => some (s, e)
  | s, e, l :: ls => match fire cfg s l with
    | none => none
    | some s' => runX cfg s' (e ++ handed s l) ls

theorem reachableX_of_runX (cfg : Cfg) : ∀ (ls : List Label) (s : St) (e : List Item) (r : St × List Item),
    ReachableX cfg s e → runX cfg s e ls = some r → ReachableX cfg r.1 r.2
  | [], s, e, r, h, hr => by
    simp only [runX, Option.some.injEq] at hr
    subst hr; exact h
  | l :: ls, s, e, r, h, hr => by
    simp only [runX] at hr
    split at hr
    · cases hr
    · rename_i s' hf
      exact reachableX_of_runX cfg ls s' _ r (ReachableX.step l h hf) hr

/-! ### progress: what a service handed over can always be brought to the socket

No fairness assumption is proved about the Go scheduler; what is proved is that
the network never gets *stuck*: from every state there is a continuation (the
connection writers write — i.e. the clients read —, the front processes its
mailbox, the transport delivers) that drains the stages below a service, and it
consists of `deliver` / `process` / `write` steps only (nothing new is issued). -/

theorem runX_append (cfg : Cfg) : ∀ (l1 l2 : List Label) (s : St) (e : List Item),
    runX cfg s e (l1 ++ l2) = (runX cfg s e l1).bind (fun r => runX cfg r.1 r.2 l2)
  | [], l2, s, e => by simp [runX]
  | l :: l1, l2, s, e => by
    cases h : fire cfg s l with
    | none => simp [runX, h]
    | some s' => simp [runX, h, runX_append cfg l1 l2]

/-- the writer of connection `c` can empty its send queue -/
theorem drain_chSend (cfg : Cfg) (c : Nat) : ∀ (n : Nat) (s : St) (e : List Item), (s.chSend c).length = n →
    ∃ ls s', runX cfg s e ls = some (s', e) ∧ s'.chSend c = [] ∧ s'.mailbox = s.mailbox ∧
      s'.transport = s.transport ∧ s'.closed = s.closed
  | 0, s, e, h => ⟨[], s, by simp [runX], List.eq_nil_of_length_eq_zero h, rfl, rfl, rfl⟩
  | n + 1, s, e, h => by
    cases hc : s.chSend c with
    | nil => rw [hc] at h; cases h
    | cons x rest =>
      have hf : fire cfg s (.write c) =
          some { s with chSend := upd s.chSend c rest, socket := upd s.socket c (s.socket c ++ [x]) } := by
        simp [fire, fireAt, hc]
      have hl : rest.length = n := by rw [hc] at h; simpa using h
      obtain ⟨ls, s', hr, h1, h2, h3, h4⟩ :=
        drain_chSend cfg c n { s with chSend := upd s.chSend c rest, socket := upd s.socket c (s.socket c ++ [x]) } e
          (by simpa using hl)
      refine ⟨.write c :: ls, s', ?_, h1, h2, h3, h4⟩
      simpa [runX, hf, handed] using hr

/-- the front can empty its mailbox (a full send queue is emptied by its writer first) -/
theorem drain_mailbox (cfg : Cfg) (hso : cfg.sendOverflow = false) (hcap : 0 < cfg.chCap) :
    ∀ (n : Nat) (s : St) (e : List Item), s.mailbox.length = n →
    ∃ ls s', runX cfg s e ls = some (s', e) ∧ s'.mailbox = [] ∧ s'.transport = s.transport ∧ s'.closed = s.closed
  | 0, s, e, h => ⟨[], s, by simp [runX], List.eq_nil_of_length_eq_zero h, rfl, rfl⟩
  | n + 1, s, e, h => by
    cases hm : s.mailbox with
    | nil => rw [hm] at h; cases h
    | cons x rest =>
      obtain ⟨l1, s1, hr1, hc1, hm1, ht1, hcl1⟩ := drain_chSend cfg x.client _ s e rfl
      have hnc : ¬ (cfg.chCap ≤ 0) := by omega
      have hfull : full cfg s1 x.client = false := by simp [full, hc1, hnc]
      have hf : fire cfg s1 .process = some (toSession { s1 with mailbox := rest } x) := by
        simp [fire, fireAt, hm1, hm, hfull]
      have hmb : (toSession { s1 with mailbox := rest } x).mailbox = rest := (toSession_fields _ x).2.2.2.2.2.1
      have htr : (toSession { s1 with mailbox := rest } x).transport = s1.transport := (toSession_fields _ x).2.2.2.2.1
      have hcl : (toSession { s1 with mailbox := rest } x).closed = s1.closed := (toSession_fields _ x).2.2.2.2.2.2.2
      have hl : rest.length = n := by rw [hm] at h; simpa using h
      obtain ⟨l2, s3, hr2, hm3, ht3, hcl3⟩ :=
        drain_mailbox cfg hso hcap n (toSession { s1 with mailbox := rest } x) e (by rw [hmb]; exact hl)
      refine ⟨l1 ++ (.process :: l2), s3, ?_, hm3, ?_, ?_⟩
      · rw [runX_append, hr1]
        simpa [runX, hf, handed] using hr2
      · rw [ht3, htr, ht1]
      · rw [hcl3, hcl, hcl1]

/-- the transport can deliver everything it holds -/
theorem drain_transport (cfg : Cfg) (S : Nat) : ∀ (n : Nat) (s : St) (e : List Item), (s.transport S).length = n →
    ∃ ls s', runX cfg s e ls = some (s', e) ∧ s'.transport S = [] ∧ s'.closed = s.closed
  | 0, s, e, h => ⟨[], s, by simp [runX], List.eq_nil_of_length_eq_zero h, rfl⟩
  | n + 1, s, e, h => by
    cases ht : s.transport S with
    | nil => rw [ht] at h; cases h
    | cons x rest =>
      have hf : fire cfg s (.deliver S) =
          some { s with transport := upd s.transport S rest, mailbox := s.mailbox ++ [x] } := by
        simp [fire, fireAt, ht]
      have hl : rest.length = n := by rw [ht] at h; simpa using h
      obtain ⟨ls, s', hr, h1, h2⟩ :=
        drain_transport cfg S n { s with transport := upd s.transport S rest, mailbox := s.mailbox ++ [x] } e
          (by simpa using hl)
      refine ⟨.deliver S :: ls, s', ?_, h1, h2⟩
      simpa [runX, hf, handed] using hr

/-- **no state is stuck**: from every state, for every service `S` and
connection `c`, some continuation that issues nothing new empties the transport
of `S`, the front's mailbox and `c`'s send queue -/
theorem can_drain (cfg : Cfg) (hso : cfg.sendOverflow = false) (hcap : 0 < cfg.chCap) (s : St) (e : List Item)
    (S c : Nat) :
    ∃ ls s', runX cfg s e ls = some (s', e) ∧ s'.transport S = [] ∧ s'.mailbox = [] ∧ s'.chSend c = [] ∧
      s'.closed = s.closed := by
  obtain ⟨l1, s1, hr1, ht1, hcl1⟩ := drain_transport cfg S _ s e rfl
  obtain ⟨l2, s2, hr2, hm2, ht2, hcl2⟩ := drain_mailbox cfg hso hcap _ s1 e rfl
  obtain ⟨l3, s3, hr3, hc3, hm3, ht3, hcl3⟩ := drain_chSend cfg c _ s2 e rfl
  refine ⟨l1 ++ (l2 ++ l3), s3, ?_, ?_, ?_, hc3, ?_⟩
  · rw [runX_append, hr1]
    simp only [Option.bind_some]
    rw [runX_append, hr2]
    simpa using hr3
  · rw [ht3, ht2]; exact ht1
  · rw [hm3]; exact hm2
  · rw [hcl3, hcl2, hcl1]

end Cell2v.FifoNet
