import Cell2v.Lemmas.Modules
/-! helper lemmas for C11: the synchronous chain (`Chain`) — nested Start/Stop calls and a panicking completion callback -/
namespace Cell2v.Modules

theorem enters_doNow_tail (s : ML) : (enters s.doNow).tail = [] := by
  unfold ML.doNow
  (repeat' split) <;> simp [enters]

theorem enters_next_tail (s : ML) (b : Bool) : (enters (s.next b).2).tail = [] := by
  cases b
  · simp [ML.next, enters]
  · simp only [ML.next, Bool.not_true, Bool.false_eq_true, ↓reduceIte]
    exact enters_doNow_tail _

theorem enters_filter_tail (n : Nat) (fwd : Bool) : (enters (filter n fwd).2).tail = [] := by
  by_cases h : n = 0
  · simp [filter, h, enters]
  · simp only [filter, h, ↓reduceIte]
    exact enters_doNow_tail _

/-- a `next` call that invokes `finish` enters no module -/
theorem next_finish_no_enter (s : ML) (b : Bool) (h : (finishes (s.next b).2).isEmpty = false) :
    enters (s.next b).2 = [] := by
  cases b
  · simp [ML.next, enters]
  · revert h
    simp only [ML.next, Bool.not_true, Bool.false_eq_true, ↓reduceIte, ML.doNow]
    (repeat' split) <;> simp [enters, finishes]

/-- the tail of `e ++ st` lies in `st` when `e` has at most one element -/
theorem mem_tail_short_append {e st : List Nat} (he : e.tail = []) {x : Nat} (hx : x ∈ (e ++ st).tail) : x ∈ st := by
  match e, he with
  | [], _ => exact List.mem_of_mem_tail hx
  | [_], _ => simpa using hx

/-! ### the chain refines the action-level wrapper model -/

/-- the chain's flags, closure state and log are those of the action-level model on the actions seen so far -/
def ChainRef (n : Nat) (fwd : Bool) (c : Chain) : Prop :=
  c.ws = wstate {} c.acts ∧
    c.ml = (runFrom (filter n fwd).1 (filter n fwd).2 (wcalls c.acts)).1 ∧
    c.log = (runFrom (filter n fwd).1 (filter n fwd).2 (wcalls c.acts)).2

theorem ChainRef_stack {n fwd c} (h : ChainRef n fwd c) (st : List Nat) : ChainRef n fwd { c with stack := st } := h

theorem ChainRef_act {n fwd c} (h : ChainRef n fwd c) (a : MAct) : ChainRef n fwd (c.act a).1 := by
  obtain ⟨hw, hm, hl⟩ := h
  have hws : wstate {} (c.acts ++ [a]) = (c.ws.step a).1 := by
    rw [wstate_append, ← hw]; rfl
  have hcs : wcalls (c.acts ++ [a]) = wcalls c.acts ++ (c.ws.step a).2.toList := by
    rw [wcalls_snoc, ← hw]
  unfold Chain.act
  split
  · rename_i hn
    refine ⟨hws.symm, ?_, ?_⟩
    · show c.ml = _
      rw [hcs, hn]; simpa using hm
    · show c.log = _
      rw [hcs, hn]; simpa using hl
  · rename_i w b hn
    refine ⟨hws.symm, ?_, ?_⟩
    · show (c.ml.next b).1 = _
      rw [hcs, hn, runFrom_append]
      simp [runFrom, ← hm, ← hl]
    · show c.log ++ Ev.call w b :: (c.ml.next b).2 = _
      rw [hcs, hn, runFrom_append]
      simp [runFrom, ← hm, ← hl]

theorem ChainRef_unwind {n fwd} (fp : Bool) : ∀ (st : List Nat) (c : Chain), ChainRef n fwd c → ChainRef n fwd (Chain.unwind fp c st) := by
  intro st
  induction st with
  | nil => intro c h; exact h
  | cons w rest ih =>
    intro c h
    have h1 := ChainRef_act (ChainRef_stack h rest) (.panic w)
    unfold Chain.unwind
    split
    · exact ih _ h1
    · exact h1

theorem ChainRef_reportBy {n fwd c} (fp : Bool) (h : ChainRef n fwd c) (w : Nat) (b : Bool) : ChainRef n fwd (c.reportBy fp w b) := by
  unfold Chain.reportBy
  split
  · exact ChainRef_unwind fp _ _ (ChainRef_act h _)
  · exact ChainRef_act h _

theorem ChainRef_step {n fwd c} (fp : Bool) (h : ChainRef n fwd c) (op : COp) : ChainRef n fwd (c.step fp op) := by
  cases op with
  | report b =>
    simp only [Chain.step]
    split
    · exact h
    · exact ChainRef_reportBy fp h _ _
  | panic =>
    simp only [Chain.step]
    split
    · exact h
    · exact ChainRef_unwind fp _ _ h
  | ret => exact h
  | late w b =>
    simp only [Chain.step]
    split
    · exact ChainRef_reportBy fp h _ _
    · exact h

theorem ChainRef_init (fp : Bool) (n : Nat) (fwd : Bool) : ChainRef n fwd (Chain.init fp n fwd) := by
  refine ⟨rfl, ?_, ?_⟩ <;> simp [Chain.init, wcalls, wcallsFrom, runFrom]

theorem ChainRef_runFrom {n fwd} (fp : Bool) : ∀ (ops : List COp) (c : Chain), ChainRef n fwd c → ChainRef n fwd (Chain.runFrom fp c ops) := by
  intro ops
  induction ops with
  | nil => intro c h; exact h
  | cons op ops ih => intro c h; exact ih _ (ChainRef_step fp h op)

/-! ### the stack discipline: every active module except the innermost is inside its own report -/

def StackOK (c : Chain) : Prop := ∀ x ∈ c.stack.tail, x ∈ c.ws.reported

theorem act_reported_mono (c : Chain) (a : MAct) (x : Nat) (h : x ∈ c.ws.reported) : x ∈ (c.act a).1.ws.reported := by
  unfold Chain.act
  split <;> exact step_reported_mono _ _ _ h

/-- the wrapper's own `next(false)` enters nothing: after the handler the stack is what it was -/
theorem act_panic_stack (c : Chain) (w : Nat) : (c.act (.panic w)).1.stack = c.stack := by
  unfold Chain.act
  split
  · rfl
  · rename_i w' b hn
    have hb : b = false := by
      simp only [Wrap.step] at hn
      split at hn <;> simp_all
    subst hb
    simp [ML.next, enters]

theorem act_ws (c : Chain) (a : MAct) : (c.act a).1.ws = (c.ws.step a).1 := by
  unfold Chain.act
  split <;> rfl

theorem StackOK_unwind (fp : Bool) : ∀ (st : List Nat) (c : Chain), (∀ x ∈ st.tail, x ∈ c.ws.reported) → StackOK (Chain.unwind fp c st) := by
  intro st
  induction st with
  | nil => intro c _; intro x hx; simp [Chain.unwind] at hx
  | cons w rest ih =>
    intro c h
    have hr : ∀ x ∈ rest, x ∈ (({ c with stack := rest } : Chain).act (.panic w)).1.ws.reported := by
      intro x hx
      exact act_reported_mono _ _ _ (h x (by simpa using hx))
    unfold Chain.unwind
    split
    · exact ih _ (fun x hx => hr x (List.mem_of_mem_tail hx))
    · intro x hx
      rw [act_panic_stack] at hx
      exact hr x (List.mem_of_mem_tail hx)

theorem StackOK_reportBy {c : Chain} (fp : Bool) (h : StackOK c) (w : Nat) (b : Bool)
    (hw : c.stack = [] ∨ ∃ rest, c.stack = w :: rest) : StackOK (c.reportBy fp w b) := by
  -- after the report: everything under the (possibly new) innermost call has reported
  have h1 : StackOK (c.act (.report w b)).1 := by
    intro x hx
    unfold Chain.act at hx ⊢
    split at hx
    · rename_i hn
      exact step_reported_mono _ _ _ (h x hx)
    · rename_i w' b' hn
      have hx' := mem_tail_short_append (enters_next_tail c.ml b') hx
      rcases hw with h0 | ⟨rest, hs⟩
      · simp [h0] at hx'
      · rw [hs] at hx'
        rcases List.mem_cons.mp hx' with rfl | hxr
        · -- the reporting module itself: its `reported` flag was set before `next` ran
          show x ∈ (c.ws.step (.report x b)).1.reported
          simp only [Wrap.step] at hn ⊢
          split at hn
          · simp at hn
          · rename_i hd
            have hd' : x ∉ c.ws.dead := by simpa using hd
            simp [hd']
        · exact step_reported_mono _ _ _ (h x (by rw [hs]; simpa using hxr))
  unfold Chain.reportBy
  split
  · exact StackOK_unwind fp _ _ (fun x hx => h1 x hx)
  · exact h1

theorem StackOK_step {c : Chain} (fp : Bool) (h : StackOK c) (op : COp) : StackOK (c.step fp op) := by
  cases op with
  | report b =>
    simp only [Chain.step]
    split
    · exact h
    · rename_i w rest hs
      exact StackOK_reportBy fp h w b (Or.inr ⟨rest, hs⟩)
  | panic =>
    simp only [Chain.step]
    split
    · exact h
    · exact StackOK_unwind fp _ _ h
  | ret =>
    intro x hx
    exact h x (List.mem_of_mem_tail hx)
  | late w b =>
    simp only [Chain.step]
    split
    · rename_i he
      exact StackOK_reportBy fp h w b (Or.inl (by simpa using he))
    · exact h

theorem StackOK_init (fp : Bool) (n : Nat) (fwd : Bool) : StackOK (Chain.init fp n fwd) := by
  intro x hx
  simp [Chain.init, enters_filter_tail] at hx

theorem StackOK_runFrom (fp : Bool) : ∀ (ops : List COp) (c : Chain), StackOK c → StackOK (Chain.runFrom fp c ops) := by
  intro ops
  induction ops with
  | nil => intro c h; exact h
  | cons op ops ih => intro c h; exact ih _ (StackOK_step fp h op)

/-! ### a panic that reaches the wrapper of a module that has reported changes nothing but the stack -/

theorem act_panic_reported (c : Chain) (w : Nat) (h : w ∈ c.ws.reported) :
    (c.act (.panic w)) = ({ c with acts := c.acts ++ [.panic w] }, false) := by
  have hs : c.ws.step (.panic w) = (c.ws, none) := by
    simp [Wrap.step, h]
  unfold Chain.act
  simp [hs]

/-- unwinding into a stack whose innermost module has reported: recovered right there -/
theorem unwind_reported (fp : Bool) (c : Chain) (w : Nat) (rest : List Nat) (h : w ∈ c.ws.reported) :
    Chain.unwind fp c (w :: rest) = { c with stack := rest, acts := c.acts ++ [.panic w] } := by
  unfold Chain.unwind
  rw [act_panic_reported _ _ (by exact h)]
  simp

/-- a report that ends the phase: nothing was entered, and the reporting module's flag is set -/
theorem act_report_finish (c : Chain) (w : Nat) (b : Bool) (h : (c.act (.report w b)).2 = true) :
    (c.act (.report w b)).1.stack = c.stack ∧ w ∈ (c.act (.report w b)).1.ws.reported := by
  unfold Chain.act at h ⊢
  split at h
  · simp at h
  · rename_i w' b' hn
    refine ⟨?_, ?_⟩
    · show enters (c.ml.next b').2 ++ c.stack = c.stack
      rw [next_finish_no_enter _ _ (by simpa using h)]; rfl
    · show w ∈ (c.ws.step (.report w b)).1.reported
      simp only [Wrap.step] at hn ⊢
      split at hn
      · simp at hn
      · rename_i hd
        have hd' : w ∉ c.ws.dead := by simpa using hd
        simp [hd']

/-- what a step does to the log, the flags and the closure state does not depend on whether the completion
callback panics; its panic only cuts active calls short -/
def SameButStack (a b : Chain) : Prop := a.log = b.log ∧ a.ws = b.ws ∧ a.ml = b.ml ∧ a.stack <:+ b.stack

theorem SameButStack_refl (a : Chain) : SameButStack a a := ⟨rfl, rfl, rfl, List.suffix_refl _⟩

theorem reportBy_fp_indep (c : Chain) (w : Nat) (b : Bool) (hw : c.stack = [] ∨ ∃ rest, c.stack = w :: rest) :
    SameButStack (c.reportBy true w b) (c.reportBy false w b) := by
  unfold Chain.reportBy
  simp only [Bool.true_and, Bool.false_and, Bool.false_eq_true, ↓reduceIte]
  split
  · rename_i hf
    obtain ⟨hst, hrep⟩ := act_report_finish c w b hf
    rcases hw with h0 | ⟨rest, hs⟩
    · rw [hst, h0]
      exact ⟨rfl, rfl, rfl, by simp [Chain.unwind]⟩
    · rw [hst, hs, unwind_reported _ _ _ _ hrep]
      exact ⟨rfl, rfl, rfl, by rw [hst, hs]; exact List.suffix_cons _ _⟩
  · exact SameButStack_refl _

theorem unwind_fp_indep (c : Chain) (h : StackOK c) (hne : c.stack ≠ []) :
    SameButStack (Chain.unwind true c c.stack) (Chain.unwind false c c.stack) := by
  match hs : c.stack with
  | [] => exact absurd hs hne
  | w :: rest =>
    unfold Chain.unwind
    simp only [Bool.true_and, Bool.false_and, Bool.false_eq_true, ↓reduceIte]
    split
    · match rest with
      | [] => exact ⟨rfl, rfl, rfl, by simp [Chain.unwind]⟩
      | w2 :: rest2 =>
        have h2 : w2 ∈ (({ c with stack := w2 :: rest2 } : Chain).act (.panic w)).1.ws.reported :=
          act_reported_mono _ _ _ (h w2 (by rw [hs]; simp))
        rw [unwind_reported _ _ _ _ h2]
        exact ⟨rfl, rfl, rfl, by rw [act_panic_stack]; exact List.suffix_cons _ _⟩
    · exact SameButStack_refl _

theorem step_fp_indep (c : Chain) (h : StackOK c) (op : COp) : SameButStack (c.step true op) (c.step false op) := by
  cases op with
  | report b =>
    simp only [Chain.step]
    split
    · exact SameButStack_refl _
    · rename_i w rest hs
      exact reportBy_fp_indep c w b (Or.inr ⟨rest, hs⟩)
  | panic =>
    simp only [Chain.step]
    split
    · exact SameButStack_refl _
    · rename_i hne
      exact unwind_fp_indep c h (by intro h0; simp [h0] at hne)
  | ret => exact SameButStack_refl _
  | late w b =>
    simp only [Chain.step]
    split
    · rename_i he
      exact reportBy_fp_indep c w b (Or.inl (by simpa using he))
    · exact SameButStack_refl _

/-! ### a Start/Stop call is unwound by at most one panic: the panics the wrappers see are disciplined -/

/-- every panic a wrapper has seen is of a module that had been entered and had not panicked before -/
def PanicsOK (n : Nat) (fwd : Bool) (acts : List MAct) : Prop :=
  ∀ p w q, acts = p ++ MAct.panic w :: q → Ev.enter w ∈ wrun n fwd p ∧ MAct.panic w ∉ p

theorem snoc_split {α} (l : List α) (x : α) (p : List α) (a : α) (q : List α) (h : l ++ [x] = p ++ a :: q) :
    (q = [] ∧ p = l ∧ a = x) ∨ ∃ q', q = q' ++ [x] ∧ l = p ++ a :: q' := by
  rcases List.eq_nil_or_concat q with rfl | ⟨q', y, rfl⟩
  · left
    have h' : l ++ [x] = p ++ [a] := by simpa using h
    have := List.append_inj' h' rfl
    exact ⟨rfl, this.1.symm, by simpa using this.2.symm⟩
  · right
    have h' : l ++ [x] = (p ++ a :: q') ++ [y] := by simpa using h
    have := List.append_inj' h' rfl
    obtain ⟨h1, h2⟩ := this
    have hxy : x = y := by simpa using h2
    exact ⟨q', by rw [hxy]; simp, h1⟩

theorem wrun_prefix_mem (n : Nat) (fwd : Bool) (p r : List MAct) (e : Ev) (h : e ∈ wrun n fwd p) : e ∈ wrun n fwd (p ++ r) := by
  simp only [wrun, run, wcalls, wcallsFrom_append, runFrom_append] at h ⊢
  obtain ⟨rest, hr⟩ := runFrom_prefix (wcallsFrom (wstate {} p) r)
    (runFrom (filter n fwd).1 (filter n fwd).2 (wcallsFrom {} p)).1 (runFrom (filter n fwd).1 (filter n fwd).2 (wcallsFrom {} p)).2
  rw [hr]
  exact List.mem_append_left _ h

theorem PanicsOK_report {n fwd acts} (h : PanicsOK n fwd acts) (w : Nat) (b : Bool) : PanicsOK n fwd (acts ++ [.report w b]) := by
  intro p w' q heq
  rcases snoc_split _ _ _ _ _ heq with ⟨_, _, ha⟩ | ⟨q', _, hl⟩
  · cases ha
  · exact h p w' q' hl

theorem PanicsOK_panic {n fwd acts} (h : PanicsOK n fwd acts) (w : Nat) (he : Ev.enter w ∈ wrun n fwd acts)
    (hp : MAct.panic w ∉ acts) : PanicsOK n fwd (acts ++ [.panic w]) := by
  intro p w' q heq
  rcases snoc_split _ _ _ _ _ heq with ⟨_, hpl, ha⟩ | ⟨q', _, hl⟩
  · cases ha; subst hpl; exact ⟨he, hp⟩
  · exact h p w' q' hl

theorem enters_wrun_nodup (n : Nat) (fwd : Bool) (acts : List MAct) : (enters (wrun n fwd acts)).Nodup := by
  have h : (enters (wrun n fwd acts)).Sublist (ord n fwd) := by
    unfold wrun; rw [run_eq_arun]; exact enters_sublist_arun _ _
  exact h.nodup (ord_nodup n fwd)

/-- the bookkeeping invariant: active calls are distinct, of entered modules that no panic has unwound yet -/
def ChainOK (n : Nat) (fwd : Bool) (c : Chain) : Prop :=
  c.stack.Nodup ∧ (∀ w ∈ c.stack, Ev.enter w ∈ c.log ∧ MAct.panic w ∉ c.acts) ∧ PanicsOK n fwd c.acts

theorem panic_seen_entered {n fwd c} (hr : ChainRef n fwd c) (hp : PanicsOK n fwd c.acts) (w : Nat) (h : MAct.panic w ∈ c.acts) :
    Ev.enter w ∈ c.log := by
  obtain ⟨s, t, hst⟩ := List.append_of_mem h
  have h1 := (hp s w t hst).1
  have h2 := wrun_prefix_mem n fwd s (MAct.panic w :: t) _ h1
  rw [← hst] at h2
  have : c.log = wrun n fwd c.acts := hr.2.2
  rw [this]; exact h2

theorem ChainOK_act_report {n fwd c} (hr : ChainRef n fwd c) (h : ChainOK n fwd c) (w : Nat) (b : Bool) :
    ChainOK n fwd (c.act (.report w b)).1 := by
  obtain ⟨hnd, hst, hp⟩ := h
  have hr' := ChainRef_act hr (.report w b)
  have hp' := PanicsOK_report hp w b
  have hnp : ∀ x, MAct.panic x ∉ c.acts → MAct.panic x ∉ c.acts ++ [MAct.report w b] := by
    intro x hx; simpa using hx
  revert hr'
  unfold Chain.act
  split
  · intro _
    exact ⟨hnd, fun x hx => ⟨(hst x hx).1, hnp x (hst x hx).2⟩, hp'⟩
  · rename_i w' b' hn
    intro hr'
    have hlog : (enters (c.log ++ Ev.call w' b' :: (c.ml.next b').2)).Nodup := by
      have : c.log ++ Ev.call w' b' :: (c.ml.next b').2 = wrun n fwd (c.acts ++ [MAct.report w b]) := hr'.2.2
      rw [this]; exact enters_wrun_nodup _ _ _
    have hnd2 : (enters c.log ++ enters (c.ml.next b').2).Nodup := by
      simpa [enters] using hlog
    refine ⟨?_, ?_, hp'⟩
    · show (enters (c.ml.next b').2 ++ c.stack).Nodup
      rw [List.nodup_append] at hnd2 ⊢
      refine ⟨hnd2.2.1, hnd, ?_⟩
      intro a ha b hb
      exact fun hab => hnd2.2.2 b ((mem_enters _ _).mpr (hst b hb).1) a ha hab.symm
    · intro x hx
      show Ev.enter x ∈ c.log ++ Ev.call w' b' :: (c.ml.next b').2 ∧ MAct.panic x ∉ c.acts ++ [MAct.report w b]
      have hx' : x ∈ enters (c.ml.next b').2 ++ c.stack := hx
      rcases List.mem_append.mp hx' with hx1 | hx2
      · refine ⟨by simp [(mem_enters _ _).mp hx1], hnp x ?_⟩
        intro hpx
        have hin := (mem_enters _ _).mpr (panic_seen_entered hr hp x hpx)
        rw [List.nodup_append] at hnd2
        exact hnd2.2.2 x hin x hx1 rfl
      · exact ⟨List.mem_append_left _ (hst x hx2).1, hnp x (hst x hx2).2⟩

/-- the wrapper of module `w`, whose call has just been taken off the stack, sees the panic -/
theorem ChainOK_act_panic {n fwd c} (hr : ChainRef n fwd c) (w : Nat) (rest : List Nat)
    (h : ChainOK n fwd { c with stack := w :: rest }) : ChainOK n fwd (({ c with stack := rest } : Chain).act (.panic w)).1 := by
  obtain ⟨hnd, hst, hp⟩ := h
  have hnd' : w ∉ rest ∧ rest.Nodup := by simpa using hnd
  have hw := hst w (by simp)
  have hlogw : Ev.enter w ∈ wrun n fwd c.acts := by
    have : c.log = wrun n fwd c.acts := hr.2.2
    rw [← this]; exact hw.1
  have hp' : PanicsOK n fwd (c.acts ++ [.panic w]) := PanicsOK_panic hp w hlogw hw.2
  have hstack := act_panic_stack ({ c with stack := rest } : Chain) w
  refine ⟨by rw [hstack]; exact hnd'.2, ?_, ?_⟩
  · intro x hx
    rw [hstack] at hx
    have hx0 := hst x (List.mem_cons_of_mem _ hx)
    have hne : x ≠ w := fun e => hnd'.1 (e ▸ hx)
    constructor
    · unfold Chain.act
      split
      · exact hx0.1
      · exact List.mem_append_left _ hx0.1
    · have hacts : (({ c with stack := rest } : Chain).act (.panic w)).1.acts = c.acts ++ [.panic w] := by
        unfold Chain.act; split <;> rfl
      rw [hacts]
      simp only [List.mem_append, List.mem_singleton, MAct.panic.injEq, not_or]
      exact ⟨hx0.2, hne⟩
  · have hacts : (({ c with stack := rest } : Chain).act (.panic w)).1.acts = c.acts ++ [.panic w] := by
      unfold Chain.act; split <;> rfl
    rw [hacts]; exact hp'

theorem ChainOK_unwind {n fwd} (fp : Bool) : ∀ (st : List Nat) (c : Chain), ChainRef n fwd c →
    ChainOK n fwd { c with stack := st } → ChainOK n fwd (Chain.unwind fp c st) := by
  intro st
  induction st with
  | nil =>
    intro c _ h
    exact ⟨List.nodup_nil, fun x hx => by simp [Chain.unwind] at hx, h.2.2⟩
  | cons w rest ih =>
    intro c hr h
    have h1 := ChainOK_act_panic hr w rest h
    have hr1 := ChainRef_act (ChainRef_stack hr rest) (.panic w)
    have hstack := act_panic_stack ({ c with stack := rest } : Chain) w
    unfold Chain.unwind
    split
    · apply ih _ hr1
      have : ({ (({ c with stack := rest } : Chain).act (.panic w)).1 with stack := rest } : Chain) =
          (({ c with stack := rest } : Chain).act (.panic w)).1 := by
        conv => rhs; rw [show (({ c with stack := rest } : Chain).act (.panic w)).1 =
          { (({ c with stack := rest } : Chain).act (.panic w)).1 with stack := (({ c with stack := rest } : Chain).act (.panic w)).1.stack } from rfl]
        rw [hstack]
      rw [this]; exact h1
    · exact h1

theorem ChainOK_reportBy {n fwd c} (fp : Bool) (hr : ChainRef n fwd c) (h : ChainOK n fwd c) (w : Nat) (b : Bool) :
    ChainOK n fwd (c.reportBy fp w b) := by
  have h1 := ChainOK_act_report hr h w b
  unfold Chain.reportBy
  split
  · exact ChainOK_unwind fp _ _ (ChainRef_act hr _) h1
  · exact h1

theorem ChainOK_step {n fwd c} (fp : Bool) (hr : ChainRef n fwd c) (h : ChainOK n fwd c) (op : COp) : ChainOK n fwd (c.step fp op) := by
  cases op with
  | report b =>
    simp only [Chain.step]
    split
    · exact h
    · exact ChainOK_reportBy fp hr h _ _
  | panic =>
    simp only [Chain.step]
    split
    · exact h
    · exact ChainOK_unwind fp _ _ hr h
  | ret =>
    obtain ⟨hnd, hst, hp⟩ := h
    exact ⟨hnd.sublist (List.tail_sublist _), fun x hx => hst x (List.mem_of_mem_tail hx), hp⟩
  | late w b =>
    simp only [Chain.step]
    split
    · exact ChainOK_reportBy fp hr h _ _
    · exact h

theorem ChainOK_init (fp : Bool) (n : Nat) (fwd : Bool) : ChainOK n fwd (Chain.init fp n fwd) := by
  refine ⟨?_, ?_, ?_⟩
  · show (enters (filter n fwd).2).Nodup
    have h := enters_filter_tail n fwd
    match he : enters (filter n fwd).2, h with
    | [], _ => exact List.nodup_nil
    | [_], _ => simp
  · intro x hx
    exact ⟨(mem_enters _ _).mp hx, by simp [Chain.init]⟩
  · intro p w q heq
    simp [Chain.init] at heq

theorem ChainOK_runFrom {n fwd} (fp : Bool) : ∀ (ops : List COp) (c : Chain), ChainRef n fwd c → ChainOK n fwd c →
    ChainOK n fwd (Chain.runFrom fp c ops) := by
  intro ops
  induction ops with
  | nil => intro c _ h; exact h
  | cons op ops ih => intro c hr h; exact ih _ (ChainRef_step fp hr op) (ChainOK_step fp hr h op)

end Cell2v.Modules
