import Cell2v.Lemmas.Directory
/-!
C08 — helper lemmas, second part: the sequential semantics is pointwise per key; the
provider in front of the etcd store (`Sys`): the invariant "directory + pending events =
store" of a run that loses no event, and the frozen key of a run that lost one.
-/
namespace Cell2v.Directory
set_option linter.unusedSimpArgs false

/-! ## the sequential semantics, key by key -/

/-- what one event does to the value stored under key `j` -/
def ptStep (selfId : String) (e : Ev) (j : String) (x : Option Node) : Option Node :=
  match e with
  | .put k n => if j = k then (if n.id = selfId then x else if n.alive then some n else none) else x
  | .del k =>
    if j = k then (match x with | none => none | some v => if v.id = selfId then some v else none) else x
  | .bad _ => x
  | .unk _ => x

theorem seqStep_pointwise (selfId : String) (m : FM) (e : Ev) (j : String) :
    seqStep selfId m e j = ptStep selfId e j (m j) := by
  cases e with
  | bad k => rfl
  | unk k => rfl
  | put k n =>
    simp only [seqStep, ptStep]
    by_cases h : n.id = selfId
    · simp [h]
    · cases ha : n.alive <;> by_cases e : j = k <;> simp [h, ha, FM.upd, e]
  | del k =>
    simp only [seqStep, ptStep]
    by_cases e : j = k
    · subst e
      cases hm : m j with
      | none => simp [hm]
      | some v => by_cases h : v.id = selfId <;> simp [hm, h, FM.upd]
    · cases hm : m k with
      | none => simp [e]
      | some v => by_cases h : v.id = selfId <;> simp [h, FM.upd, e]

theorem implied_pointwise (selfId : String) (evs : List Ev) (j : String) : ∀ m : FM,
    implied selfId m evs j = evs.foldl (fun x e => ptStep selfId e j x) (m j) := by
  induction evs with
  | nil => intro m; rfl
  | cons e es ih =>
    intro m
    have := ih (seqStep selfId m e)
    simp only [implied, List.foldl_cons] at this ⊢
    rw [this, seqStep_pointwise]

theorem implied_congr_key (selfId : String) (evs : List Ev) (j : String) (m m' : FM) (h : m j = m' j) :
    implied selfId m evs j = implied selfId m' evs j := by
  rw [implied_pointwise, implied_pointwise, h]

/-- the etcd key (last segment) an event is about -/
def Ev.key : Ev → String
  | .put k _ => k | .del k => k | .bad k => k | .unk k => k

theorem ptStep_other (selfId : String) (e : Ev) (j : String) (x : Option Node) (h : e.key ≠ j) :
    ptStep selfId e j x = x := by
  have h' : ¬ j = e.key := fun c => h c.symm
  cases e <;> simp_all [ptStep, Ev.key]

theorem foldl_ptStep_filter (selfId : String) (j : String) (evs : List Ev) : ∀ x : Option Node,
    evs.foldl (fun x e => ptStep selfId e j x) x =
      (evs.filter (fun e => e.key == j)).foldl (fun x e => ptStep selfId e j x) x := by
  induction evs with
  | nil => intro x; rfl
  | cons e es ih =>
    intro x
    by_cases h : e.key = j
    · simp only [List.foldl_cons, List.filter_cons, h, beq_self_eq_true, if_true]; exact ih _
    · have hb : (e.key == j) = false := by simpa using h
      simp only [List.foldl_cons, List.filter_cons, hb, Bool.false_eq_true, if_false]
      rw [ptStep_other selfId e j x h]; exact ih _

theorem implied_untouched (selfId : String) (evs : List Ev) (j : String) (h : ∀ e ∈ evs, e.key ≠ j)
    (m : FM) : implied selfId m evs j = m j := by
  rw [implied_pointwise]
  induction evs generalizing m with
  | nil => rfl
  | cons e es ih =>
    simp only [List.foldl_cons]
    rw [ptStep_other selfId e j _ (h e List.mem_cons_self)]
    exact ih (fun e' he' => h e' (List.mem_cons_of_mem _ he')) m

/-! ## the listing as a map -/

/-- `fetchNodes` + `updateNodes` of a store whose values sit under their own ids reproduces the store -/
theorem updateNodes_fetched (st : AL Node) (hn : NoDupKeys st) (hk : Keyed st) (j : String) :
    AL.get (updateNodes [] (fetched st)) j = AL.get st j := by
  have hval : ∀ n ∈ fetched st, AL.get st n.id = some n := by
    intro n hn'
    obtain ⟨⟨k', n'⟩, hp, rfl⟩ := List.mem_map.mp hn'
    have hg := AL.get_of_mem st hn k' n' hp
    have := hk k' n' hg
    simp only at this ⊢
    rw [this]; exact hg
  cases hg : AL.get st j with
  | some v =>
    have hv : v ∈ fetched st := List.mem_map.mpr ⟨(j, v), AL.mem_of_get st j v hg, rfl⟩
    have hid : v.id = j := hk j v hg
    obtain ⟨n', hn', hid', hget⟩ := updateNodes_get_mem (fetched st) v hv []
    have h1 := hval n' hn'
    rw [hid', hid, hg] at h1
    rw [hid] at hget
    rw [hget]; exact h1.symm
  | none =>
    have : j ∉ (fetched st).map (·.id) := by
      intro hin
      obtain ⟨n, hn', hid⟩ := List.mem_map.mp hin
      have := hval n hn'
      rw [hid, hg] at this
      exact absurd this (by simp)
    rw [updateNodes_get_not_mem (fetched st) j this []]; rfl

/-! ## store and writes -/

/-- the prefix as cell2 nodes write it: one value per key, stored under the node's own id, alive -/
structure StoreWf (st : AL Node) : Prop where
  nodup : NoDupKeys st
  keyed : Keyed st
  alive : ∀ k v, AL.get st k = some v → v.alive = true

/-- a write as cell2 nodes make it (`registerService`/`keepAliveForever` write
`Serialize(self)` with `Alive = true` under `.../<self.ID>`; deletes are unrestricted) -/
def WrWf : Wr → Prop
  | .put k n => k = n.id ∧ n.alive = true
  | .del _ => True

theorem StoreWf.nil : StoreWf [] :=
  ⟨NoDupKeys.nil, fun _ _ h => by simp [AL.get_nil] at h, fun _ _ h => by simp [AL.get_nil] at h⟩

theorem storeStep_wf (st : AL Node) (w : Wr) (h : StoreWf st) (hw : WrWf w) : StoreWf (storeStep st w).1 := by
  cases w with
  | put k n =>
    obtain ⟨hk, ha⟩ := hw
    simp only [storeStep]
    refine ⟨h.nodup.set _ _, ?_, ?_⟩
    · rw [hk]; exact h.keyed.set n
    · intro j v hj
      rw [AL.get_set] at hj
      by_cases e : j = k
      · simp [e] at hj; rw [← hj]; exact ha
      · simp [e] at hj; exact h.alive j v hj
  | del k =>
    simp only [storeStep]
    cases hg : AL.get st k with
    | none => exact h
    | some v0 =>
      refine ⟨h.nodup.erase _, ?_, ?_⟩
      · intro j v hj
        rw [AL.get_erase] at hj
        by_cases e : j = k
        · simp [e] at hj
        · simp [e] at hj; exact h.keyed j v hj
      · intro j v hj
        rw [AL.get_erase] at hj
        by_cases e : j = k
        · simp [e] at hj
        · simp [e] at hj; exact h.alive j v hj

theorem storeStep_evwf (st : AL Node) (w : Wr) (hw : WrWf w) : ∀ e ∈ (storeStep st w).2.toList, EvWf e := by
  cases w with
  | put k n => intro e he; simp [storeStep] at he; subst he; exact hw.1
  | del k =>
    intro e he
    simp only [storeStep] at he
    cases hg : AL.get st k with
    | none => rw [hg] at he; simp at he
    | some v => rw [hg] at he; simp at he; subst he; trivial

/-- what a well-formed write does to the store, key by key, is what its event does in the
sequential semantics (away from the node's own key) -/
theorem storeStep_matches_event (selfId : String) (st : AL Node) (w : Wr) (h : StoreWf st) (hw : WrWf w)
    (j : String) (hj : j ≠ selfId) (x : Option Node) (hx : x = AL.get st j) :
    ((storeStep st w).2.toList).foldl (fun x e => ptStep selfId e j x) x = AL.get (storeStep st w).1 j := by
  subst hx
  cases w with
  | put k n =>
    obtain ⟨hk, ha⟩ := hw
    simp only [storeStep, Option.toList, List.foldl_cons, List.foldl_nil, ptStep]
    rw [AL.get_set]
    by_cases e : j = k
    · have : ¬ n.id = selfId := by rw [← hk, ← e]; exact hj
      simp [e, this, ha]
    · simp [e]
  | del k =>
    simp only [storeStep]
    cases hg : AL.get st k with
    | none => simp
    | some v0 =>
      simp only [Option.toList, List.foldl_cons, List.foldl_nil, ptStep]
      rw [AL.get_erase]
      by_cases e : j = k
      · subst e
        have : ¬ v0.id = selfId := by rw [h.keyed j v0 hg]; exact hj
        simp [hg, this]
      · simp [e]

/-! ## the machine in front of the store -/

theorem pstep_response_look (p : PState) (evs : List Ev) :
    look (pstep p (.response evs)).1.members = implied p.self.id (look p.members) evs := by
  simp only [pstep]
  by_cases he : evs.isEmpty = true
  · have : evs = [] := by simpa using he
    subst this; rfl
  · rw [if_neg he]
    simpa [respond, foldBatch] using look_foldBatch p.self.id p.members evs

theorem pstep_setState_look (p : PState) (st : Int) (j : String) (hj : j ≠ p.self.id) :
    look (pstep p (.setState st)).1.members j = look p.members j := by
  simp only [pstep, setSelfState, look]
  split
  · exact AL.get_set_ne _ _ hj
  · rfl

theorem sstep_self_id (s : Sys) (op : SOp) : (sstep s op).1.p.self.id = s.p.self.id := by
  cases op with
  | write w => rfl
  | fetch c => simp only [sstep]; split <;> rfl
  | openWatch => rfl
  | deliver k => simp only [sstep]; split; exact pstep_self_id _ _; rfl
  | fail => simp only [sstep]; split <;> rfl
  | setState st => rfl
  | register => rfl
  | kaTick => simp only [sstep]; split <;> rfl

/-- the invariant of a run in which no event is lost: the member map with the still pending
events applied is the store (away from the node's own key) -/
structure SInv (s : Sys) : Prop where
  store : StoreWf s.store
  pinv : PInv s.p
  watching : s.watching = true
  pend : ∀ e ∈ s.pending, EvWf e
  selfAlive : s.p.self.alive = true
  sync : ∀ j, j ≠ s.p.self.id → implied s.p.self.id (look s.p.members) s.pending j = look s.store j

/-- the operations that lose nothing: well-formed writes, deliveries, own state changes -/
def Lossless : SOp → Prop
  | .write w => WrWf w
  | .deliver _ => True
  | .setState _ => True
  | .register => True
  | .kaTick => True
  | _ => False

theorem writeSys_inv (s : Sys) (w : Wr) (hi : SInv s) (hw : WrWf w) : SInv (writeSys s w) := by
  simp only [writeSys, hi.watching, if_true]
  refine ⟨storeStep_wf _ _ hi.store hw, hi.pinv, rfl, ?_, hi.selfAlive, ?_⟩
  · intro e he
    rcases List.mem_append.mp he with h | h
    · exact hi.pend e h
    · exact storeStep_evwf _ _ hw e h
  · intro j hj
    show implied s.p.self.id (look s.p.members) (s.pending ++ (storeStep s.store w).2.toList) j = _
    rw [implied_append, implied_pointwise]
    exact storeStep_matches_event s.p.self.id s.store w hi.store hw j hj _ (hi.sync j hj)

theorem sstep_inv (s : Sys) (op : SOp) (hi : SInv s) (hl : Lossless op) : SInv (sstep s op).1 := by
  cases op with
  | fetch c => exact absurd hl (by simp [Lossless])
  | openWatch => exact absurd hl (by simp [Lossless])
  | fail => exact absurd hl (by simp [Lossless])
  | write w => exact writeSys_inv s w hi hl
  | register =>
    have hw : WrWf (.put s.p.self.id s.p.self) := ⟨rfl, hi.selfAlive⟩
    have h1 := writeSys_inv s _ hi hw
    have h2 := writeSys_inv _ _ h1 hw
    exact ⟨h2.store, h2.pinv, h2.watching, h2.pend, h2.selfAlive, h2.sync⟩
  | kaTick =>
    simp only [sstep]
    split
    · have h1 := writeSys_inv s (.del s.p.self.id) hi trivial
      have h2 := writeSys_inv _ (.put s.p.self.id s.p.self) h1 ⟨rfl, hi.selfAlive⟩
      exact ⟨h2.store, h2.pinv, h2.watching, h2.pend, h2.selfAlive, h2.sync⟩
    · exact hi
  | deliver k =>
    simp only [sstep, hi.watching, if_true]
    have hwf : OpWf (.response (s.pending.take k)) := fun e he => hi.pend e (List.mem_of_mem_take he)
    refine ⟨hi.store, pstep_inv _ _ hi.pinv hwf, rfl, fun e he => hi.pend e (List.mem_of_mem_drop he), ?_, ?_⟩
    · simp only [pstep]; split <;> exact hi.selfAlive
    intro j hj
    have hid : (pstep s.p (.response (s.pending.take k))).1.self.id = s.p.self.id := pstep_self_id _ _
    simp only [hid] at hj ⊢
    rw [pstep_response_look, ← implied_append, List.take_append_drop]
    exact hi.sync j hj
  | setState st =>
    simp only [sstep]
    refine ⟨hi.store, pstep_inv _ _ hi.pinv trivial, hi.watching, hi.pend, hi.selfAlive, ?_⟩
    intro j hj
    have hid : (pstep s.p (.setState st)).1.self.id = s.p.self.id := pstep_self_id _ _
    simp only [hid] at hj ⊢
    rw [implied_congr_key _ _ j _ (look s.p.members) (pstep_setState_look s.p st j hj)]
    exact hi.sync j hj

theorem srun_inv (ops : List SOp) : ∀ (s : Sys), SInv s → (∀ op ∈ ops, Lossless op) → SInv (srun s ops) := by
  induction ops with
  | nil => intro s hi _; exact hi
  | cons op ops ih =>
    intro s hi hl
    exact ih _ (sstep_inv s op hi (hl op List.mem_cons_self)) (fun o ho => hl o (List.mem_cons_of_mem _ ho))

/-- the start-up sequence with nothing written between the listing and the creation of the
watch establishes the invariant -/
theorem start_inv (self : Node) (ha : self.alive = true) (st : AL Node) (hs : StoreWf st) (client : Bool) :
    SInv (srun { store := st, p := { self := self } } [.fetch client, .openWatch]) := by
  cases client with
  | true =>
    refine ⟨hs, ⟨updateNodes_nodup _ _ NoDupKeys.nil, updateNodes_keyed _ _ (fun _ _ h => by simp [AL.get_nil] at h),
      fun h => by simp [srun, sstep] at h⟩, rfl, fun e he => by simp [srun, sstep] at he, ha, ?_⟩
    intro j _
    simp only [srun, List.foldl_cons, List.foldl_nil, sstep, if_true, implied, look]
    exact updateNodes_fetched st hs.nodup hs.keyed j
  | false =>
    have hp : PInv (pstep { self := self } (.listing (fetched st))).1 := pstep_inv _ _ (PInv.init self) trivial
    refine ⟨hs, hp, rfl, fun e he => by simp [srun, sstep] at he, ha, ?_⟩
    intro j hj
    have hj' : j ≠ self.id := hj
    simp only [srun, List.foldl_cons, List.foldl_nil, sstep, implied, look, pstep, updateNodesWithSelf, Bool.false_eq_true, if_false]
    rw [AL.get_set_ne _ _ hj']
    exact updateNodes_fetched st hs.nodup hs.keyed j

theorem srun_cons (s : Sys) (op : SOp) (ops : List SOp) : srun s (op :: ops) = srun (sstep s op).1 ops := rfl

theorem srun_append (s : Sys) (a b : List SOp) : srun s (a ++ b) = srun (srun s a) b := by
  simp [srun, List.foldl_append]

theorem srun_self_id (ops : List SOp) : ∀ s : Sys, (srun s ops).p.self.id = s.p.self.id := by
  induction ops with
  | nil => intro s; rfl
  | cons op ops ih => intro s; rw [srun_cons, ih, sstep_self_id]

theorem sstep_selfIn (s : Sys) (op : SOp) (hi : SInv s) (hl : Lossless op) (h : s.p.selfIn = true) :
    (sstep s op).1.p.selfIn = true := by
  cases op with
  | fetch c => exact absurd hl (by simp [Lossless])
  | openWatch => exact h
  | fail => simp only [sstep]; split <;> exact h
  | write w => exact h
  | deliver k =>
    simp only [sstep, hi.watching, if_true]
    exact pstep_listed _ _ hi.pinv (fun e he => hi.pend e (List.mem_of_mem_take he)) h
  | setState st => exact pstep_listed _ _ hi.pinv trivial h
  | register => exact h
  | kaTick => simp only [sstep]; split <;> exact h

theorem srun_selfIn (ops : List SOp) : ∀ (s : Sys), SInv s → s.p.selfIn = true → (∀ op ∈ ops, Lossless op) →
    (srun s ops).p.selfIn = true := by
  induction ops with
  | nil => intro s _ h _; exact h
  | cons op ops ih =>
    intro s hi h hl
    have ho := hl op List.mem_cons_self
    exact ih _ (sstep_inv s op hi ho) (sstep_selfIn s op hi ho h) (fun o h' => hl o (List.mem_cons_of_mem _ h'))

/-! ## the node itself, through lost events as well -/

/-- what self presence needs: the machine invariant, the own object in place, pending events
stored under their own ids — nothing about the watch or the store -/
structure SelfInv (s : Sys) : Prop where
  pinv : PInv s.p
  selfIn : s.p.selfIn = true
  pend : ∀ e ∈ s.pending, EvWf e

/-- registrations are written under their node's id; a (re-)listing is a member's -/
def OpKeyed : SOp → Prop
  | .write (.put k n) => k = n.id
  | .fetch c => c = false
  | _ => True

theorem writeSys_pend (s : Sys) (w : Wr) (hp : ∀ e ∈ s.pending, EvWf e) (hw : OpKeyed (.write w)) :
    ∀ e ∈ (writeSys s w).pending, EvWf e := by
  intro e he
  simp only [writeSys] at he
  split at he
  · rcases List.mem_append.mp he with h | h
    · exact hp e h
    · cases w with
      | put k n => simp [storeStep] at h; subst h; exact hw
      | del k =>
        simp only [storeStep] at h
        cases hg : AL.get s.store k with
        | none => rw [hg] at h; simp at h
        | some v => rw [hg] at h; simp at h; subst h; trivial
  · exact hp e he

theorem sstep_selfInv (s : Sys) (op : SOp) (hi : SelfInv s) (ho : OpKeyed op) : SelfInv (sstep s op).1 := by
  cases op with
  | write w => exact ⟨hi.pinv, hi.selfIn, writeSys_pend s w hi.pend ho⟩
  | fetch c =>
    have hc : c = false := ho
    subst hc
    simp only [sstep, Bool.false_eq_true, if_false]
    exact ⟨pstep_inv _ _ hi.pinv trivial, rfl, hi.pend⟩
  | openWatch => exact ⟨hi.pinv, hi.selfIn, fun e he => by simp [sstep] at he⟩
  | fail =>
    simp only [sstep]
    split
    · exact ⟨hi.pinv, hi.selfIn, fun e he => by simp at he⟩
    · exact hi
  | deliver k =>
    simp only [sstep]
    split
    · have hwf : OpWf (.response (s.pending.take k)) := fun e he => hi.pend e (List.mem_of_mem_take he)
      exact ⟨pstep_inv _ _ hi.pinv hwf, pstep_listed _ _ hi.pinv hwf hi.selfIn,
        fun e he => hi.pend e (List.mem_of_mem_drop he)⟩
    · exact hi
  | setState st =>
    exact ⟨pstep_inv _ _ hi.pinv trivial, pstep_listed _ _ hi.pinv trivial hi.selfIn, hi.pend⟩
  | register =>
    have hw : OpKeyed (.write (.put s.p.self.id s.p.self)) := rfl
    exact ⟨hi.pinv, hi.selfIn, writeSys_pend _ _ (writeSys_pend s _ hi.pend hw) hw⟩
  | kaTick =>
    simp only [sstep]
    split
    · have hw : OpKeyed (.write (.put s.p.self.id s.p.self)) := rfl
      exact ⟨hi.pinv, hi.selfIn, writeSys_pend _ _ (writeSys_pend s _ hi.pend trivial) hw⟩
    · exact hi

theorem srun_selfInv (ops : List SOp) : ∀ (s : Sys), SelfInv s → (∀ op ∈ ops, OpKeyed op) → SelfInv (srun s ops) := by
  induction ops with
  | nil => intro s hi _; exact hi
  | cons op ops ih =>
    intro s hi hl
    exact ih _ (sstep_selfInv s op hi (hl op List.mem_cons_self)) (fun o ho => hl o (List.mem_cons_of_mem _ ho))

/-- whatever a step publishes is the member map after the step -/
theorem sstep_pub (s : Sys) (op : SOp) (pub : List Member) (h : (sstep s op).2 = some pub) (ho : OpKeyed op) :
    pub = publish (sstep s op).1.p.members := by
  cases op with
  | write w => simp [sstep] at h
  | openWatch => simp [sstep] at h
  | setState st => simp [sstep] at h
  | register => simp [sstep] at h
  | fail => simp only [sstep] at h; split at h <;> simp at h
  | kaTick => simp only [sstep] at h; split at h <;> simp at h
  | fetch c =>
    have hc : c = false := ho
    subst hc
    simp only [sstep, Bool.false_eq_true, if_false] at h ⊢
    exact pstep_pub _ _ pub h
  | deliver k =>
    simp only [sstep] at h ⊢
    split at h
    · rename_i hw; simp only [hw, if_true]; exact pstep_pub _ _ pub h
    · simp at h

/-! ## a lost event is never repaired -/

/-- the operation reads or writes key `k` of the prefix -/
def Touches (k : String) : SOp → Prop
  | .write (.put k' _) => k' = k
  | .write (.del k') => k' = k
  | .fetch _ => True
  | _ => False

theorem writeSys_frozen (s : Sys) (w : Wr) (k : String) (hp : ∀ e ∈ s.pending, e.key ≠ k)
    (ho : ¬ Touches k (.write w)) :
    look (writeSys s w).store k = look s.store k ∧ (∀ e ∈ (writeSys s w).pending, e.key ≠ k) := by
  cases w with
  | put k' n =>
    have hne : k ≠ k' := fun e => ho e.symm
    refine ⟨?_, ?_⟩
    · simp only [writeSys, storeStep, look]; exact AL.get_set_ne _ _ hne
    · intro e he
      simp only [writeSys, storeStep] at he
      split at he
      · rcases List.mem_append.mp he with h | h
        · exact hp e h
        · simp at h; subst h; exact fun c => hne c.symm
      · exact hp e he
  | del k' =>
    have hne : k ≠ k' := fun e => ho e.symm
    refine ⟨?_, ?_⟩
    · simp only [writeSys, storeStep, look]
      cases hg : AL.get s.store k' with
      | none => rfl
      | some v => exact AL.get_erase_ne _ hne
    · intro e he
      simp only [writeSys, storeStep] at he
      cases hg : AL.get s.store k' with
      | none => rw [hg] at he; simp at he; exact hp e he
      | some v =>
        rw [hg] at he
        split at he
        · rcases List.mem_append.mp he with h | h
          · exact hp e h
          · simp at h; subst h; exact fun c => hne c.symm
        · exact hp e he

theorem sstep_frozen (s : Sys) (op : SOp) (k : String) (hk : k ≠ s.p.self.id)
    (hp : ∀ e ∈ s.pending, e.key ≠ k) (ho : ¬ Touches k op) :
    look (sstep s op).1.p.members k = look s.p.members k ∧ look (sstep s op).1.store k = look s.store k ∧
    (∀ e ∈ (sstep s op).1.pending, e.key ≠ k) := by
  cases op with
  | fetch c => exact absurd trivial ho
  | openWatch => exact ⟨rfl, rfl, fun e he => by simp [sstep] at he⟩
  | fail =>
    simp only [sstep]
    split
    · exact ⟨rfl, rfl, fun e he => by simp at he⟩
    · exact ⟨rfl, rfl, hp⟩
  | setState st => exact ⟨pstep_setState_look s.p st k hk, rfl, hp⟩
  | deliver n =>
    simp only [sstep]
    split
    · refine ⟨?_, rfl, fun e he => hp e (List.mem_of_mem_drop he)⟩
      rw [pstep_response_look]
      exact implied_untouched _ _ k (fun e he => hp e (List.mem_of_mem_take he)) _
    · exact ⟨rfl, rfl, hp⟩
  | write w =>
    obtain ⟨h1, h2⟩ := writeSys_frozen s w k hp ho
    exact ⟨rfl, h1, h2⟩
  | register =>
    have hs : ¬ Touches k (.write (.put s.p.self.id s.p.self)) := fun e => hk (e : s.p.self.id = k).symm
    obtain ⟨h1, h2⟩ := writeSys_frozen s _ k hp hs
    obtain ⟨g1, g2⟩ := writeSys_frozen _ _ k h2 hs
    exact ⟨rfl, g1.trans h1, g2⟩
  | kaTick =>
    simp only [sstep]
    split
    · have hs : ¬ Touches k (.write (.put s.p.self.id s.p.self)) := fun e => hk (e : s.p.self.id = k).symm
      have hd : ¬ Touches k (.write (.del s.p.self.id)) := fun e => hk (e : s.p.self.id = k).symm
      obtain ⟨h1, h2⟩ := writeSys_frozen s _ k hp hd
      obtain ⟨g1, g2⟩ := writeSys_frozen _ _ k h2 hs
      exact ⟨rfl, g1.trans h1, g2⟩
    · exact ⟨rfl, rfl, hp⟩

theorem srun_frozen (ops : List SOp) (k : String) : ∀ (s : Sys), k ≠ s.p.self.id →
    (∀ e ∈ s.pending, e.key ≠ k) → (∀ op ∈ ops, ¬ Touches k op) →
    look (srun s ops).p.members k = look s.p.members k ∧ look (srun s ops).store k = look s.store k := by
  induction ops with
  | nil => intro s _ _ _; exact ⟨rfl, rfl⟩
  | cons op ops ih =>
    intro s hk hp ho
    obtain ⟨h1, h2, h3⟩ := sstep_frozen s op k hk hp (ho op List.mem_cons_self)
    have hk' : k ≠ (sstep s op).1.p.self.id := by rw [sstep_self_id]; exact hk
    obtain ⟨g1, g2⟩ := ih _ hk' h3 (fun o h => ho o (List.mem_cons_of_mem _ h))
    exact ⟨g1.trans h1, g2.trans h2⟩

end Cell2v.Directory
