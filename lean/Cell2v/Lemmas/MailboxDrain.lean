import Cell2v.Lemmas.Mailbox
/-! helper lemmas for C09 (3): from every state satisfying the invariants the threads that
already exist can run the mailbox to quiescence — an explicit scheduler `next` and a
potential `Phi` that every step chosen by it decreases. -/
namespace Cell2v.Mailbox
namespace Fine

/-- a label that is neither a new post nor the helper's sleep stutter: a step of a thread that already exists -/
def isInternal : Lbl → Bool
  | .pushU _ => false
  | .pushS _ _ => false
  | .helperSleep => false
  | _ => true

/-- a deterministic scheduler without new posts: posters finish their `PostXMessage` first, then the
pause helper wakes, then the consumer runs (never declaring the frame budget exhausted) -/
def next (s : St) : Option Lbl :=
  if s.nUp > 0 then some .incrU
  else if s.nSp > 0 then some .incrS
  else if s.nL > 0 then some .loadP
  else if s.nK > 0 then some .casP
  else if s.nD > 0 then some .dispP
  else if s.hs then some .helperWake
  else match s.c with
    | .wait => if s.dq > 0 then some .take else none
    | .iter => some .iterOk
    | .bpcas => some .bpCas
    | .pops => some .popS
    | .lsusp => some .lsusp
    | .popu => some .popU
    | .a1 => some .storeIdle
    | .r0 => some .loadS
    | .r1 => some .loadU
    | .r2 => some .loadP2
    | .r3 => some .decide
    | .cl => some .cLoadP
    | .ck => some .cCas
    | .cd => some .cDisp

/-- the re-check of `processMessages` on given values -/
def G (ls lu : Int) (lp susp : Bool) : Bool := decide (ls > 0) || (!susp && decide (lu > 0) && !lp)

def b2n (b : Bool) : Nat := if b then 1 else 0

def Rr0 (s : St) : Nat := if G s.sm s.um s.paused s.susp then 17 else 4

def Rpopu (s : St) : Nat := match s.uq with | [] => Rr0 s + 2 | _ :: _ => 1
def Rlsusp (s : St) : Nat := if s.susp then Rr0 s + 2 else Rpopu s + 1
def Rpops (s : St) : Nat := match s.sq with | [] => Rlsusp s + 1 | _ :: _ => 1

/-- consumer part of the potential: an upper bound on the consumer's steps until it waits again or pops -/
def R (s : St) : Nat :=
  match s.c with
  | .wait => 0
  | .cd => 11
  | .ck => 12
  | .cl => 13
  | .r3 => if G s.ls s.lu s.lp s.susp then 14 else 1
  | .r2 => if G s.ls s.lu s.paused s.susp then 15 else 2
  | .r1 => if G s.ls s.um s.paused s.susp then 16 else 3
  | .r0 => Rr0 s
  | .a1 => Rr0 s + 1
  | .popu => Rpopu s
  | .lsusp => Rlsusp s
  | .pops => Rpops s
  | .iter => Rpops s + 1
  | .bpcas => 99

/-- the potential -/
def Phi (s : St) : Nat :=
  40 * (s.sq.length + s.uq.length) + 20 * (4 * s.nUp + 4 * s.nSp + 3 * s.nL + 2 * s.nK + s.nD + 4 * b2n s.hs)
    + 10 * s.dq + R s

theorem Rr0_le (s : St) : Rr0 s ≤ 17 := by unfold Rr0; split <;> omega
theorem Rr0_ge (s : St) : 4 ≤ Rr0 s := by unfold Rr0; split <;> omega

theorem Rpops_le (s : St) : Rpops s ≤ 21 := by
  have := Rr0_le s
  unfold Rpops Rlsusp Rpopu
  repeat' split
  all_goals omega

theorem Rpopu_le (s : St) : Rpopu s ≤ 19 := by
  have := Rr0_le s; unfold Rpopu; split <;> omega
theorem Rlsusp_le (s : St) : Rlsusp s ≤ 20 := by
  have := Rr0_le s; have := Rpopu_le s; unfold Rlsusp; split <;> omega

theorem R_le (s : St) : R s ≤ 99 := by
  have := Rr0_le s
  have := Rpops_le s
  have := Rpopu_le s
  have := Rlsusp_le s
  unfold R
  split <;> try omega
  all_goals (split <;> omega)

/-- consumer not at the over-budget point: small -/
theorem R_le_small (s : St) (h : s.c ≠ .bpcas) : R s ≤ 22 := by
  have := Rr0_le s
  have := Rpops_le s
  have := Rpopu_le s
  have := Rlsusp_le s
  unfold R
  split <;> try omega
  all_goals (try (split <;> omega))
  all_goals (rename_i hc; exact absurd hc h)

/-- same consumer pc, queues, suspension flag and loaded values ⇒ the consumer part differs by at most the swing of the re-check -/
theorem R_swing (s t : St) (hc : t.c = s.c) (hu : t.uq = s.uq) (hs : t.sq = s.sq) (hsu : t.susp = s.susp)
    (hl : t.ls = s.ls) (hlu : t.lu = s.lu) (hlp : t.lp = s.lp) : R t ≤ R s + 13 := by
  unfold R Rpops Rlsusp Rpopu Rr0
  rw [hc, hu, hs, hsu, hl, hlu, hlp]
  repeat' split
  all_goals omega


theorem dec_incrU (s : St) (h : s.nUp > 0) :
    Phi { s with nUp := s.nUp - 1, um := s.um + 1, nL := s.nL + 1 } < Phi s := by
  have := R_swing s { s with nUp := s.nUp - 1, um := s.um + 1, nL := s.nL + 1 } rfl rfl rfl rfl rfl rfl rfl
  unfold Phi; simp only; omega

theorem dec_incrS (s : St) (h : s.nSp > 0) :
    Phi { s with nSp := s.nSp - 1, sm := s.sm + 1, nL := s.nL + 1 } < Phi s := by
  have := R_swing s { s with nSp := s.nSp - 1, sm := s.sm + 1, nL := s.nL + 1 } rfl rfl rfl rfl rfl rfl rfl
  unfold Phi; simp only; omega

theorem dec_loadP1 (s : St) (h : s.nL > 0) : Phi { s with nL := s.nL - 1 } < Phi s := by
  have := R_swing s { s with nL := s.nL - 1 } rfl rfl rfl rfl rfl rfl rfl
  have h2 : R { s with nL := s.nL - 1 } = R s := rfl
  unfold Phi; simp only; omega

theorem dec_loadP2 (s : St) (h : s.nL > 0) : Phi { s with nL := s.nL - 1, nK := s.nK + 1 } < Phi s := by
  have h2 : R { s with nL := s.nL - 1, nK := s.nK + 1 } = R s := rfl
  unfold Phi; simp only; omega

theorem dec_casP1 (s : St) (h : s.nK > 0) : Phi { s with nK := s.nK - 1 } < Phi s := by
  have h2 : R { s with nK := s.nK - 1 } = R s := rfl
  unfold Phi; simp only; omega

theorem dec_casP2 (s : St) (h : s.nK > 0) : Phi { s with nK := s.nK - 1, run := true, nD := s.nD + 1 } < Phi s := by
  have h2 : R { s with nK := s.nK - 1, run := true, nD := s.nD + 1 } = R s := rfl
  unfold Phi; simp only; omega

theorem dec_dispP (s : St) (h : s.nD > 0) : Phi { s with nD := s.nD - 1, dq := s.dq + 1 } < Phi s := by
  have h2 : R { s with nD := s.nD - 1, dq := s.dq + 1 } = R s := rfl
  unfold Phi; simp only; omega

theorem dec_helperWake (s : St) (h : s.hs = true) :
    Phi { s with hs := false, paused := false, nL := s.nL + 1 } < Phi s := by
  have := R_swing s { s with hs := false, paused := false, nL := s.nL + 1 } rfl rfl rfl rfl rfl rfl rfl
  unfold Phi; simp only [h, b2n]; simp; omega


theorem dec_iterOk (s : St) (h : s.c = .iter) : Phi { s with c := .pops } < Phi s := by
  have h1 : R { s with c := .pops } = Rpops s := rfl
  have h2 : R s = Rpops s + 1 := by simp [R, h]
  unfold Phi; simp only; omega

theorem dec_popS_nil (s : St) (h : s.c = .pops) (hq : s.sq = []) : Phi { s with c := .lsusp } < Phi s := by
  have h1 : R { s with c := .lsusp } = Rlsusp s := rfl
  have h2 : R s = Rlsusp s + 1 := by simp [R, h, Rpops, hq]
  unfold Phi; simp only; omega

theorem dec_popS_cons (s : St) (_h : s.c = .pops) (k : SK) (id : Nat) (rest : List (SK × Nat)) (hq : s.sq = (k, id) :: rest)
    (su : Bool) : Phi { s with sq := rest, sm := s.sm - 1, dlvS := s.dlvS ++ [(k, id)], c := .iter, susp := su } < Phi s := by
  have h1 := R_le_small { s with sq := rest, sm := s.sm - 1, dlvS := s.dlvS ++ [(k, id)], c := .iter, susp := su } (by simp)
  unfold Phi; simp only [hq, List.length_cons]; omega

theorem dec_lsusp_t (s : St) (h : s.c = .lsusp) (hs : s.susp = true) : Phi { s with c := .a1 } < Phi s := by
  have h1 : R { s with c := .a1 } = Rr0 s + 1 := rfl
  have h2 : R s = Rr0 s + 2 := by simp [R, h, Rlsusp, hs]
  unfold Phi; simp only; omega

theorem dec_lsusp_f (s : St) (h : s.c = .lsusp) (hs : s.susp = false) : Phi { s with c := .popu } < Phi s := by
  have h1 : R { s with c := .popu } = Rpopu s := rfl
  have h2 : R s = Rpopu s + 1 := by simp [R, h, Rlsusp, hs]
  unfold Phi; simp only; omega

theorem dec_popU_nil (s : St) (h : s.c = .popu) (hq : s.uq = []) : Phi { s with c := .a1 } < Phi s := by
  have h1 : R { s with c := .a1 } = Rr0 s + 1 := rfl
  have h2 : R s = Rr0 s + 2 := by simp [R, h, Rpopu, hq]
  unfold Phi; simp only; omega

theorem dec_popU_cons (s : St) (_h : s.c = .popu) (id : Nat) (rest : List Nat) (hq : s.uq = id :: rest) :
    Phi { s with uq := rest, um := s.um - 1, dlvU := s.dlvU ++ [id], c := .iter } < Phi s := by
  have h1 := R_le_small { s with uq := rest, um := s.um - 1, dlvU := s.dlvU ++ [id], c := .iter } (by simp)
  unfold Phi; simp only [hq, List.length_cons]; omega

theorem dec_storeIdle (s : St) (h : s.c = .a1) : Phi { s with run := false, c := .r0 } < Phi s := by
  have h1 : R { s with run := false, c := .r0 } = Rr0 s := rfl
  have h2 : R s = Rr0 s + 1 := by simp [R, h]
  unfold Phi; simp only; omega

theorem dec_loadS (s : St) (h : s.c = .r0) : Phi { s with ls := s.sm, c := .r1 } < Phi s := by
  have h1 : R { s with ls := s.sm, c := .r1 } = (if G s.sm s.um s.paused s.susp then 16 else 3) := rfl
  have h2 : R s = (if G s.sm s.um s.paused s.susp then 17 else 4) := by simp [R, h, Rr0]
  unfold Phi; simp only; rw [h1, h2]; split <;> omega

theorem dec_loadU (s : St) (h : s.c = .r1) : Phi { s with lu := s.um, c := .r2 } < Phi s := by
  have h1 : R { s with lu := s.um, c := .r2 } = (if G s.ls s.um s.paused s.susp then 15 else 2) := rfl
  have h2 : R s = (if G s.ls s.um s.paused s.susp then 16 else 3) := by simp [R, h]
  unfold Phi; simp only; rw [h1, h2]; split <;> omega

theorem dec_loadP2' (s : St) (h : s.c = .r2) : Phi { s with lp := s.paused, c := .r3 } < Phi s := by
  have h1 : R { s with lp := s.paused, c := .r3 } = (if G s.ls s.lu s.paused s.susp then 14 else 1) := rfl
  have h2 : R s = (if G s.ls s.lu s.paused s.susp then 15 else 2) := by simp [R, h]
  unfold Phi; simp only; rw [h1, h2]; split <;> omega

theorem dec_simple (s : St) (c' : Pc) (a b : Nat) (h1 : R s = a) (h2 : R { s with c := c' } = b) (hab : b < a) :
    Phi { s with c := c' } < Phi s := by
  unfold Phi; simp only; omega

theorem dec_cCas_ok (s : St) (h : s.c = .ck) : Phi { s with run := true, c := .cd } < Phi s := by
  have h1 : R { s with run := true, c := .cd } = 11 := rfl
  have h2 : R s = 12 := by simp [R, h]
  unfold Phi; simp only; omega

theorem dec_cDisp (s : St) (h : s.c = .cd) : Phi { s with dq := s.dq + 1, c := .wait } < Phi s := by
  have h1 : R { s with dq := s.dq + 1, c := .wait } = 0 := rfl
  have h2 : R s = 11 := by simp [R, h]
  unfold Phi; simp only; omega

theorem dec_bpCas_p (s : St) (h : s.c = .bpcas) : Phi { s with c := .a1 } < Phi s := by
  have h1 := R_le_small { s with c := .a1 } (by simp)
  have h2 : R s = 99 := by simp [R, h]
  unfold Phi; simp only; omega

theorem dec_bpCas_n (s : St) (h : s.c = .bpcas) (hp : s.hs = false) : Phi { s with paused := true, hs := true, c := .a1 } < Phi s := by
  have h1 : R { s with paused := true, hs := true, c := .a1 } = Rr0 { s with paused := true, hs := true, c := .a1 } + 1 := rfl
  have h3 := Rr0_le { s with paused := true, hs := true, c := .a1 }
  have h2 : R s = 99 := by simp [R, h]
  unfold Phi; simp only [hp, b2n]; simp; omega


theorem dec_take (s : St) (h : s.c = .wait) (hd : s.dq > 0) (hUp : s.nUp = 0) (hSp : s.nSp = 0)
    (hu : (s.uq.length : Int) = s.um + s.nUp) (hsq : (s.sq.length : Int) = s.sm + s.nSp) :
    Phi { s with dq := s.dq - 1, c := .iter } < Phi s := by
  have h1 : R { s with dq := s.dq - 1, c := .iter } = Rpops s + 1 := rfl
  have h2 : R s = 0 := by simp [R, h]
  have h3 : Rpops s ≤ 8 := by
    unfold Rpops
    cases hq : s.sq with
    | cons x r => simp
    | nil =>
      simp only
      have hsm : s.sm = 0 := by rw [hq] at hsq; simp [hSp] at hsq; omega
      unfold Rlsusp
      cases hs : s.susp with
      | true =>
        have : Rr0 s = 4 := by simp [Rr0, G, hsm, hs]
        simp; omega
      | false =>
        simp only [Bool.false_eq_true, if_false]
        unfold Rpopu
        cases hq2 : s.uq with
        | cons y r => simp
        | nil =>
          simp only
          have hum : s.um = 0 := by rw [hq2] at hu; simp [hUp] at hu; omega
          have : Rr0 s = 4 := by simp [Rr0, G, hsm, hum]
          omega
  unfold Phi; simp only; omega


theorem G_iff (ls lu : Int) (lp susp : Bool) :
    G ls lu lp susp = true ↔ (ls > 0 ∨ (susp = false ∧ lu > 0 ∧ lp = false)) := by
  cases lp <;> cases susp <;> simp [G]

theorem step_decreases (s : St) (l : Lbl)
    (hu : (s.uq.length : Int) = s.um + s.nUp) (hsq : (s.sq.length : Int) = s.sm + s.nSp)
    (hn : next s = some l) : ∃ s', fire s l = some s' ∧ Phi s' < Phi s ∧ isInternal l = true := by
  unfold next at hn
  by_cases h1 : s.nUp > 0
  · simp only [h1, if_true, Option.some.injEq] at hn; subst hn
    exact ⟨_, by simp [fire, h1], dec_incrU s h1, rfl⟩
  simp only [h1, if_false] at hn
  by_cases h2 : s.nSp > 0
  · simp only [h2, if_true, Option.some.injEq] at hn; subst hn
    exact ⟨_, by simp [fire, h2], dec_incrS s h2, rfl⟩
  simp only [h2, if_false] at hn
  by_cases h3 : s.nL > 0
  · simp only [h3, if_true, Option.some.injEq] at hn; subst hn
    by_cases hp : s.paused = true
    · exact ⟨_, by simp [fire, h3, hp], dec_loadP1 s h3, rfl⟩
    · exact ⟨_, by simp [fire, h3, hp], dec_loadP2 s h3, rfl⟩
  simp only [h3, if_false] at hn
  by_cases h4 : s.nK > 0
  · simp only [h4, if_true, Option.some.injEq] at hn; subst hn
    by_cases hr : s.run = true
    · exact ⟨_, by simp [fire, h4, hr], dec_casP1 s h4, rfl⟩
    · exact ⟨_, by simp [fire, h4, hr], dec_casP2 s h4, rfl⟩
  simp only [h4, if_false] at hn
  by_cases h5 : s.nD > 0
  · simp only [h5, if_true, Option.some.injEq] at hn; subst hn
    exact ⟨_, by simp [fire, h5], dec_dispP s h5, rfl⟩
  simp only [h5, if_false] at hn
  by_cases h6 : s.hs = true
  · simp only [h6, if_true, Option.some.injEq] at hn; subst hn
    exact ⟨_, by simp [fire, h6], dec_helperWake s h6, rfl⟩
  have hUp : s.nUp = 0 := by omega
  have hSp : s.nSp = 0 := by omega
  have hhs : s.hs = false := by simpa using h6
  rw [hhs] at hn
  simp only [Bool.false_eq_true, if_false] at hn
  cases hc : s.c with
  | wait =>
    simp only [hc] at hn
    by_cases hd : s.dq > 0
    · simp only [hd, if_true, Option.some.injEq] at hn; subst hn
      exact ⟨_, by simp [fire, hc, hd], dec_take s hc hd hUp hSp hu hsq, rfl⟩
    · simp [hd] at hn
  | iter =>
    simp only [hc, Option.some.injEq] at hn; subst hn
    exact ⟨_, by simp [fire, hc], dec_iterOk s hc, rfl⟩
  | bpcas =>
    simp only [hc, Option.some.injEq] at hn; subst hn
    by_cases hp : s.paused = true
    · exact ⟨_, by simp [fire, hc, hp], dec_bpCas_p s hc, rfl⟩
    · exact ⟨_, by simp [fire, hc, hp], dec_bpCas_n s hc hhs, rfl⟩
  | pops =>
    simp only [hc, Option.some.injEq] at hn; subst hn
    cases hq : s.sq with
    | nil => exact ⟨_, by simp [fire, hc, hq], dec_popS_nil s hc hq, rfl⟩
    | cons x rest =>
      obtain ⟨k, id⟩ := x
      cases k with
      | normal => exact ⟨_, by simp [fire, hc, hq], dec_popS_cons s hc .normal id rest hq s.susp, rfl⟩
      | suspend => exact ⟨_, by simp [fire, hc, hq], dec_popS_cons s hc .suspend id rest hq true, rfl⟩
      | resume => exact ⟨_, by simp [fire, hc, hq], dec_popS_cons s hc .resume id rest hq false, rfl⟩
  | lsusp =>
    simp only [hc, Option.some.injEq] at hn; subst hn
    by_cases hs : s.susp = true
    · exact ⟨_, by simp [fire, hc, hs], dec_lsusp_t s hc hs, rfl⟩
    · exact ⟨_, by simp [fire, hc, hs], dec_lsusp_f s hc (by simpa using hs), rfl⟩
  | popu =>
    simp only [hc, Option.some.injEq] at hn; subst hn
    cases hq : s.uq with
    | nil => exact ⟨_, by simp [fire, hc, hq], dec_popU_nil s hc hq, rfl⟩
    | cons id rest => exact ⟨_, by simp [fire, hc, hq], dec_popU_cons s hc id rest hq, rfl⟩
  | a1 =>
    simp only [hc, Option.some.injEq] at hn; subst hn
    exact ⟨_, by simp [fire, hc], dec_storeIdle s hc, rfl⟩
  | r0 =>
    simp only [hc, Option.some.injEq] at hn; subst hn
    exact ⟨_, by simp [fire, hc], dec_loadS s hc, rfl⟩
  | r1 =>
    simp only [hc, Option.some.injEq] at hn; subst hn
    exact ⟨_, by simp [fire, hc], dec_loadU s hc, rfl⟩
  | r2 =>
    simp only [hc, Option.some.injEq] at hn; subst hn
    exact ⟨_, by simp [fire, hc], dec_loadP2' s hc, rfl⟩
  | r3 =>
    simp only [hc, Option.some.injEq] at hn; subst hn
    by_cases hg : (s.ls > 0 ∨ (s.susp = false ∧ s.lu > 0 ∧ s.lp = false))
    · refine ⟨_, by simp [fire, hc, hg], dec_simple s .cl 14 13 ?_ rfl (by omega), rfl⟩
      have : G s.ls s.lu s.lp s.susp = true := (G_iff _ _ _ _).2 hg
      simp [R, hc, this]
    · refine ⟨_, by simp [fire, hc, hg], dec_simple s .wait 1 0 ?_ rfl (by omega), rfl⟩
      have : G s.ls s.lu s.lp s.susp = false := by
        cases hG : G s.ls s.lu s.lp s.susp with
        | false => rfl
        | true => exact absurd ((G_iff _ _ _ _).1 hG) hg
      simp [R, hc, this]
  | cl =>
    simp only [hc, Option.some.injEq] at hn; subst hn
    by_cases hp : s.paused = true
    · exact ⟨_, by simp [fire, hc, hp], dec_simple s .wait 13 0 (by simp [R, hc]) rfl (by omega), rfl⟩
    · exact ⟨_, by simp [fire, hc, hp], dec_simple s .ck 13 12 (by simp [R, hc]) rfl (by omega), rfl⟩
  | ck =>
    simp only [hc, Option.some.injEq] at hn; subst hn
    by_cases hr : s.run = true
    · exact ⟨_, by simp [fire, hc, hr], dec_simple s .wait 12 0 (by simp [R, hc]) rfl (by omega), rfl⟩
    · exact ⟨_, by simp [fire, hc, hr], dec_cCas_ok s hc, rfl⟩
  | cd =>
    simp only [hc, Option.some.injEq] at hn; subst hn
    exact ⟨_, by simp [fire, hc], dec_cDisp s hc, rfl⟩


theorem next_none_quiescent (s : St) (h : next s = none) : Abs.Quiescent (abs s) := by
  unfold next at h
  by_cases h1 : s.nUp > 0
  · simp [h1] at h
  by_cases h2 : s.nSp > 0
  · simp [h1, h2] at h
  by_cases h3 : s.nL > 0
  · simp [h1, h2, h3] at h
  by_cases h4 : s.nK > 0
  · simp [h1, h2, h3, h4] at h
  by_cases h5 : s.nD > 0
  · simp [h1, h2, h3, h4, h5] at h
  by_cases h6 : s.hs = true
  · simp [h1, h2, h3, h4, h5, h6] at h
  have hhs : s.hs = false := by simpa using h6
  simp only [h1, h2, h3, h4, h5, hhs, if_false, Bool.false_eq_true] at h
  cases hc : s.c <;> simp [hc] at h
  simp only [Abs.Quiescent, abs, hc, absPc]
  refine ⟨by omega, by omega, by omega, by omega, by omega, by omega, trivial, hhs⟩

/-- **the threads that exist can always finish**: from every state satisfying the invariants there is a
schedule of internal steps only (no further post) to a quiescent state -/
theorem drain (n : Nat) : ∀ s, Phi s ≤ n → AllInv s →
    ∃ ls s', (∀ l ∈ ls, isInternal l = true) ∧ runL s ls = some s' ∧ AllInv s' ∧ Abs.Quiescent (abs s') := by
  induction n with
  | zero =>
    intro s hp hi
    cases hn : next s with
    | none => exact ⟨[], s, by simp, rfl, hi, next_none_quiescent s hn⟩
    | some l =>
      obtain ⟨s', _, hlt, _⟩ := step_decreases s l hi.1.1.1 hi.1.1.2 hn
      omega
  | succ n ih =>
    intro s hp hi
    cases hn : next s with
    | none => exact ⟨[], s, by simp, rfl, hi, next_none_quiescent s hn⟩
    | some l =>
      obtain ⟨s', hf, hlt, hint⟩ := step_decreases s l hi.1.1.1 hi.1.1.2 hn
      obtain ⟨ls, s'', h1, h2, h3, h4⟩ := ih s' (by omega) (allinv_step s s' l hi hf)
      refine ⟨l :: ls, s'', ?_, ?_, h3, h4⟩
      · intro x hx
        simp only [List.mem_cons] at hx
        rcases hx with hx | hx
        · rw [hx]; exact hint
        · exact h1 x hx
      · simp [runL, hf, h2]


theorem runL_append (a b : List Lbl) : ∀ (s s1 s2 : St), runL s a = some s1 → runL s1 b = some s2 → runL s (a ++ b) = some s2 := by
  induction a with
  | nil => intro s s1 s2 h1 h2; simp [runL] at h1; subst h1; simpa using h2
  | cons l a ih =>
    intro s s1 s2 h1 h2
    simp only [runL, List.cons_append] at *
    cases hf : fire s l with
    | none => simp [hf] at h1
    | some s' => simp only [hf] at h1 ⊢; exact ih s' s1 s2 h1 h2

/-- steps of existing threads never add to the posted logs -/
theorem internal_keeps_pushed (s s' : St) (l : Lbl) (hf : fire s l = some s') (hi : isInternal l = true) :
    s'.pushedU = s.pushedU ∧ s'.pushedS = s.pushedS := by
  obtain ⟨uq, sq, um, sm, run, paused, susp, hs, nUp, nSp, nL, nK, nD, dq, c, ls, lu, lp, pU, pS, dU, dS⟩ := s
  cases l <;> simp only [fire, isInternal] at hf hi <;> (repeat' split at hf) <;> simp_all <;> (try subst hf) <;> simp_all

theorem internal_run_keeps_pushed (ls : List Lbl) : ∀ (s s' : St), runL s ls = some s' → (∀ l ∈ ls, isInternal l = true) →
    s'.pushedU = s.pushedU ∧ s'.pushedS = s.pushedS := by
  induction ls with
  | nil => intro s s' h _; simp [runL] at h; subst h; exact ⟨rfl, rfl⟩
  | cons l ls ih =>
    intro s s' h hi
    simp only [runL] at h
    cases hf : fire s l with
    | none => simp [hf] at h
    | some s1 =>
      simp only [hf] at h
      obtain ⟨a, b⟩ := internal_keeps_pushed s s1 l hf (hi l (by simp))
      obtain ⟨c, d⟩ := ih s1 s' h (fun x hx => hi x (by simp [hx]))
      exact ⟨c.trans a, d.trans b⟩


end Fine
end Cell2v.Mailbox
