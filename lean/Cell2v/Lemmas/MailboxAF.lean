import Cell2v.Lemmas.MailboxDrain
/-! helper lemmas for C09 (5): the potential `Phi` of `Lemmas/MailboxDrain.lean` decreases on EVERY step of an
existing thread (not only on the steps the drain scheduler picks), except the step that declares the frame
budget exhausted.  Hence every schedule of existing threads without that step is finite, bounded by `Phi`. -/
namespace Cell2v.Mailbox
namespace Fine

/-- `take` decreases the potential in every state satisfying the counter invariants (posters may be half-way) -/
theorem dec_take' (s : St) (h : s.c = .wait) (hd : s.dq > 0)
    (hu : (s.uq.length : Int) = s.um + s.nUp) (hsq : (s.sq.length : Int) = s.sm + s.nSp) :
    Phi { s with dq := s.dq - 1, c := .iter } < Phi s := by
  have h1 : R { s with dq := s.dq - 1, c := .iter } = Rpops s + 1 := rfl
  have h2 : R s = 0 := by simp [R, h]
  have h3 : Rpops s ≤ 8 := by
    unfold Rpops
    cases hq : s.sq with
    | cons x r => simp
    | nil =>
      simp only
      have hsm : ¬ s.sm > 0 := by rw [hq] at hsq; simp at hsq; omega
      unfold Rlsusp
      cases hs : s.susp with
      | true =>
        have : Rr0 s = 4 := by simp [Rr0, G, hsm, hs]
        simp; omega
      | false =>
        simp only [Bool.false_eq_true, if_false]
        unfold Rpopu
        cases hq2 : s.uq with
        | cons y r => simp
        | nil =>
          simp only
          have hum : ¬ s.um > 0 := by rw [hq2] at hu; simp at hu; omega
          have : Rr0 s = 4 := by simp [Rr0, G, hsm, hum]
          omega
  unfold Phi; simp only; omega

/-- a label of an existing thread other than "the frame budget is exhausted" -/
def isProgress (l : Lbl) : Bool := isInternal l && !(l == .iterOver)

/-- **every such step decreases the potential** -/
theorem any_step_decreases (s s' : St) (l : Lbl) (hi : AllInv s) (hf : fire s l = some s') (hp : isProgress l = true) :
    Phi s' < Phi s := by
  have hu : (s.uq.length : Int) = s.um + s.nUp := hi.1.1.1
  have hsq : (s.sq.length : Int) = s.sm + s.nSp := hi.1.1.2
  have hph : s.paused = s.hs := hi.1.2.2.1
  cases l with
  | pushU id => simp [isProgress, isInternal] at hp
  | pushS k id => simp [isProgress, isInternal] at hp
  | helperSleep => simp [isProgress, isInternal] at hp
  | iterOver => simp [isProgress] at hp
  | incrU =>
    simp only [fire] at hf
    by_cases h1 : s.nUp > 0
    · simp only [h1, if_true, Option.some.injEq] at hf; subst hf; exact dec_incrU s h1
    · simp [h1] at hf
  | incrS =>
    simp only [fire] at hf
    by_cases h1 : s.nSp > 0
    · simp only [h1, if_true, Option.some.injEq] at hf; subst hf; exact dec_incrS s h1
    · simp [h1] at hf
  | loadP =>
    simp only [fire] at hf
    by_cases h3 : s.nL > 0
    · by_cases hpa : s.paused = true
      · have : (if s.nL > 0 then (if s.paused then some { s with nL := s.nL - 1 } else some { s with nL := s.nL - 1, nK := s.nK + 1 }) else none)
            = some { s with nL := s.nL - 1 } := by simp [h3, hpa]
        rw [this] at hf; injection hf with hf; subst hf; exact dec_loadP1 s h3
      · have : (if s.nL > 0 then (if s.paused then some { s with nL := s.nL - 1 } else some { s with nL := s.nL - 1, nK := s.nK + 1 }) else none)
            = some { s with nL := s.nL - 1, nK := s.nK + 1 } := by simp [h3, hpa]
        rw [this] at hf; injection hf with hf; subst hf; exact dec_loadP2 s h3
    · simp [h3] at hf
  | casP =>
    simp only [fire] at hf
    by_cases h4 : s.nK > 0
    · by_cases hr : s.run = true
      · simp only [h4, hr, if_true, Option.some.injEq] at hf; subst hf; exact dec_casP1 s h4
      · simp only [h4, hr, if_true, Bool.false_eq_true, if_false, Option.some.injEq] at hf; subst hf; exact dec_casP2 s h4
    · simp [h4] at hf
  | dispP =>
    simp only [fire] at hf
    by_cases h5 : s.nD > 0
    · simp only [h5, if_true, Option.some.injEq] at hf; subst hf; exact dec_dispP s h5
    · simp [h5] at hf
  | helperWake =>
    simp only [fire] at hf
    by_cases h6 : s.hs = true
    · simp only [h6, if_true, Option.some.injEq] at hf; subst hf; exact dec_helperWake s h6
    · simp [h6] at hf
  | take =>
    simp only [fire] at hf
    by_cases hc : s.c = .wait ∧ s.dq > 0
    · simp only [hc, and_self, if_true, Option.some.injEq] at hf; subst hf; exact dec_take' s hc.1 hc.2 hu hsq
    · simp [hc] at hf
  | iterOk =>
    simp only [fire] at hf
    by_cases hc : s.c = .iter
    · simp only [hc, if_true, Option.some.injEq] at hf; subst hf; exact dec_iterOk s hc
    · simp [hc] at hf
  | bpCas =>
    simp only [fire] at hf
    by_cases hc : s.c = .bpcas
    · by_cases hpa : s.paused = true
      · have : (if s.c = .bpcas then (if s.paused then some { s with c := .a1 } else some { s with paused := true, hs := true, c := .a1 }) else none)
            = some { s with c := .a1 } := by simp [hc, hpa]
        rw [this] at hf; injection hf with hf; subst hf; exact dec_bpCas_p s hc
      · simp only [hc, hpa, if_true, Bool.false_eq_true, if_false, Option.some.injEq] at hf; subst hf
        exact dec_bpCas_n s hc (by rw [← hph]; simpa using hpa)
    · simp [hc] at hf
  | popS =>
    simp only [fire] at hf
    by_cases hc : s.c = .pops
    · cases hq : s.sq with
      | nil =>
        have : fire s .popS = some { s with c := .lsusp } := by simp [fire, hc, hq]
        simp only [fire] at this
        rw [this] at hf; injection hf with hf; subst hf; exact dec_popS_nil s hc hq
      | cons x rest =>
        obtain ⟨k, id⟩ := x
        simp only [hc, hq, if_true, Option.some.injEq] at hf; subst hf
        cases k with
        | normal => exact dec_popS_cons s hc .normal id rest hq s.susp
        | suspend => exact dec_popS_cons s hc .suspend id rest hq true
        | resume => exact dec_popS_cons s hc .resume id rest hq false
    · simp [hc] at hf
  | lsusp =>
    simp only [fire] at hf
    by_cases hc : s.c = .lsusp
    · by_cases hs : s.susp = true
      · have : fire s .lsusp = some { s with c := .a1 } := by simp [fire, hc, hs]
        simp only [fire] at this
        rw [this] at hf; injection hf with hf; subst hf; exact dec_lsusp_t s hc hs
      · have : fire s .lsusp = some { s with c := .popu } := by simp [fire, hc, hs]
        simp only [fire] at this
        rw [this] at hf; injection hf with hf; subst hf
        exact dec_lsusp_f s hc (by simpa using hs)
    · simp [hc] at hf
  | popU =>
    simp only [fire] at hf
    by_cases hc : s.c = .popu
    · cases hq : s.uq with
      | nil =>
        have : fire s .popU = some { s with c := .a1 } := by simp [fire, hc, hq]
        simp only [fire] at this
        rw [this] at hf; injection hf with hf; subst hf; exact dec_popU_nil s hc hq
      | cons id rest => simp only [hc, hq, if_true, Option.some.injEq] at hf; subst hf; exact dec_popU_cons s hc id rest hq
    · simp [hc] at hf
  | storeIdle =>
    simp only [fire] at hf
    by_cases hc : s.c = .a1
    · simp only [hc, if_true, Option.some.injEq] at hf; subst hf; exact dec_storeIdle s hc
    · simp [hc] at hf
  | loadS =>
    simp only [fire] at hf
    by_cases hc : s.c = .r0
    · simp only [hc, if_true, Option.some.injEq] at hf; subst hf; exact dec_loadS s hc
    · simp [hc] at hf
  | loadU =>
    simp only [fire] at hf
    by_cases hc : s.c = .r1
    · simp only [hc, if_true, Option.some.injEq] at hf; subst hf; exact dec_loadU s hc
    · simp [hc] at hf
  | loadP2 =>
    simp only [fire] at hf
    by_cases hc : s.c = .r2
    · simp only [hc, if_true, Option.some.injEq] at hf; subst hf; exact dec_loadP2' s hc
    · simp [hc] at hf
  | decide =>
    simp only [fire] at hf
    by_cases hc : s.c = .r3
    · by_cases hg : (s.ls > 0 ∨ (s.susp = false ∧ s.lu > 0 ∧ s.lp = false))
      · simp only [hc, hg, if_true, Option.some.injEq] at hf; subst hf
        refine dec_simple s .cl 14 13 ?_ rfl (by omega)
        have : G s.ls s.lu s.lp s.susp = true := (G_iff _ _ _ _).2 hg
        simp [R, hc, this]
      · simp only [hc, hg, if_true, if_false, Option.some.injEq] at hf; subst hf
        refine dec_simple s .wait 1 0 ?_ rfl (by omega)
        have : G s.ls s.lu s.lp s.susp = false := by
          cases hG : G s.ls s.lu s.lp s.susp with
          | false => rfl
          | true => exact absurd ((G_iff _ _ _ _).1 hG) hg
        simp [R, hc, this]
    · simp [hc] at hf
  | cLoadP =>
    simp only [fire] at hf
    by_cases hc : s.c = .cl
    · by_cases hpa : s.paused = true
      · simp only [hc, hpa, if_true, Option.some.injEq] at hf; subst hf
        exact dec_simple s .wait 13 0 (by simp [R, hc]) rfl (by omega)
      · simp only [hc, hpa, if_true, Bool.false_eq_true, if_false, Option.some.injEq] at hf; subst hf
        exact dec_simple s .ck 13 12 (by simp [R, hc]) rfl (by omega)
    · simp [hc] at hf
  | cCas =>
    simp only [fire] at hf
    by_cases hc : s.c = .ck
    · by_cases hr : s.run = true
      · simp only [hc, hr, if_true, Option.some.injEq] at hf; subst hf
        exact dec_simple s .wait 12 0 (by simp [R, hc]) rfl (by omega)
      · simp only [hc, hr, if_true, Bool.false_eq_true, if_false, Option.some.injEq] at hf; subst hf
        exact dec_cCas_ok s hc
    · simp [hc] at hf
  | cDisp =>
    simp only [fire] at hf
    by_cases hc : s.c = .cd
    · simp only [hc, if_true, Option.some.injEq] at hf; subst hf; exact dec_cDisp s hc
    · simp [hc] at hf

/-- **every schedule of existing threads that never declares the budget exhausted is bounded by the potential** -/
theorem progress_run_bounded (ls : List Lbl) : ∀ (s s' : St), AllInv s → (∀ l ∈ ls, isProgress l = true) →
    runL s ls = some s' → ls.length + Phi s' ≤ Phi s := by
  induction ls with
  | nil => intro s s' _ _ hr; simp [runL] at hr; subst hr; simp
  | cons l ls ih =>
    intro s s' hi hp hr
    simp only [runL] at hr
    cases hf : fire s l with
    | none => simp [hf] at hr
    | some s1 =>
      simp only [hf] at hr
      have h1 := any_step_decreases s s1 l hi hf (hp l (by simp))
      have h2 := ih s1 s' (allinv_step s s1 l hi hf) (fun x hx => hp x (by simp [hx])) hr
      simp only [List.length_cons]
      omega

/-- the drain scheduler's choice is always a progress step that is enabled: a state where NO progress step is enabled is quiescent -/
theorem no_progress_step_quiescent (s : St) (hi : AllInv s)
    (h : ∀ l, isProgress l = true → fire s l = none) : Abs.Quiescent (abs s) := by
  cases hn : next s with
  | none => exact next_none_quiescent s hn
  | some l =>
    obtain ⟨s', hf, _, hint⟩ := step_decreases s l hi.1.1.1 hi.1.1.2 hn
    have hne : l ≠ .iterOver := by
      intro hl; subst hl
      unfold next at hn
      repeat' split at hn
      all_goals simp at hn
    have : isProgress l = true := by
      simp only [isProgress, hint, Bool.true_and]
      cases l <;> simp_all
    rw [h l this] at hf
    cases hf

theorem isProgress_internal (l : Lbl) (h : isProgress l = true) : isInternal l = true := by
  simp only [isProgress, Bool.and_eq_true] at h; exact h.1

end Fine
end Cell2v.Mailbox
