import Cell2v.Lemmas.TimerLive
/-!
Infinite schedules of the timer model and fairness: a repeating timer that is never
cancelled, on a manager that is never stopped, fires infinitely often in EVERY fair
schedule (`fires_infinitely_often`).

A schedule is `σ : Nat → Op`; `runN σ n` is the state and trace after its first `n` steps.
Fairness (`Fair σ`) says only that everybody keeps getting turns — the consumer receives in
channel order and keeps receiving, a running callback keeps executing, time keeps passing (and, for
the timer in question, its expiry goroutine eventually runs: `Steady.expiry`).  It says nothing about the state: a turn may be a no-op
(a receive while a callback is in progress, an expiry goroutine before its instant, …).
-/
namespace Cell2v.Timer

def runN (σ : Nat → Op) : Nat → State × List Event
  | 0 => (init, [])
  | n + 1 => ((step (runN σ n).1 (σ n)).1, (runN σ n).2 ++ (step (runN σ n).1 (σ n)).2)

theorem inv_runN (σ : Nat → Op) (n : Nat) : Inv (runN σ n).1 (runN σ n).2 := by
  induction n with
  | zero => exact inv_init
  | succ n ih => exact inv_step ih (σ n)

/-- the first `n` steps of a schedule are a finite history -/
theorem runN_eq_run (σ : Nat → Op) (n : Nat) : runN σ n = run ((List.range n).map σ) := by
  induction n with
  | zero => rfl
  | succ n ih =>
    rw [List.range_succ, List.map_append]
    unfold run at *
    rw [runFrom_append, ← ih]
    simp [runN, runFrom]

structure Fair (σ : Nat → Op) : Prop where
  /-- the consumer receives in channel order -/
  fifo : ∀ n i, σ n = .doNext i → i = 0
  /-- … and keeps receiving -/
  recv : ∀ n, ∃ m, n ≤ m ∧ σ m = .doNext 0
  /-- a callback in progress keeps executing -/
  cont : ∀ n, ∃ m, n ≤ m ∧ σ m = .cbStep
  /-- time keeps passing -/
  time : ∀ n, ∃ m, n ≤ m ∧ ∃ d, 0 < d ∧ σ m = .advance d

/-! ### monotone quantities -/

theorem runN_trace_le (σ : Nat → Op) (n d : Nat) : ∃ ev, (runN σ (n + d)).2 = (runN σ n).2 ++ ev := by
  induction d with
  | zero => exact ⟨[], by simp⟩
  | succ d ih =>
    obtain ⟨ev, h⟩ := ih
    exact ⟨ev ++ (step (runN σ (n + d)).1 (σ (n + d))).2, by rw [← Nat.add_assoc]; simp [runN, h]⟩

theorem cbCount_runN_mono (σ : Nat → Op) (id : Nat) {n m : Nat} (h : n ≤ m) :
    cbCount (runN σ n).2 id ≤ cbCount (runN σ m).2 id := by
  obtain ⟨d, rfl⟩ := Nat.exists_eq_add_of_le h
  obtain ⟨ev, he⟩ := runN_trace_le σ n d
  rw [he, cbCount_append]; omega

theorem createdOf_runN_mono (σ : Nat → Op) (id : Nat) {n m : Nat} (h : n ≤ m) (c : Nat × Nat × Nat × List Nat)
    (hc : createdOf (runN σ n).2 id = some c) : createdOf (runN σ m).2 id = some c := by
  obtain ⟨d, rfl⟩ := Nat.exists_eq_add_of_le h
  obtain ⟨ev, he⟩ := runN_trace_le σ n d
  rw [he]; exact createdOf_append_some _ _ _ _ hc

theorem cancelTm_now (s : State) (x : Nat) : (cancelTm s x).1.now = s.now := by
  simp only [cancelTm]; split <;> simp

theorem create_now (s : State) (d : Int) (r : Bool) (k : Nat) (a : List Nat) : (create s d r k a).1.now = s.now := by
  simp [create]

theorem finish_now (s : State) (x : Nat) : (finish s x).1.now = s.now := by
  simp only [finish]; split <;> (try split) <;> simp

theorem cbStep_now (s : State) : (cbStep s).1.now = s.now := by
  unfold cbStep
  split
  · rfl
  · rw [finish_now]; rfl
  next id a rest _ => cases a <;> simp [cancelTm_now, create_now]

theorem step_now (s : State) (op : Op) : s.now ≤ (step s op).1.now := by
  cases op with
  | after d k a => simp only [step]; split <;> simp [create]
  | add d k a => simp only [step]; split <;> simp [create]
  | cancel id => simp only [step]; split; simp; rw [cancelTm_now]; exact Nat.le_refl _
  | expire id => simp only [step, expire]; split <;> (try split) <;> (try split) <;> simp
  | doNext i => simp only [step, doNext]; split <;> (try split) <;> (try split) <;> simp
  | cbStep => simp only [step]; rw [cbStep_now]; exact Nat.le_refl _
  | advance d => simp [step]
  | stop => simp [step]
  | defScript k acts => simp [step]

theorem now_runN_mono (σ : Nat → Op) {n m : Nat} (h : n ≤ m) : (runN σ n).1.now ≤ (runN σ m).1.now := by
  obtain ⟨d, rfl⟩ := Nat.exists_eq_add_of_le h
  induction d with
  | zero => simp
  | succ d ih =>
    have := step_now (runN σ (n + d)).1 (σ (n + d))
    have h2 := ih (by omega)
    rw [← Nat.add_assoc]
    simp only [runN]
    omega

/-- time diverges -/
theorem eventually_now (σ : Nat → Op) (hf : Fair σ) (T n : Nat) : ∃ m, n ≤ m ∧ T ≤ (runN σ m).1.now := by
  induction T with
  | zero => exact ⟨n, Nat.le_refl _, Nat.zero_le _⟩
  | succ T ih =>
    obtain ⟨m, hm, hT⟩ := ih
    obtain ⟨m', hm', d, hd, hs⟩ := hf.time m
    refine ⟨m' + 1, by omega, ?_⟩
    have h1 := now_runN_mono σ hm'
    simp only [runN, hs, step, State.tick]
    omega

/-! ### the owner goroutine makes progress -/

theorem step_cur_of_some (s : State) (op : Op) (hc : s.cur ≠ none) (hop : op ≠ .cbStep) : (step s op).1.cur = s.cur := by
  have hs : s.cur.isSome = true := by cases h : s.cur <;> simp_all
  cases op with
  | after d k a => simp [step, hs]
  | add d k a => simp [step, hs]
  | cancel id => simp [step, hs]
  | expire id => exact (expire_misc' s id)
  | doNext i => simp [step, doNext, hs]
  | cbStep => exact absurd rfl hop
  | advance d => rfl
  | stop => rfl
  | defScript k acts => rfl
where
  expire_misc' (s : State) (x : Nat) : (step s (.expire x)).1.cur = s.cur := by
    simp only [step, expire]; split <;> (try split) <;> (try split) <;> simp

theorem step_cur_none (s : State) (op : Op) (hc : s.cur = none) (hop : ∀ i, op ≠ .doNext i) : (step s op).1.cur = none := by
  cases op with
  | after d k a => simp [step, hc, create]
  | add d k a => simp [step, hc, create]
  | cancel id => simp [step, hc, cancelTm_cur]
  | expire id => simp only [step, expire]; split <;> (try split) <;> (try split) <;> simp [hc]
  | doNext i => exact absurd rfl (hop i)
  | cbStep => simp [step, cbStep, hc]
  | advance d => simpa [step] using hc
  | stop => simpa [step] using hc
  | defScript k acts => simpa [step] using hc

/-- a callback in progress gets shorter -/
theorem cb_progress (σ : Nat → Op) : ∀ d n, σ (n + d) = .cbStep → (runN σ n).1.cur ≠ none →
    ∃ m, n < m ∧ curLen (runN σ m).1 < curLen (runN σ n).1 := by
  intro d
  induction d with
  | zero =>
    intro n hs hc
    refine ⟨n + 1, by omega, ?_⟩
    simp only [runN]
    rw [show σ n = .cbStep from hs]
    exact cbStep_curLen _ hc
  | succ d ih =>
    intro n hs hc
    by_cases h0 : σ n = .cbStep
    · refine ⟨n + 1, by omega, ?_⟩
      simp only [runN, h0]
      exact cbStep_curLen _ hc
    · have hsame : (runN σ (n + 1)).1.cur = (runN σ n).1.cur := by
        simp only [runN]; exact step_cur_of_some _ _ hc h0
      obtain ⟨m, hm, hlt⟩ := ih (n + 1) (by rw [show n + 1 + d = n + (d + 1) by omega]; exact hs) (by rw [hsame]; exact hc)
      refine ⟨m, by omega, ?_⟩
      have : curLen (runN σ (n + 1)).1 = curLen (runN σ n).1 := by simp [curLen, hsame]
      omega

/-- … and ends -/
theorem eventually_idle (σ : Nat → Op) (hf : Fair σ) (n : Nat) : ∃ m, n ≤ m ∧ (runN σ m).1.cur = none := by
  have key : ∀ L n, curLen (runN σ n).1 ≤ L → ∃ m, n ≤ m ∧ (runN σ m).1.cur = none := by
    intro L
    induction L with
    | zero =>
      intro n hL
      refine ⟨n, Nat.le_refl _, ?_⟩
      cases hc : (runN σ n).1.cur with
      | none => rfl
      | some c => simp [curLen, hc] at hL
    | succ L ih =>
      intro n hL
      cases hc : (runN σ n).1.cur with
      | none => exact ⟨n, Nat.le_refl _, hc⟩
      | some c =>
        obtain ⟨m0, hm0, hs⟩ := hf.cont n
        obtain ⟨d, rfl⟩ := Nat.exists_eq_add_of_le hm0
        obtain ⟨m, hm, hlt⟩ := cb_progress σ d n hs (by simp [hc])
        obtain ⟨m', hm', hnone⟩ := ih m (by omega)
        exact ⟨m', by omega, hnone⟩
  exact key _ n (Nat.le_refl _)

/-- from an idle owner: the next receive turn finds it idle -/
theorem recv_progress (σ : Nat → Op) (hf : Fair σ) : ∀ d n, (runN σ n).1.cur = none → σ (n + d) = .doNext 0 →
    ∃ m, n ≤ m ∧ σ m = .doNext 0 ∧ (runN σ m).1.cur = none := by
  intro d
  induction d with
  | zero => intro n hc hs; exact ⟨n, Nat.le_refl _, hs, hc⟩
  | succ d ih =>
    intro n hc hs
    by_cases h0 : ∃ i, σ n = .doNext i
    · obtain ⟨i, hi⟩ := h0
      have hi0 := hf.fifo n i hi
      subst hi0
      exact ⟨n, Nat.le_refl _, hi, hc⟩
    · have hop : ∀ i, σ n ≠ .doNext i := fun i e => h0 ⟨i, e⟩
      have hc1 : (runN σ (n + 1)).1.cur = none := by simp only [runN]; exact step_cur_none _ _ hc hop
      obtain ⟨m, hm, h1, h2⟩ := ih (n + 1) hc1 (by rw [show n + 1 + d = n + (d + 1) by omega]; exact hs)
      exact ⟨m, by omega, h1, h2⟩

/-- the consumer is idle and about to receive, again and again -/
theorem eventually_recv (σ : Nat → Op) (hf : Fair σ) (n : Nat) :
    ∃ m, n ≤ m ∧ σ m = .doNext 0 ∧ (runN σ m).1.cur = none := by
  obtain ⟨n1, hn1, hc⟩ := eventually_idle σ hf n
  obtain ⟨n2, hn2, hs⟩ := hf.recv n1
  obtain ⟨d, rfl⟩ := Nat.exists_eq_add_of_le hn2
  obtain ⟨m, hm, h1, h2⟩ := recv_progress σ hf d n1 hc hs
  exact ⟨m, by omega, h1, h2⟩

/-! ### a pending runtime timer stays pending until its goroutine has run -/

theorem create_tm_other (s : State) (d : Int) (r : Bool) (k : Nat) (a : List Nat) (j : Nat) (h : j ≠ s.nextId + 1) :
    (create s d r k a).1.tm j = s.tm j := by
  simp [create, setTm_tm_other _ _ _ _ h]

theorem cancelTm_tm_or (s : State) (x j : Nat) (hm : (s.tm j).inMap = true) :
    (cancelTm s x).1.tm j = s.tm j ∨ ((cancelTm s x).1.tm j).cancelled = true := by
  by_cases e : x = j
  · subst e; right; simp [cancelTm, hm]
  · left
    simp only [cancelTm]; split
    · exact setTm_tm_other _ _ _ _ (fun h => e h.symm)
    · rfl

theorem finish_tm_other (s : State) (c j : Nat) (h : j ≠ c) : (finish s c).1.tm j = s.tm j := by
  simp only [finish]; split <;> (try split) <;> simp [setTm_tm_other _ _ _ _ h]

theorem armed_step {s : State} (hw : WF s) {id : Nat} (ha : (s.tm id).armed = true) (op : Op) :
    (((step s op).1.tm id).armed = true ∧ ((step s op).1.tm id).exp = (s.tm id).exp) ∨
    id ∈ (step s op).1.queue ∨ ((step s op).1.tm id).cancelled = true ∨ s.running = false := by
  obtain ⟨hcc, hm, hnq, hcur⟩ := hw.armedOk id ha
  have hle := le_nextId_of_live hw (live_of_armed hw ha)
  have hne : id ≠ s.nextId + 1 := by omega
  have same : ∀ s' : State, s'.tm id = s.tm id → ((s'.tm id).armed = true ∧ (s'.tm id).exp = (s.tm id).exp) ∨
      id ∈ s'.queue ∨ (s'.tm id).cancelled = true ∨ s.running = false := by
    intro s' h; left; rw [h]; exact ⟨ha, rfl⟩
  have canc : ∀ (s0 : State) (x : Nat), s0.tm = s.tm →
      (((cancelTm s0 x).1.tm id).armed = true ∧ ((cancelTm s0 x).1.tm id).exp = (s.tm id).exp) ∨
      id ∈ (cancelTm s0 x).1.queue ∨ ((cancelTm s0 x).1.tm id).cancelled = true ∨ s.running = false := by
    intro s0 x h0
    rcases cancelTm_tm_or s0 x id (by rw [h0]; exact hm) with h | h
    · exact same _ (by rw [h, h0])
    · right; right; left; exact h
  cases op with
  | after d k a => simp only [step]; split; exact same _ rfl; exact same _ (create_tm_other _ _ _ _ _ _ hne)
  | add d k a => simp only [step]; split; exact same _ rfl; exact same _ (create_tm_other _ _ _ _ _ _ hne)
  | cancel x => simp only [step]; split; exact same _ rfl; exact canc s x rfl
  | expire x =>
    simp only [step]
    by_cases e : x = id
    · subst e
      unfold expire
      split
      · split
        · simp [hcc] at *
        · split
          next hr => right; right; right; simpa using hr
          · right; left; simp
      · exact same _ rfl
    · apply same
      unfold expire
      have e' : id ≠ x := fun h => e h.symm
      split <;> (try split) <;> (try split) <;> simp [setTm_tm_other _ _ _ _ e']
  | doNext i =>
    apply same
    simp only [step, doNext]; split <;> (try split) <;> (try split) <;> simp
  | cbStep =>
    simp only [step]
    unfold cbStep
    split
    · exact same _ rfl
    next c hc =>
      have hcne : id ≠ c := by
        intro e; apply hcur; simp [State.curId, hc, e]
      exact same _ (by rw [finish_tm_other _ _ _ hcne]; rfl)
    next c a rest hc =>
      cases a with
      | cancelSelf => exact canc _ c rfl
      | cancel x => exact canc _ x rfl
      | cancelNewest => exact canc _ _ rfl
      | after d k arg => exact same _ (by rw [create_tm_other _ _ _ _ _ _ (by simpa using hne)]; rfl)
      | add d k arg => exact same _ (by rw [create_tm_other _ _ _ _ _ _ (by simpa using hne)]; rfl)
      | panic => exact same _ rfl
  | advance d => exact same _ rfl
  | stop => exact same _ rfl
  | defScript k acts => exact same _ rfl

/-! ### a repeating timer, never cancelled, never stopped: fires infinitely often -/

/-- the timer `id` in the schedule `σ`: created (by step `n0`) with period `p`, never
cancelled, its manager never stopped, its expiry goroutine eventually runs -/
structure Undisturbed (σ : Nat → Op) (id n0 p : Nat) : Prop where
  created : ∃ t0 dl a, createdOf (runN σ n0).2 id = some (t0, dl, p, a)
  neverCancelled : ∀ n, cancelledIn (runN σ n).2 id = false
  neverStopped : ∀ n, (runN σ n).1.running = true
  expiry : ∀ n, ∃ m, n ≤ m ∧ σ m = .expire id

/-- … and repeating -/
structure Steady (σ : Nat → Op) (id n0 p : Nat) : Prop extends Undisturbed σ id n0 p where
  pos : 0 < p

theorem fair_isFifo {σ : Nat → Op} (hf : Fair σ) (m : Nat) : (σ m).isFifo = true := by
  cases h : σ m with
  | doNext i => have := hf.fifo m i h; subst this; rfl
  | _ => rfl

theorem flag_not_cancelled {σ : Nat → Op} {id : Nat} (hnc : ∀ n, cancelledIn (runN σ n).2 id = false) (n : Nat) :
    ((runN σ n).1.tm id).cancelled = false := by
  cases hc : ((runN σ n).1.tm id).cancelled with
  | false => rfl
  | true => have := ((inv_runN σ n).hist id).cancelComplete hc; rw [hnc n] at this; cases this

theorem steady_facts {σ : Nat → Op} {id n0 p : Nat} (h : Undisturbed σ id n0 p) {n : Nat} (hn : n0 ≤ n) :
    ((runN σ n).1.tm id).live = true ∧ ((runN σ n).1.tm id).period = p := by
  obtain ⟨t0, dl, a, hc⟩ := h.created
  have hc' := createdOf_runN_mono σ id hn _ hc
  have hx := (inv_runN σ n).hist id
  cases hl : ((runN σ n).1.tm id).live with
  | false => rw [(hx.createdDead hl).1] at hc'; cases hc'
  | true =>
    obtain ⟨t0', dl', hc2⟩ := hx.createdLive hl
    rw [hc2] at hc'
    simp at hc'
    exact ⟨rfl, hc'.2.2.1⟩

/-- a queued object: it fires, or it moves towards the head of the queue -/
theorem queued_until {σ : Nat → Op} (hf : Fair σ) {id : Nat} (hnc : ∀ n, cancelledIn (runN σ n).2 id = false) :
    ∀ d n, id ∈ (runN σ n).1.queue →
      (id ∈ (runN σ (n + d)).1.queue ∧ (runN σ (n + d)).1.queue.idxOf id ≤ (runN σ n).1.queue.idxOf id) ∨
      ∃ m, n < m ∧ cbCount (runN σ n).2 id < cbCount (runN σ m).2 id := by
  intro d
  induction d with
  | zero => intro n hq; left; exact ⟨hq, Nat.le_refl _⟩
  | succ d ih =>
    intro n hq
    rcases ih n hq with ⟨hq', hle⟩ | hdone
    · rcases queued_step (inv_runN σ (n + d)).wf hq' (σ (n + d)) (fair_isFifo hf _) with ⟨h1, h2⟩ | ⟨_, _, hc | hev⟩
      · left; rw [← Nat.add_assoc]; simp only [runN]; exact ⟨h1, by omega⟩
      · rw [flag_not_cancelled hnc] at hc; cases hc
      · right
        refine ⟨n + d + 1, by omega, ?_⟩
        have h1 : cbCount (runN σ (n + d + 1)).2 id = cbCount (runN σ (n + d)).2 id + 1 := by
          simp only [runN]; rw [hev, cbCount_snoc]; simp [Event.isCbOf]
        have h2 := cbCount_runN_mono σ id (show n ≤ n + d by omega)
        omega
    · right; exact hdone

theorem queued_next {σ : Nat → Op} (hf : Fair σ) {id : Nat} (hnc : ∀ n, cancelledIn (runN σ n).2 id = false)
    (n : Nat) (hq : id ∈ (runN σ n).1.queue) :
    (∃ m, n < m ∧ cbCount (runN σ n).2 id < cbCount (runN σ m).2 id) ∨
    (∃ m, n < m ∧ id ∈ (runN σ m).1.queue ∧ (runN σ m).1.queue.idxOf id + 1 ≤ (runN σ n).1.queue.idxOf id) := by
  obtain ⟨m, hm, hs, hc⟩ := eventually_recv σ hf n
  obtain ⟨d, rfl⟩ := Nat.exists_eq_add_of_le hm
  rcases queued_until hf hnc d n hq with ⟨hq', hle⟩ | hdone
  · have hne : (runN σ (n + d)).1.queue.isEmpty = false := by
      cases hqq : (runN σ (n + d)).1.queue with
      | nil => rw [hqq] at hq'; simp at hq'
      | cons a b => rfl
    have ht : takes (runN σ (n + d)).1 (σ (n + d)) = 1 := by rw [hs]; simp [takes, hc, hne]
    rcases queued_step (inv_runN σ (n + d)).wf hq' (σ (n + d)) (fair_isFifo hf _) with ⟨h1, h2⟩ | ⟨_, _, hcc | hev⟩
    · right
      refine ⟨n + d + 1, by omega, ?_, ?_⟩
      · simp only [runN]; exact h1
      · simp only [runN]; omega
    · rw [flag_not_cancelled hnc] at hcc; cases hcc
    · left
      refine ⟨n + d + 1, by omega, ?_⟩
      have h1 : cbCount (runN σ (n + d + 1)).2 id = cbCount (runN σ (n + d)).2 id + 1 := by
        simp only [runN]; rw [hev, cbCount_snoc]; simp [Event.isCbOf]
      have h2 := cbCount_runN_mono σ id (show n ≤ n + d by omega)
      omega
  · left; exact hdone

/-- a queued object fires, in every fair schedule -/
theorem queued_fires {σ : Nat → Op} (hf : Fair σ) {id : Nat} (hnc : ∀ n, cancelledIn (runN σ n).2 id = false) :
    ∀ k n, id ∈ (runN σ n).1.queue → (runN σ n).1.queue.idxOf id ≤ k →
      ∃ m, n < m ∧ cbCount (runN σ n).2 id < cbCount (runN σ m).2 id := by
  intro k
  induction k with
  | zero =>
    intro n hq hk
    rcases queued_next hf hnc n hq with h | ⟨m, _, _, hlt⟩
    · exact h
    · omega
  | succ k ih =>
    intro n hq hk
    rcases queued_next hf hnc n hq with h | ⟨m, hm, hq', hlt⟩
    · exact h
    · obtain ⟨m', hm', hc⟩ := ih m hq' (by omega)
      have := cbCount_runN_mono σ id (show n ≤ m by omega)
      exact ⟨m', by omega, by omega⟩

theorem armed_until {σ : Nat → Op} {id : Nat} (hnc : ∀ n, cancelledIn (runN σ n).2 id = false)
    (hr : ∀ n, (runN σ n).1.running = true) :
    ∀ d n, ((runN σ n).1.tm id).armed = true →
      (((runN σ (n + d)).1.tm id).armed = true ∧ ((runN σ (n + d)).1.tm id).exp = ((runN σ n).1.tm id).exp) ∨
      ∃ m, n ≤ m ∧ id ∈ (runN σ m).1.queue := by
  intro d
  induction d with
  | zero => intro n ha; left; exact ⟨ha, rfl⟩
  | succ d ih =>
    intro n ha
    rcases ih n ha with ⟨ha', he⟩ | hdone
    · rcases armed_step (inv_runN σ (n + d)).wf ha' (σ (n + d)) with ⟨h1, h2⟩ | h1 | h1 | h1
      · left; rw [← Nat.add_assoc]; simp only [runN]; exact ⟨h1, by rw [h2, he]⟩
      · right; exact ⟨n + d + 1, by omega, by simp only [runN]; exact h1⟩
      · have := flag_not_cancelled hnc (n + d + 1)
        simp only [runN] at this; rw [this] at h1; cases h1
      · rw [hr] at h1; cases h1
    · right; exact hdone

/-- a pending runtime timer ends up in the queue -/
theorem armed_queued {σ : Nat → Op} (hf : Fair σ) {id : Nat} (hnc : ∀ n, cancelledIn (runN σ n).2 id = false)
    (hr : ∀ n, (runN σ n).1.running = true) (hexp : ∀ n, ∃ m, n ≤ m ∧ σ m = .expire id)
    (n : Nat) (ha : ((runN σ n).1.tm id).armed = true) : ∃ m, n ≤ m ∧ id ∈ (runN σ m).1.queue := by
  obtain ⟨n1, hn1, hT⟩ := eventually_now σ hf ((runN σ n).1.tm id).exp n
  obtain ⟨n2, hn2, hs⟩ := hexp n1
  obtain ⟨d, hd⟩ := Nat.exists_eq_add_of_le (show n ≤ n2 by omega)
  subst hd
  rcases armed_until hnc hr d n ha with ⟨ha', he⟩ | hdone
  · have hnow := now_runN_mono σ hn2
    have hdue : ((runN σ (n + d)).1.tm id).exp ≤ (runN σ (n + d)).1.now := by omega
    have hcc := ((inv_runN σ (n + d)).wf.armedOk id ha').1
    refine ⟨n + d + 1, by omega, ?_⟩
    simp only [runN, hs]
    simp [step, expire, ha', hdue, hcc, hr (n + d)]
  · exact hdone

/-- In every fair schedule a repeating timer that is never cancelled, on a manager that is never
stopped, fires again after every point in time: infinitely often. -/
theorem fires_infinitely_often {σ : Nat → Op} (hf : Fair σ) {id n0 p : Nat} (h : Steady σ id n0 p) (n : Nat) :
    ∃ m, n < m ∧ cbCount (runN σ n).2 id < cbCount (runN σ m).2 id := by
  obtain ⟨n1, hn1, hc⟩ := eventually_idle σ hf (n + n0)
  obtain ⟨hl, hp⟩ := steady_facts h.toUndisturbed (show n0 ≤ n1 by omega)
  have hcc := flag_not_cancelled h.neverCancelled n1
  have hmono := cbCount_runN_mono σ id (show n ≤ n1 by omega)
  have fromQueue : ∀ m, n1 ≤ m → id ∈ (runN σ m).1.queue →
      ∃ m', n < m' ∧ cbCount (runN σ n).2 id < cbCount (runN σ m').2 id := by
    intro m hm hq
    obtain ⟨m', hm', hlt⟩ := queued_fires hf h.neverCancelled _ m hq (Nat.le_refl _)
    have := cbCount_runN_mono σ id (show n ≤ m by omega)
    exact ⟨m', by omega, by omega⟩
  rcases ((inv_runN σ n1).hist id).alive hl hcc (h.neverStopped n1) with h1 | h1 | h1 | h1
  · obtain ⟨m, hm, hq⟩ := armed_queued hf h.neverCancelled h.neverStopped h.expiry n1 h1
    exact fromQueue m hm hq
  · exact fromQueue n1 (Nat.le_refl _) h1
  · simp [State.curId, hc] at h1
  · have := h.pos; omega

/-- In every fair schedule a timer (one-shot or repeating) that is never cancelled, on a manager
that is never stopped, fires. -/
theorem fires_eventually {σ : Nat → Op} (hf : Fair σ) {id n0 p : Nat} (h : Undisturbed σ id n0 p) :
    ∃ m, n0 ≤ m ∧ 1 ≤ cbCount (runN σ m).2 id := by
  obtain ⟨n1, hn1, hc⟩ := eventually_idle σ hf n0
  obtain ⟨hl, hp⟩ := steady_facts h hn1
  have hcc := flag_not_cancelled h.neverCancelled n1
  have fromQueue : ∀ m, n1 ≤ m → id ∈ (runN σ m).1.queue → ∃ m', n0 ≤ m' ∧ 1 ≤ cbCount (runN σ m').2 id := by
    intro m hm hq
    obtain ⟨m', hm', hlt⟩ := queued_fires hf h.neverCancelled _ m hq (Nat.le_refl _)
    exact ⟨m', by omega, by omega⟩
  rcases ((inv_runN σ n1).hist id).alive hl hcc (h.neverStopped n1) with h1 | h1 | h1 | h1
  · obtain ⟨m, hm, hq⟩ := armed_queued hf h.neverCancelled h.neverStopped h.expiry n1 h1
    exact fromQueue m hm hq
  · exact fromQueue n1 (Nat.le_refl _) h1
  · simp [State.curId, hc] at h1
  · exact ⟨n1, hn1, h1.2⟩

/-! ### the hypotheses are satisfiable: a fair schedule with a steady timer -/

/-- a creation, then for ever: time passes, the expiry goroutine of timer 2 gets a turn, the
consumer receives, the callback (empty script) runs to its end -/
def demoOf (first : Op) : Nat → Op
  | 0 => first
  | n + 1 => if n % 4 = 0 then .advance 1 else if n % 4 = 1 then .expire 2 else if n % 4 = 2 then .doNext 0 else .cbStep

/-- `AddTimer(2)` first -/
def demoSched : Nat → Op := demoOf (.add 2 0 [])

/-- `After(2)` first -/
def demoOnce : Nat → Op := demoOf (.after 2 0 [])

theorem demo_at (f : Op) (n : Nat) : demoOf f (4 * n + 1) = .advance 1 ∧ demoOf f (4 * n + 2) = .expire 2 ∧
    demoOf f (4 * n + 3) = .doNext 0 ∧ demoOf f (4 * n + 4) = .cbStep := by
  refine ⟨?_, ?_, ?_, ?_⟩ <;> simp only [demoOf]
  · have : 4 * n % 4 = 0 := by omega
    simp [this]
  · have : (4 * n + 1) % 4 = 1 := by omega
    simp [this]
  · have : (4 * n + 2) % 4 = 2 := by omega
    simp [this]
  · have : (4 * n + 3) % 4 = 3 := by omega
    simp [this]

theorem demo_ops (f : Op) (n : Nat) : demoOf f n = f ∨ demoOf f n = .advance 1 ∨ demoOf f n = .expire 2 ∨
    demoOf f n = .doNext 0 ∨ demoOf f n = .cbStep := by
  cases n with
  | zero => left; rfl
  | succ n => simp only [demoOf]; split <;> (try split) <;> (try split) <;> simp

theorem demo_fair (f : Op) (hf : ∀ i, f ≠ .doNext i) : Fair (demoOf f) := by
  constructor
  · intro n i h
    rcases demo_ops f n with h' | h' | h' | h' | h' <;> rw [h'] at h
    · exact absurd h (hf i)
    all_goals cases h
    rfl
  · intro n; exact ⟨4 * n + 3, by omega, (demo_at f n).2.2.1⟩
  · intro n; exact ⟨4 * n + 4, by omega, (demo_at f n).2.2.2⟩
  · intro n; exact ⟨4 * n + 1, by omega, 1, by omega, (demo_at f n).1⟩

/-- nothing in the demo schedule cancels, stops or defines scripts -/
structure Quiet (s : State) (tr : List Event) : Prop where
  scripts : ∀ k, s.scripts k = []
  cur : ∀ c acts, s.cur = some (c, acts) → acts = []
  running : s.running = true
  noCancel : ∀ id, cancelledIn tr id = false

theorem expire_frame (s : State) (x : Nat) :
    (expire s x).1.cur = s.cur ∧ (expire s x).1.running = s.running ∧ (expire s x).1.scripts = s.scripts ∧ (expire s x).2 = [] := by
  unfold expire
  split <;> (try split) <;> (try split) <;> simp

theorem finish_frame (s : State) (x : Nat) :
    (finish s x).1.scripts = s.scripts ∧ ∀ id, cancelledIn (finish s x).2 id = false := by
  simp only [finish]
  split <;> (try split) <;> simp [cancelledIn, Event.isCancelOf]

theorem quiet_step {s : State} {tr : List Event} (h : Quiet s tr) (op : Op)
    (hop : (op = .add 2 0 [] ∨ op = .after 2 0 []) ∨ op = .advance 1 ∨ op = .expire 2 ∨ op = .doNext 0 ∨ op = .cbStep) :
    Quiet (step s op).1 (tr ++ (step s op).2) := by
  obtain ⟨hs, hc, hr, hn⟩ := h
  rcases hop with (rfl | rfl) | rfl | rfl | rfl | rfl
  · simp only [step]
    split
    · exact ⟨hs, hc, hr, by simpa using hn⟩
    · refine ⟨by simpa [create] using hs, by simpa [create] using hc, by simpa [create] using hr, ?_⟩
      intro id; rw [cancelledIn_append, hn id]; simp [create, cancelledIn, Event.isCancelOf]
  · simp only [step]
    split
    · exact ⟨hs, hc, hr, by simpa using hn⟩
    · refine ⟨by simpa [create] using hs, by simpa [create] using hc, by simpa [create] using hr, ?_⟩
      intro id; rw [cancelledIn_append, hn id]; simp [create, cancelledIn, Event.isCancelOf]
  · exact ⟨hs, hc, hr, by simpa [step] using hn⟩
  · obtain ⟨e1, e2, e3, e4⟩ := expire_frame s 2
    simp only [step]
    exact ⟨by rw [e3]; exact hs, by rw [e1]; exact hc, by rw [e2]; exact hr, by rw [e4]; simpa using hn⟩
  · simp only [step, doNext]
    split
    · exact ⟨hs, hc, hr, by simpa using hn⟩
    · split
      · exact ⟨hs, hc, hr, by simpa using hn⟩
      · split
        · exact ⟨by simpa using hs, by simpa using hc, by simpa using hr, by simpa using hn⟩
        · refine ⟨by simpa using hs, ?_, by simpa using hr, ?_⟩
          · intro c acts hcur; simp at hcur; rw [← hcur.2]; exact hs _
          · intro id; rw [cancelledIn_append, hn id]; simp [cancelledIn, Event.isCancelOf]
  · simp only [step]
    unfold cbStep
    split
    · exact ⟨hs, hc, hr, by simpa using hn⟩
    next c hcur =>
      obtain ⟨f1, f2⟩ := finish_frame (s.setCur none) c
      refine ⟨by rw [f1]; simpa using hs, ?_, by rw [finish_running]; simpa using hr, ?_⟩
      · intro c' acts hcur'; rw [finish_cur] at hcur'; simp at hcur'
      · intro id; rw [cancelledIn_append, hn id, f2 id]; rfl
    next c a rest hcur => have := hc c _ hcur; cases this

theorem demo_quiet (f : Op) (hf : f = .add 2 0 [] ∨ f = .after 2 0 []) (n : Nat) :
    Quiet (runN (demoOf f) n).1 (runN (demoOf f) n).2 := by
  induction n with
  | zero => exact ⟨fun _ => rfl, by intro c acts h; simp [runN, init] at h, rfl, fun _ => rfl⟩
  | succ n ih =>
    refine quiet_step ih _ ?_
    rcases demo_ops f n with h | h | h | h | h
    · left; rw [h]; exact hf
    · right; left; exact h
    · right; right; left; exact h
    · right; right; right; left; exact h
    · right; right; right; right; exact h

theorem demo_undisturbed (f : Op) (hf : f = .add 2 0 [] ∨ f = .after 2 0 []) (p : Nat)
    (hc : ∃ t0 dl a, createdOf (runN (demoOf f) 1).2 2 = some (t0, dl, p, a)) : Undisturbed (demoOf f) 2 1 p :=
  ⟨hc, fun n => (demo_quiet f hf n).noCancel 2, fun n => (demo_quiet f hf n).running,
   fun n => ⟨4 * n + 2, by omega, (demo_at f n).2.1⟩⟩

theorem demoSched_fair : Fair demoSched := demo_fair _ (by intro i h; cases h)

theorem demoOnce_fair : Fair demoOnce := demo_fair _ (by intro i h; cases h)

theorem demo_steady : Steady demoSched 2 1 2 :=
  ⟨demo_undisturbed _ (Or.inl rfl) 2 ⟨0, 2, [], by decide⟩, by omega⟩

theorem demoOnce_undisturbed : Undisturbed demoOnce 2 1 0 :=
  demo_undisturbed _ (Or.inr rfl) 0 ⟨0, 2, [], by decide⟩

end Cell2v.Timer
