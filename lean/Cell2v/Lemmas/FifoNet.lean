import Cell2v.Model.FifoNet
/-!
C03 — invariants of the FIFO network (`Model/FifoNet.lean`), for every schedule,
any number of services, worker goroutines and clients, any channel capacity,
with the overflow path off and front-local pushes written in place.
-/
namespace Cell2v.FifoNet

/-! ### `sel`, `upd` -/

theorem sel_append (σ : Src) (c : Nat) (a b : List Item) : sel σ c (a ++ b) = sel σ c a ++ sel σ c b := by
  simp [sel, List.filter_append]

@[simp] theorem sel_nil (σ : Src) (c : Nat) : sel σ c [] = [] := rfl

theorem sel_single_hit (σ : Src) (c : Nat) (x : Item) (h : x.src = σ ∧ x.client = c) : sel σ c [x] = [x] := by
  simp [sel, h]

theorem sel_single_miss (σ : Src) (c : Nat) (x : Item) (h : ¬ (x.src = σ ∧ x.client = c)) : sel σ c [x] = [] := by
  simp [sel, h]

theorem sel_cons (σ : Src) (c : Nat) (x : Item) (l : List Item) : sel σ c (x :: l) = sel σ c [x] ++ sel σ c l := by
  rw [← sel_append]; rfl

theorem sel_eq_nil (σ : Src) (c : Nat) (l : List Item) (h : ∀ x, x ∈ l → ¬ (x.src = σ ∧ x.client = c)) :
    sel σ c l = [] := by
  simp only [sel, List.filter_eq_nil_iff]
  intro x hx
  simpa using h x hx

theorem mem_of_mem_sel {σ : Src} {c : Nat} {l : List Item} {x : Item} (h : x ∈ sel σ c l) :
    x ∈ l ∧ x.src = σ ∧ x.client = c := by
  simpa [sel] using h

@[simp] theorem upd_same {α : Type} (f : Nat → α) (p : Nat) (v : α) : upd f p v p = v := by simp [upd]

theorem upd_other {α : Type} (f : Nat → α) (p q : Nat) (v : α) (h : ¬ q = p) : upd f p v q = f q := by simp [upd, h]

@[simp] theorem updS_same {α : Type} (f : Src → α) (p : Src) (v : α) : updS f p v p = v := by simp [updS]

theorem updS_other {α : Type} (f : Src → α) (p q : Src) (v : α) (h : ¬ q = p) : updS f p v q = f q := by simp [updS, h]

/-! ### the invariant -/

/-- the pipeline invariant: for every thread `σ` and client `c`, what has
arrived, followed by what is still under way stage by stage (socket first), is
exactly what `σ` issued towards `c`, in issue order.  The remaining fields say
which stage can hold which thread's items, so that an item appended in the
middle of the pipeline has nothing of its own thread behind it. -/
structure Shape (s : St) : Prop where
  lostOpen : ∀ c, s.closed c = false → s.lost c = []
  transportSvc : ∀ S x, x ∈ s.transport S → x.src.svc = S ∧ S ≠ front
  mailboxBack : ∀ x, x ∈ s.mailbox → x.src.svc ≠ front
  taskSrc : ∀ S x, x ∈ s.task S → x.src.svc = S ∧ x.src.thr ≠ 0
  outSrc : ∀ σ x, s.out σ = some x → x.src = σ ∧ σ.thr ≠ 0
  noDetached : ∀ S, s.detached S = []

structure WF (s : St) : Prop extends Shape s where
  proj : ∀ σ c, sel σ c (pipe s σ c) = sel σ c s.issued

theorem wf_init : WF {} := by
  refine ⟨⟨?_, ?_, ?_, ?_, ?_, ?_⟩, ?_⟩ <;> simp [pipe, outL, sel]

/-- the stage-wise form of the projection -/
theorem sel_pipe (s : St) (σ : Src) (c : Nat) :
    sel σ c (pipe s σ c) =
      sel σ c (s.socket c) ++ (sel σ c (s.chSend c) ++ (sel σ c (s.lost c) ++ (sel σ c s.mailbox ++
        (sel σ c (s.transport σ.svc) ++ (sel σ c (s.task σ.svc) ++ sel σ c (outL s σ)))))) := by
  simp only [pipe, sel_append]

theorem outL_none (s : St) (σ : Src) (h : s.out σ = none) : outL s σ = [] := by simp [outL, h]

theorem outL_some (s : St) (σ : Src) (x : Item) (h : s.out σ = some x) : outL s σ = [x] := by simp [outL, h]

/-- nothing of a service-goroutine thread (`thr = 0`) waits in `chanTask` or in a worker's send -/
theorem sel_task_thr0 (s : St) (h : Shape s) (σ : Src) (c : Nat) (h0 : σ.thr = 0) :
    sel σ c (s.task σ.svc) = [] ∧ outL s σ = [] := by
  constructor
  · apply sel_eq_nil
    intro x hx hm
    have := (h.taskSrc _ x hx).2
    rw [hm.1] at this
    exact this h0
  · cases ho : s.out σ with
    | none => exact outL_none s σ ho
    | some x => exact absurd h0 (h.outSrc σ x ho).2

/-- nothing of the front's threads is in the mailbox or in a transport queue -/
theorem sel_front_mid (s : St) (h : Shape s) (σ : Src) (c : Nat) (hf : σ.svc = front) :
    sel σ c s.mailbox = [] ∧ sel σ c (s.transport σ.svc) = [] := by
  constructor
  · apply sel_eq_nil
    intro x hx hm
    have := h.mailboxBack x hx
    rw [hm.1] at this
    exact this hf
  · apply sel_eq_nil
    intro x hx _
    exact (h.transportSvc _ x hx).2 hf

/-! ### `toSession` and `emit` -/

theorem toSession_fields (s : St) (x : Item) :
    (toSession s x).issued = s.issued ∧ (toSession s x).out = s.out ∧ (toSession s x).detached = s.detached ∧
    (toSession s x).task = s.task ∧ (toSession s x).transport = s.transport ∧ (toSession s x).mailbox = s.mailbox ∧
    (toSession s x).socket = s.socket ∧ (toSession s x).closed = s.closed := by
  unfold toSession; split <;> simp

theorem toSession_spill (s : St) (x : Item) : (toSession s x).spill = s.spill := by
  unfold toSession; split <;> rfl

theorem emit_spill (cfg : Cfg) (s : St) (S : Nat) (x : Item) : (emit cfg s S x).spill = s.spill := by
  unfold emit
  split
  · split
    · exact toSession_spill s x
    · rfl
  · rfl

/-- `chSend c ++ lost c` after handing `x` to its session, given the session
is either open with nothing lost, or closed -/
theorem toSession_tail (s : St) (x : Item) (hl : s.closed x.client = false → s.lost x.client = []) (σ : Src) (c : Nat) :
    sel σ c ((toSession s x).chSend c) ++ sel σ c ((toSession s x).lost c) =
      sel σ c (s.chSend c) ++ sel σ c (s.lost c) ++ (if x.client = c then sel σ c [x] else []) := by
  unfold toSession
  by_cases hc : x.client = c
  · subst hc
    cases hcl : s.closed x.client with
    | true => simp [sel_append]
    | false => simp [sel_append, hl hcl]
  · have hc' : ¬ c = x.client := fun e => hc e.symm
    split <;> simp [upd_other _ _ _ _ hc']

theorem toSession_lostOpen (s : St) (x : Item) (hl : ∀ c, s.closed c = false → s.lost c = []) :
    ∀ c, (toSession s x).closed c = false → (toSession s x).lost c = [] := by
  intro c hc
  unfold toSession at hc ⊢
  split
  · rename_i hcl
    simp only [hcl, if_true] at hc
    by_cases e : c = x.client
    · subst e; simp_all
    · simp [upd_other _ _ _ _ e]; exact hl c hc
  · rename_i hcl
    simp only [hcl] at hc
    exact hl c (by simpa using hc)

/-- the stages in front of `chanTask`, and those from `chanTask` on -/
def headPart (s : St) (σ : Src) (c : Nat) : List Item :=
  s.socket c ++ (s.chSend c ++ (s.lost c ++ (s.mailbox ++ s.transport σ.svc)))

def tailPart (s : St) (σ : Src) : List Item := s.task σ.svc ++ outL s σ

theorem pipe_split (s : St) (σ : Src) (c : Nat) : pipe s σ c = headPart s σ c ++ tailPart s σ := by
  simp [pipe, headPart, tailPart, List.append_assoc]

theorem sel_headPart (s : St) (σ : Src) (c : Nat) :
    sel σ c (headPart s σ c) = sel σ c (s.socket c) ++ ((sel σ c (s.chSend c) ++ sel σ c (s.lost c)) ++
      (sel σ c s.mailbox ++ sel σ c (s.transport σ.svc))) := by
  simp only [headPart, sel_append, List.append_assoc]

/-- handing `x` to the framework on `S`'s goroutine inserts it behind everything
of its thread that is already on its way to the front and the socket -/
theorem emit_head (cfg : Cfg) (hld : cfg.localDirect = true) (s : St) (h : Shape s) (S : Nat) (x : Item)
    (hx : x.src.svc = S) (σ : Src) (c : Nat) :
    sel σ c (headPart (emit cfg s S x) σ c) = sel σ c (headPart s σ c) ++ sel σ c [x] ∧
    tailPart (emit cfg s S x) σ = tailPart s σ ∧ (emit cfg s S x).issued = s.issued := by
  unfold emit
  by_cases hS : S = front
  · rw [if_pos hS, if_pos (Or.inl hld)]
    obtain ⟨e1, e2, _, e4, e5, e6, e7, _⟩ := toSession_fields s x
    refine ⟨?_, by simp [tailPart, outL, e2, e4], e1⟩
    rw [sel_headPart, sel_headPart, toSession_tail s x (h.lostOpen _) σ c, e5, e6, e7]
    by_cases hm : x.src = σ ∧ x.client = c
    · have hf : σ.svc = front := by rw [← hm.1, hx, hS]
      obtain ⟨m1, m2⟩ := sel_front_mid s h σ c hf
      simp [hm.2, m1, m2]
    · rw [sel_single_miss σ c x hm]
      split <;> simp
  · rw [if_neg hS]
    refine ⟨?_, by simp [tailPart, outL], rfl⟩
    rw [sel_headPart, sel_headPart]
    by_cases hs : σ.svc = S
    · simp [hs, sel_append]
    · have hm : ¬ (x.src = σ ∧ x.client = c) := fun hm => hs (by rw [← hm.1, hx])
      rw [sel_single_miss σ c x hm]
      simp [upd_other _ _ _ _ hs]

theorem emit_shape (cfg : Cfg) (hld : cfg.localDirect = true) (s : St) (h : Shape s) (S : Nat) (x : Item)
    (hx : x.src.svc = S) : Shape (emit cfg s S x) := by
  obtain ⟨hl, ht, hmb, htk, ho, hd⟩ := h
  unfold emit
  by_cases hS : S = front
  · rw [if_pos hS, if_pos (Or.inl hld)]
    obtain ⟨_, e2, e3, e4, e5, e6, _, _⟩ := toSession_fields s x
    exact ⟨toSession_lostOpen s x hl, by rw [e5]; exact ht, by rw [e6]; exact hmb, by rw [e4]; exact htk,
      by rw [e2]; exact ho, by rw [e3]; exact hd⟩
  · rw [if_neg hS]
    refine ⟨hl, ?_, hmb, htk, ho, hd⟩
    intro S' y hy
    by_cases e : S' = S
    · subst e
      simp only [upd_same, List.mem_append, List.mem_singleton] at hy
      rcases hy with hy | hy
      · exact ht _ y hy
      · subst hy; exact ⟨hx, hS⟩
    · simp only [upd_other _ _ _ _ e] at hy
      exact ht _ y hy

theorem emit_proj (cfg : Cfg) (hld : cfg.localDirect = true) (s : St) (h : Shape s) (S : Nat) (x : Item)
    (hx : x.src.svc = S) (σ : Src) (c : Nat) :
    sel σ c (pipe (emit cfg s S x) σ c) =
      sel σ c (headPart s σ c) ++ (sel σ c [x] ++ sel σ c (tailPart s σ)) := by
  obtain ⟨e1, e2, _⟩ := emit_head cfg hld s h S x hx σ c
  rw [pipe_split, sel_append, e1, e2, List.append_assoc]

/-! ### one step preserves the invariant -/

theorem wf_issue (cfg : Cfg) (hld : cfg.localDirect = true) (hso : cfg.sendOverflow = false) (s : St) (h : WF s) (S c0 : Nat) (k : Kind) (s' : St)
    (hf : fire cfg s (.issue S c0 k) = some s') : WF s' := by
  simp only [fire, fireAt] at hf
  generalize hxd : (⟨⟨S, 0⟩, c0, nextSeq s ⟨S, 0⟩ c0, k⟩ : Item) = x at hf
  split at hf
  · simp [hso] at hf
  simp only [Option.some.injEq] at hf
  have hx : x.src = ⟨S, 0⟩ := by subst hxd; rfl
  have hxs : x.src.svc = S := by rw [hx]
  have h1 : Shape { s with issued := s.issued ++ [x] } :=
    ⟨h.lostOpen, h.transportSvc, h.mailboxBack, h.taskSrc, h.outSrc, h.noDetached⟩
  subst hf
  refine ⟨emit_shape cfg hld _ h1 S x hxs, ?_⟩
  intro σ c
  rw [emit_proj cfg hld _ h1 S x hxs σ c, (emit_head cfg hld _ h1 S x hxs σ c).2.2]
  have hp := h.proj σ c
  rw [pipe_split, sel_append] at hp
  show sel σ c (headPart s σ c) ++ (sel σ c [x] ++ sel σ c (tailPart s σ)) = sel σ c (s.issued ++ [x])
  rw [sel_append, ← hp]
  by_cases hm : x.src = σ ∧ x.client = c
  · have h0 : σ.thr = 0 := by rw [← hm.1, hx]
    obtain ⟨t1, t2⟩ := sel_task_thr0 s h.toShape σ c h0
    simp [tailPart, t1, t2]
  · simp [sel_single_miss σ c x hm]

theorem wf_run (cfg : Cfg) (hld : cfg.localDirect = true) (hso : cfg.sendOverflow = false) (s : St) (h : WF s) (S : Nat) (s' : St)
    (hf : fire cfg s (.run S) = some s') : WF s' := by
  simp only [fire, fireAt] at hf
  split at hf
  · cases hf
  · rename_i x rest ht
    split at hf
    · simp [hso] at hf
    simp only [Option.some.injEq] at hf
    have hxs : x.src.svc = S := (h.taskSrc S x (by rw [ht]; simp)).1
    have h1 : Shape { s with task := upd s.task S rest } := by
      refine ⟨h.lostOpen, h.transportSvc, h.mailboxBack, ?_, h.outSrc, h.noDetached⟩
      intro S' y hy
      by_cases e : S' = S
      · subst e
        simp only [upd_same] at hy
        exact h.taskSrc _ y (by rw [ht]; exact List.mem_cons_of_mem _ hy)
      · simp only [upd_other _ _ _ _ e] at hy
        exact h.taskSrc _ y hy
    subst hf
    refine ⟨emit_shape cfg hld _ h1 S x hxs, ?_⟩
    intro σ c
    rw [emit_proj cfg hld _ h1 S x hxs σ c, (emit_head cfg hld _ h1 S x hxs σ c).2.2]
    have hp := h.proj σ c
    rw [pipe_split, sel_append] at hp
    show sel σ c (headPart s σ c) ++ (sel σ c [x] ++ sel σ c (upd s.task S rest σ.svc ++ outL s σ)) = sel σ c s.issued
    rw [← hp]
    by_cases e : σ.svc = S
    · simp only [tailPart, e, ht, upd_same, List.cons_append]
      rw [sel_cons σ c x (rest ++ outL s σ)]
    · have hm : ¬ (x.src = σ ∧ x.client = c) := fun hm => e (by rw [← hm.1, hxs])
      simp [tailPart, upd_other _ _ _ _ e, sel_single_miss σ c x hm]

theorem wf_post (cfg : Cfg) (hd : cfg.defend = false) (s : St) (h : WF s) (S p c0 : Nat) (k : Kind) (s' : St)
    (hf : fire cfg s (.post S p c0 k) = some s') : WF s' := by
  simp only [fire, fireAt, hd, Bool.false_eq_true, false_and, if_false] at hf
  split at hf
  · cases hf
  · rename_i ho
    simp only [Option.some.injEq] at hf
    generalize hxd : (⟨⟨S, p + 1⟩, c0, nextSeq s ⟨S, p + 1⟩ c0, k⟩ : Item) = x at hf
    have hx : x.src = ⟨S, p + 1⟩ := by subst hxd; rfl
    subst hf
    refine ⟨⟨h.lostOpen, h.transportSvc, h.mailboxBack, h.taskSrc, ?_, h.noDetached⟩, ?_⟩
    · intro σ y hy
      by_cases e : σ = ⟨S, p + 1⟩
      · subst e
        simp only [updS_same, Option.some.injEq] at hy
        subst hy
        exact ⟨hx, by simp⟩
      · simp only [updS_other _ _ _ _ e] at hy
        exact h.outSrc σ y hy
    · intro σ c
      have hp := h.proj σ c
      simp only [pipe, sel_append] at hp ⊢
      rw [← hp]
      by_cases e : σ = ⟨S, p + 1⟩
      · subst e
        simp [outL, ho]
      · have hm : ¬ (x.src = σ ∧ x.client = c) := fun hm => e (by rw [← hm.1, hx])
        simp [outL, updS_other _ _ _ _ e, sel_single_miss σ c x hm]

theorem wf_send (cfg : Cfg) (s : St) (h : WF s) (S p : Nat) (s' : St)
    (hf : fire cfg s (.send S p) = some s') : WF s' := by
  simp only [fire, fireAt] at hf
  split at hf
  · cases hf
  · rename_i x ho
    split at hf
    · simp only [Option.some.injEq] at hf
      obtain ⟨hx, _⟩ := h.outSrc _ x ho
      subst hf
      refine ⟨⟨h.lostOpen, h.transportSvc, h.mailboxBack, ?_, ?_, h.noDetached⟩, ?_⟩
      · intro S' y hy
        by_cases e : S' = S
        · subst e
          simp only [upd_same, List.mem_append, List.mem_singleton] at hy
          rcases hy with hy | hy
          · exact h.taskSrc _ y hy
          · subst hy; rw [hx]; exact ⟨rfl, by simp⟩
        · simp only [upd_other _ _ _ _ e] at hy
          exact h.taskSrc _ y hy
      · intro σ y hy
        by_cases e : σ = ⟨S, p + 1⟩
        · subst e; simp at hy
        · simp only [updS_other _ _ _ _ e] at hy
          exact h.outSrc σ y hy
      · intro σ c
        have hp := h.proj σ c
        simp only [pipe, sel_append] at hp ⊢
        rw [← hp]
        by_cases e : σ = ⟨S, p + 1⟩
        · subst e
          simp [outL, ho, sel_append]
        · have hm : ¬ (x.src = σ ∧ x.client = c) := fun hm => e (by rw [← hm.1, hx])
          by_cases e2 : σ.svc = S
          · simp [outL, updS_other _ _ _ _ e, e2, sel_append, sel_single_miss σ c x hm]
          · simp [outL, updS_other _ _ _ _ e, upd_other _ _ _ _ e2]
    · cases hf

theorem wf_sendDetached (cfg : Cfg) (s : St) (h : WF s) (S i : Nat) (s' : St)
    (hf : fire cfg s (.sendDetached S i) = some s') : WF s' := by
  simp [fire, fireAt, h.noDetached S] at hf

theorem wf_deliver (cfg : Cfg) (s : St) (h : WF s) (S : Nat) (s' : St)
    (hf : fire cfg s (.deliver S) = some s') : WF s' := by
  simp only [fire, fireAt] at hf
  split at hf
  · cases hf
  · rename_i x rest ht
    simp only [Option.some.injEq] at hf
    obtain ⟨hxs, hSf⟩ := h.transportSvc S x (by rw [ht]; simp)
    subst hf
    refine ⟨⟨h.lostOpen, ?_, ?_, h.taskSrc, h.outSrc, h.noDetached⟩, ?_⟩
    · intro S' y hy
      by_cases e : S' = S
      · subst e
        simp only [upd_same] at hy
        exact h.transportSvc _ y (by rw [ht]; exact List.mem_cons_of_mem _ hy)
      · simp only [upd_other _ _ _ _ e] at hy
        exact h.transportSvc _ y hy
    · intro y hy
      simp only [List.mem_append, List.mem_singleton] at hy
      rcases hy with hy | hy
      · exact h.mailboxBack y hy
      · subst hy; rw [hxs]; exact hSf
    · intro σ c
      have hp := h.proj σ c
      simp only [pipe, sel_append] at hp ⊢
      rw [← hp]
      by_cases e : σ.svc = S
      · simp only [outL, e, ht, upd_same]
        rw [sel_cons σ c x rest]
        simp
      · have hm : ¬ (x.src = σ ∧ x.client = c) := fun hm => e (by rw [← hm.1, hxs])
        simp [outL, upd_other _ _ _ _ e, sel_single_miss σ c x hm]

theorem wf_process (cfg : Cfg) (hso : cfg.sendOverflow = false) (s : St) (h : WF s) (s' : St)
    (hf : fire cfg s .process = some s') : WF s' := by
  simp only [fire, fireAt] at hf
  split at hf
  · cases hf
  · rename_i x rest hm
    split at hf
    · simp [hso] at hf
    simp only [Option.some.injEq] at hf
    subst hf
    obtain ⟨e1, e2, e3, e4, e5, e6, e7, _⟩ := toSession_fields { s with mailbox := rest } x
    refine ⟨⟨toSession_lostOpen _ x h.lostOpen, by rw [e5]; exact h.transportSvc, ?_, by rw [e4]; exact h.taskSrc,
      by rw [e2]; exact h.outSrc, by rw [e3]; exact h.noDetached⟩, ?_⟩
    · rw [e6]
      intro y hy
      exact h.mailboxBack y (by rw [hm]; exact List.mem_cons_of_mem _ hy)
    · intro σ c
      have hp := h.proj σ c
      have ht := toSession_tail { s with mailbox := rest } x (h.lostOpen _) σ c
      simp only [pipe, sel_append] at hp ⊢
      rw [e1, ← hp, ← List.append_assoc (sel σ c ((toSession _ x).chSend c)), ht, e7, e6, e5, e4]
      have eo : outL (toSession { s with mailbox := rest } x) σ = outL s σ := by simp [outL, e2]
      rw [eo, hm, sel_cons σ c x rest]
      by_cases hc : x.client = c
      · simp [hc]
      · have hmm : ¬ (x.src = σ ∧ x.client = c) := fun hmm => hc hmm.2
        simp [hc, sel_single_miss σ c x hmm]

theorem wf_write (cfg : Cfg) (s : St) (h : WF s) (c0 : Nat) (s' : St)
    (hf : fire cfg s (.write c0) = some s') : WF s' := by
  simp only [fire, fireAt] at hf
  split at hf
  · cases hf
  · rename_i x rest hc
    simp only [Option.some.injEq] at hf
    subst hf
    refine ⟨⟨h.lostOpen, h.transportSvc, h.mailboxBack, h.taskSrc, h.outSrc, h.noDetached⟩, ?_⟩
    intro σ c
    have hp := h.proj σ c
    simp only [pipe, sel_append] at hp ⊢
    rw [← hp]
    by_cases e : c = c0
    · subst e
      simp only [outL, upd_same, hc]
      rw [sel_cons σ c x rest, sel_append]
      simp
    · simp [outL, upd_other _ _ _ _ e]

theorem wf_close (cfg : Cfg) (s : St) (h : WF s) (c0 : Nat) (s' : St)
    (hf : fire cfg s (.close c0) = some s') : WF s' := by
  simp only [fire, fireAt] at hf
  split at hf
  · cases hf
  · simp only [Option.some.injEq] at hf
    subst hf
    refine ⟨⟨?_, h.transportSvc, h.mailboxBack, h.taskSrc, h.outSrc, h.noDetached⟩, h.proj⟩
    intro c hc
    by_cases e : c = c0
    · subst e; simp at hc
    · simp only [upd_other _ _ _ _ e] at hc
      exact h.lostOpen c hc

theorem wf_writerStop (cfg : Cfg) (s : St) (h : WF s) (c0 : Nat) (s' : St)
    (hf : fire cfg s (.writerStop c0) = some s') : WF s' := by
  simp only [fire, fireAt] at hf
  split at hf
  · rename_i hcl
    simp only [Option.some.injEq] at hf
    subst hf
    refine ⟨⟨?_, h.transportSvc, h.mailboxBack, h.taskSrc, h.outSrc, h.noDetached⟩, ?_⟩
    · intro c hc
      by_cases e : c = c0
      · subst e; simp [hcl] at hc
      · simp only [upd_other _ _ _ _ e]
        exact h.lostOpen c hc
    · intro σ c
      have hp := h.proj σ c
      simp only [pipe, sel_append] at hp ⊢
      rw [← hp]
      by_cases e : c = c0
      · subst e
        simp [outL, sel_append]
      · simp [outL, upd_other _ _ _ _ e]
  · cases hf

/-- **the invariant is inductive** (overflow path off, front-local pushes in place) -/
theorem wf_step (cfg : Cfg) (hd : cfg.defend = false) (hld : cfg.localDirect = true) (hso : cfg.sendOverflow = false)
    (s s' : St) (l : Label) (h : WF s) (hns : s.spill = []) (hf : fire cfg s l = some s') : WF s' := by
  cases l with
  | spillSend i => simp [fire, fireAt, hns] at hf
  | issue S c k => exact wf_issue cfg hld hso s h S c k s' hf
  | post S p c k => exact wf_post cfg hd s h S p c k s' hf
  | send S p => exact wf_send cfg s h S p s' hf
  | sendDetached S i => exact wf_sendDetached cfg s h S i s' hf
  | run S => exact wf_run cfg hld hso s h S s' hf
  | deliver S => exact wf_deliver cfg s h S s' hf
  | process => exact wf_process cfg hso s h s' hf
  | write c => exact wf_write cfg s h c s' hf
  | close c => exact wf_close cfg s h c s' hf
  | writerStop c => exact wf_writerStop cfg s h c s' hf

/-- without the overflow path nothing is ever handed to a helper goroutine -/
theorem nospill_step (cfg : Cfg) (hso : cfg.sendOverflow = false) (s s' : St) (l : Label)
    (hns : s.spill = []) (hf : fire cfg s l = some s') : s'.spill = [] := by
  cases l with
  | issue S c k =>
    simp only [fire, fireAt] at hf
    split at hf
    · simp [hso] at hf
    simp only [Option.some.injEq] at hf
    subst hf
    rw [emit_spill]; exact hns
  | post S p c k =>
    simp only [fire, fireAt] at hf
    split at hf
    · cases hf
    · split at hf <;> (simp only [Option.some.injEq] at hf; subst hf; exact hns)
  | send S p =>
    simp only [fire, fireAt] at hf
    split at hf
    · cases hf
    · split at hf
      · simp only [Option.some.injEq] at hf; subst hf; exact hns
      · cases hf
  | sendDetached S i =>
    simp only [fire, fireAt] at hf
    split at hf
    · cases hf
    · split at hf
      · simp only [Option.some.injEq] at hf; subst hf; exact hns
      · cases hf
  | run S =>
    simp only [fire, fireAt] at hf
    split at hf
    · cases hf
    · split at hf
      · simp [hso] at hf
      simp only [Option.some.injEq] at hf
      subst hf
      rw [emit_spill]; exact hns
  | deliver S =>
    simp only [fire, fireAt] at hf
    split at hf
    · cases hf
    · simp only [Option.some.injEq] at hf; subst hf; exact hns
  | process =>
    simp only [fire, fireAt] at hf
    split at hf
    · cases hf
    · split at hf
      · simp [hso] at hf
      simp only [Option.some.injEq] at hf
      subst hf
      rw [toSession_spill]; exact hns
  | write c0 =>
    simp only [fire, fireAt] at hf
    split at hf
    · cases hf
    · simp only [Option.some.injEq] at hf; subst hf; exact hns
  | close c0 =>
    simp only [fire, fireAt] at hf
    split at hf
    · cases hf
    · simp only [Option.some.injEq] at hf; subst hf; exact hns
  | writerStop c0 =>
    simp only [fire, fireAt] at hf
    split at hf
    · simp only [Option.some.injEq] at hf; subst hf; exact hns
    · cases hf
  | spillSend i => simp [fire, fireAt, hns] at hf

theorem wf_reachable' (cfg : Cfg) (hd : cfg.defend = false) (hld : cfg.localDirect = true)
    (hso : cfg.sendOverflow = false) (s : St) (h : Reachable cfg s) : WF s ∧ s.spill = [] := by
  induction h with
  | init => exact ⟨wf_init, rfl⟩
  | step l _ hf ih => exact ⟨wf_step cfg hd hld hso _ _ l ih.1 ih.2 hf, nospill_step cfg hso _ _ l ih.2 hf⟩

theorem wf_reachable (cfg : Cfg) (hd : cfg.defend = false) (hld : cfg.localDirect = true)
    (hso : cfg.sendOverflow = false) (s : St) (h : Reachable cfg s) : WF s :=
  (wf_reachable' cfg hd hld hso s h).1

/-! ### connection tags and counters (any configuration) -/

/-- what sits in a connection's queues is addressed to that connection -/
def Tagged (s : St) : Prop :=
  ∀ c x, (x ∈ s.socket c ∨ x ∈ s.chSend c ∨ x ∈ s.lost c) → x.client = c

theorem tagged_toSession (s : St) (x : Item) (h : Tagged s) : Tagged (toSession s x) := by
  intro c y hy
  unfold toSession at hy
  split at hy
  · by_cases e : c = x.client
    · subst e
      simp only [upd_same, List.mem_append, List.mem_singleton] at hy
      rcases hy with hy | hy | hy | hy
      · exact h _ y (Or.inl hy)
      · exact h _ y (Or.inr (Or.inl hy))
      · exact h _ y (Or.inr (Or.inr hy))
      · rw [hy]
    · simp only [upd_other _ _ _ _ e] at hy
      exact h c y hy
  · by_cases e : c = x.client
    · subst e
      simp only [upd_same, List.mem_append, List.mem_singleton] at hy
      rcases hy with hy | (hy | hy) | hy
      · exact h _ y (Or.inl hy)
      · exact h _ y (Or.inr (Or.inl hy))
      · rw [hy]
      · exact h _ y (Or.inr (Or.inr hy))
    · simp only [upd_other _ _ _ _ e] at hy
      exact h c y hy

theorem tagged_emit (cfg : Cfg) (s : St) (S : Nat) (x : Item) (h : Tagged s) : Tagged (emit cfg s S x) := by
  unfold emit
  split
  · split
    · exact tagged_toSession s x h
    · exact h
  · exact h

theorem tagged_step (cfg : Cfg) (s s' : St) (l : Label) (h : Tagged s) (hf : fire cfg s l = some s') : Tagged s' := by
  cases l with
  | issue S c k =>
    simp only [fire, fireAt] at hf
    split at hf
    · split at hf
      · simp only [Option.some.injEq] at hf; subst hf; exact h
      · cases hf
    simp only [Option.some.injEq] at hf
    subst hf
    exact tagged_emit cfg _ S _ h
  | post S p c k =>
    simp only [fire, fireAt] at hf
    split at hf
    · cases hf
    · split at hf <;> (simp only [Option.some.injEq] at hf; subst hf; exact h)
  | send S p =>
    simp only [fire, fireAt] at hf
    split at hf
    · cases hf
    · split at hf
      · simp only [Option.some.injEq] at hf; subst hf; exact h
      · cases hf
  | sendDetached S i =>
    simp only [fire, fireAt] at hf
    split at hf
    · cases hf
    · split at hf
      · simp only [Option.some.injEq] at hf; subst hf; exact h
      · cases hf
  | run S =>
    simp only [fire, fireAt] at hf
    split at hf
    · cases hf
    · split at hf
      · split at hf
        · simp only [Option.some.injEq] at hf; subst hf; exact h
        · cases hf
      simp only [Option.some.injEq] at hf
      subst hf
      exact tagged_emit cfg _ S _ h
  | deliver S =>
    simp only [fire, fireAt] at hf
    split at hf
    · cases hf
    · simp only [Option.some.injEq] at hf; subst hf; exact h
  | process =>
    simp only [fire, fireAt] at hf
    split at hf
    · cases hf
    · split at hf
      · split at hf
        · simp only [Option.some.injEq] at hf; subst hf; exact h
        · cases hf
      simp only [Option.some.injEq] at hf
      subst hf
      exact tagged_toSession _ _ h
  | write c0 =>
    simp only [fire, fireAt] at hf
    split at hf
    · cases hf
    · rename_i x rest hc
      simp only [Option.some.injEq] at hf
      subst hf
      intro c y hy
      by_cases e : c = c0
      · subst e
        simp only [upd_same, List.mem_append, List.mem_singleton] at hy
        rcases hy with (hy | hy) | hy | hy
        · exact h _ y (Or.inl hy)
        · subst hy; exact h _ _ (Or.inr (Or.inl (by rw [hc]; simp)))
        · exact h _ y (Or.inr (Or.inl (by rw [hc]; exact List.mem_cons_of_mem _ hy)))
        · exact h _ y (Or.inr (Or.inr hy))
      · simp only [upd_other _ _ _ _ e] at hy
        exact h c y hy
  | close c0 =>
    simp only [fire, fireAt] at hf
    split at hf
    · cases hf
    · simp only [Option.some.injEq] at hf; subst hf; exact h
  | writerStop c0 =>
    simp only [fire, fireAt] at hf
    split at hf
    · simp only [Option.some.injEq] at hf
      subst hf
      intro c y hy
      by_cases e : c = c0
      · subst e
        simp only [upd_same, List.mem_append, List.not_mem_nil, false_or] at hy
        rcases hy with hy | hy | hy
        · exact h _ y (Or.inl hy)
        · exact h _ y (Or.inr (Or.inl hy))
        · exact h _ y (Or.inr (Or.inr hy))
      · simp only [upd_other _ _ _ _ e] at hy
        exact h c y hy
    · cases hf
  | spillSend i =>
    simp only [fire, fireAt] at hf
    split at hf
    · cases hf
    · split at hf
      · cases hf
      · simp only [Option.some.injEq] at hf
        subst hf
        exact tagged_toSession _ _ h

theorem tagged_reachable (cfg : Cfg) (s : St) (h : Reachable cfg s) : Tagged s := by
  induction h with
  | init => intro c x hx; simp at hx
  | step l _ hf ih => exact tagged_step cfg _ _ l ih hf

/-- the thread's part of a connection's socket stream, by `sel` -/
theorem arrived_eq_sel (s : St) (h : Tagged s) (σ : Src) (c : Nat) : arrived s σ c = sel σ c (s.socket c) := by
  unfold arrived sel
  apply List.filter_congr
  intro x hx
  simp [h c x (Or.inl hx)]

/-- the items of one thread towards one client are numbered 0, 1, 2, … in issue order -/
def Numbered (s : St) : Prop :=
  ∀ σ c, (sel σ c s.issued).map (·.seq) = List.range (sel σ c s.issued).length

theorem nextSeq_eq (s : St) (σ : Src) (c : Nat) : nextSeq s σ c = (sel σ c s.issued).length := by
  simp [nextSeq, sel, List.countP_eq_length_filter]

theorem numbered_snoc (s : St) (h : Numbered s) (σ0 : Src) (c0 : Nat) (k : Kind) :
    ∀ σ c, (sel σ c (s.issued ++ [⟨σ0, c0, nextSeq s σ0 c0, k⟩])).map (·.seq) =
      List.range (sel σ c (s.issued ++ [⟨σ0, c0, nextSeq s σ0 c0, k⟩])).length := by
  intro σ c
  rw [sel_append]
  by_cases hm : σ0 = σ ∧ c0 = c
  · obtain ⟨rfl, rfl⟩ := hm
    rw [sel_single_hit σ0 c0 ⟨σ0, c0, nextSeq s σ0 c0, k⟩ ⟨rfl, rfl⟩]
    simp [List.range_succ, h σ0 c0, nextSeq_eq]
  · rw [sel_single_miss σ c ⟨σ0, c0, nextSeq s σ0 c0, k⟩ hm]
    simpa using h σ c

theorem emit_issued (cfg : Cfg) (s : St) (S : Nat) (x : Item) : (emit cfg s S x).issued = s.issued := by
  unfold emit toSession
  repeat' split
  all_goals rfl

theorem numbered_step (cfg : Cfg) (s s' : St) (l : Label) (h : Numbered s) (hf : fire cfg s l = some s') :
    Numbered s' := by
  cases l with
  | issue S c k =>
    simp only [fire, fireAt] at hf
    split at hf
    · split at hf
      · simp only [Option.some.injEq] at hf; subst hf; exact numbered_snoc s h ⟨S, 0⟩ c k
      · cases hf
    simp only [Option.some.injEq] at hf
    subst hf
    unfold Numbered
    rw [emit_issued]
    exact numbered_snoc s h ⟨S, 0⟩ c k
  | post S p c k =>
    simp only [fire, fireAt] at hf
    split at hf
    · cases hf
    · split at hf <;>
        (simp only [Option.some.injEq] at hf; subst hf; exact numbered_snoc s h ⟨S, p + 1⟩ c k)
  | send S p =>
    simp only [fire, fireAt] at hf
    split at hf
    · cases hf
    · split at hf
      · simp only [Option.some.injEq] at hf; subst hf; exact h
      · cases hf
  | sendDetached S i =>
    simp only [fire, fireAt] at hf
    split at hf
    · cases hf
    · split at hf
      · simp only [Option.some.injEq] at hf; subst hf; exact h
      · cases hf
  | run S =>
    simp only [fire, fireAt] at hf
    split at hf
    · cases hf
    · split at hf
      · split at hf
        · simp only [Option.some.injEq] at hf; subst hf; exact h
        · cases hf
      simp only [Option.some.injEq] at hf
      subst hf
      unfold Numbered
      rw [emit_issued]
      exact h
  | deliver S =>
    simp only [fire, fireAt] at hf
    split at hf
    · cases hf
    · simp only [Option.some.injEq] at hf; subst hf; exact h
  | process =>
    simp only [fire, fireAt] at hf
    split at hf
    · cases hf
    · split at hf
      · split at hf
        · simp only [Option.some.injEq] at hf; subst hf; exact h
        · cases hf
      simp only [Option.some.injEq] at hf
      subst hf
      unfold Numbered
      rw [(toSession_fields _ _).1]
      exact h
  | write c0 =>
    simp only [fire, fireAt] at hf
    split at hf
    · cases hf
    · simp only [Option.some.injEq] at hf; subst hf; exact h
  | close c0 =>
    simp only [fire, fireAt] at hf
    split at hf
    · cases hf
    · simp only [Option.some.injEq] at hf; subst hf; exact h
  | writerStop c0 =>
    simp only [fire, fireAt] at hf
    split at hf
    · simp only [Option.some.injEq] at hf; subst hf; exact h
    · cases hf
  | spillSend i =>
    simp only [fire, fireAt] at hf
    split at hf
    · cases hf
    · split at hf
      · cases hf
      · simp only [Option.some.injEq] at hf
        subst hf
        unfold Numbered
        rw [(toSession_fields _ _).1]
        exact h

theorem numbered_reachable (cfg : Cfg) (s : St) (h : Reachable cfg s) : Numbered s := by
  induction h with
  | init => intro σ c; simp
  | step l _ hf ih => exact numbered_step cfg _ _ l ih hf

/-! ### list facts -/

theorem prefix_of_range {l : List Nat} {n : Nat} (h : l <+: List.range n) : l = List.range l.length := by
  obtain ⟨t, ht⟩ := h
  have hlen : l.length ≤ n := by
    have := congrArg List.length ht
    simp at this
    omega
  have h1 : l = (List.range n).take l.length := by
    rw [← ht]; simp
  rw [h1, List.take_range]
  simp [Nat.min_eq_left hlen]

/-- every executed label sequence ends in a reachable state -/
theorem reachable_of_run (cfg : Cfg) : ∀ (ls : List Label) (s s' : St), Reachable cfg s → run cfg s ls = some s' →
    Reachable cfg s' := by
  intro ls
  induction ls with
  | nil => intro s s' hr h; simp [run] at h; exact h ▸ hr
  | cons l t ih =>
    intro s s' hr h
    simp only [run] at h
    split at h
    · cases h
    · rename_i s1 hf
      exact ih s1 s' (Reachable.step l hr hf) h

end Cell2v.FifoNet
