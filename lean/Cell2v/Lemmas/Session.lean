import Cell2v.Model.Session
/-! helper lemmas for C05 (1): invariants of the concurrent session model along
every schedule — mutual exclusion of `Close`, the close-once latch, "a thread that
is out of its Close has seen the remove posted", arrival order, and the shape of
states in which no thread can move. -/
namespace Cell2v.Session

def b2n (b : Bool) : Nat := if b then 1 else 0
def csN (c : CPh) : Nat := if c = .locked ∨ c = .fin then 1 else 0
def finN (c : CPh) : Nat := if c = .fin then 1 else 0

@[simp] theorem b2n_true : b2n true = 1 := rfl
@[simp] theorem b2n_false : b2n false = 0 := rfl
@[simp] theorem csN_out : csN .out = 0 := rfl
@[simp] theorem csN_want : csN .want = 0 := rfl
@[simp] theorem csN_locked : csN .locked = 1 := rfl
@[simp] theorem csN_fin : csN .fin = 1 := rfl
@[simp] theorem finN_out : finN .out = 0 := rfl
@[simp] theorem finN_want : finN .want = 0 := rfl
@[simp] theorem finN_locked : finN .locked = 0 := rfl
@[simp] theorem finN_fin : finN .fin = 1 := rfl
theorem finN_le_csN (c : CPh) : finN c ≤ csN c := by cases c <;> simp
theorem csN_le (c : CPh) : csN c ≤ 1 := by cases c <;> simp
theorem b2n_le (b : Bool) : b2n b ≤ 1 := by cases b <;> simp

theorem removes_append (a b : List Ev) : removes (a ++ b) = removes a + removes b := by
  induction a with
  | nil => simp [removes]
  | cons x r ih => cases x <;> simp [removes, ih] <;> omega

theorem adds_append (a b : List Ev) : adds (a ++ b) = adds a + adds b := by
  induction a with
  | nil => simp [adds]
  | cons x r ih => cases x <;> simp [adds, ih] <;> omega

theorem msgsOf_append (a b : List Ev) : msgsOf (a ++ b) = msgsOf a ++ msgsOf b := by
  induction a with
  | nil => simp [msgsOf]
  | cons x r ih => cases x <;> simp [msgsOf, ih]

/-- mutual exclusion and the close-once latch -/
def CInv (s : St) : Prop :=
  b2n s.mutex = csN s.rdC + csN s.wrC + csN s.hbC + csN s.kC ∧
  s.connCloses + (finN s.rdC + finN s.wrC + finN s.hbC + finN s.kC) = b2n s.closed ∧
  removes s.posted = s.connCloses ∧
  adds s.posted = 1 ∧
  s.kC ≠ .want

theorem cinv_init (t : Nat) : CInv (initAt t) := by simp [CInv, initAt, removes, adds]

set_option hygiene false in
macro "step_cases" : tactic => `(tactic| (
  cases l <;> (try cases t) <;> simp only [fire, rdExit] at hf <;> (repeat' split at hf) <;> (first | cases hf | skip)))

set_option hygiene false in
macro "cph_facts" : tactic => `(tactic| (
  have := finN_le_csN rdC; have := finN_le_csN wrC; have := finN_le_csN hbC; have := finN_le_csN kC
  have := csN_le rdC; have := csN_le wrC; have := csN_le hbC; have := csN_le kC
  have := b2n_le mutex; have := b2n_le closed))

theorem cinv_step (fx : Bool) (s s' : St) (l : Lbl) (h : CInv s) (hf : fire fx s l = some s') : CInv s' := by
  obtain ⟨status, closed, mutex, cc, posted, sendq, writes, now, lastHb, tickAt, rd, rdC, wr, wrC, hb, hbC, kWant, kC, arrived⟩ := s
  obtain ⟨h1, h2, h3, h4, h5⟩ := h
  simp only at h1 h2 h3 h4 h5
  cph_facts
  step_cases <;> simp only [CInv] <;> simp_all [removes_append, adds_append, removes, adds] <;> omega


theorem cinv_run (fx : Bool) (ls : List Lbl) : ∀ (s s' : St), CInv s → runL fx s ls = some s' → CInv s' := by
  induction ls with
  | nil => intro s s' h hr; simp [runL] at hr; subst hr; exact h
  | cons l ls ih =>
    intro s s' h hr
    simp only [runL] at hr
    cases hf : fire fx s l with
    | none => simp [hf] at hr
    | some s1 => simp only [hf] at hr; exact ih s1 s' (cinv_step fx s s1 l h hf) hr

/-- a thread that has come out of its (deferred) Close has seen the session closed
and the remove posted; the heartbeat only ends on a closed latch.  (current reader only) -/
def EInv (s : St) : Prop :=
  ((s.rd = .done ∨ (s.rd = .dfr ∧ s.rdC = .out)) → s.connCloses = 1) ∧
  ((s.wr = .done ∨ (s.wr = .dfr ∧ s.wrC = .out)) → s.connCloses = 1) ∧
  (s.hb = .done → s.closed = true)

theorem einv_init (t : Nat) : EInv (initAt t) := by simp [EInv, initAt]

theorem einv_step (s s' : St) (l : Lbl) (hc : CInv s) (h : EInv s) (hf : fire true s l = some s') : EInv s' := by
  obtain ⟨status, closed, mutex, cc, posted, sendq, writes, now, lastHb, tickAt, rd, rdC, wr, wrC, hb, hbC, kWant, kC, arrived⟩ := s
  obtain ⟨h1, h2, h3, h4, h5⟩ := hc
  obtain ⟨e1, e2, e3⟩ := h
  simp only at h1 h2 h3 h4 e1 e2 e3
  cph_facts
  step_cases <;> simp only [EInv] <;> simp_all <;> (first | omega | ((have hcc : cc = 0 := by omega); cases closed <;> simp_all))


/-- what was posted as messages, followed by what the reader still has in hand,
is a subsequence of what arrived -/
def JInv (s : St) : Prop := List.Sublist (msgsOf s.posted ++ pendMids s.rd) s.arrived

theorem jinv_init (t : Nat) : JInv (initAt t) := by simp [JInv, initAt, msgsOf, pendMids]

theorem sub_drop {a p c : List Nat} (h : List.Sublist (a ++ p) c) : List.Sublist (a ++ []) c := by
  simpa using (List.sublist_append_left a p).trans h

theorem sub_skip {a p c : List Nat} {m : Nat} (h : List.Sublist (a ++ m :: p) c) : List.Sublist (a ++ p) c :=
  ((List.Sublist.refl a).append (List.sublist_cons_self m p)).trans h

theorem jinv_step (fx : Bool) (s s' : St) (l : Lbl) (h : JInv s) (hf : fire fx s l = some s') : JInv s' := by
  obtain ⟨status, closed, mutex, cc, posted, sendq, writes, now, lastHb, tickAt, rd, rdC, wr, wrC, hb, hbC, kWant, kC, arrived⟩ := s
  simp only [JInv] at h
  step_cases <;> simp only [JInv] <;>
    first
    | exact h
    | exact sub_drop h
    | exact sub_skip h
    | (simp only [msgsOf_append, msgsOf, pendMids, midsOfItem, midsOfPkts, List.append_nil, List.append_assoc, List.singleton_append] at h ⊢
       first
       | exact h
       | exact List.Sublist.append h (List.Sublist.refl _))


/-- the first post is the session-add -/
def HInv (s : St) : Prop := ∃ r, s.posted = .add :: r

theorem hinv_init (t : Nat) : HInv (initAt t) := ⟨[], rfl⟩

theorem hinv_step (fx : Bool) (s s' : St) (l : Lbl) (h : HInv s) (hf : fire fx s l = some s') : HInv s' := by
  obtain ⟨status, closed, mutex, cc, posted, sendq, writes, now, lastHb, tickAt, rd, rdC, wr, wrC, hb, hbC, kWant, kC, arrived⟩ := s
  obtain ⟨r, h⟩ := h
  simp only at h
  step_cases <;> simp only [HInv] <;> first | exact ⟨r, h⟩ | exact ⟨_, by rw [h]; rfl⟩

theorem stuck_lbl {fx : Bool} {s : St} (h : stuck fx s = true) {l : Lbl} (hl : l ∈ internalLbls) : fire fx s l = none := by
  simp only [stuck, Bool.and_eq_true, List.all_eq_true] at h
  have := h.1 l hl
  simpa using this

/-- all threads out of Close, mutex free, no kicker waiting — in a state where nothing can move -/
theorem stuck_phases (s : St) (hc : CInv s) (hs : stuck true s = true) :
    s.mutex = false ∧ s.rdC = .out ∧ s.wrC = .out ∧ s.hbC = .out ∧ s.kC = .out ∧ s.kWant = 0 := by
  have a1 := stuck_lbl hs (l := .cCheck .rd) (by simp [internalLbls])
  have a2 := stuck_lbl hs (l := .cCheck .wr) (by simp [internalLbls])
  have a3 := stuck_lbl hs (l := .cCheck .hb) (by simp [internalLbls])
  have a4 := stuck_lbl hs (l := .cCheck .kk) (by simp [internalLbls])
  have b1 := stuck_lbl hs (l := .cFin .rd) (by simp [internalLbls])
  have b2 := stuck_lbl hs (l := .cFin .wr) (by simp [internalLbls])
  have b3 := stuck_lbl hs (l := .cFin .hb) (by simp [internalLbls])
  have b4 := stuck_lbl hs (l := .cFin .kk) (by simp [internalLbls])
  have c1 := stuck_lbl hs (l := .cLock .rd) (by simp [internalLbls])
  have c2 := stuck_lbl hs (l := .cLock .wr) (by simp [internalLbls])
  have c3 := stuck_lbl hs (l := .cLock .hb) (by simp [internalLbls])
  have c4 := stuck_lbl hs (l := .cLock .kk) (by simp [internalLbls])
  obtain ⟨status, closed, mutex, cc, posted, sendq, writes, now, lastHb, tickAt, rd, rdC, wr, wrC, hb, hbC, kWant, kC, arrived⟩ := s
  obtain ⟨h1, h2, h3, h4, h5⟩ := hc
  simp only [fire] at a1 a2 a3 a4 b1 b2 b3 b4 c1 c2 c3 c4
  simp only at h1 h5 ⊢
  cases rdC <;> cases closed <;> simp at a1 b1 <;>
  cases wrC <;> simp at a2 b2 <;>
  cases hbC <;> simp at a3 b3 <;>
  cases kC <;> simp at a4 b4 <;>
  cases mutex <;> simp at h1 <;> simp_all <;> omega


/-- nothing has been closed, every thread is parked waiting for the outside world -/
def OpenIdle (s : St) : Prop :=
  s.closed = false ∧ s.connCloses = 0 ∧ s.rd = .wait ∧ s.wr = .sel ∧ s.sendq = 0 ∧ s.hb = .sel ∧ s.now < s.tickAt

/-- every goroutine has returned, the conn was closed once and the remove posted once -/
def AllDone (s : St) : Prop :=
  s.closed = true ∧ s.connCloses = 1 ∧ removes s.posted = 1 ∧ s.rd = .done ∧ s.wr = .done ∧ s.hb = .done

theorem stuck_shape (s : St) (hc : CInv s) (he : EInv s) (hs : stuck true s = true) :
    (OpenIdle s ∨ AllDone s) ∧ s.mutex = false ∧ s.kWant = 0 := by
  obtain ⟨p1, p2, p3, p4, p5, p6⟩ := stuck_phases s hc hs
  have r1 := stuck_lbl hs (l := .rdTop) (by simp [internalLbls])
  have r2 := stuck_lbl hs (l := .rdRet) (by simp [internalLbls])
  have r3 := stuck_lbl hs (l := .rdPkt true) (by simp [internalLbls])
  have r4 := stuck_lbl hs (l := .rdErrRet) (by simp [internalLbls])
  have r5 := stuck_lbl hs (l := .rdEnd) (by simp [internalLbls])
  have w1 := stuck_lbl hs (l := .wrTake) (by simp [internalLbls])
  have w2 := stuck_lbl hs (l := .wrExit) (by simp [internalLbls])
  have w3 := stuck_lbl hs (l := .wrRet true) (by simp [internalLbls])
  have w4 := stuck_lbl hs (l := .wrEnd) (by simp [internalLbls])
  have b1 := stuck_lbl hs (l := .hbTick) (by simp [internalLbls])
  have b2 := stuck_lbl hs (l := .hbChk) (by simp [internalLbls])
  have b3 := stuck_lbl hs (l := .hbSnd) (by simp [internalLbls])
  have b4 := stuck_lbl hs (l := .hbExit) (by simp [internalLbls])
  have b5 := stuck_lbl hs (l := .hbUnblk) (by simp [internalLbls])
  have r6 : s.connCloses = 0 ∨ fire true s (.rdTake .rerr) = none := by
    simp only [stuck, Bool.and_eq_true, Bool.or_eq_true] at hs
    rcases hs.2 with h | h
    · left; simpa using h
    · right; simpa using h
  obtain ⟨status, closed, mutex, cc, posted, sendq, writes, now, lastHb, tickAt, rd, rdC, wr, wrC, hb, hbC, kWant, kC, arrived⟩ := s
  obtain ⟨h1, h2, h3, h4, h5⟩ := hc
  obtain ⟨e1, e2, e3⟩ := he
  simp only at p1 p2 p3 p4 p5 p6 h1 h2 h3 h4 h5 e1 e2 e3
  subst p1 p2 p3 p4 p5 p6
  simp only [fire, rdExit] at r1 r2 r3 r4 r5 r6 w1 w2 w3 w4 b1 b2 b3 b4 b5
  simp only [OpenIdle, AllDone]
  refine ⟨?_, by simp, by simp⟩
  -- reader: wait (open conn) or done
  have hrd : (rd = .wait ∧ cc = 0) ∨ rd = .done := by
    cases rd with
    | top => by_cases hst : status = .closed <;> simp [hst] at r1
    | wait => simp at r6; left; exact ⟨rfl, r6⟩
    | hold it => cases it <;> simp at r2
    | proc ps =>
      cases ps with
      | nil => simp at r3
      | cons p rest =>
        cases p with
        | hs j => cases j <;> simp at r3
        | ack => simp at r3
        | data ok mid => by_cases h1 : status = .start ∨ status = .handshake <;> cases ok <;> simp [h1] at r3
        | hb => simp at r3
        | other => simp at r3
    | errc => simp at r4
    | dfr => simp at r5
    | done => right; rfl
  have hwr : (wr = .sel ∧ sendq = 0 ∧ closed = false) ∨ wr = .done := by
    cases wr with
    | sel => simp at w1 w2; left; exact ⟨rfl, w1, by simpa using w2⟩
    | inw => simp at w3
    | dfr => simp at w4
    | done => right; rfl
  have hhb : (hb = .sel ∧ now < tickAt ∧ closed = false) ∨ hb = .done ∨ (sendCap ≤ sendq ∧ closed = false) := by
    cases hb with
    | sel => simp at b1 b4; left; exact ⟨rfl, by omega, by simpa using b4⟩
    | chk => simp at b2; split at b2 <;> simp at b2
    | snd => simp at b3; (repeat' split at b3) <;> simp at b3
    | blk =>
      simp at b5
      right; right
      cases closed with
      | true => simp at b5
      | false => simp at b5; exact ⟨b5, rfl⟩
    | done => right; left; rfl
  cases closed with
  | false =>
    left
    simp at h2
    rcases hrd with ⟨hr, _⟩ | hr
    · rcases hwr with ⟨hw, hq, _⟩ | hw
      · rcases hhb with ⟨hh, ht, _⟩ | hh | ⟨hfull, _⟩
        · exact ⟨rfl, h2, hr, hw, hq, hh, ht⟩
        · simp [hh] at e3
        · simp [sendCap, hq] at hfull
      · simp [hw] at e2; omega
    · simp [hr] at e1; omega
  | true =>
    right
    simp at h2
    rcases hrd with ⟨_, hz⟩ | hr
    · omega
    · rcases hwr with ⟨_, _, hx⟩ | hw
      · cases hx
      · rcases hhb with ⟨_, _, hx⟩ | hh | ⟨_, hx⟩
        · cases hx
        · exact ⟨rfl, h2, by omega, hr, hw, hh⟩
        · cases hx

/-! ### along a whole schedule -/

theorem jh_run (fx : Bool) (ls : List Lbl) :
    ∀ (s s' : St), JInv s → HInv s → runL fx s ls = some s' → JInv s' ∧ HInv s' := by
  induction ls with
  | nil => intro s s' hj hh hr; simp [runL] at hr; subst hr; exact ⟨hj, hh⟩
  | cons l ls ih =>
    intro s s' hj hh hr
    simp only [runL] at hr
    cases hf : fire fx s l with
    | none => simp [hf] at hr
    | some s1 => simp only [hf] at hr; exact ih s1 s' (jinv_step fx s s1 l hj hf) (hinv_step fx s s1 l hh hf) hr

theorem einv_run (ls : List Lbl) :
    ∀ (s s' : St), CInv s → EInv s → runL true s ls = some s' → EInv s' := by
  induction ls with
  | nil => intro s s' _ he hr; simp [runL] at hr; subst hr; exact he
  | cons l ls ih =>
    intro s s' hc he hr
    simp only [runL] at hr
    cases hf : fire true s l with
    | none => simp [hf] at hr
    | some s1 => simp only [hf] at hr; exact ih s1 s' (cinv_step true s s1 l hc hf) (einv_step s s1 l hc he hf) hr

end Cell2v.Session
