import Cell2v.Model.ClientServe
/-!
Helper lemmas for C02 (`Model/ClientServe.lean`): projections of effect lists,
the shape of `tryCallCol`'s outcome, the per-message characterisation of
`processWith fixed`, and the counting invariant of histories.
-/
namespace Cell2v.ClientServe

/-! ## projections -/

theorem responses_append (a b : List Effect) : responses (a ++ b) = responses a ++ responses b := by
  induction a with
  | nil => rfl
  | cons e es ih => cases e <;> simp [responses, ih]

theorem invocations_append (a b : List Effect) : invocations (a ++ b) = invocations a ++ invocations b := by
  induction a with
  | nil => rfl
  | cons e es ih => cases e <;> simp [invocations, ih]

@[simp] theorem responses_invokeEff (s g m : String) (o : Option Nat) : responses (invokeEff s g m o) = [] := by
  cases o <;> rfl

@[simp] theorem invocations_invokeEff (s g m : String) (o : Option Nat) :
    invocations (invokeEff s g m o) = (match o with | none => [] | some v => [(s, g, m, v)]) := by
  cases o <;> rfl

/-! ## the target of a message and whether it can be served -/

/-- the service that has to handle a message of type `t`: the front itself for its own type,
otherwise the live instance of that type the route function names -/
def target (c : Cfg) (s : Sess) (t : String) : Option String :=
  if t = c.frontType then some c.frontName
  else
    let r := c.route t s
    if r = "" then none
    else match c.dir r with
      | some inst => if inst.alive = true ∧ inst.type = t then some r else none
      | none => none

/-- the envelope of a forwarded message has to be serialisable to reach its target at all -/
def reachable (c : Cfg) (s : Sess) (msg : ClientMsg) : Option String :=
  let t := (splitClientRoute msg.route).1
  if t ≠ c.frontType ∧ routeSerialisable msg.route = false then none else target c s t

theorem target_of_reachable (c : Cfg) (s : Sess) (msg : ClientMsg) (svc : String)
    (h : reachable c s msg = some svc) : target c s (splitClientRoute msg.route).1 = some svc := by
  unfold reachable at h
  simp only at h
  split at h
  · simp at h
  · exact h

theorem reachable_none_of_target (c : Cfg) (s : Sess) (msg : ClientMsg)
    (h : target c s (splitClientRoute msg.route).1 = none) : reachable c s msg = none := by
  unfold reachable
  simp only
  split
  · rfl
  · exact h

theorem reachable_none_of_unserialisable (c : Cfg) (s : Sess) (msg : ClientMsg)
    (ht : (splitClientRoute msg.route).1 ≠ c.frontType) (hs : routeSerialisable msg.route = false) :
    reachable c s msg = none := by
  unfold reachable
  simp [ht, hs]

/-- `some (svc, group, method, v, behaviour)` when the request names a request-shaped handler of a
reachable target and its payload decodes -/
def served (c : Cfg) (s : Sess) (msg : ClientMsg) : Option (String × String × String × Nat × Beh) :=
  let p := splitClientRoute msg.route
  match reachable c s msg with
  | none => none
  | some svc =>
    match c.handlers p.1 p.2.1 p.2.2, msg.pay with
    | some ⟨.request, b⟩, .valid v => some (svc, p.2.1, p.2.2, v, b)
    | _, _ => none

/-- where a notification is delivered: any handler shape accepts it -/
def notified (c : Cfg) (s : Sess) (msg : ClientMsg) : Option (String × String × String × Nat) :=
  let p := splitClientRoute msg.route
  match reachable c s msg with
  | none => none
  | some svc =>
    match c.handlers p.1 p.2.1 p.2.2, msg.pay with
    | some _, .valid v => some (svc, p.2.1, p.2.2, v)
    | _, _ => none

/-! ## `tryCallCol` with both repairs -/

theorem tryCallCol_request (c : Cfg) (svc ty g m : String) (id : Nat) (pay : Payload) (hid : id ≠ 0) :
    tryCallCol fixed c svc ty g m id pay =
      match c.handlers ty g m, pay with
      | some ⟨.request, b⟩, .valid v => ⟨some v, some (behResult svc g m v b)⟩
      | _, _ => ⟨none, some (0, .error)⟩ := by
  unfold tryCallCol
  cases hh : c.handlers ty g m with
  | none => simp
  | some h =>
    obtain ⟨sh, b⟩ := h
    cases sh <;> cases pay <;> simp [fixed, hid]

theorem tryCallCol_notify (fx : Fixes) (c : Cfg) (svc ty g m : String) (pay : Payload) :
    (tryCallCol fx c svc ty g m 0 pay).invoked =
      (match c.handlers ty g m, pay with
       | some _, .valid v => some v
       | _, _ => none) := by
  unfold tryCallCol
  cases hh : c.handlers ty g m with
  | none => simp
  | some h => cases pay <;> simp

/-! ## one message -/

@[simp] theorem wireLocal_error : wireLocal .error = .error := rfl
@[simp] theorem wireBack_error : wireBack .error = .error := rfl
@[simp] theorem wireLocal_data (o g m : String) (v : Nat) : wireLocal (.data o g m v) = .data o g m v := rfl
@[simp] theorem wireBack_data (o g m : String) (v : Nat) : wireBack (.data o g m v) = .data o g m v := rfl

theorem behResult_fst_le (svc g m : String) (v : Nat) (b : Beh) : (behResult svc g m v b).1 ≤ lateMs := by
  cases b <;> simp [behResult, lateMs, slowMs, nearMs, overMs]



theorem process_served (c : Cfg) (s : Sess) (msg : ClientMsg) (hid : msg.id ≠ 0)
    (svc g m : String) (v : Nat) (b : Beh) (h : served c s msg = some (svc, g, m, v, b)) :
    process c s msg =
      if (splitClientRoute msg.route).1 ≠ c.frontType ∧ requestTimeout < (behResult svc g m v b).1 then
        [.invoke svc g m v, .respond timeoutMs s.sid msg.id .error]
      else [.invoke svc g m v, .respond (behResult svc g m v b).1 s.sid msg.id
              (if (splitClientRoute msg.route).1 = c.frontType then wireLocal (behResult svc g m v b).2
               else wireBack (behResult svc g m v b).2)] := by
  unfold served reachable target at h
  unfold process processWith forward processForward serveLocal
  simp only at h ⊢
  generalize splitClientRoute msg.route = p at *
  by_cases ht : p.1 = c.frontType
  · simp only [ht, ne_eq, not_true_eq_false, false_and, ↓reduceIte] at h
    simp only [ht, ne_eq, not_true_eq_false, ↓reduceIte, false_and]
    simp only [tryCallCol_request _ _ _ _ _ _ _ hid]
    split at h
    · simp only [Option.some.injEq, Prod.mk.injEq] at h
      obtain ⟨rfl, rfl, rfl, rfl, rfl⟩ := h
      simp [*, invokeEff]
    · simp at h
  · by_cases hser : routeSerialisable msg.route = false
    · simp [ht, hser] at h
    have hser' : routeSerialisable msg.route = true := by simpa using hser
    simp only [ht, hser', ne_eq, not_false_eq_true, true_and, Bool.true_eq_false, ↓reduceIte] at h
    simp only [ne_eq, ht, hser', not_false_eq_true, ↓reduceIte, true_and, Bool.true_eq_false]
    by_cases hr : c.route p.1 s = ""
    · simp [hr] at h
    · simp only [hr, ↓reduceIte] at h ⊢
      cases hd : c.dir (c.route p.1 s) with
      | none => simp [hd] at h
      | some inst =>
        simp only [hd] at h ⊢
        by_cases hal : inst.alive = true ∧ inst.type = p.1
        · simp only [hal, and_self, ↓reduceIte] at h
          split at h
          · simp only [Option.some.injEq, Prod.mk.injEq] at h
            obtain ⟨rfl, rfl, rfl, rfl, rfl⟩ := h
            simp only [hal.1, hal.2, tryCallCol_request _ _ _ _ _ _ _ hid, *]
            simp [invokeEff, relay]
            split <;> rfl
          · simp at h
        · simp [hal] at h

theorem process_unserved (c : Cfg) (s : Sess) (msg : ClientMsg) (hid : msg.id ≠ 0)
    (h : served c s msg = none) :
    ∃ d, (d = 0 ∨ d = timeoutMs) ∧ process c s msg = [.respond d s.sid msg.id .error] := by
  unfold served reachable target at h
  unfold process processWith forward processForward serveLocal
  simp only at h ⊢
  generalize splitClientRoute msg.route = p at *
  by_cases ht : p.1 = c.frontType
  · simp only [ht, ne_eq, not_true_eq_false, false_and, ↓reduceIte] at h
    simp only [ht, ne_eq, not_true_eq_false, ↓reduceIte]
    simp only [tryCallCol_request _ _ _ _ _ _ _ hid]
    cases hh : c.handlers c.frontType p.2.1 p.2.2 with
    | none => exact ⟨0, .inl rfl, by simp [invokeEff, hid]⟩
    | some hd =>
      obtain ⟨sh, b⟩ := hd
      cases hp : msg.pay <;> cases sh <;> simp [hh, hp] at h <;> exact ⟨0, .inl rfl, by simp [invokeEff, hid]⟩
  · by_cases hser : routeSerialisable msg.route = false
    · simp only [ne_eq, ht, not_false_eq_true, ↓reduceIte, hser]
      by_cases hr : c.route p.1 s = ""
      · exact ⟨0, .inl rfl, by simp [hr, fixed, hid]⟩
      · cases hd : c.dir (c.route p.1 s) with
        | none => exact ⟨0, .inl rfl, by simp [hr, fixed, hid]⟩
        | some inst => exact ⟨0, .inl rfl, by simp [hr, hid]⟩
    have hser' : routeSerialisable msg.route = true := by simpa using hser
    simp only [ht, hser', ne_eq, not_false_eq_true, true_and, Bool.true_eq_false, ↓reduceIte] at h
    simp only [ne_eq, ht, hser', not_false_eq_true, ↓reduceIte, Bool.true_eq_false]
    by_cases hr : c.route p.1 s = ""
    · exact ⟨0, .inl rfl, by simp [hr, fixed, hid]⟩
    · simp only [hr, ↓reduceIte] at h ⊢
      cases hd : c.dir (c.route p.1 s) with
      | none => exact ⟨0, .inl rfl, by simp [fixed, hid]⟩
      | some inst =>
        simp only [hd] at h ⊢
        by_cases hal : inst.alive = true
        · by_cases hty : inst.type = p.1
          · simp only [hal, hty, and_self, ↓reduceIte] at h
            simp only [hal, hty, tryCallCol_request _ _ _ _ _ _ _ hid]
            cases hh : c.handlers p.1 p.2.1 p.2.2 with
            | none => exact ⟨0, .inl rfl, by simp [invokeEff, relay, hid, requestTimeout]⟩
            | some hd =>
              obtain ⟨sh, b⟩ := hd
              cases hp : msg.pay <;> cases sh <;> simp [hh, hp] at h <;>
                exact ⟨0, .inl rfl, by simp [invokeEff, relay, hid, requestTimeout]⟩
          · have hty' : ¬ p.1 = inst.type := fun e => hty e.symm
            exact ⟨timeoutMs, .inr rfl, by simp [hal, hty', relay, hid]⟩
        · have hal' : inst.alive = false := by cases hx : inst.alive <;> simp_all
          exact ⟨timeoutMs, .inr rfl, by simp [hal', relay, hid]⟩

theorem process_notify (fx : Fixes) (c : Cfg) (s : Sess) (msg : ClientMsg) (hid : msg.id = 0) :
    processWith fx c s msg =
      match notified c s msg with
      | some (svc, g, m, v) => [.invoke svc g m v]
      | none => [] := by
  unfold notified reachable target
  unfold processWith forward processForward serveLocal
  simp only
  generalize splitClientRoute msg.route = p at *
  have hinv := tryCallCol_notify fx c
  by_cases ht : p.1 = c.frontType
  · simp only [ht, ne_eq, not_true_eq_false, false_and, ↓reduceIte, hid]
    rw [hinv]
    cases hh : c.handlers c.frontType p.2.1 p.2.2 with
    | none => cases hp : msg.pay <;> simp [invokeEff] <;> split <;> simp
    | some hd => cases hp : msg.pay <;> simp [invokeEff] <;> split <;> simp
  · by_cases hser : routeSerialisable msg.route = false
    · simp only [ne_eq, ht, not_false_eq_true, ↓reduceIte, hid, hser, and_self]
      by_cases hr : c.route p.1 s = ""
      · simp [hr]
      · cases hd : c.dir (c.route p.1 s) <;> simp [hr]
    have hser' : routeSerialisable msg.route = true := by simpa using hser
    simp only [ne_eq, ht, hser', not_false_eq_true, ↓reduceIte, hid, true_and, Bool.true_eq_false]
    by_cases hr : c.route p.1 s = ""
    · simp [hr]
    · simp only [hr, ↓reduceIte]
      cases hd : c.dir (c.route p.1 s) with
      | none => simp
      | some inst =>
        simp only
        by_cases hal : inst.alive = true
        · by_cases hty : inst.type = p.1
          · simp only [hal, hty, and_self, ↓reduceIte, not_true_eq_false]
            rw [hinv]
            cases hh : c.handlers p.1 p.2.1 p.2.2 with
            | none => cases hp : msg.pay <;> simp [invokeEff]
            | some hd => cases hp : msg.pay <;> simp [invokeEff]
          · have hty' : ¬ p.1 = inst.type := fun e => hty e.symm
            simp [hal, hty, hty']
        · have hal' : inst.alive = false := by cases hx : inst.alive <;> simp_all
          simp [hal']

/-! ## responses of one message -/

theorem responses_process_request (c : Cfg) (s : Sess) (msg : ClientMsg) (hid : msg.id ≠ 0) :
    ∃ d res, d ≤ lateMs ∧ responses (process c s msg) = [(d, s.sid, msg.id, res)] := by
  cases h : served c s msg with
  | none =>
    obtain ⟨d, hd, he⟩ := process_unserved c s msg hid h
    refine ⟨d, .error, ?_, by simp [he, responses]⟩
    rcases hd with rfl | rfl <;> simp [lateMs, timeoutMs]
  | some x =>
    obtain ⟨svc, g, m, v, b⟩ := x
    rw [process_served c s msg hid svc g m v b h]
    split
    · exact ⟨timeoutMs, .error, by simp [lateMs, timeoutMs], by simp [responses]⟩
    · exact ⟨(behResult svc g m v b).1,
        (if (splitClientRoute msg.route).1 = c.frontType then wireLocal (behResult svc g m v b).2
         else wireBack (behResult svc g m v b).2), behResult_fst_le svc g m v b, by simp [responses]⟩

theorem responses_process_notify (fx : Fixes) (c : Cfg) (s : Sess) (msg : ClientMsg) (hid : msg.id = 0) :
    responses (processWith fx c s msg) = [] := by
  rw [process_notify fx c s msg hid]
  split <;> simp [responses]

/-! ## the envelope -/

theorem envelope_of_lt (msg : ClientMsg) (h : msg.id < idWrap) : envelope msg = msg := by
  cases msg; simp only [envelope] at *; congr; exact Nat.mod_eq_of_lt h

theorem serve_eq_process (c : Cfg) (s : Sess) (msg : ClientMsg) (h : msg.id < idWrap) :
    serve c s msg = process c s msg := by
  unfold serve serveWith process; rw [envelope_of_lt msg h]

theorem serveWith_eq_processWith (fx : Fixes) (c : Cfg) (s : Sess) (msg : ClientMsg) (h : msg.id < idWrap) :
    serveWith fx c s msg = processWith fx c s msg := by
  unfold serveWith; rw [envelope_of_lt msg h]

@[simp] theorem envelope_id (msg : ClientMsg) : (envelope msg).id = msg.id % idWrap := rfl
@[simp] theorem envelope_route (msg : ClientMsg) : (envelope msg).route = msg.route := rfl
@[simp] theorem envelope_pay (msg : ClientMsg) : (envelope msg).pay = msg.pay := rfl

theorem served_envelope (c : Cfg) (s : Sess) (msg : ClientMsg) : served c s (envelope msg) = served c s msg := rfl
theorem notified_envelope (c : Cfg) (s : Sess) (msg : ClientMsg) : notified c s (envelope msg) = notified c s msg := rfl

theorem responses_serve_request (c : Cfg) (s : Sess) (msg : ClientMsg) (hid : msg.id % idWrap ≠ 0) :
    ∃ d res, d ≤ lateMs ∧ responses (serve c s msg) = [(d, s.sid, msg.id % idWrap, res)] :=
  responses_process_request c s (envelope msg) hid

theorem responses_serve_notify (fx : Fixes) (c : Cfg) (s : Sess) (msg : ClientMsg) (hid : msg.id % idWrap = 0) :
    responses (serveWith fx c s msg) = [] :=
  responses_process_notify fx c s (envelope msg) hid

/-! ## histories -/

theorem wireCount_append (cn i : Nat) (a b : List (Nat × Nat × Result)) :
    wireCount cn i (a ++ b) = wireCount cn i a + wireCount cn i b := by
  simp [wireCount]

theorem wireCount_cons (cn i : Nat) (x : Nat × Nat × Result) (l : List (Nat × Nat × Result)) :
    wireCount cn i (x :: l) = (if x.1 = cn ∧ x.2.1 = i then 1 else 0) + wireCount cn i l := by
  by_cases h : x.1 = cn ∧ x.2.1 = i
  · simp [wireCount, h]; omega
  · simp [wireCount, h]

theorem wireCount_split (cn i now : Nat) (l : List Pending) :
    wireCount cn i ((l.filter (fun p => decide (p.due ≤ now))).map Pending.wire) +
      wireCount cn i ((l.filter (fun p => decide (now < p.due))).map Pending.wire) =
      wireCount cn i (l.map Pending.wire) := by
  induction l with
  | nil => rfl
  | cons p ps ih =>
    by_cases h : now < p.due
    · have h' : ¬ p.due ≤ now := by omega
      simp only [List.filter_cons, h, h', decide_true, decide_false, ↓reduceIte, List.map_cons, wireCount_cons,
        Bool.false_eq_true]
      omega
    · have h' : p.due ≤ now := by omega
      simp only [List.filter_cons, h, h', decide_true, decide_false, ↓reduceIte, List.map_cons, wireCount_cons,
        Bool.false_eq_true]
      omega

/-- responses with this (connection, id) written or still in flight -/
def total (st : St) (cn i : Nat) : Nat :=
  wireCount cn i st.out + wireCount cn i (st.pend.map Pending.wire)

theorem total_step_adv (fx : Fixes) (c : Cfg) (st : St) (d cn i : Nat) :
    total (step fx c st (.adv d)) cn i = total st cn i := by
  simp only [total, step, wireCount_append]
  have := wireCount_split cn i (st.now + d) st.pend
  omega

theorem total_step_req (c : Cfg) (st : St) (s : Sess) (msg : ClientMsg) (cn i : Nat) :
    total (step fixed c st (.req s msg)) cn i =
      total st cn i + (if s.sid = cn ∧ msg.id % idWrap = i ∧ msg.id % idWrap ≠ 0 then 1 else 0) := by
  simp only [total, step, wireCount_append, List.map_append]
  have hs := wireCount_split cn i st.now ((responses (serveWith fixed c s msg)).map (toPending st.now))
  have hc : wireCount cn i (((responses (serveWith fixed c s msg)).map (toPending st.now)).map Pending.wire) =
      (if s.sid = cn ∧ msg.id % idWrap = i ∧ msg.id % idWrap ≠ 0 then 1 else 0) := by
    by_cases hid : msg.id % idWrap = 0
    · simp [responses_serve_notify fixed c s msg hid, hid, wireCount]
    · obtain ⟨d, res, _, hr⟩ := responses_serve_request c s msg hid
      have hr' : responses (serveWith fixed c s msg) = [(d, s.sid, msg.id % idWrap, res)] := hr
      simp only [hr', List.map_cons, List.map_nil, wireCount_cons, toPending, Pending.wire]
      by_cases h1 : s.sid = cn ∧ msg.id % idWrap = i
      · have h2 : s.sid = cn ∧ msg.id % idWrap = i ∧ msg.id % idWrap ≠ 0 := ⟨h1.1, h1.2, hid⟩
        rw [if_pos h1, if_pos h2]; rfl
      · have h2 : ¬ (s.sid = cn ∧ msg.id % idWrap = i ∧ msg.id % idWrap ≠ 0) := fun hh => h1 ⟨hh.1, hh.2.1⟩
        rw [if_neg h1, if_neg h2]; rfl
  omega

theorem total_run (c : Cfg) (cn i : Nat) (hi : i ≠ 0) (ops : List Op) :
    ∀ st, total (run fixed c st ops) cn i = total st cn i + reqCount cn i ops := by
  induction ops with
  | nil => intro st; simp [run, reqCount]
  | cons op ops ih =>
    intro st
    simp only [run, ih]
    cases op with
    | adv d => simp [total_step_adv, reqCount]
    | req s msg =>
      rw [total_step_req]
      simp only [reqCount]
      by_cases h : s.sid = cn ∧ msg.id % idWrap = i
      · have h0 : msg.id % idWrap ≠ 0 := by omega
        have h2 : s.sid = cn ∧ msg.id % idWrap = i ∧ msg.id % idWrap ≠ 0 := ⟨h.1, h.2, h0⟩
        rw [if_pos h2, if_pos h]; omega
      · have h2 : ¬ (s.sid = cn ∧ msg.id % idWrap = i ∧ msg.id % idWrap ≠ 0) := fun hh => h ⟨hh.1, hh.2.1⟩
        rw [if_neg h2, if_neg h]; omega

theorem total_run_zero (c : Cfg) (cn : Nat) (ops : List Op) :
    ∀ st, total (run fixed c st ops) cn 0 = total st cn 0 := by
  induction ops with
  | nil => intro st; rfl
  | cons op ops ih =>
    intro st
    simp only [run, ih]
    cases op with
    | adv d => simp [total_step_adv]
    | req s msg =>
      rw [total_step_req]
      have h2 : ¬ (s.sid = cn ∧ msg.id % idWrap = 0 ∧ msg.id % idWrap ≠ 0) := fun hh => hh.2.2 hh.2.1
      rw [if_neg h2]; rfl

/-- nothing in flight is due later than `lateMs` from now -/
def DueBound (st : St) : Prop := ∀ p ∈ st.pend, p.due ≤ st.now + lateMs

theorem dueBound_step (c : Cfg) (st : St) (op : Op) (h : DueBound st) : DueBound (step fixed c st op) := by
  cases op with
  | adv d =>
    intro p hp
    simp only [step, List.mem_filter] at hp
    have := h p hp.1
    simp only [step]; omega
  | req s msg =>
    intro p hp
    simp only [step, List.mem_append, List.mem_filter, List.mem_map] at hp
    rcases hp with hp | ⟨⟨x, hx, rfl⟩, _⟩
    · exact h p hp
    · by_cases hid : msg.id % idWrap = 0
      · simp [responses_serve_notify fixed c s msg hid] at hx
      · obtain ⟨d, res, hd, hr⟩ := responses_serve_request c s msg hid
        have hr' : responses (serveWith fixed c s msg) = [(d, s.sid, msg.id % idWrap, res)] := hr
        simp only [hr', List.mem_singleton] at hx
        subst hx
        simp only [toPending, step]; omega

theorem dueBound_run (c : Cfg) (ops : List Op) : ∀ st, DueBound st → DueBound (run fixed c st ops) := by
  induction ops with
  | nil => intro st h; exact h
  | cons op ops ih => intro st h; exact ih _ (dueBound_step c st op h)

theorem run_append (fx : Fixes) (c : Cfg) (a b : List Op) : ∀ st, run fx c st (a ++ b) = run fx c (run fx c st a) b := by
  induction a with
  | nil => intro st; rfl
  | cons op ops ih => intro st; simp [run, ih]

theorem reqCount_append (cn i : Nat) (a b : List Op) : reqCount cn i (a ++ b) = reqCount cn i a + reqCount cn i b := by
  induction a with
  | nil => simp [reqCount]
  | cons op ops ih => cases op <;> simp [reqCount, ih] <;> omega

end Cell2v.ClientServe
