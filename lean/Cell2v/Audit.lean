import Lean
/-!
`#audit_ns Some.Namespace` prints, for every theorem declared directly in that
namespace, one line `AXIOMS <name> : [axioms...]`.  `bin/check` counts the
obligations from this transcript (never from a constant) and rejects any axiom
outside {propext, Classical.choice, Quot.sound} as well as `sorryAx`.
-/
open Lean Elab Command

elab "#audit_ns " ns:ident : command => do
  let env ← getEnv
  let nsName := ns.getId
  let mut names : Array Name := #[]
  for (n, ci) in env.constants.toList do
    if n.getPrefix == nsName && !n.isInternal then
      match ci with
      | .thmInfo _ => names := names.push n
      | _ => pure ()
  let sorted := names.qsort (fun a b => a.toString < b.toString)
  for n in sorted do
    let axs ← liftCoreM (collectAxioms n)
    let axl := axs.qsort (fun a b => a.toString < b.toString)
    logInfo m!"AXIOMS {n} : {axl.toList}"
  logInfo m!"AUDITED {nsName} theorems={sorted.size}"
