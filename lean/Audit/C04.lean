import Cell2v.Audit
import Cell2v.Props.C04
#audit_ns Cell2v.Props.C04
