import Cell2v.Audit
import Cell2v.Props.C05
#audit_ns Cell2v.Props.C05
