import Cell2v.Audit
import Cell2v.Props.C02
#audit_ns Cell2v.Props.C02
