import Cell2v.Audit
import Cell2v.Props.C12
#audit_ns Cell2v.Props.C12
