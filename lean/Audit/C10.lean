import Cell2v.Audit
import Cell2v.Props.C10
#audit_ns Cell2v.Props.C10
