import Cell2v.Audit
import Cell2v.Props.C09
import Cell2v.Props.C09Ring
import Cell2v.Props.C09Mpsc
import Cell2v.Props.C09Sched
import Cell2v.Props.C09X
import Cell2v.Props.C09T
#audit_ns Cell2v.Props.C09
