import Cell2v.Audit
import Cell2v.Props.C09
import Cell2v.Props.C09Ring
#audit_ns Cell2v.Props.C09
