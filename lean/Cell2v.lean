-- Root of the `Cell2v` library.  Property modules are built by name
-- (`lake build Cell2v.Props.Cxx modeld_cxx`); see bin/setup and bin/check.
import Cell2v.Audit
