-- This module serves as the root of the `Cell2v` library.
-- Import modules here that should be built as part of the library.
import Cell2v.Basic
