CONFIG = dict(
    id="C08",
    engine="pure (white-box shim mapped into package etcd with `go test -overlay`; nothing under /repo is modified)",
    technique="Lean 4 theorems (refinement of the batched watch fold to the one-event-at-a-time semantics for every batching; "
              "machine invariant for self presence; MakeMembers against a declarative specification; interleaving model of field "
              "stores vs. a getter's single load) over a hand-written model + differential correspondence with the real provider "
              "fold and the real directory (incl. the real StartMember on an in-memory etcd) + getter facts and the start-up order (initial publication before the watch goroutine) regenerated from the source by a go/ast extractor and re-checked by the kernel",
    level_text="Machine-checked proof in Lean 4 that the model of handleWatchResponse/updateNodesWithChanges folds every history, under every "
               "batching into watch responses, to the member set the events imply one at a time (self never touched, duplicates idempotent, "
               "unknown deletes no-ops, dead registrations removed); that after the initial listing every publication contains the node itself "
               "with its current state; that MakeMembers' per-type lists, working lists and name resolution equal a declarative function of the "
               "member set (independent of Go map order); and that a getter's single field load interleaved arbitrarily with the updater's field "
               "stores returns the answer of one completely built view. The model is tied to the Go code on every run by executing both on "
               "generated histories (every history of <=2 events quick / <=4 events thorough over a 10-event alphabet under every batching, "
               "random histories over 3-4 nodes incl. self, malformed streams) and the property predicate is evaluated on the member lists "
               "the real provider publishes and on the answers of the real directory.",
    level_note="Trusted: Lean kernel; the harness/driver line protocol and canonicalisation (published lists and query answers sorted; a name listed "
               "more than once rendered as dup<k>); the Go memory model for the unsynchronised pointer-sized field stores (modelled as atomic steps); "
               "etcd's own delivery guarantees; encoding/json (validated by the differential run). The theorems are about the model; the differential "
               "run ties it to the code on sampled inputs only.",
    gen=["cd /verif/harness && go1.26 run ./c08/extract -repo /repo -out /verif/lean/Cell2v/Gen/C08Facts.lean"],
    lean_targets=["Cell2v.Props.C08", "modeld_c08"],
    driver="modeld_c08",
    driver_root="Cell2v.Driver.C08",
    audit="Audit/C08.lean",
    required_theorems=["fold_eq_implied", "batching_independent", "self_always_present", "duplicate_event_idempotent",
                       "delete_unknown_noop", "reregistration_replaces", "typeList_eq_spec", "workList_eq_spec",
                       "getService_resolves", "directory_is_function_of_member_set", "directory_is_function_of_history",
                       "read_sees_whole_view", "getter_facts_match_source",
                       "initial_publish_before_watch", "sequential_publications_end_in_last"],
    harness_pkg="./c08",
    go_flags=["-overlay=/verif/harness/c08/overlay/overlay.json"],
    mode="diff",
    reset_prefix="reset",
    runs={
        "quick": [dict(name="main", env={"VERIF_N": "700", "VERIF_EXH": "3"}, timeout=240)],
        "thorough": [dict(name="main", env={"VERIF_N": "8000", "VERIF_EXH": "3", "VERIF_STRESS": "200000"}, timeout=900),
                     dict(name="seed2", env={"VERIF_N": "8000", "VERIF_EXH": "1"}, seed_offset=1000, timeout=900),
                     dict(name="exh4", test="TestExhaustive", env={"VERIF_EXH": "4"}, timeout=1500)],
    },
    trivial=r"^(ok|err|bad-op|noinit|dupids|none|self=.*)?$",
    rule="op lines generated from one PRNG (VERIF_SEED). Cases start with `reset` (own node) and usually `list` (initial listing: subsets of 3-4 "
         "node ids incl. a stale copy of self, duplicates, dead nodes). Histories of 1-6 events (PUT with changed state/services/address, "
         "alive=false, about self; DELETE of known/unknown/self; invalid JSON of six kinds; unknown event type; rarely key/id mismatches and odd "
         "keys) are delivered through the real _keepWatching under several batchings of the same history (one case each), followed by longer "
         "lives with own state changes, empty responses and failed responses; every history of <= VERIF_EXH events over a 10-event alphabet is "
         "run under every batching against two listings (exhaustive). After publications the real app.Cluster, fed by the provider, is queried "
         "(GetMembers, GetServiceList, GetWorkServiceList, GetService, GetWorkServiceNames for all types and a name universe); `mk` ops build "
         "the directory from explicit member lists incl. duplicate ids, duplicate and malformed service names. `start` ops run the real StartMember on in-memory KV/Lease/Watcher stand-ins inside a synctest bubble "
         "(listing, then a response right after the watch opened, the first directory store held until a second publication or 500 ms of "
         "virtual time) and observe what the directory holds in the end; a `stress` op is a reader/updater smoke run. A case is non-trivial when the "
         "observation carries a publication or a directory dump; distinct = distinct (op, observation) pairs",
    trusted_base=[
        "Lean 4.33.0 kernel; axioms of every property theorem audited on each run (allowed: propext, Classical.choice, Quot.sound)",
        "hand-written model lean/Cell2v/Model/Directory.lean tied to the Go code by the differential run of this check (harness/c08 + modeld_c08)",
        "go/ast extractor harness/c08/extract (syntax only) regenerating lean/Cell2v/Gen/C08Facts.lean; theorem getter_facts_match_source is re-checked against it on every run",
        "white-box shim harness/c08/overlay/export_verif.go (one-line accessors: provider without etcd client, init, updateNodesWithSelf+publish, _keepWatching on an injected channel)",
        "harness canonicalisation: published member lists and directory answers sorted; a service name listed more than once resolves to an arbitrary item in the code (Go map order) and is rendered dup<k>;in|out; a directory built from a published list with duplicate member ids (reachable only with key/id mismatches) is not queried",
        "in-memory stand-ins for clientv3 KV/Lease/Watcher (harness/c08) used by the `start` op; testing/synctest (go1.26) virtualises the 500 ms hold",
        "encoding/json: the harness writes the JSON a peer would write (json.Marshal of the same fields) and six kinds of invalid values",
    ],
    assumptions=[
        "pointer-sized field stores/loads of ClusterServices are atomic and a reader that loaded a map reference sees the completely built map (Go memory model; the code has no synchronisation there) — modelled as atomic steps, not verified",
        "etcd delivers each event of the watched prefix once, in revision order (the property is about the fold of what is delivered)",
        "registrations are written under their own node id (key = .../<Node.ID>), as registerService does; self presence is proved and monitored for such histories; histories with key/id mismatches are covered by the model correspondence only",
        "ports fit int32 (Member.Port is int32(port))",
        "service names are unique across members for GetService to be a function (the code logs 'duplicate service name' and keeps an arbitrary item otherwise)",
        "items of the *working* lists carry a nil PID in the code (only the per-type list is passed through makePID); the model and the specification record this, it is reported to the lead as a suspected defect of helpers such as GetFirstWorkService, not flagged by this check",
    ],
)
