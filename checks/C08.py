CONFIG = dict(
    id="C08",
    engine="pure (the etcd provider is driven through its exported API only - NewWithConfig, StartMember, StartClient, UpdateClusterState, Shutdown and the cluster.ICluster callback it publishes to - on in-memory clientv3 KV/Lease/Watcher stand-ins plugged in by field TYPE; no overlay shim, no unexported identifier of package etcd is named; nothing under /repo is modified)",
    technique="Lean 4 theorems (refinement of the batched watch fold to the one-event-at-a-time semantics for every batching; "
              "machine invariant for self presence; MakeMembers against a declarative specification; interleaving model of field "
              "stores vs. a getter's single load; invariant 'member map + pending events = store' of the provider in front of a model of the etcd store, "
              "and the frozen key of a run that lost an event) over a hand-written model + differential correspondence with the real provider "
              "fold and the real directory (incl. the real StartMember / StartClient, watch loop and restart on an in-memory revisioned etcd store; the cluster-disabled start) + getter facts, the getters each helper query of package app calls, and the start-up order (initial publication before the watch goroutine) regenerated from the source by a go/ast extractor and re-checked by the kernel; the single-load premise is also tied behaviourally: real reader goroutines race the real UpdateClusterTopology on views of very different size",
    level_text="Machine-checked proof in Lean 4 that the model of handleWatchResponse/updateNodesWithChanges folds every history, under every "
               "batching into watch responses, to the member set the events imply one at a time (self never touched, duplicates idempotent, "
               "unknown deletes no-ops, dead registrations removed; Member.Port = int32(port) modelled as the signed low 32 bits); that after the initial listing every publication contains the node itself "
               "with its current state; that MakeMembers' per-type lists, working lists and name resolution equal a declarative function of the "
               "member set (independent of Go map order); and that a getter's single field load interleaved arbitrarily with the updater's field "
               "stores returns the answer of one completely built view (and so does every helper query of package app: each calls one getter once; a getter that loaded its ONE field twice would still be whole only if no store falls between the loads and otherwise returns an answer sized by one view and filled from the other, or panics — theorems double_load_*; the real getters are raced against size-changing publications on every run). "
               "With the provider placed in front of a model of the etcd store (writes by any node, lease expiries, the initial Get, the watch created 'from now', "
               "deliveries in any batching, failed and re-opened watches, own state changes, the keep-alive loop's revoke and re-registration after a state change): as long as no event is lost the member map with the pending events "
               "applied IS the store (and a member holds and publishes its own entry — which it does through lost events as well; an own state change reaches the node's own directory and the store through the keep-alive loop's revoke and re-registration; a StartMember whose registerService fails returns the error with its watcher alive — the run without registration is among the runs the theorems quantify over, the directory keeps following the store, witness failed_registration_leaves_live_watcher, tied by the `sys mode=regfail` scripts); an event lost between the listing and the creation of the watch, or with a "
               "failed watch, is never repaired until the key is written again (the code passes no start revision and never re-lists: reported as a suspected defect, not flagged). "
               "The model is tied to the Go code on every run by executing both on "
               "generated histories (every history of <=2 events quick / <=4 events thorough over a 10-event alphabet under every batching, "
               "random histories over 3-4 nodes incl. self, malformed streams; scripts of store writes / gap writes / deliveries / watch failures against the real StartMember and StartClient) and the property predicate is evaluated on the member lists "
               "the real provider publishes and on the answers of the real directory.",
    level_note="Tie to the code: black-box with respect to package etcd (exported API + stand-ins located by field type; robust against renaming/moving/splitting of unexported identifiers), syntactic facts by a go/ast extractor that keys on exported names, types and data flow only (directory fields are named by the position of the builder result stored into them, the Cluster's directory field by its type *ClusterServices). Trusted: Lean kernel; the harness/driver line protocol and canonicalisation (published lists and query answers sorted; a name listed "
               "more than once rendered as dup<k>); the Go memory model for the unsynchronised pointer-sized field stores (modelled as atomic steps); "
               "etcd's documented semantics as implemented by the in-memory store of the harness (PUT always an event, DELETE only of an existing key, a watch without start revision begins at the current revision, WithRev replays the log); encoding/json (validated by the differential run). The theorems are about the model; the differential "
               "run ties it to the code on sampled inputs only.",
    gen=["cd /verif/harness && go1.26 run ./c08/extract -repo /repo -out /verif/lean/Cell2v/Gen/C08Facts.lean"],
    lean_targets=["Cell2v.Props.C08", "modeld_c08"],
    driver="modeld_c08",
    driver_root="Cell2v.Driver.C08",
    audit="Audit/C08.lean",
    required_theorems=["fold_eq_implied", "batching_independent", "self_always_present", "duplicate_event_idempotent",
                       "delete_unknown_noop", "reregistration_replaces", "typeList_eq_spec", "workList_eq_spec",
                       "getService_resolves", "directory_is_function_of_member_set", "directory_is_function_of_history",
                       "read_sees_whole_view", "getter_facts_match_source",
                       "initial_publish_before_watch", "sequential_publications_end_in_last",
                       "directory_eq_store_when_no_event_lost", "directory_lists_current_membership", "lost_event_is_never_repaired", "own_state_change_is_published", "self_present_through_lost_events", "port_in_range_unchanged", "foreign_registration_under_own_key_evicts_self", "dead_listed_registration_stays",
                       "registration_between_listing_and_watch_is_lost", "failed_watch_loses_pending_delete",
                       "directory_is_function_of_history_wf", "listing_eq_implied_registrations",
                       "implied_depends_only_on_own_key_events", "key_last_event_decides",
                       "getService_resolves_to_a_lister", "self_cluster_lists_own_services",
                       "helper_queries_single_getter", "helper_query_sees_whole_view", "working_items_have_no_pid",
                       "double_load_without_store_between_is_whole", "double_load_equal_field_is_whole", "double_load_of_one_field_can_mix", "failed_registration_leaves_live_watcher"],
    harness_pkg="./c08",
    mode="diff",
    reset_prefix="reset",
    runs={
        "quick": [dict(name="main", env={"VERIF_N": "700", "VERIF_EXH": "3"}, timeout=240)],
        "thorough": [dict(name="main", env={"VERIF_N": "8000", "VERIF_EXH": "3", "VERIF_SYSEXH": "4", "VERIF_STRESS": "200000", "VERIF_STRESSBIG": "100000", "VERIF_STRESSSWAPS": "40"}, timeout=900),
                     dict(name="seed2", env={"VERIF_N": "8000", "VERIF_EXH": "1"}, seed_offset=1000, timeout=900),
                     dict(name="exh4", test="TestExhaustive", env={"VERIF_EXH": "4"}, timeout=1500)],
    },
    trivial=r"^(ok|err|bad-op|noinit|dupids|none|self=.*)?$",
    rule="op lines generated from one PRNG (VERIF_SEED). Cases start with `reset` (own node) and usually `list` (initial listing: subsets of 3-4 "
         "node ids incl. a stale copy of self, duplicates, dead nodes). Histories of 1-6 events (PUT with changed state/services/address, "
         "alive=false, about self; DELETE of known/unknown/self; invalid JSON of six kinds; unknown event type; rarely key/id mismatches and odd "
         "keys) are delivered to the real provider's own watch loop (started by the exported StartMember; the in-memory Watcher hands the responses over as one completely queued stream) under several batchings of the same history (one case each), followed by longer "
         "lives with own state changes, empty responses and failed responses; every history of <= VERIF_EXH events over a 10-event alphabet is "
         "run under every batching against two listings (exhaustive). After publications the real app.Cluster, fed by the provider, is queried "
         "(GetMembers, GetServiceList, GetWorkServiceList, GetService, GetWorkServiceNames for all types and a name universe); `mk` ops build "
         "the directory from explicit member lists incl. duplicate ids, duplicate and malformed service names. `start` ops run the real StartMember on in-memory KV/Lease/Watcher stand-ins inside a synctest bubble "
         "(listing, then a response right after the watch opened, the first directory store held until a second publication or 500 ms of "
         "virtual time) and observe what the directory holds in the end; `sys` ops run the real StartMember or StartClient (mode=regfail: StartMember against a store that refuses the provider's Put, so that registerService fails after startWatching(): the error must be returned and the watcher lives on, unregistered, without keep-alive loop) against an in-memory revisioned etcd store "
         "(initial content incl. stale own registration and dead entries; writes that fall between the Get and the creation of the watch; then PUTs/DELETEs by any node incl. the node's own key, "
         "deliveries of everything pending as one response, watch failures answered by the real restart loop, own state changes, keep-alive answers that make the real keep-alive loop revoke the lease and register again) and observe the number of Watch calls, of publications and the last "
         "published list; every `sys` script of <= 3 (quick) / 4 (thorough) steps over a 9-step alphabet is run against two stores (exhaustive); `selfcluster` ops run InitSelf + BuildSelfClusterTopology + UpdateClusterTopology (cluster disabled) and dump the directory; a `stress n=` op is a reader/updater smoke run on two tiny views; a `stress big= swaps=` op is the same run with a view of 20000 (thorough: 100000) working services alternating with a one-service view through the real UpdateClusterTopology, the small view published while a reader is known to be inside a query (progress counters, a different delay on every swap) so that a getter that reads the directory more than once per query has a window of a whole walk: every answer of GetServiceList / GetWorkServiceList / GetWorkServiceNames / GetService / GetMembers, reduced to an order-independent fingerprint, must be the answer of one of the two views, a panic inside a getter is reported. A case is non-trivial when the "
         "observation carries a publication or a directory dump; distinct = distinct (op, observation) pairs",
    trusted_base=[
        "Lean 4.33.0 kernel; axioms of every property theorem audited on each run (allowed: propext, Classical.choice, Quot.sound)",
        "hand-written model lean/Cell2v/Model/Directory.lean tied to the Go code by the differential run of this check (harness/c08 + modeld_c08)",
        "go/ast extractor harness/c08/extract (syntax only) regenerating lean/Cell2v/Gen/C08Facts.lean; theorem getter_facts_match_source is re-checked against it on every run",
        "no white-box shim: harness/c08/provider_test.go builds the provider with the exported etcd.NewWithConfig (real client closed at once; further providers are copies of that never-started value with fresh maps/channels, by kind; fallback: NewWithConfig each time) and replaces its client by locating the ONE field of type *clientv3.Client with reflect+unsafe, presets the ONE field of type clientv3.LeaseID; unexported names, files and the split of package etcd into methods are free to change. What must stay: the exported API, one *clientv3.Client field and one clientv3.LeaseID field in Provider, the client being used through its KV/Lease/Watcher interfaces",
        "the fold stream is re-expressed through the exported path, same op lines and observations as before: `reset` = StartMember of a throw-away provider on an empty store (init error, or the node itself published); `list` = StartMember with the listing returned by the in-memory KV's Get (so fetchNodes runs too); `watch` = the responses handed to the provider's own watch goroutine as one completely queued stream by the in-memory Watcher, `ret=err` = the loop opened a new watch while the stream was still open, `ret=ok` = it consumed all of it (the stream is closed afterwards); a `watch` without `list` = StartClient on an empty store whose publication of the empty listing is not recorded; a `state` op before the start is what ICluster.GetState() answers at the start. The provider of a case lives in one long-lived synctest bubble (deliver, synctest.Wait, observe)",
        "a panic of the code under test on the provider's own goroutines (watch loop, keep-alive loop) ends the harness process (reported by bin/check as harness exit after the last op) instead of being mapped to the observation `panic`",
        "harness canonicalisation: published member lists and directory answers sorted; a service name listed more than once resolves to an arbitrary item in the code (Go map order) and is rendered dup<k>;in|out; a directory built from a published list with duplicate member ids (reachable only with key/id mismatches) is not queried",
        "in-memory stand-ins for clientv3 KV/Lease/Watcher (harness/c08) used by the `start` op; testing/synctest (go1.26) virtualises the 500 ms hold",
        "in-memory revisioned store + watch sessions (harness/c08 memStore) used by the `sys` op: etcd's documented semantics only; the provider's own Put calls wait until the first watch exists (one of the possible schedules of StartMember: watch goroutine before registerService); KeepAlive answers only on a `K` step; Revoke deletes the keys the provider wrote; mode=regfail: every Put of the provider is refused (after the first watch exists)",
        "go/ast extractor also lists, for every function of package app outside Cluster/ClusterServices, the directory getters it calls on GetCluster() (transitively, loops marked): theorem helper_queries_single_getter is re-checked against it on every run",
        "the `stress` ops are real-time races (4 reader goroutines, no virtual clock): a miss is possible in principle (quick: 16 size-changing swaps, each with a reader inside a directory walk of 20000 items; a getter with two loads was hit on the first swap in 40 of 40 trial runs, the unchanged tree stayed silent in 40 of 40); the syntactic fact `one load per getter` (getter_facts_match_source) stays the primary tie",
        "encoding/json: the harness writes the JSON a peer would write (json.Marshal of the same fields) and six kinds of invalid values",
    ],
    assumptions=[
        "pointer-sized field stores/loads of ClusterServices are atomic and a reader that loaded a map reference sees the completely built map (Go memory model; the code has no synchronisation there) — modelled as atomic steps, not verified",
        "an OPEN watch delivers each event of the prefix once, in revision order (etcd); which events a watch session sees at all is modelled (Sys): the code creates its watches without a start revision and never re-lists, so writes between the initial Get and the creation of the watch, and events pending when a watch fails, are lost for good (theorems registration_between_listing_and_watch_is_lost, failed_watch_loses_pending_delete, lost_event_is_never_repaired; reproduced on the real StartMember by corpus/C08/sys.txt) — reported as a suspected defect, the monitor flags only a directory that differs from what the handed-over events imply, or from the store when nothing was lost",
        "directory = store is proved for stores and writes as cell2 makes them (value under the node's own id, alive=true — Serialize always writes Alive=true); a foreign registration saying alive=false is kept by the initial listing and dropped by the watch fold (theorem dead_listed_registration_stays)",
        "registrations are written under their own node id (key = .../<Node.ID>), as registerService does; self presence is proved and monitored for such histories; histories with key/id mismatches are covered by the model correspondence only",
        "service names are unique across members for GetService to be a function (the code logs 'duplicate service name' and keeps an arbitrary item otherwise)",
        "items of the *working* lists carry a nil PID in the code (only the per-type list is passed through makePID); the model and the specification record this, it is reported to the lead as a suspected defect of helpers such as GetFirstWorkService, not flagged by this check",
    ],
)
