CONFIG = dict(
    id="C07",
    engine="bubble-actor",
    technique="Lean 4 theorems (routed target = the instance the rule names; every failing rule is refused with exactly one no-service "
              "completion, also for a caller whose run service has stopped; default route = first working instance; a replaced default route "
              "function is a rule like any other (panic contained); Register is local; a call straddling a view update is served from the view "
              "of the name lookup; QuerySession/Kick report; admissibility of the directory for every Go map "
              "order and every history) over a hand-written model + acceptance run of the model on traces of the real routing code",
    level_text="Machine-checked proof in Lean 4 that, in the model of node/route + node/app (Route, doRoute, RoutePID, defaultRoute, MakeMembers, "
               "Request, Notify, QuerySession, Kick), for every cluster view, every name map any map-iteration order can produce, every rule table, "
               "parameter kind and route string, after any history of view updates: a rule that names a known instance sends exactly one message to "
               "an instance of that name (THE instance when names are unique), every failing rule sends nothing and completes a request's callback "
               "exactly once with ErrorNoService - by a direct call, so also when the caller's scheduler has been stopped -, the default route "
               "targets the first instance of the type on a Working node, a default function installed with SetDefaultRoute is treated (and its "
               "panic contained) like a registered one, Register(t,f) changes the rule of t only, a call during which a view update lands "
               "(two directory reads, two views) still never reaches anything the view of the name lookup does not announce and - for every "
               "rule but the built-in default - equals the call in the new view, and the helpers report unknown fronts.  The model is tied to the Go code on every run: a real NodeService actor inside a synctest bubble issues the calls, "
               "a second one whose run service has been stopped issues the same calls (`ctx=stopped`), view updates are slipped into running "
               "calls through parked route functions (`midview`), the default route function is replaced (`setdef`), a real-time watchdog turns a "
               "call that never returns into the observation `blocked`; "
               "a recording process behind an address resolver observes target PID / forwarded route / callback; the model must accept every "
               "observation (equality, except the Go-map-order dependent winner among same-named instances of different types, which is validated "
               "against ServicesOk and pinned), and the property predicate is evaluated on the implementation's own observations.",
    level_note="Trusted: Lean kernel, harness/driver line protocol and canonicalisation, route functions abstracted as behaviours "
               "(const | key of the parameter | key with default | nil-aware | nesting | empty | panic; registered or installed as the default function), "
               "the caller's scheduler as running | stopped (a full task queue is not modelled), a view update inside a call only at the point where a route "
               "function reads its parameter (the two loads of the BUILT-IN default path are modelled - requestTorn, torn_never_unannounced, "
               "torn_default_can_refuse_spuriously - but cannot be interleaved in the run: no hook inside app.defaultRoute), RequestEx/NotifyEx = one message handed to the actor context (delivery/completion is "
               "C01/C09). The theorems are about the model; the acceptance run ties it to the code on sampled inputs only. Bypassed by the engine: "
               "actor remote transport, etcd provider, real target services.",
    lean_targets=["Cell2v.Props.C07", "modeld_c07"],
    driver="modeld_c07",
    driver_root="Cell2v.Driver.C07",
    audit="Audit/C07.lean",
    required_theorems=["routed_to_named", "routed_to_the_instance", "no_instance_no_send_one_callback", "default_is_working",
                       "helpers_report", "directory_any_map_order", "lookup_is_view", "after_any_history", "calls_use_latest_view",
                       "malformed_route_no_send", "unknown_type_no_send", "never_dropped_never_unannounced", "default_is_working_unique",
                       "d5_prefix_drops_callback", "nested_route_is_transparent", "nested_routed_by_outer_key", "empty_map_is_a_map", "null_value_is_present",
                       "custom_default_is_a_rule", "custom_default_panic_refused", "registered_beats_default", "setDefault_installs", "register_is_local",
                       "refusal_reaches_callback_in_any_caller_state", "no_instance_one_callback_any_caller", "posted_completion_is_lost_when_stopped",
                       "route_ignores_view", "straddling_call_served_from_new_view", "torn_never_unannounced", "torn_default_can_refuse_spuriously"],
    harness_pkg="./c07",
    mode="accept",
    reset_prefix="reset",
    runs={
        "quick": [dict(name="main", env={"VERIF_N": "120000"}, timeout=240)],
        "thorough": [dict(name="main", env={"VERIF_N": "800000"}, timeout=800),
                     dict(name="seed2", env={"VERIF_N": "600000"}, seed_offset=1000, timeout=800),
                     dict(name="seed3", env={"VERIF_N": "600000"}, seed_offset=2000, timeout=800)],
    },
    trivial=r"^(ok|ok default=[01]|bad-op)?$",
    rule="hand-written corpus, then a bounded exhaustive grid (9 views x 17 rule behaviours x 32 parameters x 9 route strings x request/notify, plus "
         "RoutePID/Route per parameter, QuerySession/Kick/GetServicePID per front name, the same calls issued by a service whose run service has been "
         "stopped (`ctx=stopped`), and view updates landing inside a call's route function (`midview` x 3 views x 4 parameters); repeated without default "
         "function and with 5 REPLACED default functions (`setdef`: panic | const | key | empty | key with default)), then op lines generated from one PRNG "
         "(VERIF_SEED), cases of 8-18 ops each starting with `reset`: cluster views of 0-4 members "
         "(states 0-5, duplicate node ids, empty hosts, 0-4 services each incl. malformed full names, the three sentinel strings as names, the same "
         "name under two types and on two nodes), later view updates inside a case - fresh views and RE-ARRANGEMENTS of the current one that keep the multiset of nodes and service names (a service migrates, two nodes swap one service / whole lists / states+lists, members re-ordered) each followed by calls aimed at what moved, rule tables per type (const | key | key with a default instance | nil-aware key function | nest = key function that first routes re-entrantly for another type with a different key map | empty | panic | unregister), `race` ops (one map-routed Route parked inside its route function while a second one runs), "
         "all parameter kinds (nil, typed nil, session, key map with string / non-string / missing / empty-string / nil (JSON null) / typed-nil / 0 / false / empty-slice values, EMPTY and nil key maps, maps with only irrelevant keys, explicit name, int / map[string]string / "
         "slice / pointer), route strings with 0-4 dots and empty parts, Request/Notify/QuerySession/Kick with and without callback, plus pure "
         "Route/RoutePID/GetServicePID/GetWorkServicePID/GetFirstWorkService/SplitClientRoute probes; the last tenth of the cases runs with the "
         "default route function removed or replaced (`setdef` ops: panic | const | key | keyd | empty | none); an eighth of the req/qs/kick ops is issued by the stopped "
         "service; `midview` + call pairs (a fresh view without cross-type duplicate names installed while the call's route function is parked); a real-time watchdog (20 s) "
         "reports an op that never returns as `blocked`; a case is non-trivial when the observation is not a bare `ok`; distinct = distinct (op, observation) pairs",
    trusted_base=[
        "Lean 4.33.0 kernel; axioms of every property theorem audited on each run (allowed: propext, Classical.choice, Quot.sound)",
        "hand-written model lean/Cell2v/Model/Route.lean tied to the Go code by the acceptance run of this check (harness/c07 + modeld_c07 accept)",
        "route functions are behaviours: constant name | param.Get(k, \"\").(string) (the shape of every shipped route function) | the same with a default instance | a nil-aware variant | the same after a nested "
        "Route call for another type | \"\" | panic; evaluations are pure in the model (no shared parameter wrapper) - checked against the code by the nested and parked (`race`) calls",
        "ns.RequestEx / ns.NotifyEx modelled as exactly one message handed to the actor context for the PID; the recording process behind the "
        "address resolver answers each request once (delivery, timeout and exactly-once completion of a SENT request are properties C01/C09)",
        "harness canonicalisation: errors mapped to ok | noservice | timeout | err, panics to `panic`, everything read out of a Go map sorted",
        "go1.26 testing/synctest makes each call synchronous (issue on the service goroutine, Wait, observe)",
        "the stopping caller is a second NodeService actor whose StandardRunService was stopped (what Service.onStop does); its calls are issued from the "
        "harness goroutine; the completion of a request it SENT is not observed (cb=~, C01/C09)",
        "a view update inside a call is placed where the harness's route functions read their parameter (one-shot park hook), on the calling goroutine",
    ],
    assumptions=[
        "a view update that lands between the two directory reads of the BUILT-IN default path (working list in defaultRoute, name map in GetServicePID; "
        "plain stores in ClusterServices.MakeMembers) can answer no-service although both views have a working instance (theorem "
        "torn_default_can_refuse_spuriously); proved: it is reported, and never sent to anything the newer view does not announce (torn_never_unannounced); "
        "not exercised in the run",
        "guard stated in the theorems (NoSentinelNames): no instance is literally named no_service, bad_route_param or miss_route_func - the code "
        "looks these sentinel strings up as instance names (the generator does produce such views; the model mirrors the code there, the spec skips)",
        "an EXPLICIT instance name as route parameter bypasses the type part of the route: app.Request(ns, \"bad\", \"chat-1\", ...) is sent to chat-1 "
        "with the forwarded route \".\" although the route is malformed (theorem malformed_route_explicit_name_is_sent; decided out of scope by the "
        "lead: the message reaches exactly the named instance; backsession.go relies on the type being ignored: \"x.sys.kick\")",
        "two instances of the same name under DIFFERENT types: the winner in the name map depends on Go's map iteration order (MakeMembers ranges "
        "over a map); theorems hold for every admissible winner, `routed_to_the_instance` needs UniqueName",
        "with duplicate names the default route can reach a same-named instance on a non-working node (the working list is consulted by name only); "
        "default_is_working_unique needs unique names",
        "observed, outside the property: items of the working lists never get a PID, so app.GetFirstWorkService / RandGetWorkService always return nil "
        "(unused in the repository); modelled as is",
    ],
)
