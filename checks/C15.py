CONFIG = dict(
    id="C15",
    engine="bubble-sche",
    technique="Lean 4 theorems over hand-written small-step models of sche.Sche (bounded channel, any number of posters, consumer, Stop) "
              "and of waterfall.Chain (all task behaviours, all interleavings) + constants/recover discipline regenerated from the Go source by a "
              "go/ast translator + differential run of the real Sche / RunService / waterfall.Sche inside a testing/synctest bubble",
    level_text="Machine-checked proof in Lean 4 that, in the model of utils/sche and utils/waterfall, for every interleaving of any number of poster "
               "goroutines, the consumer and Stop, any channel capacity and fill level (posters blocked on a full channel included): every closure whose "
               "Post returned is executed/queued exactly once, each poster's closures run in posting order, a panicking closure never stops the consumer, "
               "a Post after Stop is refused without crashing and never runs; and for every chain length, error position and task behaviour (sync, later, "
               "from other goroutines, never): task invocations are 0,1,2,.. in order without repetition (unconditionally); when every invoked task completes at "
               "most once, each task receives its predecessor's results, the first error goes straight to final and final runs at most once - exactly once "
               "when every invoked task completed exactly once and the scheduler ran what the chain posted (a task completing twice does run final twice: "
               "theorem double_completion_runs_final_twice); tasks/final only run inside posted closures; an invoked task that has not completed - in "
               "particular an unset (nil) entry of the task list, whose call panics under doTask's recover - stalls the chain: no later task, nothing queued, "
               "no final (uncompleted_task_stalls_chain); a chain whose scheduler is stopped at an arbitrary point refines the plain chain model (callback "
               "calls after Stop are dropped by Post), so every safety theorem holds for it, and final can then be lost (stop_before_completion_loses_final); "
               "a Builder object used for several chains, modelled over Go slices (shared backing array, in-place append below cap, reallocation): for every "
               "sequence of further Next/Do calls the task window of every chain already started is unchanged (started_chain_keeps_its_tasks; the variant "
               "that truncates the builder's slice in Do overwrites it: reset_in_place_overwrites_started_chain). "
               "The facts the scheduler theorems depend on (selfBlockDefend = false and assigned nowhere, QueueSize, recover in doTask/Post) are "
               "re-extracted from the Go source on every run; the models are tied to the code by running the real Sche with its Handler() and with a "
               "RunService, 1-8 concurrent posters, fill levels 0/998/999/1000/1500 and Stop at scripted points, closures posted from and panicking at the bottom of a 120-frame call chain (before and after Stop), and real waterfall chains of length 0-6 (nil steps at every position, task lists that are adjacent "
               "windows of one backing array with spare capacity, Builder objects used for several chains while the earlier ones are pending / queued / done, every task body reporting the chain instance - callback object - that invoked it), each op run to quiescence in a synctest bubble; the property predicate is evaluated on the implementation's own execution logs.",
    level_note="Partial: Go channel semantics (bounded FIFO, atomic send, blocked senders resumed in any order) and the Go scheduler are assumed, not "
               "verified; goroutine identity is observed by the harness (goroutine ids), not proved; closures still queued at Stop are outside the "
               "statement; the self-post deadlock on a full channel is not expressible in the scheduler model (its consume step stays enabled) and is "
               "an assumption; one consumer per scheduler is assumed (two live run services created with the same explicit name share one channel - not "
               "modelled); sche.MultiSelector is exercised by the RunService runs but not modelled; the slice-level Builder model (BMem) is tied to the code only "
               "through the value-level builder the driver executes (a reused builder hands each chain everything it holds), its growth policy (2*cap+1) is arbitrary - the theorem holds for any; "
               "the content of the recover handlers (logging, stack report) is not modelled, only that they return - exercised with shallow and deep (> 4 KB) stacks. The theorems are about the models; the differential run ties them to the code on sampled schedules only.",
    gen=["cd harness && go1.26 run ./extract/c15 -out ../lean/Cell2v/Gen/C15Consts.lean"],
    lean_targets=["Cell2v.Props.C15", "modeld_c15"],
    driver="modeld_c15",
    driver_root="Cell2v.Driver.C15",
    audit="Audit/C15.lean",
    required_theorems=["shipped_source_facts", "shipped_sound", "shipped_scheduler_correct", "post_exactly_once", "per_poster_fifo", "panic_does_not_block_later",
                       "post_after_stop_is_harmless", "overflow_path_breaks_fifo", "tasks_in_order", "args_threaded",
                       "error_jumps_to_final", "final_at_most_once", "final_exactly_once", "everything_via_post",
                       "uncompleted_task_stalls_chain", "stopping_scheduler_refines_chain", "final_at_most_once_with_stop", "completion_after_stop_is_dropped",
                       "stop_before_completion_loses_final", "double_completion_runs_final_twice",
                       "started_chain_keeps_its_tasks", "binv_reachable", "reset_in_place_overwrites_started_chain", "anonymous_service_gets_own_scheduler", "same_name_same_scheduler", "name_reused_after_stop_gets_fresh_scheduler"],
    harness_pkg="./c15",
    mode="accept",
    reset_prefix="reset",
    runs={
        "quick": [dict(name="main", env={"VERIF_N": "600"}, timeout=120),
                  # the same generators on one P: woken goroutines run late, a systematically different family of schedules
                  dict(name="p1", env={"VERIF_N": "150"}, procs=1, seed_offset=500, timeout=120),
                  # registry race (outside the bubble): N goroutines GetSche(same fresh name) inside a forced window
                  dict(name="race", test="TestRace", env={"VERIF_N": "40"}, timeout=120)],
        "thorough": [dict(name="main", env={"VERIF_N": "6000"}, timeout=600),
                     dict(name="seed2", env={"VERIF_N": "5000"}, seed_offset=1000, timeout=600),
                     dict(name="seed3", env={"VERIF_N": "5000"}, seed_offset=2000, timeout=600),
                     dict(name="p1", env={"VERIF_N": "3000"}, procs=1, seed_offset=3000, timeout=600),
                     dict(name="race", test="TestRace", env={"VERIF_N": "400"}, timeout=600),
                     dict(name="exhaustive", test="TestExhaustive", timeout=600)],
    },
    trivial=r"^(-|ok|ok cap=\d+|bad-op|exec=- .*)?$",
    rule="one PRNG (VERIF_SEED). Scheduler cases: real sche.Sche consumed by its own Handler() or by a runservice.RunService, 1-8 poster goroutines "
         "posting numbered closures (normal / panicking / panicking at the bottom of a 120-frame call chain and posted from one - stack report beyond 4 KB / consumer-parking) in concurrent bursts, queue pre-filled to 0/3/40/998/999/1000/1500 while the "
         "consumer is delayed or parked, Stop at a random point (before start, while posters are blocked on the full channel, while running), posts after "
         "Stop; every op runs to quiescence in a testing/synctest bubble and reports the execution log, the executing goroutine, len(chanTask) and per "
         "poster ok/nil/blocked/panicked counts; the log must be accepted by the model (nondeterministic interleavings) and satisfy the property predicate. "
         "Waterfall cases: chains of length 0-6 through waterfall.Sche / Builder, every error position, task completion sync / from another goroutine / "
         "later via goroutine, caller, timer or a posted closure / never / twice / panicking before or after completing / unset (a nil entry of the task "
         "list, any position, Sche and Builder), task lists allocated on their own or carved as adjacent windows out of one shared backing array "
         "(mem=arena: spare capacity reaching into the next chain's tasks), one of up to three Builder objects per case used again (bld=k: Next.. Final Do on "
         "top of what it holds) while its earlier chains are pending on a task, queued behind the parked consumer or done - every task event carries the "
         "chain instance (ordinal of the callback object it was handed), so a task body run by the wrong chain is seen -, several chains interleaved, "
         "chains started from the test goroutine / a foreign goroutine / a closure on the consumer, with the consumer idle or parked behind "
         "0/3/997/998/999 queued closures (the starter then blocks in Post on the full channel), each task checked for a usable callback, "
         "completions after Stop; events compared one by one with the model. Multi-service cases: up to 8 run services, anonymous "
         "(NewRunService(\"\")) or with explicit names that are reused after a stop (stop without start, stop while the loop is parked in a "
         "closure followed by an immediate re-creation under the same name, late start with closures queued), alive at once, numbered and panicking closures and waterfall chains posted to each, services stopped and created in "
         "any order (created-after-stop included); every closure must run on its own service's loop goroutine. Re-entrant posts: the consumer, parked in a closure, posts 2-8 closures to its own "
         "queue at fill 0..cap-2 (within the free slots) and is then one more poster. Failing tasks pass no / one nil / several result values. "
         "Registry race (real time, outside the bubble): 2-4 goroutines call Mgr.GetSche with one fresh name while the harness holds the "
         "manager's lock until all are parked on it; all must get the same registered scheduler and every closure posted through any handle "
         "must run. A second run repeats the generators on one P (GOMAXPROCS=1: woken goroutines "
         "run late). A deterministic sweep (every length x error position x mode, every nil-step position x length 1-4 x "
         "sync/goroutine/later, arena-window chains back to back idle and parked, every fill level x both consumers) runs first. Non-trivial = an op on which at least one closure/task/final ran; distinct = distinct (op, observation) pairs.",
    trusted_base=[
        "Lean 4.33.0 kernel; axioms of every property theorem audited on each run (allowed: propext, Classical.choice, Quot.sound)",
        "hand-written models lean/Cell2v/Model/Sche.lean, Model/Waterfall.lean (Chain, and SChain = chain + Stop, used by the driver for every callback call; Builder, used by the driver for every bld= chain; BMem = Builder over Go slices, theorems only) and Model/ScheMgr.lean (scheduler registry), tied to the Go code by the differential run of this check (harness/c15 + modeld_c15)",
        "translator harness/extract/c15 (go/ast, ~250 lines): selfBlockDefend initial value and absence of assignments, QueueSize, chanTask capacity, recover() in doTask and Post",
        "Go channel semantics: bounded FIFO buffer, a send is one atomic step, a send on a closed channel panics, blocked senders resume in some order",
        "testing/synctest (go1.26) quiescence detection; goroutine ids parsed from runtime.Stack by the harness; chain instance = address of the callback closure (read through unsafe, closures kept alive for the case)",
        "Go slice semantics as modelled in BMem (append writes in place iff len < cap, otherwise copies to a fresh array)",
        "harness canonicalisation (goroutine ids mapped to consumer/poster/main/other labels)",
    ],
    assumptions=[
        "closures still queued when the scheduler is stopped may or may not run (any prefix, in order) - outside the property statement",
        "Stop is called at most once (a second close panics in the caller; not part of the property)",
        "a closure that posts to its own scheduler while the channel is full deadlocks the consumer (documented above Post; theorem self_post_on_full_queue_deadlocks) - waterfall chains assume room in the channel",
        "at most one consumer goroutine per scheduler: RunService.Start is called once and no two live run services are created with the same explicit name (they would share one channel)",
        "the final function of a chain is set (Builder.Do without Final calls a nil func inside the closure: recovered, chain ends silently) - not generated",
        "waterfall.Simple and waterfall.ExecAndWait (same file as the Callback/Task types) are not scheduler-bound and not covered",
    ],
)
