CONFIG = dict(
    id="C18",
    engine="bubble-actor (virtual clock)",
    technique="Lean 4 refinement proof (model of PlayerMgr simulates the per-account ledger of the property monitor, for all histories) "
              "+ differential correspondence with the real PlayerMgr on a real NodeService in a synctest bubble "
              "+ the property monitor executed on the implementation's own acknowledgements and return values",
    level_text="Machine-checked proof in Lean 4 that, for every history of login requests, closed reports, logic notifications, logout and "
               "line-switch requests, offline replies, ticks and clock advances (and every choice of the kick-wait expiry scan), the model of "
               "the centre's PlayerMgr never authorises a fresh load while an earlier load of the account is live, reconnects only a logged-in "
               "character whose connection was reported closed, never accepts a transaction while another holds the account within its time "
               "limit, answers each login request at most once, and releases the account when a time limit passes. The model is tied to the Go "
               "code on every run by executing both on generated histories (virtual time across the 30 s / 2 min / 3 min / 5 min / 30 min limits) "
               "and comparing acknowledgements, return values, kick/offline requests and the per-account record (state, time limits, lock, "
               "connection, parked login); the property monitor is evaluated on what the implementation answered.",
    level_note="Trusted: Lean kernel, harness/driver line protocol and canonicalisation, the reflect-based record probe (fields located by type/shape, `?` when unresolved) and the one-line overlay calling the periodic update. The theorems are "
               "about the model; the differential run ties it to the code on sampled and (thorough) bounded-exhaustive histories only. Not driven: "
               "the service's own 30 s request timeout for an unanswered offline request (equivalent to an error reply, which is driven), and a scan "
               "finding two expired parked logins at once (Go map order decides which is dropped; the theorems cover every choice).",
    lean_targets=["Cell2v.Props.C18", "modeld_c18"],
    driver="modeld_c18",
    driver_root="Cell2v.Driver.C18",
    audit="Audit/C18.lean",
    required_theorems=["history_accepted", "fresh_load_exclusive", "live_load_has_record", "reconnect_only_logined_and_closed",
                       "transactions_never_overlap", "refused_while_held", "login_answered_at_most_once", "timeouts_release",
                       "expired_login_is_released", "expired_logout_is_released"],
    harness_pkg="./c18",
    go_flags=["-overlay=/verif/harness/c18/overlay/overlay.json"],
    mode="diff",
    reset_prefix="reset",
    runs={
        "quick": [dict(name="main", env={"VERIF_N": "5000"}, timeout=240),
                  dict(name="exh3", test="TestExhaustive", env={"VERIF_DEPTH": "3"}, timeout=240),
                  dict(name="reach5", test="TestReachable", env={"VERIF_DEPTH": "5", "VERIF_MAXOPS": "200000"}, timeout=240)],
        "thorough": [dict(name="main", env={"VERIF_N": "40000"}, timeout=800),
                     dict(name="seed2", env={"VERIF_N": "20000"}, seed_offset=1000, timeout=800),
                     dict(name="exh5", test="TestExhaustive", env={"VERIF_DEPTH": "5"}, timeout=850),
                     dict(name="reach8", test="TestReachable", env={"VERIF_DEPTH": "8", "VERIF_MAXOPS": "2500000"}, timeout=850)],
    },
    trivial=r"^(ok.*|bad-op|refused|nondet|none|ret=- acks= kicks= offs= \| - \| - \| - \| nc=\d+ np=0 nt=0)$",
    rule="histories generated from one PRNG (VERIF_SEED): 1-2 accounts (a third one rarely) x 2-3 connections on two front-ends (plus, rarely, an "
         "unknown front-end, net id 0, an unknown logic server); ops = login (kick on/off), closed report, logined, re-online, logout request, logout done, "
         "abnormal logout, line switch begin/end, offline reply (ok/error), tick, clock advance aimed at just before / at / just after each of the "
         "3 s / 30 s / 2 min / 3 min / 5 min / 30 min limits (the deadlines the implementation currently shows, or counted from the instants "
         "something with a limit started); ~1% malformed lines (unknown op, account out of range, missing fields); 6-25 ops per history; "
         "plus every op sequence of length 3 (quick) / 5 (thorough) over a 14-op alphabet for 1 account x 2 connections, and a breadth-first search "
         "that tries each of 21 ops (incl. advances to 1 ms before each limit) from every distinct centre state reachable within 5 (quick) / 8 (thorough) ops; "
         "a case is non-trivial when "
         "the implementation's observation shows an answer, a return value, a request or a record; distinct = distinct (op, observation) pairs",
    trusted_base=[
        "Lean 4.33.0 kernel; axioms of every property theorem audited on each run (allowed: propext, Classical.choice, Quot.sound)",
        "hand-written model lean/Cell2v/Model/Center.lean tied to the Go code by the differential run of this check (harness/c18 + modeld_c18)",
        "property monitor lean/Cell2v/Spec/C18.lean (the statement of the property on observable histories)",
        "overlay harness/c18/overlay/export_verif.go: one method calling the unexported periodic update; the per-account record is read through exported "
        "API (GetState, FrontId, NetId, GetLogicId) and, for the lock / limits / parked task, with reflect+unsafe by field type and shape (never by name); "
        "an unrecognised shape degrades to `?` in the observation (model echoes it), it does not fail the check",
        "go1.26 testing/synctest virtual clock; proto.actor local delivery; harness canonicalisation (times relative to the case start, kicks sorted)",
    ],
    assumptions=[
        "entry points run on the owning service's goroutine (the harness posts them to its scheduler, as the actor runtime does)",
        "the periodic update is called explicitly (op tick) instead of by the 1 s timer registered in PlayerMgr.Start",
        "front-ends answer kick requests at once; the logic server answers (or fails) an offline request before the service's 30 s request timeout",
        "login request ids are per account; account ids 1..3",
    ],
)
