CONFIG = dict(
    id="C18",
    engine="bubble-actor (virtual clock)",
    technique="Lean 4 refinement proof (model of PlayerMgr simulates the per-account ledger of the property monitor, for all histories) "
              "+ differential correspondence with the real PlayerMgr on a real NodeService in a synctest bubble "
              "+ the property monitor executed on the implementation's own acknowledgements and return values",
    level_text="Machine-checked proof in Lean 4 that, for every history of login requests, closed reports, logic notifications, logout and "
               "line-switch requests, offline replies, ticks, clock advances and clock advances with the 1 s update timer running (and every "
               "choice of the kick-wait expiry scan), the model of the centre's PlayerMgr never authorises a fresh load while an earlier load of "
               "the account is live, reconnects only a logged-in character whose connection was reported closed, never accepts a transaction "
               "while another holds the account within its time limit, answers each login request at most once - and every request is answered, "
               "still parked, or was parked and dropped by the 30 s expiry scan, nothing else loses one - and releases the account when a time "
               "limit passes (by an explicit update or by the first timer firing after the limit). Also proved: what a passed limit does NOT "
               "release (a line switch that never ends blocks logins and line switches of the account for good), and about the remote API in "
               "front of the manager (center_remote.go): it answers Succ to exactly the logout / line-switch requests the manager accepted, "
               "ErrFaild while a transaction holds the account, and a granted request has taken the account's lock. The model is tied to the Go "
               "code on every run by sending every operation as a real request to the centre service's remote API (routes centerremote.*, "
               "dispatched by the service's API dispatcher to handler.Entry, which calls PlayerMgr) on generated histories (virtual time across the 1 s / 3 s / 30 s / 2 min / 3 min / 5 min / "
               "30 min limits; a third of the histories run with the real timer registered by PlayerMgr.Start) and comparing the responses the requester receives (login acknowledgements, the "
               "NormalAck code of logout / line-switch requests, the acknowledgement of notifications), kick/offline requests and the per-account record (state, time limits, lock, connection, parked login); the "
               "property monitor (which states the time limits on its own; the proof needs them equal to the model's) is evaluated on what the "
               "implementation answered to its callers.",
    level_note="Trusted: Lean kernel, harness/driver line protocol and canonicalisation (a response is read as granted / refused / acknowledged "
               "from its NormalAck code; no answer, an error, another code or a second answer are shown as such and reported as C18/request-answer), the reflect-based record probe (fields located by type/shape, `?` "
               "when unresolved - counted as probe.unresolved.* in the generator histogram) and, for the explicit tick, reading the periodic update as the callback "
               "of the timer object PlayerMgr.Start registers (no overlay, no unexported identifier named). The accounts of a `crowd` operation are compared "
               "through a summary (counts of answers / requests, np / nt), not per account. The theorems are about the model; the differential run ties it to the code on sampled "
               "and bounded-exhaustive histories only. Not driven: the service's own 30 s request timeout for an unanswered offline request "
               "(equivalent to an error reply, which is driven), and a scan finding two expired parked logins at once (Go map order decides which "
               "is dropped; the theorems cover every choice; with a crowd parked this excludes closed / logined / offline-reply operations from 30 s after the crowd on). NOT proved, and not true of the code without the environment assumptions listed: "
               "'two game-logic instances never coexist' (witness theorem late_logined_then_second_load: a logined report arriving after the "
               "2 min expiry is ignored and a second load is authorised) and 'previous connection closed' per connection (witness "
               "stale_closed_report_unbinds_current_connection: a closed report carries only the account id). 'Refused until the time limit "
               "passes' is proved as refusal while held plus release of logout (always), line switch and reconnect (for a logged-in record); "
               "unfinished_switch_blocks_account shows that an unfinished line switch is never released for logins.",
    lean_targets=["Cell2v.Props.C18", "modeld_c18"],
    driver="modeld_c18",
    driver_root="Cell2v.Driver.C18",
    audit="Audit/C18.lean",
    required_theorems=["history_accepted", "fresh_load_exclusive", "live_load_has_record", "reconnect_only_logined_and_closed",
                       "transactions_never_overlap", "refused_while_held", "login_answered_at_most_once", "timeouts_release",
                       "expired_login_is_released", "expired_logout_is_released",
                       "login_answered_parked_or_expired", "login_ids_issued", "forgotten_only_when_expired", "parked_login_answered_when_run",
                       "timeouts_release_switch", "timeouts_release_reconnect", "unfinished_switch_blocks_account",
                       "timer_releases_expired_login", "timer_releases_expired_logout", "timer_firings",
                       "never_refused_without_holder", "refusedNoHolder_meaning_ack", "refusedNoHolder_meaning_switch",
                       "logined_without_record_ignored", "late_logined_then_second_load", "stale_closed_report_unbinds_current_connection",
                       "remote_grants_iff_accepted", "remote_refuses_while_held", "remote_grant_takes_lock", "remote_notifications_acknowledged"],
    harness_pkg="./c18",
    mode="diff",
    reset_prefix="reset",
    runs={
        "quick": [dict(name="main", env={"VERIF_N": "5000"}, timeout=240),
                  dict(name="exh3", test="TestExhaustive", env={"VERIF_DEPTH": "3"}, timeout=240),
                  dict(name="reach5", test="TestReachable", env={"VERIF_DEPTH": "5", "VERIF_MAXOPS": "200000"}, timeout=240),
                  dict(name="reachT5", test="TestReachable", env={"VERIF_DEPTH": "5", "VERIF_MAXOPS": "200000", "VERIF_TIMER": "1"}, timeout=240)],
        "thorough": [dict(name="main", env={"VERIF_N": "40000"}, timeout=800),
                     dict(name="seed2", env={"VERIF_N": "20000"}, seed_offset=1000, timeout=800),
                     dict(name="exh5", test="TestExhaustive", env={"VERIF_DEPTH": "5"}, timeout=850),
                     dict(name="reach8", test="TestReachable", env={"VERIF_DEPTH": "8", "VERIF_MAXOPS": "2500000"}, timeout=850),
                     dict(name="reachT6", test="TestReachable", env={"VERIF_DEPTH": "6", "VERIF_MAXOPS": "1200000", "VERIF_TIMER": "1"}, timeout=850)],
    },
    trivial=r"^(ok.*|bad-op|refused|nondet|none|ret=- acks= kicks= offs= \| - \| - \| - \| nc=\d+ np=0 nt=0)$",
    rule="histories generated from one PRNG (VERIF_SEED): 1-2 accounts (a third one rarely) x 2-3 connections on two front-ends (plus, rarely, an "
         "unknown front-end, net id 0, an unknown logic server); every op below except tick / clock / offline reply is a ServiceRequest sent to the "
         "centre's remote API (centerremote.reqlogin, onsessionclose, onlogiclogined, onlogicreonline, reqlogout, onlogout, onabnormallogout, "
         "reqswitchline, onswitchlineend) from a recording requester; ops = login (kick on/off), closed report, logined, re-online, logout request, logout done, "
         "abnormal logout, line switch begin/end, offline reply (ok/error), tick, clock advance (in a third of the histories: with the real 1 s timer of "
         "PlayerMgr.Start running, `reset timer=1` / `advt`, a quarter of those advances landing 1 ms before / on / 1 ms after a firing) aimed at just before / at / just after each of the "
         "3 s / 30 s / 2 min / 3 min / 5 min / 30 min limits (the deadlines the implementation currently shows, or counted from the instants "
         "something with a limit started); ~1% malformed lines (unknown op, account out of range, missing fields); 6-25 ops per history; "
         "about 1 history in 80 starts with `crowd b=0 n=N` (N around 2 / 64 / 512 / 1024 / 1200): N further accounts (ids above 1000) each go through login on gate-1, logined, "
         "second login from gate-2 asking for the kick - 3N real requests - so that the centre's tables hold ~N records and ~N parked logins while the printed accounts are driven "
         "(the model executes the same 3N operations; the theorems quantify over all account ids); "
         "plus every op sequence of length 3 (quick) / 5 (thorough) over a 14-op alphabet for 1 account x 2 connections, and a breadth-first search "
         "that tries each of 21 ops (incl. advances to 1 ms before each limit) from every distinct centre state reachable within 5 (quick) / 8 (thorough) ops, "
         "and the same search with the timer running (19 ops, advances that stop just before / on a firing) within 5 (quick) / 6 (thorough) ops; "
         "a case is non-trivial when "
         "the implementation's observation shows an answer, a return value, a request or a record; distinct = distinct (op, observation) pairs",
    trusted_base=[
        "Lean 4.33.0 kernel; axioms of every property theorem audited on each run (allowed: propext, Classical.choice, Quot.sound)",
        "hand-written model lean/Cell2v/Model/Center.lean (PlayerMgr) + lean/Cell2v/Model/CenterRemote.lean (the remote API's answers) tied to the Go code by the differential run of this check (harness/c18 + modeld_c18)",
        "property monitor lean/Cell2v/Spec/C18.lean (the statement of the property on observable histories; it shares the operation/event types and the "
        "timer's firing instants with the model, states the time limits itself)",
        "no white-box shim: op tick calls the callback PlayerMgr.Start hands to the service's timer manager (every reset calls Start; the timer object is found in the "
        "timer manager's sync.Map - located by type - its exported CB field is the periodic update; without `timer=1` the timer is cancelled again at once, with it the "
        "real timer manager of the service fires it and it is cancelled at the next reset); the per-account record is read through exported "
        "API (GetState, FrontId, NetId, GetLogicId) and, for the lock / limits / parked task, with reflect+unsafe by field type and shape (never by name); "
        "an unrecognised shape degrades to `?` in the observation (model echoes it), it does not fail the check",
        "the harness's requester: ServiceRequest / ServiceResponse built and read at the wire level (remote.Serialize / Deserialize with the service's "
        "serializer id), so the caller-side request timeout of actorex/service is not in the way of late login answers; the centre service is built with "
        "node/service.NewServiceWithDispatcher + StartNodeService as node/servicebuilder does (the PlayerMgr is replaced by a fresh one at every `reset`)",
        "go1.26 testing/synctest virtual clock; proto.actor local delivery; harness canonicalisation (times relative to the case start, kicks sorted)",
    ],
    assumptions=[
        "entry points run on the owning service's goroutine (they arrive as requests in the service's mailbox; tick and the record probe are "
        "posted to its scheduler)",
        "the periodic update is called explicitly (op tick) in two thirds of the histories, by the 1 s timer registered in PlayerMgr.Start in the rest "
        "(the model assumes what the run confirms: firings exactly every 1000 ms of virtual time from Start, the update reading the clock at the firing)",
        "front-ends answer kick requests at once; the logic server answers (or fails) an offline request before the service's 30 s request timeout",
        "login request ids are per account; account ids 1..3 driven individually, ids 1001.. only through the uniform crowd sequence",
        "environment, not enforced by the centre: a logic instance whose login was not confirmed (logined) within 2 min of the authorisation, or whose "
        "logout did not complete within 30 min, has discarded itself and stays silent ('logic frees itself', comment in onLoginningTimeout) - needed to "
        "read 'no double load' as 'no two logic instances'; the logic server's enter flow has a TODO where it would do so",
        "environment: a front-end reports a closed connection only for the connection currently bound to the account (the report carries the account id only)",
        "environment: a line switch that was accepted is ended (OnSwitchLineEnd) or followed by a logout request; otherwise the account stays blocked",
    ],
)
