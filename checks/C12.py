CONFIG = dict(
    id="C12",
    engine="bubble-actor",
    technique="Lean 4 theorems (invariants by induction over all histories and service sets) about a hand-written model of nodectrl + "
              "differential correspondence with the real NodeCtrl driven inside a synctest bubble + the property monitor (Spec/C12) "
              "run on the implementation's own observations",
    level_text="Machine-checked proof in Lean 4 that the model of NodeCtrl (RetireCmd/ExitCmd and their web_* duplicates, queryRetire, "
               "onServiceRetired, the StopNode completion) satisfies, for every list of hosted services and every history of commands, "
               "support answers, service-retired notifications (unknown names, repeats, late ones), StopNode completions and time-outs: "
               "published state non-decreasing; retire accepted only in working/retiring with every service having answered ok, and then "
               "every service is told; retired exactly when all reported; exit only when retired; StopNode at most once and exactly once "
               "after an accepted exit; refused/unknown commands change nothing; a failed stop is final (exiting for ever, exit refused). "
               "The path to the cluster is modelled too: App.UpdateNodeState hands each state to the provider exactly once and ignores "
               "its error, and for every fault script of the provider the states the cluster is shown are an order-preserving selection "
               "of the node's own sequence (so still non-decreasing), refused ones are lost for good (never retried or repeated), and the "
               "monitor accepts the model's trace under every fault script. The node's service list is inside the model as well "
               "(hostedOf = App.FilterSelfServices + NodeCtrl.makeServices): for every list of configured / unconfigured names and every "
               "ServiceInfo (type, Frontend flag, client addresses) the tracked services are exactly the configured names in order, "
               "independent of the attributes, each reachable one is probed, and the retire / retired / exit guards hold for every "
               "configured name, frontend or backend (retire_guard_cfg, retired_waits_for_every_configured, exit_waits_for_every_configured). "
               "The model is tied to the Go code on every run: the real "
               "NodeCtrl.Start + AdminService + node.admin API entries are driven through real ctrl.cmd / ctrl.servicecmd requests with "
               "scripted hosted services (raw actors and real NodeServices using node/builtin/ctrlcmd.go and app.NotifyServiceRetired), "
               "and the two observation streams are compared op by op.",
    level_note="Trusted: Lean kernel, harness/driver line protocol, synctest virtual clock. Modelled, not verified: proto.actor delivery, "
               "the request layer's answer-or-timeout, StopNode completing at most once per call, distinct service names, the cluster provider as a fault script (accept / refuse each "
               "publication). Not modelled: the 3 s between Start and the support probe, a panicking provider, the real App.StopNode / baseapp "
               "module stop (three completion regimes are assumed instead). The theorems are "
               "about the model; the differential run ties it to the code on sampled (thorough: bounded-exhaustive) histories only.",
    lean_targets=["Cell2v.Props.C12", "modeld_c12"],
    driver="modeld_c12",
    driver_root="Cell2v.Driver.C12",
    audit="Audit/C12.lean",
    required_theorems=["state_monotone", "retire_guard", "retired_iff_all_reported", "retired_only_after_all_reported",
                       "exit_guard", "stop_at_most_once", "stop_exactly_once_after_exit", "refused_changes_nothing",
                       "cluster_view_monotone", "provider_called_once_per_update", "reliable_provider_sees_all",
                       "cluster_view_append", "model_passes_monitor_lossy", "monitor_sequence_clause_no_loss",
                       "monitor_flags_stale_retry", "failed_stop_is_final", "exit_without_retire",
                       "unknown_service_ignored", "web_retire_same", "web_exit_same", "model_passes_monitor",
                       "hosted_ignores_attributes", "hosted_length", "every_configured_service_hosted", "unconfigured_not_hosted",
                       "probe_asks_every_hosted", "retire_guard_cfg", "retired_waits_for_every_configured",
                       "exit_waits_for_every_configured", "monitor_flags_unprobed_service",
                       "monitor_flags_retire_without_frontend_support",
                       "d3_state_regression", "d3_stopnode_twice"],
    harness_pkg="./c12",
    mode="diff",
    reset_prefix="reset",
    runs={
        "quick": [dict(name="main", env={"VERIF_N": "12000"}, timeout=240)],
        "thorough": [dict(name="main", env={"VERIF_N": "120000"}, timeout=1500),
                     dict(name="seed2", env={"VERIF_N": "60000"}, seed_offset=1000, timeout=1500),
                     dict(name="exh", test="TestExhaustive", timeout=1500)],
    },
    trivial=r"^(bad-op|r=(refused|none|-|ack:none|info) pub= upd= lost= stop=0 sent= st=working)$",
    rule="cases generated from one PRNG (VERIF_SEED): hosted service sets of size 0-4 (scripted raw actors whose support answer is an "
         "explicit op, real NodeServices answering ok / no / "" (listener ignoring queryretire) / without listener, services unresolvable at start) x node service list read by the real App.FilterSelfServices from a generated config dir with unconfigured names first/middle/last x services-table attributes of each hosted service (reset lst= letters: P backend / F frontend=gate with tcp client address / W frontend with ws address / G frontend flag alone / T another service type / A backend with a client address; a third of the cases with n>0 redraw half of the entries, so frontends next to backends are hosted on every run; the model computes the hosted set from the same list) x StopNode regime of the recording INodeApp (completion later through an op / inside the call with true / with false) x provider latency (the real App.UpdateNodeState with a stub cluster provider whose k-th update takes 0-500 ms of virtual time: none / random / first slow then fast) x provider faults (reset pf=: the k-th UpdateClusterState returns an error: the first / a random subset / all; in such cases the guided stream lets 40 s pass before and after the exit so that anything the node deferred fires) x histories of up to 14 ops over "
         "{stat, retire, exit, web_retire, web_exit, web_nodes, unknown commands, support answer ok/other by service i, s_i leaving / rejoining the node's member record in the real cluster directory behind the real App.GetService (unresolvable at retire time), the directory reflecting the published node state back (at once / on a reflect op; retire repeated after the reflection), retired by "
         "service i / unknown name / out-of-range index, other service commands, StopNode completion true/false, 40 s time-out}; two "
         "thirds of the cases follow the intended life cycle with random insertions, omissions and repetitions (so that exiting/exited "
         "are reached often), one third is uniformly random; thorough adds every history of length 6 over a 7-letter alphabet on two "
         "scripted services, every history of length 3-4 on a frontend next to a backend (lst=FP, lst=TMG), and every history of length 5 over {retire, exit, ack, retired, stopdone, tick, web_retire} with the first / the second and fourth / every publication refused. A case is non-trivial when something other than a refusal in state working was observed; "
         "distinct = distinct (op, observation) pairs",
    trusted_base=[
        "Lean 4.33.0 kernel; axioms of every property theorem audited on each run (allowed: propext, Classical.choice, Quot.sound)",
        "hand-written model lean/Cell2v/Model/NodeCtrl.lean (incl. hostedOf: the service list as FilterSelfServices + makeServices read it) tied to the Go code by the differential run of this check (harness/c12 + modeld_c12)",
        "property monitor lean/Cell2v/Spec/C12.lean (executed on implementation observations; proved never to flag the model)",
        "go1.26 testing/synctest virtual clock; proto.actor local delivery (each message once, per-sender order)",
        "harness canonicalisation: replies collapsed to ok / refused / info; sent commands sorted; no texts, times or pids compared",
    ],
    assumptions=[
        "every command, notification, query answer and StopNode completion runs on the admin service goroutine one at a time (actor model)",
        "INodeApp.StopNode invokes its completion callback at most once per call (later, or inside the call: both regimes are modelled and driven)",
        "only the order in which publications reach the provider is observed, not their latency (an ordered asynchronous publisher would not be flagged)",
        "the cluster provider is a stub that follows a generated fault script (accept / return an error, after a latency); a refused publication is observed as `lost`. The shipped etcd provider (which currently never returns an error) is not executed; a nil provider (App.UpdateNodeState returns at once) is not driven",
        "deferred work of the node is only seen if it fires within the 40 s steps of virtual time the generator inserts (op tick) before the case ends",
        "hosted service names are distinct; the node configuration does not change while the node runs; the services-table attributes are driven through a real App configured from generated yaml (6 attribute combinations), the kinds behind the names are scripted",
        "the retire fan-out is best effort in the code (a service GetService cannot resolve at that moment is skipped): modelled as such, theorem retire_guard is conditional on resolvability",
        "a service 'declares support' by answering the controller's queryretire with exactly \"ok\" before the request times out (30 s)",
    ],
)
