CONFIG = dict(
    id="C10",
    engine="pure + bubble-node",
    technique="Lean 4 theorems (key-wise merge algebra, refinement of every front map to the left fold of its write history by induction over all "
              "histories, guarded invariants, frame) over a hand-written model of SessionData / FrontSession / BackSession / ClientSessions.PushSession / "
              "CloneBackSession / sys.pushsession / sys.querysession / sys.kick / Forward / ProcessForwardMsg / app.defaultRoute / ClientSessions.RemoveSession as a QUEUED task "
              "(a closed socket leaves the session in the table until the end of the front-end's turn; close handlers see the map as of then) + differential "
              "correspondence with the real objects (pure layer) and the real single-process node (two fronts, two back services with a route rule, two without, "
              "real client connections, handler zoo running scripts of session operations, a device that keeps a front-end busy so that a batch of back-end "
              "messages meets a closed-but-not-yet-removed session; the same device makes a client connect and send its first message — and optionally hang up — "
              "BEFORE the front-end has run AddSession: SessionsImpl.OnSessionCreate / ProcessMessage / OnSessionClose only post to the front-end's scheduler, "
              "modelled as `stepOpenReq` = the front-end's queue [AddSession, message task, (RemoveSession)])",
    level_text="Machine-checked proof in Lean 4, for every value type with an idempotent JSON normalisation, that in the model a push merges a "
               "session's NewData into the connection's map key by key (pushed keys take the normalised value, every other key persists; later pushes win; "
               "over ALL histories the map of every connection is the left fold of the writes addressed to it and has unique keys; a push re-sends EVERY value the "
               "session object ever set), that the registered route rule and the envelope of a forwarded message read the CURRENT merged map (instance named by "
               "the route key; bound uid, front name, connection id) while a service type WITHOUT a rule is routed by app.defaultRoute = first Working member in "
               "view order, independent of the session (so node states are irrelevant exactly for histories that only use ruled types: proved; a witness shows "
               "they matter otherwise), that "
               "a query hands a back-end the whole normalised map (Get preferring what the handler set itself), that the dirty flag survives a query so that "
               "set/query/push delivers (defect D16, repaired), that pushing to a dead connection changes no map and querying it reports an error, and that "
               "a statement / a whole handler run / a client request writes only the map of its own connection (frame); that Kick / a closed socket only QUEUES "
               "the removal: push and query do not look at the closed flag, a push that arrives in that window is merged and returned by a query, the close handlers "
               "are handed the map as of the end of the turn, afterwards the connection is gone, no removal stays pending across operations, an answer to a closed "
               "socket is lost; that a clone (CloneBackSession) addresses the same connection and carries the reported uid and nothing else (no un-pushed values); end to end over all guarded histories a query returns the fold of the writes; "
               "over ALL histories, without guard and from any state, every forward event names the connection its message came from (front name, connection id) and "
               "carries the uid held by that connection's map as folded from the events BEFORE it (`every_forward_carries_identity_as_of_then`; `forwarded_envelope_names_the_connection` "
               "is the one-turn form without the hypotheses of `forward_carries_current`); a first message handed over by the reader goroutine before the front-end has registered "
               "the connection is a message of exactly the connection AddSession then registers (next id of its front; the pair is the two-operation history open, request), and when "
               "the client hangs up right behind it the message is still handled, its answer is lost, no closed flag is ever cleared by a message and the connection is gone at the end of the turn; inside the stated guard the reserved "
               "keys persist over all histories. Outside the guard three reachable bad outcomes are stated as theorems (non-string _ID kills forwarding; one "
               "unrepresentable value blocks every later push of that session object / silently re-addresses querying sessions to front \"n\"). The model is tied to the Go code on every run by executing both on generated op sequences (3+ connections x "
               "2 fronts x 2 back services x kept/made back sessions, scalars, nested lists/maps, ints beyond 2^53, unicode keys, unrepresentable values, "
               "malformed JSON, Kick from front-local and back-end handlers with pushes/queries in the window, requests for the rule-less type under changing node states and member order, connections whose first message (front-local, forwarded by rule, forwarded by the default route; "
               "request or notify) is queued before AddSession has run, half of the front-local ones with the hang-up queued behind it, followed by a made session that pushes to / queries the ghost) and the property predicate (an independent write-log bookkeeping in the driver) is evaluated on the implementation's own observations.",
    level_note="Trusted: Lean kernel, harness/driver line protocol and canonicalisation (maps sorted by key, connection ids as per-case ordinals, values as "
               "tokens raw~normalised with the normalised form computed by encoding/json in the harness), the handler zoo. encoding/json is abstracted as an "
               "idempotent `norm` (validated on every generated value). The theorems are about the model; the differential run ties it to the code on sampled "
               "histories. Push / query / forward are instantaneous in the model EXCEPT for the removal of a closed connection, which is queued to the end of the operation "
               "(the one asynchronous window modelled); a push still in flight while the client's next message is forwarded is not modelled; "
               "nor is TIME: the harness never advances the clock, so what the request timeout of app.Request does later (an error answer relayed to a client whose request was "
               "delivered to a service of another type or whose handler is parked; the callback of a push whose front never answers) is neither modelled nor observed — "
               "the model's `resp=none` means `no answer by the time the node is quiescent`. "
               "The reader-goroutine hand-over is modelled for the FIRST message of a connection (`stepOpenReq`: [AddSession, message] and, front-local only, [AddSession, message, "
               "RemoveSession]); a forwarded first message followed by a hang-up is not generated (the queued removal races the back-end handler's sends: nondeterministic in the "
               "single-process node), nor are two or more messages queued before AddSession. `handover_is_open_then_request` restates the definition of `stepOpenReq`: its content is the differential tie. "
               "`push_without_waiting_is_delivered_at_once`, `node_state_irrelevant_step`, `reach_iff_member`, `get_prefers_local`, `push_unrepresentable_noop`, "
               "`pushed_then_queried_is_stable` restate definitions of the model: their content is the differential tie. Value fidelity beyond idempotence of `norm` "
               "(ints -> float64, nesting) rests on the differential run only. Not covered: actor `remote` transport between services (bypassed by the bubble-node "
               "engine), concurrent use of one session object from several goroutines, a custom kick handler (SetKickHandler), ResetBackSession (unused), "
               "connection-id wrap-around, "
               "FrontSession.FromJson / SessionData.Reset (unused API). CloneBackSession is modelled (`clone`). A BackSession whose ServerId names a cluster member that is not a front-end: the sys.* entry "
               "there panics on the missing `sessions` component, the panic is recovered and answered as an error, so push and query report err at once as the model "
               "says (reproduced on the real node; generated and compared). Outside the guard (handlers writing `_ServerId`/`_NetId`, a non-string `_ID` at forward time is modelled) the "
               "code type-asserts and panics inside a recovered task: exercised in a separate `u.` stream, recorded in the histogram, not compared.",
    lean_targets=["Cell2v.Props.C10", "modeld_c10"],
    driver="modeld_c10",
    driver_root="Cell2v.Driver.C10",
    audit="Audit/C10.lean",
    required_theorems=["push_merges_keywise", "later_push_wins", "untouched_keys_persist", "front_is_fold_of_writes", "reserved_keys_persist",
                       "query_returns_whole_map", "get_prefers_local", "get_prefers_local_persists", "forward_carries_current",
                       "routing_sees_merged_map", "envelope_sees_pushed_uid", "push_to_dead_noop", "query_dead_errors",
                       "other_sessions_untouched", "statement_writes_only_its_target", "request_touches_only_its_connection",
                       "query_keeps_dirty", "set_query_push_delivers", "pending_survives_reads", "latest_write_wins",
                       "next_request_follows_push", "write_events_are_sets_and_pushes", "handler_writes_only_its_connection",
                       "target_stable", "maps_have_unique_keys", "dead_statements_change_nothing", "reset_same_value_still_pushed",
                       "node_state_irrelevant", "reach_iff_member", "away_front_unreachable",
                       "push_without_waiting_is_delivered_at_once", "session_keeps_its_connection",
                       "ruled_op_ignores_default_route", "default_route_ignores_session", "default_route_first_working",
                       "default_route_none_working", "default_route_reads_node_state", "forward_dropped_when_uid_not_string",
                       "push_resends_everything_ever_set", "unrepresentable_pending_blocks_every_push",
                       "unrepresentable_front_value_poisons_query", "query_after_any_history", "clone_carries_identity_only", "reserved_key_write_retargets_session",
                       "kick_keeps_the_session", "kick_queues_removal", "push_query_ignore_closed_flag",
                       "push_in_closing_window_is_merged", "close_handlers_see_end_of_turn_map",
                       "queued_removals_run_at_turn_end", "no_removal_pending_between_turns", "answer_to_closed_socket_is_lost",
                       "forwarded_envelope_names_the_connection", "first_message_before_registration_is_of_the_new_connection",
                       "handover_is_open_then_request", "step_evs_shape", "stepF_fwd_first", "every_forward_carries_identity_as_of_then",
                       "sstep_closing_mono", "request_keeps_closed_flags", "request_answer_ok_or_none",
                       "hangup_after_first_message_removes_the_connection"],
    harness_pkg="./c10",
    mode="diff",
    reset_prefix="reset",
    runs={
        "quick": [dict(name="main", env={"VERIF_N": "1500"}, timeout=240)],
        "thorough": [dict(name="main", env={"VERIF_N": "12000"}, timeout=1500),
                     dict(name="seed2", env={"VERIF_N": "8000"}, seed_offset=1000, timeout=1500),
                     dict(name="seed3", env={"VERIF_N": "8000"}, seed_offset=2000, timeout=1500)],
    },
    trivial=r"^(ok|closed|bad-op|nohandle|unguarded|n\d+|at=none resp=(err|none)|r=)?$",
    rule="op lines generated from one PRNG (VERIF_SEED): cases after `reset`; node cases (3 of 4): 2-4 connections on fronts gate-1/gate-2, most given a "
         "chat instance by a front-local handler, then 15-45 operations: Kick (1 in 14: a front-local handler kicks its own connection and goes on setting/reading in the same turn; "
         "a back-end handler of a forwarded request or a held session keeps the front-end busy, kicks, sets and pushes without waiting, then at most once waits for a push/query — "
         "the batch meets the closed-but-not-yet-removed session; then the gone connection's next message and its holders), `clone/<h>` statements (CloneBackSession kept under a new handle, 1 in 8 back-end scripts; the clone acts later), sessions addressing a cluster member that is not a front-end, requests for the rule-less type `room` (1 in 5 forwarded "
         "requests and after half of the view changes; members in two orders), `openreq` (half of the connections opened inside a case: the front-end is held inside a task of its own while the client connects, shakes hands and sends its first "
         "message — 3 in 5 for the rule-less type `room`, 1 in 5 front-local, 1 in 5 `chat` — so that AddSession and the message task are queued in that order; a third start with "
         "query;get/_NetId, a third with set chatid;push; half of the front-local ones with `cl=1`: the client hangs up before the front-end is released, then a session made for the ghost "
         "sets, pushes, queries, and a snapshot; half of the others are followed by the connection's next forwarded request and a snapshot; the harness counts ASSUMPTION-BROKEN.openreq-front-not-busy "
         "if the connection had an id or the handler had started before the release), every observation of an op that removed connections ends with what each close handler saw (`closed=`);  front-local and forwarded client requests/notifies whose handler runs a script of "
         "1-6 session statements (get/set/bind/id/push/query/json/keep over keys chatid, _ID, ascii/unicode/empty/blank keys and keys that merely look reserved ('_', '_x', '__', '_zone', '_id', '_NetId2', '_serverid', ...); values: scalars, nested lists/maps, "
         "ints beyond 2^53, float32, typed slices, invalid-UTF-8 and HTML strings, NaN/Inf; chatid mostly a live instance, sometimes unknown/non-string/empty; "
         "_ID sometimes not a string), scripts on kept and on directly made back sessions (live, closed, never-existing connections, unknown front), "
         "close (a third of them with an application close callback: benign, panicking per-connection AddOnSessionOnClose, panicking sessions handler) mostly followed at once by a push/query from a session that still addresses the closed connection, open, the A/B/A pattern (two made sessions on different services: A sets k=v and pushes, B sets k=w and pushes, A sets k=v AGAIN and pushes) and kept sessions re-setting a key to the value they set before, cluster-view changes (every service re-published as its own member in a random node state Init/Working/Retiring/Retired, fronts mostly not Working, now and then a front or a back service missing) mostly followed at once by a query/push of a held session, pushes the handler does not wait for before it answers (`pushnw`; every answered request also reports the connection's map at the moment the front relays the answer, taken by a wrapper around the session's IClientSession), handlers that suspend without answering (`park`: they keep their HandlerContext, not the session), 1-3 requests of other connections handled by the same service type meanwhile, then `resume` (re-read the session from the context, set, push, answer), white-box snapshots of every front map; pure cases (1 of 4): bare FrontSession/BackSession objects, UpdateFromJson/FromJson incl. "
         "malformed JSON; last an unguarded stream (reserved keys written; recorded only); corpus first. A case is non-trivial when its observation carries "
         "handler results or a snapshot; distinct = distinct (op, observation) pairs",
    trusted_base=[
        "Lean 4.33.0 kernel; axioms of every property theorem audited on each run (allowed: propext, Classical.choice, Quot.sound)",
        "hand-written model lean/Cell2v/Model/SessionData.lean tied to the Go code by the differential run of this check (harness/c10 + modeld_c10)",
        "encoding/json abstracted as a normalisation `norm` on values (idempotent; identity on valid-UTF-8 strings and on uint32 connection ids); "
        "the harness computes each value's normal form with encoding/json itself and validates idempotence (ASSUMPTION-BROKEN.* counters)",
        "Go maps modelled as association lists with unique keys (proved invariant); iteration order not observed (maps printed sorted by key)",
        "the bubble-node engine (harness/node): real app.Node/cluster view/NodeServices/ClientSessions/handler+forwarder components and real "
        "session.ClientSession over net.Pipe inside testing/synctest; actor `remote`, TCP/WS acceptors and etcd are bypassed",
        "harness canonicalisation (connection ids as per-case ordinals using the fact that SerialIdService hands out consecutive ids — checked on every open; "
        "errors collapsed to ok/err; panics of a guarded statement mapped to 'panic')",
    ],
    assumptions=[
        "guard of the conditional theorems: handlers never Set the reserved keys _ServerId/_NetId and only set JSON-representable values; session keys are valid UTF-8",
        "a session object is used by one goroutine at a time (the service's own); fewer than 2^32 connections per front",
        "uids bound through a front-local Bind are valid UTF-8 (they travel in a protobuf string field)",
        "messages one service sends to another are handled in the order they were sent (actor mailbox FIFO): a push not waited for precedes the handler's "
        "answer; what a back-end sends in one turn to a busy front-end is handled as one batch before the tasks the front-end posts to itself meanwhile "
        "(observed on every run in the single-process node; the `remote` transport is not exercised)",
        "tasks posted to one scheduler (utils/sche) run in the order they were posted: AddSession, the first message, RemoveSession of one connection are posted by its single reader "
        "goroutine in that order (observed on every `openreq`; the scheduler's queue itself is not modelled)",
    ],
)
