CONFIG = dict(
    id="C20",
    engine="pure",
    technique="Lean 4 theorems (index invariant by induction over all add/move/remove histories, zoned query = brute-force scan via "
              "monotonicity of the coordinate-to-zone function and |dx| <= dist <= r, removed ids never reported) over a hand-written exact-arithmetic "
              "model + differential correspondence with the real ZoneSpace/SimpleSpace + the property predicate on the implementation's own results",
    level_text="Machine-checked proof in Lean 4, over exact arithmetic (fixed-point coordinates, unbounded integers), that after ANY history of "
               "AddEntity/UpdateEntityPos/RemoveEntity every live entity sits exactly once in the zone slice of its current position and nowhere else, that "
               "SearchCircleTargets reports a duplicate-free permutation of what a scan over all current positions reports for every query point and radius "
               "(inside, on zone borders, outside the map, negative/zero/huge radius), that removed ids are never reported, that no slice index is out of "
               "bounds and UpdateEntityPos never reaches its panic. The model is tied to the Go code on every run: on the exact stream (quarter-unit "
               "coordinates where float32 is exact) the model must reproduce ZoneSpace's and SimpleSpace's results verbatim; on the float stream (arbitrary "
               "float32 incl. 1e19..3e38, tiny, NaN/Inf) the property predicate compares the zoned result with a brute-force scan that uses the same Pos.Distance.",
    level_note="Partial with respect to floating point: the theorems are about exact arithmetic; float32 rounding, overflow of the float-to-int conversion "
               "(defect D12, repaired; witness theorem d12_witness) and non-finite inputs are covered by testing only (float stream), where a disagreement "
               "is excused only for an entity whose computed distance is within 2 ulp of the radius or whose position is non-finite, and queries with a "
               "non-finite centre/radius are recorded but not judged. Trusted: Lean kernel, harness/driver line protocol and canonicalisation (sorted ids).",
    lean_targets=["Cell2v.Props.C20", "modeld_c20"],
    driver="modeld_c20",
    driver_root="Cell2v.Driver.C20",
    audit="Audit/C20.lean",
    required_theorems=["index_agrees_with_position", "search_eq_bruteforce", "search_reports_exactly_within", "removed_never_reported",
                       "absent_never_reported", "search_negative_radius", "history_never_panics", "positions_refine",
                       "zone_clamp_trunc_eq_floor_clamp", "zone_mono", "zone_index_in_bounds", "zone_fix_conservative",
                       "init_geometry_ok", "d12_witness"],
    harness_pkg="./c20",
    # `accept` = the differential check performed by the driver itself: for an exact-stream op the model's observation must EQUAL the
    # implementation's (anything else is rejected); float-stream ops are outside the model (exact arithmetic) and are accepted as they are —
    # they are judged by the spec monitor only.
    mode="accept",
    reset_prefix="reset",
    runs={
        "quick": [dict(name="main", env={"VERIF_N": "60000"}, timeout=240)],
        "thorough": [dict(name="main", env={"VERIF_N": "400000"}, timeout=1500),
                     dict(name="exact", env={"VERIF_N": "600000", "VERIF_STREAM": "x"}, seed_offset=1000, timeout=1500),
                     dict(name="float", env={"VERIF_N": "1500000", "VERIF_STREAM": "f"}, seed_offset=2000, timeout=1500)],
    },
    trivial=r"^(ok|bad-op|bad-geo|z= b=|z= b= e=[0-9,]* nf=[01])?$",
    rule="op lines generated from one PRNG (VERIF_SEED), cases of 20-70 ops after a reset; exact stream: 10 geometries (factory +-30/5, the repo test's, "
         "0.25-unit zones, a single zone, zone size 3 and 7 with non-multiple extents, zones larger than the map, a thin strip), ids from a small pool so that "
         "re-adds, moves and removals hit live ids, coordinates grid-aligned / one quarter off a border / on the map bounds / outside / extreme / random, "
         "moves within and across zones, radii 0, negative, huge, at / just below / just above the exact distance to a live entity (3-4-5 style offsets), "
         "zone-scale and random; float stream: 7 geometries, coordinates on zone borders +-2 ulp, quarter grid, outside, huge (1e10..3.4e38, both signs), tiny "
         "and denormal, random bit patterns, (in 1/8 of the cases) NaN/Inf, radii 0, negative, huge (D12 shape: centre near the map), tiny, the computed "
         "distance to a live entity +-3 ulp with the entity on the rim along an axis; non-trivial = a query with a non-empty result",
    trusted_base=[
        "Lean 4.33.0 kernel; axioms of every property theorem audited on each run (allowed: propext, Classical.choice, Quot.sound)",
        "hand-written model lean/Cell2v/Model/Space.lean (exact arithmetic, quarter units) tied to the Go code by the exact stream of this check "
        "(harness/c20 + modeld_c20 accept: model observation must equal the implementation's)",
        "float32 arithmetic, float-to-int conversion and non-finite values are NOT modelled: tested on the float stream against a brute-force scan "
        "in the harness that uses the same vector.Vector3.Distance",
        "harness canonicalisation (ids sorted, duplicates kept; panics caught by recover and mapped to 'panic'); accept-everything ISearcher",
    ],
    assumptions=[
        "exact stream: all coordinates, radii and geometry are multiples of 1/4 with |coordinate| <= 256, |radius| <= 2048, 0.25 <= zone size <= 64: "
        "x-begin, x+-r and the squared distance (< 2^20 in 1/16 units) are exact in float32; (n-begin)/step never crosses an integer by rounding "
        "(a non-integer quotient is >= 1/(4*step) away from one, far above half an ulp); sqrt(S) and r differ by >= 1/(32*sqrt S) > half an ulp whenever "
        "S != r^2, so `dist > r` decides exactly S > r^2",
        "float stream: a zoned-vs-scan disagreement is excused for entities whose computed distance is within 2 ulp of the radius "
        "(the statement's 'up to floating-point rounding for entities exactly at the radius') and for entities at a non-finite position; "
        "queries with a NaN/Inf centre or radius are recorded (histogram f:q:non-finite-query*) and not judged",
        "ZoneSpace.AddEntity ignores a live id while SimpleSpace.AddEntity moves it; the reference contract is the zoned one "
        "(the harness hands SimpleSpace only fresh ids)",
        "Init is called with begin <= end and a positive zone size (init_geometry_ok); other geometries are rejected by the harness before Init",
    ],
)
