CONFIG = dict(
    id="C20",
    engine="pure",
    technique="Lean 4 theorems (index invariant by induction over all add/move/remove histories, zoned query = brute-force scan via "
              "monotonicity of the coordinate-to-zone function and |dx| <= dist <= r, removed ids never reported; refinement of the model of SimpleSpace "
              "(map + slice) to its upsert-map contract by an inductive invariant; zoned = SimpleSpace on the harness's feeding discipline; searcher with an "
              "arbitrary Validate predicate) over a hand-written exact-arithmetic "
              "model + differential correspondence with the real ZoneSpace/SimpleSpace + the property predicate on the implementation's own results",
    level_text="Machine-checked proof in Lean 4, over exact arithmetic (fixed-point coordinates, unbounded integers), that after ANY history of "
               "AddEntity/UpdateEntityPos/RemoveEntity every live entity sits exactly once in the zone slice of its current position and nowhere else, that "
               "SearchCircleTargets reports a duplicate-free permutation of what a scan over all current positions reports for every query point and radius "
               "(inside, on zone borders, outside the map, negative/zero/huge radius), that removed ids are never reported, that no slice index is out of "
               "bounds and UpdateEntityPos never reaches its panic; that the model of simple.go (map `entities` + slice `values`, AddEntity of a live id moves it, "
               "RemoveEntity deletes from both) holds after any history exactly the upsert-map of that history and its query is literally the duplicate-free scan of it "
               "(simplespace_search_exact, no hypothesis); that ZoneSpace reports a permutation of what the SimpleSpace IMPLEMENTATION reports when SimpleSpace is handed "
               "the same operations minus the adds of ids that are live at that moment (zoned_eq_simplespace; the two implementations differ on such an add: "
               "add_live_id_diverges); that with a searcher whose Validate is ANY predicate both spaces report exactly the accepted within-range ids, once "
               "(search_with_validator, simplespace_with_validator), for a searcher object that starts empty (fresh_searcher_exact; a reused FindPlayers-like "
               "object repeats its earlier ids: searcher_reuse_witness - the repository creates one per query); that a query through "
               "searchers.FindPlayers (Validate modelled statement by statement: owner, id unknown to the world, dead unit, unit type other than avatar are rejected) "
               "reports in ANY scene world exactly the within-range live avatars other than the owner, once (findplayers_reports_exactly; the real FindPlayers is "
               "driven on every run against a stub world through the ops unit / q fp=); that a query leaves nothing behind in either index, so "
               "every one of n consecutive repetitions of a query reports the same exact set for EVERY n (repeated_query_stable; tied by the ops qn/fqn, which put up to "
               "131074 queries on one space instance); that the only Init call site (the factory) "
               "satisfies Init's precondition (factory_geometry_ok). The model is tied to the Go code on every run: on the exact stream (quarter-unit "
               "coordinates where float32 is exact) the model must reproduce verbatim the results of ZoneSpace, of a SimpleSpace handed only fresh ids and of a second "
               "SimpleSpace handed every op (its own contract), with an accept-everything searcher and with a searcher that rejects an owner id, on ordinary cases "
               "and on crowd cases (up to ~100 entities packed into one zone, then drained); on the float stream (arbitrary "
               "float32 incl. 1e19..3e38, tiny, NaN/Inf) the property predicate compares the zoned result with a brute-force scan that uses the same Pos.Distance, and SimpleSpace's result must equal that scan exactly.",
    level_note="Partial with respect to floating point: the theorems are about exact arithmetic; float32 rounding, overflow of the float-to-int conversion "
               "(defect D12, repaired; witness theorem d12_witness) and non-finite inputs are covered by testing only (float stream), where a disagreement "
               "is excused only for an entity whose computed distance is within 2 ulp of the radius or whose position is non-finite, and queries with a "
               "non-finite centre/radius are recorded but not judged (zoned result; SimpleSpace-vs-scan, duplicates, dead ids and rejected owners are judged there too). "
               "searchers/findplayers.go is driven (NewFindPlayers per query) against a stub of entity.IEntity/IWorld/IBaseUnit that implements only GetId, GetWorld, "
               "GetEntity, GetComponent(BaseUnit), IsDead, GetUnitType (any other call panics and is reported); an entity WITHOUT a BaseUnit component is not generated "
               "(the single-value type assertion in Validate panics on a nil component - unreachable as long as every scene entity carries one); searchers.FindNearestEnemy "
               "is not driven (covered only by the arbitrary-Validate theorem search_with_validator as far as Validate goes; its keep-the-nearest AddCandidate is not modelled). Trusted: Lean kernel, harness/driver line protocol and canonicalisation (sorted ids).",
    lean_targets=["Cell2v.Props.C20", "modeld_c20"],
    driver="modeld_c20",
    driver_root="Cell2v.Driver.C20",
    audit="Audit/C20.lean",
    required_theorems=["index_agrees_with_position", "search_eq_bruteforce", "search_reports_exactly_within", "removed_never_reported",
                       "absent_never_reported", "search_negative_radius", "history_never_panics", "positions_refine",
                       "zone_clamp_trunc_eq_floor_clamp", "zone_mono", "zone_index_in_bounds", "zone_fix_conservative",
                       "init_geometry_ok", "d12_witness",
                       "simplespace_search_exact", "zoned_eq_simplespace", "add_live_id_diverges", "search_with_validator",
                       "simplespace_with_validator", "fresh_searcher_exact", "searcher_reuse_witness", "factory_geometry_ok",
                       "repeated_query_stable", "findplayers_reports_exactly"],
    harness_pkg="./c20",
    # `accept` = the differential check performed by the driver itself: for an exact-stream op the model's observation must EQUAL the
    # implementation's (anything else is rejected); float-stream ops are outside the model (exact arithmetic) and are accepted as they are —
    # they are judged by the spec monitor only.
    mode="accept",
    reset_prefix="reset",
    runs={
        "quick": [dict(name="main", env={"VERIF_N": "60000"}, timeout=240)],
        "thorough": [dict(name="main", env={"VERIF_N": "400000"}, timeout=1500),
                     dict(name="exact", env={"VERIF_N": "600000", "VERIF_STREAM": "x"}, seed_offset=1000, timeout=1500),
                     dict(name="float", env={"VERIF_N": "1500000", "VERIF_STREAM": "f"}, seed_offset=2000, timeout=1500)],
    },
    trivial=r"^(ok|bad-op|bad-geo|z= b= s=( n=[0-9]+ same=[0-9]+)?|z= b= s= e=[0-9,]* nf=[01]( n=[0-9]+ same=[0-9]+)?)?$",
    rule="op lines generated from one PRNG (VERIF_SEED), cases of 20-70 ops after a reset (1 case in 12: a crowd case of 60-400 ops, in either stream: 17-106 "
         "entities packed into one zone, a few elsewhere, queries while it fills, early entities moving, then drained by removals and moves out of the zone down to "
         "0-8, then re-adds/moves/queries; the slices behind a zone and behind SimpleSpace grow through several capacities and empty again); 1 ordinary case in 10 "
         "is a long-lived space: one op qn/fqn repeats a query n times (n up to 131074) on the same ZoneSpace and SimpleSpaces, n chosen around the widths of 8- and "
         "16-bit counters (256, 65536, 131072) so that either the ordinary ops that follow straddle query no. 256/65536/131072 of that space or the repetition itself "
         "crosses it; every repetition's result is compared with the first and the first differing one is reported and judged by the spec monitor; a quarter of the queries "
         "use a searcher that rejects an owner id, another quarter the real searchers.FindPlayers owned by an id, with `unit` ops (1 in 9 steps) declaring ids dead / "
         "monster / exit / camera / test / none / unknown to the world / live avatar again; exact stream: 11 geometries (the space made by factory.CreateZoneSpace() itself, +-30/5, the repo test's, "
         "0.25-unit zones, a single zone, zone size 3 and 7 with non-multiple extents, zones larger than the map, a thin strip), ids from a small pool so that "
         "re-adds, moves and removals hit live ids, coordinates grid-aligned / one quarter off a border / on the map bounds / outside / extreme / random, "
         "moves within and across zones, minimal steps (1-2 quarter units) over a border or corner of the entity's zone each followed by a query whose circle holds the "
         "entity but stays beyond that border, radii 0, negative, huge, at / just below / just above the exact distance to a live entity (3-4-5 style offsets), "
         "zone-scale and random; float stream: 7 geometries, coordinates on zone borders +-2 ulp, quarter grid, outside, huge (1e10..3.4e38, both signs), tiny "
         "and denormal, random bit patterns, (in 1/8 of the cases) NaN/Inf, radii 0, negative, huge (D12 shape: centre near the map), tiny, the computed "
         "distance to a live entity +-3 ulp with the entity on the rim along an axis; non-trivial = a query with a non-empty result",
    trusted_base=[
        "Lean 4.33.0 kernel; axioms of every property theorem audited on each run (allowed: propext, Classical.choice, Quot.sound)",
        "hand-written model lean/Cell2v/Model/Space.lean (ZoneSpace + Zone, SimpleSpace, searcher with a Validate predicate, FindPlayers.Validate over a scene world; exact arithmetic, quarter units) "
        "tied to the Go code by the exact stream of this check (harness/c20 + modeld_c20 accept: the three model observations z= b= s= must equal the implementation's)",
        "float32 arithmetic, float-to-int conversion and non-finite values are NOT modelled: tested on the float stream against a brute-force scan "
        "in the harness that uses the same vector.Vector3.Distance",
        "harness canonicalisation (ids sorted, duplicates kept; panics caught by recover and mapped to 'panic'); the harness's ISearcher "
        "(accepts everything, or everything but one owner id) stands for an arbitrary searcher; searchers.FindPlayers itself is driven against the harness's stub "
        "world (stubEntity/stubWorld/stubUnit: ids never described are live avatars); FindNearestEnemy is not driven",
        "define.MaxWidth = 30 / zone size 5 of the factory are tied behaviourally only (reset kind=x default: model constant Geo.factory vs factory.CreateZoneSpace())",
    ],
    assumptions=[
        "exact stream: all coordinates, radii and geometry are multiples of 1/4 with |coordinate| <= 256, |radius| <= 2048, 0.25 <= zone size <= 64: "
        "x-begin, x+-r and the squared distance (< 2^20 in 1/16 units) are exact in float32; (n-begin)/step never crosses an integer by rounding "
        "(a non-integer quotient is >= 1/(4*step) away from one, far above half an ulp); sqrt(S) and r differ by >= 1/(32*sqrt S) > half an ulp whenever "
        "S != r^2, so `dist > r` decides exactly S > r^2",
        "float stream: a zoned-vs-scan disagreement is excused for entities whose computed distance is within 2 ulp of the radius "
        "(the statement's 'up to floating-point rounding for entities exactly at the radius') and for entities at a non-finite position; "
        "queries with a NaN/Inf centre or radius are recorded (histogram f:q:non-finite-query*) and not judged; the oracle shares vector.Vector3.Distance with "
        "the code: beyond |dx| ~ 1.8e19 the float32 product dx*dx is +Inf, so an entity at distance 1e20 is reported by NEITHER implementation for radius 1e21 "
        "(reproduced: fadd at (1e20,0,0), fq at the origin r=1e21 -> z= b= s= all empty); such queries are counted "
        "(histogram f:q:float32-distance-overflow-hides-an-in-range-entity(recorded)) and not judged",
        "ZoneSpace.AddEntity ignores a live id while SimpleSpace.AddEntity moves it (proved: add_live_id_diverges); the property's reference contract is the "
        "zoned one: the SimpleSpace compared with the zoned index (b=) is handed only fresh ids - modelled as dropLiveAdds and proved equivalent "
        "(zoned_eq_simplespace) - while a second SimpleSpace (s=) receives every op and is checked against its own upsert contract",
        "Init is called with begin <= end and a positive zone size (init_geometry_ok); true of the only call site in the repository (factory_geometry_ok, "
        "driven through factory.CreateZoneSpace()); other geometries (make with a negative length / zero zones: panics) are rejected by the harness before Init",
        "queries are read-only: the model's query returns no state (mirrors the code: SearchCircleTargets assigns no field of ZoneSpace/Zone/ZoneEntityInfo/"
        "SimpleSpace); tied behaviourally by qn/fqn for up to 131074 consecutive queries per space instance (beyond that, e.g. a 32-bit stamp wrapping, nothing is observed)",
        "searcher objects are created per query (space/utils: NewFindPlayers / NewFindNearestEnemy per call); a reused FindPlayers keeps its earlier results (searcher_reuse_witness)",
    ],
)
