CONFIG = dict(
    id="C11",
    engine="pure (+ translator)",
    technique="Lean 4 theorems over a hand-written model of ModList.Filter / baseapp.App (state machine driven by arbitrary completion-event "
              "sequences) + differential correspondence with the real ModList/App under scripted modules + a go/ast translator that regenerates "
              "the control-flow terms of every shipped module's Start/Stop on each run, over which exactly-once completion is decided by the kernel",
    level_text="Machine-checked proof in Lean 4 that, for every module list length and every chronological sequence of completion events "
               "(synchronous or delayed, from any goroutine) in which each started module completes at most once, the log of ModList.Filter is "
               "canonical: modules entered one at a time in registration order (reverse for Stop), each directly after its predecessor's success, "
               "the first failure is followed by exactly finish(false), finish is invoked at most once, and exactly once (last, with the overall "
               "outcome) when every started module completes; unconditionally no module is entered twice or out of order and mods[index] stays in range; "
               "App.Start/Stop act only from Prepared/Normal and the App's start phase is one Filter run. The Start/Stop bodies of all modules under "
               "node/modules are translated from the working tree on every run into a small statement language and the kernel decides that every path "
               "calls next exactly once. The model is tied to the real code by ~20k generated ops per run (all lengths 0-5 x failure position x "
               "sync/delayed mask x phase exhaustively, random cases incl. panics and double completion) compared log by log.",
    level_note="Trusted: Lean kernel; the harness/driver line protocol; the translator (go/ast, conservative: constructs it does not interpret and that "
               "involve the callback become Stmt.bad and fail the obligation; branch conditions are opaque and independent; opaque statements are "
               "assumed to terminate and not to panic). Concurrent invocations of next from two goroutines at the same instant (a data race on the "
               "captured index, possible only if a module completes twice) are not modelled: the harness serialises completions.",
    gen=["cd harness && go1.26 run ./extract/c11 -out ../lean/Cell2v/Gen/C11Modules.lean",
         # self-test of the translator's conservativeness on a zoo of 27 constructs (testdata/root/node/modules/zoo)
         "cd harness && go1.26 test -vet=off ./extract/c11"],
    lean_targets=["Cell2v.Props.C11", "modeld_c11"],
    driver="modeld_c11",
    driver_root="Cell2v.Driver.C11",
    audit="Audit/C11.lean",
    required_theorems=["start_order", "stop_reverse", "one_at_a_time", "first_failure_stops", "finish_at_most_once",
                       "finish_exactly_once", "disciplined_log_canonical", "growing_list_canonical", "late_modules_started", "stop_ignores_growth", "order_unconditional", "index_in_range",
                       "app_state_guard", "start_callback_sees_normal", "app_start_once", "app_stop_only_after_start_success", "app_start_phase_is_filter", "app_stop_phase_is_filter",
                       "shipped_modules_complete_once", "shipped_modules_found"],
    harness_pkg="./c11",
    mode="diff",
    reset_prefix="reset",
    runs={
        "quick": [dict(name="main", env={"VERIF_N": "1500"}, timeout=240)],
        "thorough": [dict(name="main", env={"VERIF_N": "40000"}, timeout=800),
                     dict(name="seed2", env={"VERIF_N": "40000", "VERIF_MAXN": "3"}, seed_offset=1000, timeout=800)],
    },
    trivial=r"^(ok|-|noop|over|bad-op)?$",
    rule="cases = `reset` + ops on one module list (plain ModList, baseapp.App, or node/app.App driven through StartNode/StopNode with a launch mode of the harness; node cases cycle through service lists none / all configured / one missing from the `services:` map first, middle, last / all missing, so that StartServices runs its skip path inside the completion closure): (a) every path of every translated shipped Start/Stop body replayed as a scripted module at "
         "each position of a 3-module list; (b) exhaustive: every list length 0..5 (thorough 0..7) x failure position or none x every "
         "synchronous/delayed mask x phase, delayed modules completed through another goroutine / a timer / directly; (b2) re-entrant callbacks: the start-completion callback issues Stop directly or through a goroutine it waits for, the stop-completion callback issues Start/Stop (only patterns that do not run under ModList.Filter's non-reentrant lock: module 0 completes later), n 1..4 x object x callback x failure position x delays; (b3) a module itself issues Stop/Start from inside its Start/Stop (directly, or by handing a Stop to another goroutine) at every position, phase, sync/delayed chain, on App and node; (b4) growing lists: a module registers a further module (AddModule) right before completing — from its delayed completion or synchronously in a chain outside Filter — at every position, and during a stop phase; node cases also cycle the launch-mode name (registered / empty / unregistered with a default launch func); (b5) the real ClusterModule / WelcomeModule executed at every position of a node (clustering off: success; clustering on with a port-less own address: StartMember fails early, no etcd needed) against the outcome the translated bodies promise; (b6) delayed completions delivered by the application's own run service timer (GetTimerMgr().After) in both phases; (c) random cases from one PRNG "
         "(VERIF_SEED): length 0..6, App or plain ModList, scripts T/F/delayed/panic-before/panic-after, premature or repeated Start/Stop, and in "
         "`neg` cases double/late/stale completions. An op is non-trivial when its observation contains at least one log token "
         "(not ok / - / noop / over); distinct = distinct (op, observation) pairs",
    trusted_base=[
        "Lean 4.33.0 kernel; axioms of every property theorem audited on each run (allowed: propext, Classical.choice, Quot.sound)",
        "hand-written model lean/Cell2v/Model/Modules.lean (ModList.Filter closures, App state guard) tied to the Go code by the differential run of this check (harness/c11 + modeld_c11)",
        "translator harness/extract/c11 (go/ast, ~500 lines): Start/Stop bodies under node/modules -> Stmt terms (lean/Cell2v/Gen/C11Modules.lean) and call sequences per path (JSON replayed through the real ModList)",
        "harness canonicalisation: log tokens only (module index, phase, bool); panics escaping the code under test mapped to 'panic', no return within 10 s to 'blocked'",
    ],
    assumptions=[
        "invocations of next are serialised (no two goroutines inside next at the same instant); under at-most-once completion only one module is outstanding, so this holds by the theorem itself",
        "AddModule during a phase is modelled between completion events only (it takes the same lock as Filter, so it cannot run inside Filter's synchronous chain); the App-level theorems are for a fixed list; finish itself returns normally",
        "shipped modules: branch conditions are independent and opaque; statements that do not mention the callback terminate and do not panic; a callback handed to other code (timer, helper function) is not interpreted and fails the obligation",
        "App.Prepare is called once per App (a second Prepare re-opens the Start guard by design)",
        "a completion callback that re-enters Start/Stop runs outside ModList.Filter (on the unchanged tree a Stop issued from the start callback of an all-synchronous module list deadlocks on Filter's non-reentrant lock; such cases are not generated)",
        "node/app: StartNode is called once per node (the launch mode's PrepareModules runs before the App guard, a second StartNode would add the modules again); StartServices/StartNodeCtrl run with no services and node control off",
    ],
)
