CONFIG = dict(
    id="C11",
    engine="pure (+ translator; virtual clock for the clock=v cases)",
    technique="Lean 4 theorems over a hand-written model of ModList.Filter, the callback wrapper of ModList.Start/Stop (panic recovery), baseapp.App and "
              "node/app.App.StartNode/StopNode around baseapp.LaunchApp (state machines driven by arbitrary sequences of module actions / completion "
              "events) + differential correspondence with the real ModList / App / node under scripted modules, partly under testing/synctest's "
              "virtual clock + a go/ast translator that regenerates the control-flow terms of every shipped module's Start/Stop on each run, over "
              "which exactly-once completion is decided by the kernel",
    level_text="Machine-checked proof in Lean 4 that, for every module list length and every chronological sequence of completion events "
               "(synchronous or delayed, from any goroutine) in which each started module completes at most once, the log of ModList.Filter is "
               "canonical: modules entered one at a time in registration order (reverse for Stop), each directly after its predecessor's success, "
               "the first failure is followed by exactly finish(false), finish is invoked at most once, and exactly once (last, with the overall "
               "outcome) when every started module completes; unconditionally no module is entered twice or out of order and mods[index] stays in range. "
               "ModList.Start/Stop's wrapper is modelled on top (module actions report / panic): a module that panics before reporting counts as its "
               "failure report - finish(false) exactly once, no later module entered, whatever arrives later (late reports of that module, panics "
               "after a report) has no effect; with 'every entered module reports at most once and reports or panics' finish is invoked exactly once "
               "(D21 fixed; the pre-fix behaviour is kept as wrunOld with the witness d21_witness). App.Start/Stop act only from Prepared/Normal, "
               "the App's start phase is one Filter run and so is its stop phase, which is begun at most once when the start phase's modules keep the "
               "discipline (app_stop_once: no side condition left). node/app: StartNode's three refusals (no nodes table, unknown id, no launch mode) "
               "do nothing at all, an accepted StartNode is App.Start over the modules the launch mode registers, the caller's callbacks are invoked "
               "exactly when and with what the App's phases report, after StartServices/StartNodeCtrl - also on failure. The caller's completion "
               "callbacks are optional where the code tests `finish != nil` (App.Start, App.Stop, StopNode): the App's transitions never look at them "
               "(they exist only in the caller-level log plainLog / nodeLog, from which dropAbsent removes the invocations of an absent one): leaving "
               "one out changes no App-level event and no state (absent_callback_same_app), it is never invoked and a present one exactly as before "
               "(absent_callback_never_invoked, plain_callbacks_are_app_reports), and a Stop after a start phase that reported true is accepted "
               "without it (start_without_callback_stop_accepted). App.Start is composed with ModList's wrapper by a theorem of its own: for any "
               "actions of the modules the App's start-phase log is the wrapper model's log wrun and the App ends in Normal iff that log holds "
               "finish(true), else in Starting (app_start_is_wrapper_run); under the modules' discipline finish exactly once and Normal iff it was "
               "true (app_start_completes_exactly_once). The Start/Stop bodies of all "
               "modules under node/modules are translated from the working tree on every run into a small statement language; the kernel decides that "
               "every path calls next exactly once, all six bodies are found by name, and (shipped_module_one_next / once_modules_phase_completes) any "
               "path cut short by a panic of one of its statements still gives exactly one next call of the wrapper, which composes to exactly one "
               "finish for any list of such modules. Nested calls: a module that reports inside its Start/Stop runs the rest of the phase and finally "
               "the completion callback inside that call; `Chain` models that Go stack (one deferred recover per active doFunc) with a completion "
               "callback that may panic: its log is the wrapper model's log for whatever the modules do (chain_refines_wrapper: all theorems above "
               "apply), every active module but the innermost has its reported flag set (chain_stack_reported), and from every reachable state a "
               "panicking callback changes neither the log (how often finish is invoked, what is entered) nor the flags nor Filter's index - it only "
               "cuts active Start/Stop calls short (callback_panic_only_unwinds); a Start/Stop call is unwound by at most one panic there (chain_panics_disciplined: proved, no longer assumed), so "
               "that only the modules' reports are left to a hypothesis (chain_mdisciplined); reported_flag_order_witness shows what happens with the wrapper's "
               "two statements swapped. The model is tied to the real code by ~20k generated ops per run (all lengths 0-5 x failure "
               "position x sync/delayed mask x phase exhaustively; panics before/after the report at every position incl. late reports; silences of "
               "1 ms .. 25 h under a virtual clock during which nothing may happen; node refusals and repeated StartNode; random cases incl. double "
               "completion; completion callbacks that panic at every length 0-3 x failure position and kind x sync/delayed mask x phase; absent callbacks (Start(nil) / Stop(nil) / StopNode(nil), "
               "one or both) at every length 0-3 x failure position x mask x failing phase, each followed by the calls that reveal the App's state; "
               "StartNode(id, nil), whose closure calls the nil callback all the same = a callback that panics without a token) compared log by "
               "log; every begin / fire of a case that fits `Chain` (~70% of them) is replayed on Chain.step as well and must give the same Filter events "
               "and the same escape of the panic. The real ClusterModule, WelcomeModule and ActorSystemModule are executed at every position of a node, "
               "the actor module also with the node's address occupied / not local (remote.Start panics: the phase must end there with false).",
    level_note="Trusted: Lean kernel; the harness/driver line protocol; the translator (go/ast, conservative: constructs it does not interpret and that "
               "involve the callback become Stmt.bad and fail the obligation; branch conditions are opaque and independent; opaque statements are "
               "assumed to terminate - a synchronous panic of one is covered by the wrapper theorems, a panic on another goroutine is not). Concurrent "
               "invocations of next from two goroutines at the same instant (a data race on the captured index / the wrapper's flags, possible only "
               "if a module completes twice or reports while its Start/Stop is panicking) are not modelled: the harness serialises completions. "
               "ModList.Filter's non-reentrant lock is not modelled: a Stop/Start/AddModule issued by a completion callback or a module while the "
               "synchronous chain of a Filter call is still running blocks forever in the Go code (reproduced; reported as a suspected defect), "
               "such cases are not generated and start_callback_sees_normal is about a Stop issued outside that chain. The wrapper is composed with "
               "the App's start phase by app_start_is_wrapper_run; for the stop phase it is still composed at the level of next calls (AOp.call = the "
               "wrapper's next). With an absent callback the phase's report cannot be observed: the spec reads it off the modules' reports "
               "(impliedFinish) and checks the state guard of the following calls against it; an accepted Start / Stop of an EMPTY list without a "
               "callback shows nothing at all and counts as accepted exactly when the guard has to accept it. StartNode(id, nil) is modelled in the "
               "driver only (absorb.finish: a panicking callback that logs nothing), tied by the differential run. `Chain` is one goroutine: a "
               "report that arrives from another goroutine while a synchronous chain is still running (COp.late with a non-empty stack) is not "
               "modelled; what the harness's frame interpreter (Driver `drain`) does beyond `Chain` - AddModule, re-entrant callbacks, the App guard, "
               "node services - is tied to the code by the differential run only. A completion callback that panics skips what follows it in the "
               "closure that called it (App.Stop's Cleanup; nothing in Start): not observed.",
    gen=["cd harness && go1.26 run ./extract/c11 -out ../lean/Cell2v/Gen/C11Modules.lean",
         # self-test of the translator's conservativeness on a zoo of 27 constructs (testdata/root/node/modules/zoo)
         "cd harness && go1.26 test -vet=off ./extract/c11"],
    lean_targets=["Cell2v.Props.C11", "modeld_c11"],
    driver="modeld_c11",
    driver_root="Cell2v.Driver.C11",
    audit="Audit/C11.lean",
    required_theorems=["start_order", "stop_reverse", "one_at_a_time", "first_failure_stops", "finish_at_most_once",
                       "finish_exactly_once", "disciplined_log_canonical",
                       "modlist_phase_disciplined", "panic_before_report_fails_phase", "modlist_phase_completes", "late_report_ignored", "d21_witness",
                       "growing_list_canonical", "late_modules_started", "stop_ignores_growth", "order_unconditional", "index_in_range",
                       "stop_visits_unstarted_module_witness",
                       "app_state_guard", "start_callback_sees_normal", "app_start_once", "app_stop_only_after_start_success", "app_start_phase_is_filter", "app_stop_phase_is_filter",
                       "app_stop_once", "app_stop_phase_is_filter_disciplined",
                       "node_refusals_silent", "node_callbacks_are_app_reports", "node_services_then_fin", "node_start_is_app_start",
                       "node_start_reports_exactly_once", "second_startnode_witness",
                       "plain_callbacks_are_app_reports", "absent_callback_same_app", "absent_callback_never_invoked", "start_without_callback_stop_accepted",
                       "app_start_is_wrapper_run", "app_start_completes_exactly_once",
                       "chain_refines_wrapper", "chain_stack_reported", "callback_panic_only_unwinds", "chain_disciplined_canonical", "reported_flag_order_witness",
                       "chain_panics_disciplined", "chain_mdisciplined",
                       "shipped_modules_complete_once", "shipped_modules_found", "shipped_modules_named", "shipped_module_one_next", "once_modules_phase_completes"],
    harness_pkg="./c11",
    mode="diff",
    reset_prefix="reset",
    runs={
        "quick": [dict(name="main", env={"VERIF_N": "1500"}, timeout=240)],
        "thorough": [dict(name="main", env={"VERIF_N": "40000"}, timeout=800),
                     dict(name="seed2", env={"VERIF_N": "40000", "VERIF_MAXN": "3"}, seed_offset=1000, timeout=800)],
    },
    trivial=r"^(ok|-|noop|over|bad-op)?$",
    rule="cases = `reset` + ops on one module list (plain ModList, baseapp.App, or node/app.App driven through StartNode/StopNode with a launch mode of the harness; node cases cycle through service lists none / all configured / one missing from the `services:` map first, middle, last / all missing, so that StartServices runs its skip path inside the completion closure; every created service is observed, V<i>): (a) every path of every translated shipped Start/Stop body replayed as a scripted module at "
         "each position of a 3-module list, also cut short by a panic before / after its report; (b) exhaustive: every list length 0..5 (thorough 0..7) x failure position or none x every "
         "synchronous/delayed mask x phase, delayed modules completed through another goroutine / a timer / directly; (b0) panics: a module panics before reporting (holding on to its callback: a late report T/F follows) or after reporting, n 1..4 x position x phase x object, in a synchronous chain and in a chain outside Filter; (b0') panicking completion callbacks (cbS / cbX = panic): every list length 0..3 (thorough 0..4) x failure position or none x how it fails (reports false / panics before reporting / reports and panics) x every synchronous/delayed mask x phase, on ModList / App / node: the panic is recovered by the innermost active module's wrapper (the rest of that module's Start/Stop is cut off), travels on when the wrapper's own finish(false) panics, or reaches the caller of next / Start / Stop (`panic` token, legitimate only directly after the callback's token) - the callback has been invoked exactly once in any case; (b0'') absent callbacks (cbS / cbX = nil: App.Start(nil) / App.Stop(nil) / StopNode(nil), one or both): every list length 0..3 x failure position or none x every synchronous/delayed mask x failing phase on App / node, each as Start, Start again (refused), Stop, Stop again (refused), Start again (refused) - there is no fs / fx token, the state the App reached shows in what the following call does (Stop after a successful start must visit the modules in reverse: `stop-ignored` otherwise; after a failed one it must be refused); StartNode(id, nil): the closure calls the nil callback unconditionally after the services were started - exactly one panic, in the op that ended the phase, swallowed by the wrapper of the module that reported synchronously or reaching the caller; the node is Normal all the same; (b1) slow: under the virtual clock (clock=v: the case runs inside one testing/synctest bubble) one module stays silent for 1 ms .. 25 h (`wait`) at every position and phase of a ModList / App - nothing may happen meanwhile - and reports then; waits after the phase is over; (b2) re-entrant callbacks: the start-completion callback issues Stop directly or through a goroutine it waits for, the stop-completion callback issues Start/Stop (only patterns that do not run under ModList.Filter's non-reentrant lock: module 0 completes later), n 1..4 x object x callback x failure position x delays; (b3) a module itself issues Stop/Start from inside its Start/Stop (directly, or by handing a Stop to another goroutine) at every position, phase, sync/delayed chain, on App and node; (b4) growing lists: a module registers a further module (AddModule) right before completing — from its delayed completion or synchronously in a chain outside Filter — at every position, and during a stop phase; node cases also cycle the launch-mode name (registered / empty / unregistered with a default launch func); (b5) the real ClusterModule / WelcomeModule / ActorSystemModule executed at every position of a node (clustering off: success; clustering on with a port-less own address: StartMember fails early, no etcd needed; actor: the node's address free - success, remote server shut down with the case -, occupied by a listener of the harness, or not local to the host: remote.Start panics, ModList's wrapper reports the failure) against the outcome the translated bodies promise; where a fault was injected the spec demands that start-up ends at that module (no later module entered, no success reported), and a real module that panics where its script does not say `!` counts as never having completed (the wrapper standing in for it does not count for a shipped module); (b6) delayed completions delivered by the application's own run service timer (GetTimerMgr().After) in both phases; (b7) node: StartNode with an unknown node id, before Prepare, and (first corpus case of the process) without any launch mode - refused silently, the node stays startable; StartNode repeated before / after start-up and after Stop with an idempotent launch mode and with one that registers its modules every time (the list grows, Stop visits never-started modules); (c) random cases from one PRNG "
         "(VERIF_SEED): length 0..6, App or plain ModList or node, a third of the non-node cases under the virtual clock with random silences, scripts T/F/delayed/panic-before/panic-after, an eighth with panicking completion callbacks, an eighth of the App / node cases with absent callbacks, premature or repeated Start/Stop, and in "
         "`neg` cases double/late/stale completions. An op is non-trivial when its observation contains at least one log token "
         "(not ok / - / noop / over); distinct = distinct (op, observation) pairs",
    trusted_base=[
        "Lean 4.33.0 kernel; axioms of every property theorem audited on each run (allowed: propext, Classical.choice, Quot.sound)",
        "hand-written model lean/Cell2v/Model/Modules.lean (ModList.Filter closures, the Start/Stop wrapper with its two flags, the stack of nested Start/Stop calls with a panicking completion callback (Chain), App state guard, node/app StartNode/StopNode + LaunchApp, the optional caller callbacks plainLog / dropAbsent) tied to the Go code by the differential run of this check (harness/c11 + modeld_c11)",
        "translator harness/extract/c11 (go/ast, ~500 lines): Start/Stop bodies under node/modules -> Stmt terms (lean/Cell2v/Gen/C11Modules.lean) and call sequences per path (JSON replayed through the real ModList)",
        "the driver's frame interpreter (Driver/C11.lean `drain`: scripts, AddModule, re-entrant callbacks) - cross-checked against Chain.step on every op of the cases Chain covers (`chain-mismatch`)",
        "harness canonicalisation: log tokens only (module index, phase, bool, service index, PrepareModules marker); panics escaping the code under test mapped to 'panic', no return within 4 s (20 s real time for a case under the virtual clock) to 'blocked'",
        "testing/synctest (go1.26) for the clock=v cases: time.AfterFunc / Sleep / After inside the bubble run on a virtual clock",
    ],
    assumptions=[
        "invocations of next (and of one module's wrapped callback and its panic handler) are serialised (no two goroutines inside next at the same instant); under at-most-once completion only one module is outstanding, so this holds by the theorem itself",
        "AddModule during a phase is modelled between completion events only (it takes the same lock as Filter: inside Filter's synchronous chain it would block forever); the App-level theorems are for a fixed list; finish does not re-enter the list from inside a synchronous chain (it may return or panic: Chain / callback_panic_only_unwinds)",
        "shipped modules: branch conditions are independent and opaque; statements that do not mention the callback terminate (ClusterModule.Start blocks in StartMember while etcd is unreachable: then the module never completes and neither does the phase) and panic, if at all, on the goroutine that runs Start/Stop (ActorSystemModule.Start's remote.Start does, when the address cannot be bound: executed); a callback handed to other code (timer, helper function) is not interpreted and fails the obligation",
        "each module's Start/Stop is unwound by at most one panic per phase (a Go function panics out once) - part of MDisciplined; proved for one goroutine's chain of nested calls (chain_panics_disciplined), assumed only where a module panics on a goroutine of its own",
        "ModList.Start / ModList.Stop are given a callback (they call it unconditionally; App.Start / App.Stop always pass their own closure); StartNode(id, nil) calls the nil callback after the state was set and the services were started (executed: one panic; reported as a suspected defect - StopNode has the nil check)",
        "App.Prepare is called once per App (a second Prepare re-opens the Start guard by design)",
        "a completion callback that re-enters Start/Stop runs outside ModList.Filter (on the unchanged tree a Stop issued from the start callback of an all-synchronous module list deadlocks on Filter's non-reentrant lock; such cases are not generated)",
        "node/app: an accepted StartNode whose launch mode registers modules happens once per node (node_start_is_app_start; a second one registers them again before the App guard refuses it: second_startnode_witness, exercised by the harness); StartNodeCtrl runs with node control off; nodes.yaml is readable (config.LoadNodes never returns nil: the `nodes == nil` refusal is reached only without Prepare)",
    ],
)
