CONFIG = dict(
    id="C05",
    engine="bubble-session (+tcp smoke)",
    technique="Lean 4: invariants over all interleavings of a small-step concurrent model of ClientSession (reader/writer/heartbeat/kickers, "
              "3-step Close under its mutex) + the owner's view as a function of the posted events + the id allocator; the real session stack is "
              "replayed grant by grant against the model in a synctest bubble under a controlling scheduler",
    level_text="Machine-checked proof in Lean 4, for every schedule of the reader, writer, heartbeat, any number of external Close callers, pushes, "
               "clock advances and every input/write result: session-add posted exactly once, session-remove and conn.Close at most once and equally often, "
               "mutual exclusion of Close (close_once); whatever prefix of the posted events the owner has consumed its handler saw add, then messages "
               "that are a subsequence in arrival order of what arrived, then at most one remove and nothing after it (owner_sequence, owner_sees_remove); "
               "a returned read goroutine implies closed+removed (reader_end_closes); in every state where no thread can move the connection is either "
               "untouched or completely finished: remove once, conn closed once, all three goroutines returned (every_ending_closes, "
               "any_thread_gone_all_released); pushes after the close change nothing; ids of sessions allocated fewer than 2^32-1 apart differ and are "
               "never 0 (unique_live_id). The pre-fix reader (D6) and the pre-fix owner (D15) are kept as definitions with witness theorems. The model is tied "
               "to the Go code on every run: the real ClientSession + pomelo.SessionsImpl + impls.ClientSessions (+ HandlerComponent close callbacks) run over a "
               "scripted PlayerConn with every goroutine parked at harness gates; after every grant status, thread positions, conn.Close count, writes, the "
               "Impl-level and owner-level callback logs, live ids and the goroutine count are compared with the model, and the property predicate runs on the "
               "implementation's own observations.",
    level_note="Partial: release of the goroutines and the conn is proved in the model and observed (runtime.NumGoroutine, Close count) on the implementation, "
               "not proved of the Go runtime; Go select/mutex/channel semantics are assumed; concurrent close causes are explored by the model's interleavings "
               "and by the controller's grant orders (reader holding a frame / parked before a message post / writer parked in Write), not by controlling the Go "
               "scheduler inside Close; TCP framing (tcpPlayerConn.GetNextMessage) is abstracted to frame/decode-error/read-error items in the bubble engine and "
               "exercised end-to-end only by the tcp smoke run; the WebSocket acceptor is not exercised.",
    lean_targets=["Cell2v.Props.C05", "modeld_c05"],
    driver="modeld_c05",
    driver_root="Cell2v.Driver.C05",
    audit="Audit/C05.lean",
    required_theorems=["close_once", "owner_sequence", "owner_sees_remove", "reader_end_closes", "every_ending_closes",
                       "any_thread_gone_all_released", "push_after_close_dropped", "parked_sender_released", "unique_live_id",
                       "d6_old_reader_leaks", "d15_message_after_remove"],
    harness_pkg="./c05",
    mode="diff",
    reset_prefix="reset",
    runs={
        "quick": [dict(name="main", env={"VERIF_N": "30000"}, timeout=240),
                  dict(name="tcp", test="TestTCP", env={"VERIF_N": "60"}, timeout=120)],
        "thorough": [dict(name="main", env={"VERIF_N": "600000"}, timeout=1500),
                     dict(name="seed2", env={"VERIF_N": "600000"}, seed_offset=7919, timeout=1500),
                     dict(name="tcp", test="TestTCP", env={"VERIF_N": "3000"}, timeout=900)],
    },
    trivial=r"^(ok|none|bad-op)?$",
    rule="each case: 1-3 simultaneous connections, 4-40 grants chosen from what the harness sees of the real sessions (inputs: handshake / ack / data frames "
         "with 1-6 packets incl. undecodable messages, heartbeats, kick packets, bad JSON, undecodable frames, empty frames, read errors, EOF; reader grants "
         "run-to-block or step-to-next-message with optional handshake-write failure; writer grants ok/fail; clock advances at and around the 10 s tick and the "
         "20 s expiry; direct and owner-side kicks; owner-side and direct pushes; owner drains; 2 % probably-disabled ops), then `end`; 1/12 of the cases start the "
         "id counter at the 32-bit wrap; 1/25 of the cases may fill a send queue (non-reading client: writer parked in Write, 9999 pushes, heartbeat tick parks in its send) and then run every "
         "step as arm/go so that a process death leaves a replayable witness; 1/6 of the connections have a scripted panicking close callback; "
         "corpus of the D6/D15 witnesses, scripted coincidences, full-queue and panicking-callback scenarios first; accept bursts (1, 2, 64, random) through the real "
         "pomelo.StartAcceptor over a fake acceptor with a pre-filled connection channel, one P; tcp smoke run: whole connections against the real TCPAcceptor on 127.0.0.1 (valid packet "
         "prefixes, then nothing / truncated header / invalid type / short body / oversize announcement, then FIN), final callback logs, socket closed, goroutines "
         "released; one evaluation = one grant compared with the model; "
         "non-trivial = every enabled grant; distinct = distinct (op, observation) pairs",
    trusted_base=[
        "Lean 4.33.0 kernel; axioms audited per theorem (propext, Classical.choice, Quot.sound)",
        "hand-written model lean/Cell2v/Model/Session.lean tied to pomelonet/server/session/session.go, node/client/impls/sessions.go, "
        "node/client/impls/pomelo/sessionsimpl.go by grant-by-grant replay (harness/c05 + modeld_c05)",
        "go1.26.8 testing/synctest: quiescence detection and virtual time (ticker, common.NowMs)",
        "Go runtime: sync.Mutex mutual exclusion, channel close/select semantics, atomic loads/stores of the status word",
        "the scripted PlayerConn of the harness (a closed conn fails reads and writes at once; Close unblocks a pending read/write)",
        "harness canonicalisation: per-connection logs, sorted live ids, goroutine count as a delta to the start of the case",
    ],
    assumptions=[
        "application pushes never find the 9999-slot send queue full (they would park the owner goroutine); the heartbeat's send on a full queue IS modelled "
        "(it parks; while parked the session cannot expire); fewer than 999 queued owner tasks",
        "close callbacks may panic (the scheduler recovers): a panicking handler callback ends RemoveSession before the sessions' own close callback",
        "fewer than 2^32-2 sessions are accepted during the lifetime of any live session (allocator guard of unique_live_id)",
        "the client does not pipeline data before the owner processed session-add (otherwise ClientMsg.SessionId is 0; not part of the predicate)",
        "conn.Close(), OnSessionCreate/OnSessionClose/ProcessMessage of the Impl and the owner's scheduler Post do not block",
    ],
)
