CONFIG = dict(
    id="C05",
    engine="bubble-session (+tcp streams, +websocket messages, +simultaneous-close races)",
    technique="Lean 4: invariants over all interleavings of a small-step concurrent model of ClientSession (reader/writer/heartbeat/kickers, "
              "3-step Close under its mutex) + the owner's view as a function of the posted events + the id allocator; the real session stack is "
              "replayed grant by grant against the model in a synctest bubble under a controlling scheduler; a termination measure for the "
              "threads' steps; a byte-level model of TCP framing (GetNextMessage over arbitrarily segmented streams) tied to the real TCPAcceptor "
              "over sockets whose streams are cut at chosen offsets; the owner's id-keyed sessions map",
    level_text="Machine-checked proof in Lean 4, for every schedule of the reader, writer, heartbeat, any number of external Close callers, pushes, "
               "clock advances and every input/write result: session-add posted exactly once, session-remove and conn.Close at most once and equally often, "
               "mutual exclusion of Close (close_once); whatever prefix of the posted events the owner has consumed its handler saw add, then messages "
               "that are a subsequence in arrival order of what arrived, then at most one remove and nothing after it (owner_sequence, owner_sees_remove); "
               "a returned read goroutine implies closed+removed (reader_end_closes); in every state where no thread can move the connection is either "
               "untouched or completely finished: remove once, conn closed once, all three goroutines returned (every_ending_closes, "
               "any_thread_gone_all_released); pushes after the close change nothing; ids of sessions allocated fewer than 2^32-1 apart differ and are "
               "never 0 (unique_live_id), so the id of a new session is none of the live ones' inside the allocation window (new_id_not_live). "
               "LIVENESS: every step of a thread strictly decreases an explicit measure, so every run of the threads without new input is finite "
               "(internal_steps_terminate), from every reachable state the threads come to rest, untouched or finished (always_comes_to_rest), and once "
               "Close() has been called by anybody - every close cause does (close_causes_call_close) - every maximal run ends with the remove posted exactly "
               "once, the conn closed exactly once and all goroutines returned (close_cause_finishes); no fairness assumption. MESSAGES FROM BELOW: no message "
               "of a frame of decodable data on an ACKed session is ever dropped by the reader, whatever the other threads do (frame_messages_never_dropped), "
               "and the owner handles exactly the messages posted before the remove (owner_sees_every_message_before_remove). FRAMING: what "
               "tcpPlayerConn.GetNextMessage returns depends on the bytes of the stream only, not on their segmentation, and a stream of complete packets "
               "yields exactly those packets (framing_independent_of_segmentation, framing_delivers_all_packets; defect witness single_read_loses_split_body); "
               "WSConn.GetNextMessage returns a message holding exactly one packet and rejects anything longer (ws_one_packet_per_message). "
               "The re-test of the closed latch under the mutex is what makes Close idempotent (defect witness unlocked_latch_test_closes_twice). "
               "CLOSE STATEMENT BY STATEMENT (model CloseFine: Lock / select on chanClose / SetStatus / close(chanClose) / close(chSend) / conn.Close / OnSessionClose / "
               "Unlock each a step of its own, any number of callers arriving at any moment, pushers - status test, then the send with its recover - running beside "
               "them): in every reachable state no channel is closed twice, conn.Close and OnSessionClose ran at most once, the remove never before the conn.Close, and "
               "with the mutex free both ran exactly as often as the latch says (close_statement_level_once); a Close() that has RETURNED - whoever did the work - leaves "
               "conn closed once and remove posted once (close_returned_means_closed); every caller step decreases a measure and at rest nobody is inside or waiting "
               "(close_statement_level_terminates); once chSend is closed nothing is enqueued, a racing push is recovered (push_racing_close_never_enqueues); without the "
               "re-test the second caller would close a closed channel (close_without_retest_crashes). "
               "REMOVESESSION AS A WHOLE (Session.removeSession: map delete, HandlerComponent.OnSessionRemove = run the callback registered under the id THEN delete it, "
               "then the sessions' onCloseCB): the registered close callback runs exactly once followed by the sessions' callback, a second remove runs nothing "
               "(close_callbacks_run_once), other sessions' callbacks stay registered (close_callback_of_other_session_untouched), a panicking callback ends the removal "
               "before the sessions' callback and leaves its stale entry in the handler (panicking_close_callback_ends_removal). "
               "OWNER MAP: with every entry stored under its connection's id and no id shared, ProcessMessage/RemoveSession/Kick/PushMsg lookups find the "
               "connection's own session or nothing, and a remove deletes exactly its own entry (owner_lookup_hits_own_session, owner_remove_deletes_own_entry, "
               "owner_map_agrees), a PushMsg aimed at a removed session's id reaches nobody while the other ids of the same push are served "
               "(push_after_remove_reaches_nobody; what id reuse inside a lifetime would do: id_reuse_hijacks_entry); the session AddSession announces is "
               "registered under the announced id from the moment the handler is told of it, so a lookup, Kick(id) or PushMsg([id]) made from inside "
               "OnSessionAdd acts on this very session (added_session_is_live). KICK REQUESTS (ClientSessions.Kick / IKickHandler / DoKick): Kick(id) of a "
               "registered connection closes its session (no handler set) or hands the id to the custom kick handler; the handler's later DoKick(id) closes that "
               "same session and leaves the table alone, so the RemoveSession posted by the Close finds the entry, runs the registered close callback once, then the "
               "sessions' callback, and the id is gone afterwards (kick_handler_path_still_removes); a Kick/DoKick for an id nobody holds any more reaches nobody "
               "(kick_of_unregistered_id_reaches_nobody); a DoKick that deletes the entry itself loses the removal and every close callback, for every table "
               "(defect witness dokick_deleting_entry_loses_remove). A client that never half-closes gets the same messages through as one that "
               "does: an open stream leaves the reader parked in Read instead of failing (framing_open_stream_same_messages, framing_open_delivers_all_packets). The pre-fix reader (D6) and the pre-fix owner (D15) are kept as definitions with witness theorems. The model is tied "
               "to the Go code on every run: the real ClientSession + pomelo.SessionsImpl + impls.ClientSessions (+ HandlerComponent close callbacks) run over a "
               "scripted PlayerConn with every goroutine parked at harness gates; after every grant status, thread positions, conn.Close count, writes, the "
               "Impl-level and owner-level callback logs, live ids and the goroutine count are compared with the model, and the property predicate runs on the "
               "implementation's own observations (incl. a lower bound: messages of decodable frames handed to a Working session that nothing closed "
               "must have been posted). The real TCPAcceptor is driven over 127.0.0.1 with byte streams that arrive in 1-4 pieces cut inside headers, "
               "between header and body, inside bodies and at random offsets, and with bodies larger than the socket buffers; the model frames the same "
               "stream (Framing.framesOf) and the predicate demands every complete message sent after the handshake; every data message's payload is a function "
               "of its id and the owner's handler compares route and payload of each message, at the moment it is handed it, with what the client sent under that id "
               "(`pl`), on half of the connections with a BUSY owner (a task of its scheduler does not return until the reader has posted everything the stream "
               "holds, so all packets are received while the earlier messages wait in the owner's queue). 1/5 of the bubble cases run with a custom kick handler "
               "(notice pushed at once, id kept, DoKick by a later `dokick` grant - with messages still queued, after the client left, from inside OnSessionAdd); "
               "the predicate demands that a Kick (no handler) / DoKick of an id registered for a live session closes it. Simultaneous independent close causes "
               "(K Close() calls + client EOF + write failure on each of hundreds of fresh real sessions) are released together from a spin barrier, and - "
               "deterministically - made to arrive while Close's critical section is occupied (the harness holds the session's own mutex until all of them "
               "are queued at it), two pusher goroutines per session pushing beside them: exactly one OnSessionClose and one conn.Close per session, no panic (a racing "
               "push is accepted or refused), no goroutine left, every Close() call - checked the instant it returns - finds conn.Close and OnSessionClose done exactly once "
               "(tie of close_returned_means_closed), a push after that is refused. The model's owner computes its remove tokens through Session.removeSession (callback map "
               "carried across the case, incl. the stale entry a panicking callback leaves). The owner's handler looks the "
               "announced id up from inside OnSessionAdd and OnSessionRemove on every connection (present at the add, gone at the remove) and, scripted per "
               "connection, kicks the session or pushes to its id from inside OnSessionAdd (the model's owner runs until its queue is empty: the remove such a kick "
               "posts is consumed in the same run). One tcp connection in four is a PASSIVE client (no half-close, no close, silent after its stream): the server "
               "ends it - the reader on a complete malformed header, otherwise an owner-side ClientSessions.Kick posted once the owner has seen every data message - "
               "goroutines are counted while the client's socket is still open, and the client's further writes must be answered by a reset (the socket is gone).",
    level_note="Partial: release of the goroutines and the conn is proved in the model and observed (runtime.NumGoroutine, Close count) on the implementation, "
               "not proved of the Go runtime; Go select/mutex/channel semantics are assumed; concurrent close causes are explored by the model's interleavings "
               "and by the controller's grant orders (reader holding a frame / parked before a message post / writer parked in Write), and by the race op (real goroutines "
               "serialised through the session's own mutex, or released together), not by controlling the Go scheduler statement by statement inside Close "
               "(the SESSION model's Close has 3 steps: lock / test-and-mark / conn.Close+post+unlock; the code's 5 effects inside the critical section are "
               "interleaved individually in the separate CloseFine model, whose theorems cover the close-once / returned-means-closed / racing-push clauses at statement level; "
               "CloseFine is not a refinement of the session model - the intermediate effects are visible to the reader's status test and the heartbeat - and is tied to "
               "the code by the race op only, not grant by grant); TCP framing is a separate byte-level model (Framing) whose messages feed the session model in the tcp engine - body "
               "bytes are abstracted to their length, message decoding is C06's (that a message is handled with the bytes it was sent with - no aliasing of a receive "
               "buffer between the reader and the owner's queue - is not a model fact: it is observed by the tcp/ws engines only, `pl`); the bubble engine still works on frame/decode-error/read-error items; the "
               "WebSocket acceptor is driven with whole connections (one packet per message, fragmented messages, two packets glued into one message, "
               "garbage messages) and one stalled-writer scenario, its GetNextMessage is Framing.wsNext; the websocket protocol layer itself (gorilla) is "
               "trusted; the termination theorems are about the model's threads (a goroutine "
               "blocked for ever inside conn.Write/conn.Close of the OS is outside); the owner-map theorems assume ids are not shared (allocation window).",
    lean_targets=["Cell2v.Props.C05", "modeld_c05"],
    driver="modeld_c05",
    driver_root="Cell2v.Driver.C05",
    audit="Audit/C05.lean",
    required_theorems=["close_once", "owner_sequence", "owner_sees_remove", "reader_end_closes", "every_ending_closes",
                       "any_thread_gone_all_released", "push_after_close_dropped", "parked_sender_released", "unique_live_id",
                       "d6_old_reader_leaks", "d15_message_after_remove",
                       "internal_steps_terminate", "always_comes_to_rest", "close_cause_finishes", "close_causes_call_close",
                       "frame_messages_never_dropped", "owner_sees_every_message_before_remove",
                       "framing_independent_of_segmentation", "framing_delivers_all_packets", "single_read_loses_split_body",
                       "new_id_not_live", "owner_lookup_hits_own_session", "owner_remove_deletes_own_entry", "owner_map_agrees",
                       "id_reuse_hijacks_entry", "unlocked_latch_test_closes_twice", "ws_one_packet_per_message",
                       "push_after_remove_reaches_nobody", "added_session_is_live",
                       "framing_open_stream_same_messages", "framing_open_delivers_all_packets",
                       "close_callbacks_run_once", "close_callback_of_other_session_untouched", "panicking_close_callback_ends_removal",
                       "kick_handler_path_still_removes", "kick_of_unregistered_id_reaches_nobody", "dokick_deleting_entry_loses_remove",
                       "close_statement_level_once", "close_returned_means_closed", "close_statement_level_terminates",
                       "push_racing_close_never_enqueues", "close_without_retest_crashes"],
    harness_pkg="./c05",
    mode="diff",
    reset_prefix="reset",
    runs={
        "quick": [dict(name="main", env={"VERIF_N": "30000"}, timeout=240),
                  dict(name="tcp", test="TestTCP", env={"VERIF_N": "60"}, timeout=120)],
        "thorough": [dict(name="main", env={"VERIF_N": "600000"}, timeout=1500),
                     dict(name="seed2", env={"VERIF_N": "600000"}, seed_offset=7919, timeout=1500),
                     dict(name="tcp", test="TestTCP", env={"VERIF_N": "3000"}, timeout=900)],
    },
    trivial=r"^(ok|none|bad-op)?$",
    rule="each case: 1-3 simultaneous connections, 4-40 grants chosen from what the harness sees of the real sessions (inputs: handshake / ack / data frames "
         "with 1-6 packets incl. undecodable messages, heartbeats, kick packets, bad JSON, undecodable frames, empty frames, read errors, EOF; 1/7 of the connections have a handler that kicks the session / pushes to its id from inside OnSessionAdd; reader grants "
         "run-to-block or step-to-next-message with optional handshake-write failure; writer grants ok/fail; clock advances at and around the 10 s tick and the "
         "20 s expiry; direct and owner-side kicks; 1/5 of the cases with a custom kick handler on the owner's ClientSessions (kick requests push a notice and are kept; `dokick` = "
         "the handler's DoKick of the oldest kept id); owner-side and direct pushes; owner drains; 2 % probably-disabled ops), then `end`; 1/12 of the cases start the "
         "id counter at the 32-bit wrap; 1/25 of the cases may fill a send queue (non-reading client: writer parked in Write, 9999 pushes, heartbeat tick parks in its send) and then run every "
         "step as arm/go so that a process death leaves a replayable witness; 1/6 of the connections have a scripted panicking close callback; "
         "corpus of the D6/D15 witnesses, scripted coincidences, full-queue, panicking-callback, handler-acts-at-add and kick-handler scenarios first; accept bursts (1, 2, 64, random) through the real "
         "pomelo.StartAcceptor over a fake acceptor with a pre-filled connection channel, one P; tcp run: whole connections against the real TCPAcceptor on 127.0.0.1 (valid packet "
         "prefixes incl. one 300 kB message per 10 data packets, then nothing / truncated header / invalid type / short body / oversize announcement, then FIN; "
         "2 of 3 streams arrive in 2-4 pieces with 4 ms pauses, cut inside a header / between header and body / inside a body / anywhere; 1 connection in 4: a passive client "
         "(well-formed script, then nothing / a complete malformed header / an incomplete header or body, no FIN) ended by the server's reader or by an owner-side kick, socket probed for release; 1 connection in 2: the owner is busy while the packets arrive), final callback logs, "
         "route and payload of every handled message compared with what was sent under its id, "
         "every complete message after the handshake delivered, socket closed, goroutines released; a third as many connections with the same scripts through the "
         "real WSAcceptor (one packet per binary message; 1/3 with every message in two fragments; 1/6 with the last two packets glued into one message); two race ops per run (child process): 150-200 x tier scale "
         "sessions with 1-4 Close() calls + EOF + write failure arriving while the session's mutex is held, 300-400 x scale sessions with 2-8 + EOF + write "
         "failure released together, 2 pushers per session beside them, every Close() return checked, one push after the close; one evaluation = one grant compared with the model; "
         "non-trivial = every enabled grant; distinct = distinct (op, observation) pairs",
    trusted_base=[
        "Lean 4.33.0 kernel; axioms audited per theorem (propext, Classical.choice, Quot.sound)",
        "hand-written model lean/Cell2v/Model/CloseFine.lean (Close statement by statement) tied to session.go's Close/Push by the race op only (outcome counts, "
        "Close-return check), not step by step",
        "hand-written model lean/Cell2v/Model/Session.lean tied to pomelonet/server/session/session.go, node/client/impls/sessions.go, "
        "node/client/impls/pomelo/sessionsimpl.go by grant-by-grant replay (harness/c05 + modeld_c05)",
        "go1.26.8 testing/synctest: quiescence detection and virtual time (ticker, common.NowMs)",
        "Go runtime: sync.Mutex mutual exclusion, channel close/select semantics, atomic loads/stores of the status word",
        "the scripted PlayerConn of the harness (a closed conn fails reads and writes at once; Close unblocks a pending read/write)",
        "harness canonicalisation: per-connection logs, sorted live ids, goroutine count as a delta to the start of the case",
        "hand-written model lean/Cell2v/Model/Framing.lean tied to pomelonet/server/acceptor/tcp_acceptor.go by the tcp engine (same stream, same cuts); "
        "loopback TCP delivers what was written before a 4 ms pause before the rest; Linux answers data sent to a closed socket with a reset (the `rel` probe "
        "of the passive-client connections); gorilla/websocket message reassembly (ws engine)",
        "race op: reflect/unsafe access to the one sync.Mutex field of ClientSession and the runtime's waiter count in its state word (falls back to the "
        "spin barrier when the session has no single mutex field)",
    ],
    assumptions=[
        "application pushes never find the 9999-slot send queue full (they would park the owner goroutine); the heartbeat's send on a full queue IS modelled "
        "(it parks; while parked the session cannot expire); fewer than 999 queued owner tasks (sche.Post blocks on a full queue: a Close on the "
        "owner goroutine itself - ClientSessions.Kick - would then block for ever inside OnSessionClose while holding the session mutex; sche.go's own comment "
        "says so)",
        "close callbacks may panic (the scheduler recovers; what a panicking handler callback does to RemoveSession is modelled: panicking_close_callback_ends_removal)",
        "fewer than 2^32-2 sessions are accepted during the lifetime of any live session and before its last posted message was consumed (allocator guard of "
        "unique_live_id / new_id_not_live; id_reuse_hijacks_entry shows what happens otherwise)",
        "the client does not pipeline data before the owner processed session-add (otherwise ClientMsg.SessionId is 0; not part of the predicate)",
        "conn.Close(), OnSessionCreate/OnSessionClose/ProcessMessage of the Impl and the owner's scheduler Post do not block",
    ],
)
