CONFIG = dict(
    id="C17",
    engine="pure + watchdog",
    technique="Lean 4 invariants over a small-step model of the local / global / light event centres with scripted "
              "(re-entrant) listeners + acceptance-mode correspondence with the real centres (the implementation's own "
              "map-iteration order is replayed through the model) + an independent property monitor on the implementation's trace",
    level_text="Machine-checked proof in Lean 4, for every world reachable in the model of the repaired code (any centres, any "
               "listener scripts: subscribe/unsubscribe self, other, new, nested and global publish, clear; any call sequence; "
               "any Go map iteration order): a dispatch loop invokes only listeners subscribed right now to exactly that centre "
               "and name, never twice per publication, with bound args followed by the published ones, and misses none that "
               "stays subscribed; 'subscribed right now' is a function of the trace: a listener whose subscribe succeeded stays in the list of exactly that "
               "centre and name until an unsubscribe hits it or its centre is cleared - no end of a dispatch loop, nested publication (to nobody), "
               "drain or (de)registration drops one - and the light centre's GetSubscribeNum / HasSubscribers count exactly those, each once; "
               "no invocation after unsubscribe or clear (ids are never re-used); global registration = "
               "Global flag (for every (name, centre) pair nobody (un)registered by hand through the exported GetGlobalEC().Subscribe/Unsubscribe), kept by every live global subscription and dropped with the last listener / clear; a global "
               "publication appends exactly one event per subscribed centre unless its queue holds 999; no lock is held across "
               "a listener call. The model is tied to the Go code on every run by replaying ~3000 generated cases (~80k op lines) "
               "through both and by evaluating the property monitor on the implementation's own traces.",
    level_note="Trusted: Lean kernel, harness/driver line protocol, Go mutex/channel/map semantics (RWMutex write lock waits for the "
               "caller's own read lock; map range under mutation yields deleted-before-reached entries never, inserted ones maybe). "
               "The theorems are about the model; the differential run ties it to the code on sampled histories only. The owner "
               "goroutine and concurrent publishers at the queue limit are proved in the small second model (Model/EventsOwner.lean) and tied by the "
               "ops rs (real StandardRunService, Stop with a busy owner and queued events) and concfull (real goroutines whose looks at the queue are "
               "forced into lockstep by a wrapper centre); concurrent publishers below the limit, concurrent first subscribers (D17) and the "
               "subscribe/unsubscribe-last race are exercised by ops with real goroutines, not proved. The main model stays sequential (one call stack). "
               "The model keeps ONE relation of live subscriptions; the Go code keeps a map name -> *ListenerList, and that a list object, once stored, is never "
               "replaced or dropped except by Clear is not a model fact: it is tied by the run (leave-and-return family: a listener subscribed while the name's "
               "list is empty and a delivery of that name is still on the stack must be counted and called afterwards).",
    lean_targets=["Cell2v.Props.C17", "modeld_c17"],
    driver="modeld_c17",
    driver_root="Cell2v.Driver.C17",
    audit="Audit/C17.lean",
    required_theorems=["publish_calls_current_once", "publish_at_most_once", "publish_reaches_every_current_listener", "queued_events_were_published", "args_bound_then_published", "other_names_untouched",
                       "never_after_unsubscribe", "never_after_clear", "subscribed_until_removed", "subscriber_count_is_live_subscriptions",
                       "global_once_per_subscribed_centre",
                       "global_once_per_registered_centre", "direct_registration_is_a_set", "racing_subscribe_is_script_then_subscribe", "receiver_matching_rule",
                       "global_registration_tracks_listeners", "reentrant_ops_do_not_block",
                       "nested_publications_leave_args_intact", "d25_append_in_place_overwrites", "global_delivery_follows_global_flag", "plain_listeners_keep_global_delivery",
                       "listener_runs_on_owner_goroutine_only", "stop_ends_delivery_and_registration", "delivered_in_publication_order",
                       "concurrent_publishers_fill_to_cap",
                       "d7_reentrant_unsubscribe_blocked", "d14_light_invoked_after_clear"],
    harness_pkg="./c17",
    mode="accept",
    reset_prefix="reset",
    runs={
        "quick": [dict(name="main", env={"VERIF_N": "3000"}, timeout=240)],
        "thorough": [dict(name="main", env={"VERIF_N": "50000"}, timeout=800),
                     dict(name="seed2", env={"VERIF_N": "30000"}, seed_offset=1000, timeout=800),
                     dict(name="seed3", env={"VERIF_N": "30000"}, seed_offset=2000, timeout=800)],
    },
    trivial=r"^(ok|bad|bad-op|dup|-|aborted|q=0|\[ \]|s\+|s0|u|c|x|q|g:)?$",
    rule="cases generated from one PRNG (VERIF_SEED): 1-3 centres (local, local+useChan, light), 4-10 listener templates with random "
         "scripts (subscribe/GSubscribe/SubscribeNoCheck, unsubscribe by id self/other/never-subscribed, unsubscribe by code pointer, "
         "nested publish up to depth 3, global publish, clear, direct Subscribe/Unsubscribe(name, centre) on the exported global centre), then 4-13 top-level call lines, owner drains, queue probes and a final "
         "publish of every name on every centre; families quiet / re-entrant / global / clear-heavy / racing-subscribe (a direct Subscribe through a wrapper centre whose GetId() runs a racing script between the global centre's list lookup and store: unsubscribe-last, clear, further subscriptions) / nested-args (listeners with bound args re-publish the event they handle, nesting 1-3, and re-read their arguments afterwards) / receiver-mix (light centre: Subscribe, SubscribeWithReceiver, UnsubscribeWithReceiver and Unsubscribe(cb) mixed for ONE callback value and name, same and different receivers) / shared-pointer (light centre: 2-4 listeners of one name sharing a callback pointer - SubscribeNoCheck duplicates or one callback under several receivers - leave in any order, newest first as often as not, by id or by receiver, checked Subscribe of the callback in between must be refused, the last one goes through Unsubscribe(name, cb), then the callback is subscribed again) / swap-inside-listener (listeners that unsubscribe other listeners of the event being delivered AND subscribe new ones to it, same size or one more / less, either order, local / channel-mode / light centres) / direct-global (stray and duplicate direct (un)registrations before and after real GSubscribe calls, then global publications); 999-slot queue cases (global "
         "publication dropped, blocking local publish hangs under the watchdog); malformed stream (unknown centres, templates, tags, "
         "unparsable scripts); real StandardRunService (half of the cases: Stop from outside while the owner is stuck in a listener and 1-5 global/local publications are still queued; reports goroutine of every invocation and deliveries after Stop), concurrent publishers at the queue limit (2-5 goroutines, 0-3 free slots, a wrapper centre makes them look at the queue in lockstep; reports queue length, publishers that never returned, second centre), concurrent-publisher, concurrent-first-subscriber and subscribe/unsubscribe-last/publish stress cases (real goroutines); leave-and-return-inside-listener (one-shot listeners, 1-3 of one name on a local / channel-mode / light centre: while the name is being "
         "delivered they unsubscribe themselves or one another until nobody may be left, publish the name again from inside the listener - a nested delivery to "
         "whoever is left, possibly nobody - and subscribe fresh listeners to it before they return, some of which leave again at once; any order; then subscriber-count "
         "probes and two more publications); subscriber-count probes `n c= e=` (light centre: GetSubscribeNum and HasSubscribers as the centre reports them; the monitor "
         "compares with its own table of subscribed-and-not-removed listeners) after every leave-and-return step and at the end of half of the generic cases; two templates in three hand their bound arguments over in a slice with 1-4 spare slots (def ... x=), every listener re-reads its arguments after its script (nested publications included) ran; corpus = D7, D14, D17 and D25 witnesses, shared-pointer / swap / stop-with-queued-events / queue-limit / leave-and-return scenarios. A line "
         "is non-trivial when its observation contains at least one listener invocation or a non-empty global fan-out",
    trusted_base=[
        "Lean 4.33.0 kernel; axioms of every property theorem audited on each run (allowed: propext, Classical.choice, Quot.sound)",
        "hand-written model lean/Cell2v/Model/EventsOwner.lean (run-service-owned centre, publishers at the queue limit): its answers for the ops rs / concfull "
        "must equal what the real StandardRunService / GlobalEventCenter report (scenario-level tie: the harness plays rsActs / fullActs)",
        "hand-written model lean/Cell2v/Model/Events.lean tied to the Go code by the acceptance run of this check (harness/c17 + modeld_c17 accept): "
        "the implementation's iteration order is the model's guide, everything else must match exactly",
        "property monitor in lean/Cell2v/Driver/C17.lean (spec mode): follows the implementation's invocations, keeps its own subscription table "
        "(subscribed successfully and not removed since) and holds the centre's own subscriber count (op n) against it",
        "argument lists are values in the model (`l.bound ++ a`); that the Go code does not share the subscriber's backing array between invocations (D25) "
        "is tied by the run only: bound slices with spare capacity + nested publications + re-reading the arguments after the script",
        "harness: listeners are closures / 16 top-level functions interpreting scripts; real listener ids are mapped to template tags; "
        "a hang (real-time watchdog, 300 ms) is the observation `blocked`",
        "Go runtime semantics of sync.RWMutex, channels, map range under mutation, sync.Map",
    ],
    assumptions=[
        "a listener id is not re-used while the centre lives (SerialIdService64 counters do not wrap)",
        "the owner goroutine is the only receiver of a centre's event channel (drain ops model it; the rs op runs the real StandardRunService; "
        "in Model/EventsOwner.lean only the owner's recv step takes from the queue - a second receiver is a different program)",
        "light-centre listener ids are compared per centre only (each light centre has its own id counter, so UnsubscribeById with an id obtained "
        "from ANOTHER light centre can hit a local listener with the same number; the harness maps foreign ids to an absent id)",
        "listener scripts terminate (nested publication depth is capped at 3 by the harness and the model alike)",
        "the light centre's receiver API is modelled with receivers as opaque identities (the harness uses one pointer per receiver number)",
        "Unsubscribe(name, cb) of the light centre is exercised only where at most one listener of that name has the code pointer "
        "(with SubscribeNoCheck duplicates the removed one depends on map order)",
    ],
)
