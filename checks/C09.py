CONFIG = dict(
    id="C09",
    engine="hooked-mailbox",
    technique="Lean 4: counter-abstraction invariant of the wake-up protocol (any number of posters) + refinement from a yield-point-granular "
              "model + list-level delivery invariant; the real hooked mailbox is replayed step by step against the model under a controlling scheduler",
    level_text="Machine-checked proof in Lean 4, for every schedule of any number of user/system posters, the consumer and the pause helper: at most one "
               "processMessages queued or running (single_runner), delivered ++ queued = pushed for both queues (exactly once, FIFO, hence per-sender order), "
               "system pop before user pop (system_first), and no quiescent state with deliverable work (no_lost_wakeup, via an inductive 5-part invariant "
               "of a counter abstraction that the fine model provably refines); while deliverable work is pending some existing thread has an enabled step "
               "(pending_work_can_progress), and from EVERY reachable state the existing threads alone — no further post — can run the mailbox to a quiescent state in which "
               "everything posted so far has been handed over (can_always_drain: explicit scheduler, potential function decreasing on each of its steps). The fine model is tied to the real SmoothFrameMailbox (real goring/mpsc) on "
               "every run: all goroutines are parked at build-tag yield points before each atomic step, a controller drives seeded schedules (uniform, sticky, "
               "adversarial around the store-idle/re-read window, consumer-first), and after EVERY step the five shared words, the consumer's program point, the "
               "dispatcher queue and the invoked message are compared with the model; the property predicate runs on the implementation's own trace. "
               "The system queue (mpsc.Queue, Vyukov) is also proved as a CONCURRENT object: Push split into its swap and its link, any number of producers, every "
               "interleaving — delivery is a prefix of the swap order (exactly once, global and per-producer FIFO), Pop answers nil only when nothing is pending or the "
               "oldest pending node's link is missing, quiescence makes everything visible, the pending links reveal everything; composed with the wake-up protocol "
               "(counter incremented after both steps) the mailbox invariant and no_lost_wakeup are unaffected. Tied to the real queue by run mpsc: producer/consumer "
               "goroutines parked before the swap, between swap and link, and before each Pop. "
               "Several mailboxes on one scheDisp (9-slot channel, one loop goroutine): for every sequence of posts and handler releases the channel stays within 9 slots, every "
               "pending message has a buffered/blocked/executing run, per mailbox delivered ++ pending = posted in order, and an idle loop means everything was delivered "
               "(sched_*); tied to the real scheDisp + run service + real mailboxes by run sched, which also demands loop-goroutine-only and never-two-at-a-time.",
    level_note="Partial: atomics are assumed sequentially consistent single steps; in the mailbox's Fine model goring/mpsc are FIFO lists and mpsc.Push is one step "
               "(sequential refinement to a list, ring growth included: ring_*/mpsc_push_refines/mpsc_pop_refines, run ring; mpsc's swap/link window and arbitrary producer "
               "interleavings: mpsc_delivers_swap_order … mailbox_no_lost_wakeup_split_push, run mpsc; that Fine with the split push refines the composed system beyond the "
               "system-queue/wake-up part is argued in Props/C09Mpsc.lean, not proved; goring's concurrent behaviour rests on its mutex); run()'s plain read of userMessages, the >=100000-queued Gosched branch and the recover/EscalateFailure path are not modelled; "
               "the dispatcher is the single-consumer scheDisp (one goroutine runs scheduled functions in turn). The Go scheduler itself is replaced by the controller.",
    lean_targets=["Cell2v.Props.C09", "Cell2v.Props.C09Ring", "Cell2v.Props.C09Mpsc", "Cell2v.Props.C09Sched", "modeld_c09"],
    driver="modeld_c09",
    driver_root="Cell2v.Driver.C09",
    audit="Audit/C09.lean",
    required_theorems=["single_runner", "delivered_prefix", "no_lost_wakeup", "quiescent_all_delivered", "system_first", "pause_has_helper",
                       "ring_wf_init", "ring_push_refines", "ring_pop_refines", "ring_popMany_refines", "ring_capacity", "ring_refines_fifo",
                       "mpsc_push_refines", "mpsc_pop_refines",
                       "mpsc_chain_invariant", "mpsc_delivers_swap_order", "mpsc_per_producer_fifo", "mpsc_pop_blocked_only_by_unlinked",
                       "mpsc_pop_delivers_oldest", "mpsc_quiescent_all_visible", "mpsc_link_reveals",
                       "mailbox_pushS_is_swap_link", "mailbox_popS_is_list_pop", "mailbox_sysqueue_invariant", "mailbox_no_lost_wakeup_split_push",
                       "sched_channel_bounded", "sched_exactly_once_in_order", "sched_idle_all_delivered", "sched_idle_delivered_eq_posted", "sched_pending_has_run", "sched_blocked_only_when_full", "pending_work_can_progress", "can_always_drain"],
    # hook H2 (vy("mp.swap") / vy("mp.link") / vy("mp.pop") in actorex/queue/mpsc) is committed in /repo as 3b9fc55
    harness_pkg="./c09",
    mode="diff",
    reset_prefix="reset",
    runs={
        "quick": [dict(name="ring", test="TestRing", env={"VERIF_N": "150"}, timeout=120),
                  dict(name="mpsc", test="TestMpsc", env={"VERIF_N": "1500"}, timeout=120),
                  dict(name="sched", test="TestSched", env={"VERIF_N": "60"}, timeout=120),
                  dict(name="main", env={"VERIF_N": "1500"}, timeout=240)],
        "thorough": [dict(name="ring", test="TestRing", env={"VERIF_N": "4000"}, timeout=120),
                     dict(name="mpsc", test="TestMpsc", env={"VERIF_N": "20000"}, timeout=300),
                     dict(name="sched", test="TestSched", env={"VERIF_N": "1500"}, timeout=600),
                     dict(name="main", env={"VERIF_N": "40000"}, timeout=1500),
                     dict(name="seed2", env={"VERIF_N": "40000"}, seed_offset=7919, timeout=1500)],
    },
    trivial=r"^(ok|bad-op)?$",
    rule="each case: 1-3 user posters (1-3 messages each, sometimes 12-21 to force ring growth, 1/6 slow handlers that exceed the 10 ms frame budget in "
         "virtual time) and optionally a system poster (normal/suspend/resume), run to quiescence under a seeded schedule of atomic steps; one evaluation = "
         "one granted atomic step of the real mailbox compared with the model; distinct = distinct (step, resulting shared state) pairs; non-trivial = every step. "
         "Run ring: the real goring.Queue / mpsc.Queue driven sequentially — capacities 1..12 x head rotation x every fill level (one pop there, push through a growth, "
         "PopMany below/at/above the length, drain, pop on empty) plus random cases with 1-4 growths (up to 192 slots), bursts to/just across the boundary, PopMany counts "
         "0/1/len-1/len/len+1/len+5; one evaluation = one queue operation compared with the ring model and checked against a plain list. "
         "Run mpsc: the real mpsc.Queue with 2-4 producer goroutines (1-3 values each) and one consumer (Pop, 1/5 Empty), one granted shared-memory step per op; schedules: uniform, "
         "sticky, consumer-eager, all-swap-then-links-in-random-order, and adversarial stall (one producer held between swap and link while the others complete their pushes and the "
         "consumer pops: must see nil; then the link: everything arrives in swap order); every case runs until all values arrived and a final Pop answered nil. "
         "Run sched: the real scheDisp/run service with 7-19 real mailboxes: a gated handler keeps the loop goroutine busy, foreign goroutines post to k mailboxes (systematic k=1..14; "
         "random 5..20 posts incl. repeats and the busy mailbox itself), posters beyond the 9 slots block, release, posts to the idle dispatcher, optionally a second gated round; "
         "per step: delivered ids, invocations off the loop goroutine, handlers in flight, blocked posters. "
         "Run main additionally: slow SYSTEM handlers (pause started by a system message, incl. the directed suspend / slow system message / resume template) and schedule mode 4 "
         "(delay-bounded victim: one poster takes 1-4 steps exactly when the consumer is about to store idle, then is held until the consumer finished going idle); "
         "1/5 of the 2-6-message senders post an actor.MessageBatch (raw or inside a MessageEnvelope): the mailbox posts the elements, then the batch message itself",
    trusted_base=[
        "Lean 4.33.0 kernel; axioms audited per theorem (propext, Classical.choice, Quot.sound)",
        "hand-written models lean/Cell2v/Model/Mailbox.lean (Abs + Fine) tied to actorex/mailbox/mailbox.go by step-by-step replay (harness/c09 + modeld_c09)",
        "build-tag hook b43fb0c (vy yield points, VerifState) — add-only, empty when the tag is off",
        "build-tag hook H2 (harness/c09/overlay-mpsc/h2.patch: vy(\"mp.swap\"), vy(\"mp.link\"), vy(\"mp.pop\") in actorex/queue/mpsc, VerifYield) — add-only, empty when the tag is off; committed in /repo as 3b9fc55",
        "go1.26.8 testing/synctest for 'all goroutines parked' detection and virtual time",
        "sync/atomic sequential consistency; goring operations are atomic single steps (mutex); mpsc at the granularity of one shared access per step "
        "(swap of head | store of prev.next | Pop = one atomic load of tail.next plus consumer-private work | Empty); node allocation/initialisation is goroutine-local",
        "hand-written model lean/Cell2v/Model/MpscConc.lean (concurrent mpsc) tied to actorex/queue/mpsc by harness/c09/mpsc_test.go (controller-driven real goroutines)",
        "hand-written model lean/Cell2v/Model/SchedDisp.lean (dispatcher channel with several mailboxes; Go channel: blocked senders are admitted FIFO) tied to actorex/disp/schedisp.go by harness/c09/sched_test.go",
        "hand-written models lean/Cell2v/Model/Ring.lean (goring ring buffer, sequential mpsc) tied to actorex/queue/{goring,mpsc} by harness/c09/ring_test.go",
    ],
    assumptions=[
        "dispatcher = one goroutine running scheduled functions in turn (actorex/disp/schedisp.go); C04 covers that",
        "fewer than 100000 queued user messages (the Gosched branch of run() is not modelled)",
        "handlers do not panic (recover/EscalateFailure path not modelled)",
    ],
)
