CONFIG = dict(
    id="C09",
    engine="hooked-mailbox",
    technique="Lean 4: counter-abstraction invariant of the wake-up protocol (any number of posters) + refinement from a yield-point-granular "
              "model + list-level delivery invariant; the real hooked mailbox is replayed step by step against the model under a controlling scheduler",
    level_text="Machine-checked proof in Lean 4, for every schedule of any number of user/system posters, the consumer and the pause helper: at most one "
               "processMessages queued or running (single_runner), delivered ++ queued = pushed for both queues (exactly once, FIFO, hence per-sender order), "
               "system pop before user pop (system_first), and no quiescent state with deliverable work (no_lost_wakeup, via an inductive 5-part invariant "
               "of a counter abstraction that the fine model provably refines); while deliverable work is pending some existing thread has an enabled step "
               "(pending_work_can_progress), and from EVERY reachable state the existing threads alone — no further post — can run the mailbox to a quiescent state in which "
               "everything posted so far has been handed over (can_always_drain: explicit scheduler, potential function decreasing on each of its steps; this is the POSSIBILITY form of "
               "'eventually processed'). The FOR-ALL form is x_every_schedule_drains: from every reachable state EVERY schedule of existing threads — any interleaving, no fairness assumed, "
               "panicking handlers included — that does not declare the frame budget exhausted has at most Phi steps (the potential decreases on every such step, not only on the drain "
               "scheduler's), adds nothing to the posted logs, and when it cannot be extended the state is quiescent with everything posted handed over; while work is pending such a step is "
               "enabled (x_pending_work_has_progress_step). What stays assumed: the Go scheduler / dispatcher eventually run a runnable goroutine / queued function, and the clock does not "
               "exhaust the budget at every iteration. "
               "The extended model FineX (Model/MailboxX.lean) adds what Fine leaves out of run(): the throughput counter and its 'if i > t { i = 0 }' branch, handlers that PANIC "
               "(recover, EscalateFailure, run() returns to the store-idle/re-check sequence) and the MaxMsgNumToSmooth branch (budget exhausted with >= 100000 queued: Gosched and "
               "continue, no pause); every theorem above is proved again for every schedule of FineX and every throughput (x_single_runner, x_delivered_prefix, "
               "x_delivered_is_prefix_of_posted, x_no_lost_wakeup, x_quiescent_all_delivered, x_pause_has_helper, x_can_always_drain), plus: a panicking handler costs exactly its own "
               "message and sends the consumer through the re-check (x_panic_hands_over_and_returns, x_escalated_were_delivered); the loop counter, Throughput() and the wrap branch "
               "influence nothing else (x_throughput_counter_inert); system-first along whole schedules: when a user message is handed over, every system message pushed before the "
               "consumer's latest system pop has been handed over (x_system_first_trace, ghost sysSeen); and whoever calls dispatcher.Schedule for this mailbox — poster, helper or the "
               "consumer re-scheduling itself on the dispatcher's own goroutine — finds no run of this mailbox queued (schedule_call_finds_queue_empty), so with a dispatcher of its own "
               "(service/factory.go) the blocking 9-slot send cannot block the loop goroutine on itself. The fine model is tied to the real SmoothFrameMailbox (real goring/mpsc) on "
               "every run: all goroutines are parked at build-tag yield points before each atomic step, a controller drives seeded schedules (uniform, sticky, "
               "adversarial around the store-idle/re-read window, consumer-first), and after EVERY step the five shared words, the consumer's program point, the "
               "dispatcher queue, the invoked message, the message handed to EscalateFailure and the number of processMessages runs that exist (queued at the dispatcher + schedule() callers parked "
               "before dispatcher.Schedule + the consumer before its store-idle: counted by the harness from its own queue and parked goroutines, the quantity single_runner bounds) are compared "
               "with the model; the dispatcher's Throughput() is a per-case parameter (0,1,2,3,5,8 and the real 99; backlog cases queue >100 messages before the consumer moves) so that "
               "the throughput branch is taken in every run, and 1/4 of the cases have panicking user/system handlers; whether the frame budget is exhausted at an iteration is decided by the MODEL: "
               "the consumer's take / run.iter ops carry only what the virtual clock reads (now= ns since the case began) and the argument the case's mailbox was produced with (reset b=: "
               "mailbox.Producer(0|1|2|3|5|10|20)); the timed model FineT computes cost = now - beginTime, the budget Producer(b) means (0 = 10 ms) and from them pause / Gosched branch / carry on — "
               "an independent prediction of what the real producer.go + run() do; half of the cases run on a clock that advances between any two granted steps (tick 1 ns .. 300 us), handlers take 0/3/12/25 ms; "
               "the yield point uq.empty (a wrapper around the user queue, installed by the harness BY TYPE through reflection - no overlay, no unexported name) parks the consumer between an EMPTY Pop of the user queue and run()'s return, so posters are "
               "scheduled inside that window too (FineT's ret / retEmpty); "
               "the property predicate runs on the implementation's own trace (incl.: at most one run exists, what is escalated is the message just invoked, the case reaches quiescence "
               "within the controller's step limit). "
               "The timed model FineT (Model/MailboxT.lean) = FineX + the clock, run()'s beginTime, the budget stored by Producer(ms) and the way out of run() after an empty user Pop: "
               "every step is a FineX step or a stutter (t_step_refines, t_reachable_is_x_reachable), so the x_* theorems hold of it (t_single_runner, t_delivered_prefix, t_no_lost_wakeup, "
               "t_quiescent_all_delivered; t_per_sender_order: for any predicate 'posted by sender k' the delivered messages of that sender are a prefix of its pushed ones); the budget is at least 1 ms "
               "whatever is configured and 0 means 10 ms (producer_budget_pos, producer_budget_default, t_clock_inv); at run.iter exactly one of carry on / pause / Gosched is enabled, decided by "
               "the clock (t_iter_decision_is_the_clocks); a run that begins a pause has lasted longer than its budget (t_pause_needs_elapsed); a run taken and continued while the clock stands still "
               "never finds the budget exhausted (t_take_resets_cost, t_frozen_clock_never_over); and the for-all form of 'eventually processed' with the clock as the only assumption: from every "
               "reachable state whose run is within budget EVERY schedule of existing threads during which no time passes has at most PhiT steps and cannot get stuck before everything is handed over "
               "(t_frozen_clock_every_schedule_drains — 'no pause is begun' is derived from the clock, not assumed of the schedule). "
               "The system queue (mpsc.Queue, Vyukov) is also proved as a CONCURRENT object: Push split into its swap and its link, any number of producers, every "
               "interleaving — delivery is a prefix of the swap order (exactly once, global and per-producer FIFO), Pop answers nil only when nothing is pending or the "
               "oldest pending node's link is missing, quiescence makes everything visible, the pending links reveal everything; composed with the wake-up protocol "
               "(counter incremented after both steps) the mailbox invariant and no_lost_wakeup are unaffected. Tied to the real queue by run mpsc: producer/consumer "
               "goroutines parked before the swap, between swap and link, and before each Pop. "
               "Several mailboxes on one scheDisp (9-slot channel, one loop goroutine): for every sequence of foreign posts, posts made BY THE HANDLER that occupies the loop goroutine "
               "(selfPost) and handler releases the channel stays within 9 slots, every "
               "pending message has a buffered/blocked/executing run, per mailbox delivered ++ pending = posted in order, and an idle loop means everything was delivered "
               "(sched_*). Schedule is a blocking send whose only receiver is the loop goroutine: a handler that must hand a sibling's run to the dispatcher while all 9 slots are taken "
               "blocks the loop on itself for ever — the model has that state (stuck) and the theorems say exactly when: only with a handler executing and 9 runs buffered "
               "(sched_loop_blocks_only_when_full), then nothing is ever delivered again (sched_loop_block_is_forever; reproduced on the real scheDisp: one handler posting to 10 idle siblings), "
               "never with at most 9 mailboxes on the dispatcher (sched_few_mailboxes_never_block, pigeonhole), and outside that state a returning handler drains everything "
               "(sched_release_delivers_all); tied to the real scheDisp + run service + real mailboxes by run sched (handler posts included, kept where a slot is free or the target is "
               "already scheduled), which also demands loop-goroutine-only and never-two-at-a-time. Schedule has no deadline: the model has a wait op (clock time passes) that changes nothing "
               "(sched_wait_inert), so however long a handler keeps the loop goroutine every buffered run and every poster parked in Schedule is still there and is served when it returns "
               "(sched_long_handler_loses_nothing); run sched lets 1 ms .. 2 min of virtual time pass while the gated handler holds the loop goroutine (runs buffered, posters blocked) and when idle, "
               "and compares delivered ids / blocked posters after each wait and after the release.",
    level_note="Partial: atomics are assumed sequentially consistent single steps; in the mailbox's Fine model goring/mpsc are FIFO lists and mpsc.Push is one step "
               "(sequential refinement to a list, ring growth included: ring_*/mpsc_push_refines/mpsc_pop_refines, run ring; mpsc's swap/link window and arbitrary producer "
               "interleavings: mpsc_delivers_swap_order … mailbox_no_lost_wakeup_split_push, run mpsc; that Fine with the split push refines the composed system beyond the "
               "system-queue/wake-up part is argued in Props/C09Mpsc.lean, not proved; goring's concurrent behaviour rests on its mutex); in the split-push window system-first does NOT hold in the code: a system message whose PostSystemMessage has returned is "
               "invisible to Pop while an earlier producer sits between its swap and its link, and user messages overtake it (reproduced; x_system_first_trace is about the atomic-push model); "
               "run()'s plain read of userMessages is taken to return the current value; the >=100000-queued Gosched branch is modelled and covered by the x_* theorems but NOT reached by the "
               "correspondence run (it needs 100000 queued messages); nil messages are outside the model (ids are values): the code takes a popped nil for 'queue empty', never decrements the "
               "counter and re-schedules itself for ever (reproduced); several mailboxes on one scheDisp: the consumer's own re-schedule from the loop goroutine is not in the SchedDisp model "
               "(a run is atomic there) — by the same count it is safe with at most 9 mailboxes; 'eventually' is proved for every schedule that does not declare the frame budget exhausted (x_every_schedule_drains), for every schedule during which the clock stands still "
               "(t_frozen_clock_every_schedule_drains; in FineT the budget decision is the clock's: cost is 0 when a run is taken, a pause needs more than the budget — at least 1 ms — of clock time) and as "
               "possibility in general (can_always_drain); with a clock that advances arbitrarily between steps (tick d is unconstrained) a run can still be paused at its first iteration again and again: "
               "that the real clock advances by less than the budget between the take and the first iteration is assumed, not modelled; a NEGATIVE Producer argument (int64) gives a negative budget, every "
               "iteration pauses — outside the model (budgets are Nat) and outside the generator; "
               "goring.Pop's lock-free Empty() pre-check is proved sound against interleaved atomic pushes (ring_pop_precheck_sound) at the level of the ring model, not driven at that granularity; "
               "the dispatcher is the single-consumer scheDisp (one goroutine runs scheduled functions in turn). The Go scheduler itself is replaced by the controller. "
               "Tie to the code: yield points / VerifState are the verif-tagged hooks committed in /repo; the only other reach into the mailbox is the by-type wrapper around its user queue "
               "(uq.empty), which names no unexported identifier and falls back to a stutter step when the field cannot be found (whitebox=unavailable).",
    lean_targets=["Cell2v.Props.C09", "Cell2v.Props.C09X", "Cell2v.Props.C09T", "Cell2v.Props.C09Ring", "Cell2v.Props.C09Mpsc", "Cell2v.Props.C09Sched", "modeld_c09"],
    driver="modeld_c09",
    driver_root="Cell2v.Driver.C09",
    audit="Audit/C09.lean",
    required_theorems=["single_runner", "delivered_prefix", "no_lost_wakeup", "quiescent_all_delivered", "system_first", "pause_has_helper",
                       "ring_wf_init", "ring_push_refines", "ring_pop_refines", "ring_popMany_refines", "ring_capacity", "ring_refines_fifo",
                       "mpsc_push_refines", "mpsc_pop_refines",
                       "mpsc_chain_invariant", "mpsc_delivers_swap_order", "mpsc_per_producer_fifo", "mpsc_pop_blocked_only_by_unlinked",
                       "mpsc_pop_delivers_oldest", "mpsc_quiescent_all_visible", "mpsc_link_reveals",
                       "mailbox_pushS_is_swap_link", "mailbox_popS_is_list_pop", "mailbox_sysqueue_invariant", "mailbox_no_lost_wakeup_split_push",
                       "sched_channel_bounded", "sched_exactly_once_in_order", "sched_idle_all_delivered", "sched_idle_delivered_eq_posted", "sched_pending_has_run", "sched_blocked_only_when_full", "pending_work_can_progress", "can_always_drain",
                       "sched_loop_blocks_only_when_full", "sched_loop_block_is_forever", "sched_few_mailboxes_never_block", "sched_release_delivers_all",
                       "sched_wait_inert", "sched_long_handler_loses_nothing",
                       "x_reachable_inv", "x_base_step_is_fine_step", "x_single_runner", "x_delivered_prefix", "x_delivered_is_prefix_of_posted", "x_no_lost_wakeup",
                       "x_quiescent_all_delivered", "x_pause_has_helper", "x_panic_hands_over_and_returns", "x_escalated_were_delivered", "x_system_first_trace",
                       "x_throughput_counter_inert", "x_can_always_drain", "schedule_call_finds_queue_empty",
                       "x_every_schedule_drains", "x_pending_work_has_progress_step", "ring_pushes_refine", "ring_pop_precheck_sound",
                       "t_step_refines", "t_reachable_is_x_reachable", "t_single_runner", "t_delivered_prefix", "t_no_lost_wakeup", "t_quiescent_all_delivered", "t_per_sender_order",
                       "producer_budget_pos", "producer_budget_default", "t_clock_inv", "t_iter_decision_is_the_clocks", "t_pause_needs_elapsed", "t_take_resets_cost",
                       "t_frozen_clock_never_over", "t_frozen_clock_every_schedule_drains"],
    # hook H2 (vy("mp.swap") / vy("mp.link") / vy("mp.pop") in actorex/queue/mpsc) is committed in /repo as 3b9fc55
    harness_pkg="./c09",
    mode="diff",
    reset_prefix="reset",
    runs={
        "quick": [dict(name="ring", test="TestRing", env={"VERIF_N": "150"}, timeout=120),
                  dict(name="mpsc", test="TestMpsc", env={"VERIF_N": "1500"}, timeout=120),
                  dict(name="sched", test="TestSched", env={"VERIF_N": "60"}, timeout=120),
                  dict(name="main", env={"VERIF_N": "1500"}, timeout=240)],
        "thorough": [dict(name="ring", test="TestRing", env={"VERIF_N": "4000"}, timeout=120),
                     dict(name="mpsc", test="TestMpsc", env={"VERIF_N": "20000"}, timeout=300),
                     dict(name="sched", test="TestSched", env={"VERIF_N": "1500"}, timeout=600),
                     dict(name="main", env={"VERIF_N": "40000"}, timeout=1500),
                     dict(name="seed2", env={"VERIF_N": "40000"}, seed_offset=7919, timeout=1500)],
    },
    trivial=r"^(ok|bad-op)?$",
    rule="each case: a mailbox from mailbox.Producer(b), b in 0 (default) / 1 / 2 / 3 / 5 / 10 / 20 ms, a clock that advances by tick = 0 (half of the cases) / 1 ns / 1 us / 100 us / 300 us of "
         "virtual time before every granted step; 1-3 user posters (1-3 messages each, sometimes 12-21 to force ring growth, 1/6 slow handlers of 3, 12 or 25 ms of "
         "virtual time: within, at or past the frame budget depending on b and on what the run has used already) and optionally a system poster (normal/suspend/resume), run to quiescence under a seeded schedule of atomic steps; one evaluation = "
         "one granted atomic step of the real mailbox compared with the model; distinct = distinct (step, resulting shared state) pairs; non-trivial = every step. "
         "Run ring: the real goring.Queue / mpsc.Queue driven sequentially — capacities 1..12 x head rotation x every fill level (one pop there, push through a growth, "
         "PopMany below/at/above the length, drain, pop on empty) plus random cases with 1-4 growths (up to 192 slots), bursts to/just across the boundary, PopMany counts "
         "0/1/len-1/len/len+1/len+5; one evaluation = one queue operation compared with the ring model and checked against a plain list. "
         "Run mpsc: the real mpsc.Queue with 2-4 producer goroutines (1-3 values each) and one consumer (Pop, 1/5 Empty), one granted shared-memory step per op; schedules: uniform, "
         "sticky, consumer-eager, all-swap-then-links-in-random-order, and adversarial stall (one producer held between swap and link while the others complete their pushes and the "
         "consumer pops: must see nil; then the link: everything arrives in swap order); every case runs until all values arrived and a final Pop answered nil. "
         "Run sched: the real scheDisp/run service with 7-19 real mailboxes: a gated handler keeps the loop goroutine busy, foreign goroutines post to k mailboxes (systematic k=1..14; "
         "random 5..20 posts incl. repeats and the busy mailbox itself), posters beyond the 9 slots block, release, posts to the idle dispatcher, optionally a second gated round; "
         "per step: delivered ids, invocations off the loop goroutine, handlers in flight, blocked posters. "
         "Run main additionally: slow SYSTEM handlers (pause started by a system message, incl. the directed suspend / slow system message / resume template) and schedule mode 4 "
         "(delay-bounded victim: one poster takes 1-4 steps exactly when the consumer is about to store idle, then is held until the consumer finished going idle); "
         "1/5 of the 2-6-message senders post an actor.MessageBatch (raw or inside a MessageEnvelope): the mailbox posts the elements, then the batch message itself; "
         "every case has a dispatcher throughput (reset t=: 99 in half of the cases, else 0/1/2/3/5/8) so run() takes its 'i > t' branch after t+1 messages of one run; 1/40 of the cases are "
         "backlog cases (3 senders x 35-45 messages, throughput 99, schedule mode 5: the posters finish before the consumer moves, so one run handles >100 messages, ring growth to 160 slots); "
         "1/4 of the cases have panicking handlers (each user message 1/4, each normal system message 1/3: the handler panics after being logged, run() recovers, EscalateFailure is observed). "
         "Run sched additionally: the gated handler takes commands and posts FROM THE LOOP GOROUTINE to siblings / its own mailbox (systematic: k=0..8 foreign posts, then the handler fills the "
         "channel to exactly 9, one more post to an already scheduled mailbox and one to its own; random: 1/3 of the while-busy posts in half of the rounds, only where a slot is free or the target "
         "is already scheduled; a selfpost with no handler executing posts nothing); "
         "LONG handlers: sd wait ms= lets virtual time pass (1 ms / 20 ms / 0.5 s / 1 s / 2999 / 3000 / 3001 ms / 5 s / 10 s / 30 s / 1 min / 2 min) while the gated handler keeps the loop goroutine — "
         "systematic: k = 3, 9, 10, 12 distinct mailboxes posted, wait 1 s / 5 s / 2 min, release, one more post; random: half of the rounds, waits between the while-busy posts (1/4 each), one before "
         "the release, 1/6 one on the idle dispatcher; in those rounds nobody posts to the busy mailbox itself (after a long handler run() begins a smooth pause: the order of that one mailbox's "
         "backlog relative to the others is then not the model's); every release is observed after 10 ms of settling (the run service sleeps 1-2 ms after a heavy frame)",
    trusted_base=[
        "Lean 4.33.0 kernel; axioms audited per theorem (propext, Classical.choice, Quot.sound)",
        "hand-written models lean/Cell2v/Model/Mailbox.lean (Abs + Fine), lean/Cell2v/Model/MailboxX.lean (FineX = Fine + throughput counter + panicking handlers + "
        "MaxMsgNumToSmooth branch) and lean/Cell2v/Model/MailboxT.lean (FineT = FineX + clock, beginTime, Producer's budget, the way out of run() after an empty user Pop) tied to "
        "actorex/mailbox/{mailbox,producer}.go by step-by-step replay (harness/c09 + modeld_c09 replays FineT)",
        "no white-box shim / overlay any more: the harness is an external package that names only exported identifiers of actorex/mailbox (Producer, SmoothFrameMailbox, "
        "PostUserMessage, PostSystemMessage, RegisterHandlers) and the committed hook API (VerifYield, VerifState); harness/c09/userqueue_test.go finds the user queue of a mailbox built by "
        "mailbox.Producer BY TYPE (reflect + unsafe: the one interface-typed field of SmoothFrameMailbox with a Pop method that a {Push(interface{}); Pop() interface{}} value satisfies) and "
        "wraps the value found there so that an EMPTY Pop yields at \"uq.empty\" (through mailbox.VerifYield) before its answer reaches run(); trusted: that this field is the queue run() pops "
        "user messages from (otherwise no uq.empty step ever appears and the model's ret point is never matched: the run fails, it cannot pass silently); if no such field exists the harness "
        "still builds and runs in a degraded mode (histogram whitebox=unavailable): the uq.empty step is emitted as a stutter right after the empty Pop and other goroutines are not scheduled "
        "inside that window (C09-ind7-m1-like defects are then seen only if they show at the committed yield points)",
        "build-tag hook b43fb0c (vy yield points, VerifState) — add-only, empty when the tag is off",
        "build-tag hook H2 (harness/c09/overlay-mpsc/h2.patch: vy(\"mp.swap\"), vy(\"mp.link\"), vy(\"mp.pop\") in actorex/queue/mpsc, VerifYield) — add-only, empty when the tag is off; committed in /repo as 3b9fc55",
        "go1.26.8 testing/synctest for 'all goroutines parked' detection and virtual time",
        "sync/atomic sequential consistency; goring operations are atomic single steps (mutex); mpsc at the granularity of one shared access per step "
        "(swap of head | store of prev.next | Pop = one atomic load of tail.next plus consumer-private work | Empty); node allocation/initialisation is goroutine-local",
        "hand-written model lean/Cell2v/Model/MpscConc.lean (concurrent mpsc) tied to actorex/queue/mpsc by harness/c09/mpsc_test.go (controller-driven real goroutines)",
        "hand-written model lean/Cell2v/Model/SchedDisp.lean (dispatcher channel with several mailboxes; Go channel: blocked senders are admitted FIFO) tied to actorex/disp/schedisp.go by harness/c09/sched_test.go (foreign posts and posts by the handler on the loop goroutine)",
        "hand-written models lean/Cell2v/Model/Ring.lean (goring ring buffer, sequential mpsc) tied to actorex/queue/{goring,mpsc} by harness/c09/ring_test.go",
    ],
    assumptions=[
        "dispatcher = one goroutine running scheduled functions in turn (actorex/disp/schedisp.go); C04 covers that",
        "the >=100000-queued Gosched branch of run() is modelled and proved (iterGosched) but not exercised by the correspondence run",
        "messages are non-nil (a nil user or system message is taken for 'queue empty': consumed, counter never decremented, the mailbox re-schedules itself for ever)",
        "system-first is relative to what mpsc.Pop can see: during another producer's swap/link window a completely posted system message is invisible and user messages overtake it",
        "one mailbox per scheDisp (as service/factory.go builds them) or at most 9 mailboxes on it; beyond that a handler posting to an idle sibling (or the consumer's own re-schedule) "
        "while 9 runs are buffered blocks the loop goroutine on its own channel for ever (sched_loop_block_is_forever)",
        "EscalateFailure itself does not panic (a panic inside the deferred recover handler would unwind processMessages before the store-idle)",
    ],
)
