CONFIG = dict(
    id="C04",
    engine="static (translator + kernel-decided graph obligation) + bubble-actor (instrumented services)",
    technique="Lean 4: (1) invariant proofs over all schedules of a single-consumer loop model; (2) a dispatch graph regenerated from the Go source by a "
              "go/types translator, over which 'no goroutine root other than the consumer loop reaches service code except through a queue' is decided by the "
              "kernel and lifted to paths by a soundness lemma; (3) goroutine-id / in-flight monitor on real services under concurrent producers",
    level_text="Machine-checked in Lean 4: for every channel capacity, any number of producers and every interleaving of the run-service loop model, handler "
               "executions are by the consumer only, never two at a time, and only of items that were enqueued (handlers_serial, handlers_only_on_consumer, "
               "run_only_enqueued; witness direct_call_breaks_serial for the design in which a producer calls a handler inline). The model is tied to the code "
               "statically: harness/extract/c04 type-checks runservice, sche, timer, event, actorex/disp, actorex/mailbox, actorex/service, the pomelo SessionsImpl package "
               "and utils/waterfall (Sche / Builder; the direct variants Simple / ExecAndWait are left out by name) on "
               "every run and regenerates a 229-node graph (static calls, goroutine roots, closures handed to time.AfterFunc, every call through a func-typed "
               "field/variable, cell2 interface or into service-side packages, channel sends, direct-mode code of the event centre); entry_only_via_loop proves "
               "on that graph that no `go` body, AfterFunc closure or exported function outside the reviewed loop-side API reaches an invocation point of service "
               "code along calls, spawns and stored-closure dispatch (so every such path passes through a queue), invocation_points_reviewed that the graph "
               "contains no unreviewed invocation point / literal use, invocations_on_loop and posted_closures_on_loop that every invocation point is wired to "
               "RunService.loop, timer_roots_enqueue that the timer goroutine reaches a channel send, waterfall_covered that the step / final invocation points of a "
               "waterfall chain are loop sites and that the completion callback handed to the steps (callable from any goroutine) is one of the forbidden goroutine roots. Three clients of the loop are modelled and proved by induction: the completion callbacks of a service's requests "
               "(request_completion_on_loop: for every list of requests, whatever becomes of each - answered by any goroutine, answered by the requester itself, turned into a dead "
               "letter on any goroutine, never answered - and every capacity >= 1 the induced schedule is a schedule of the loop model, serial, every callback starts on the consumer; "
               "the model driver derives the `relay` observation from this schedule; witness dead_letter_inline_completion_breaks_serial), a utils/waterfall.Sche "
               "chain (waterfall_chain_on_loop: for every number of steps, every list of completion reports by any threads with any error flags and every capacity >= 1 "
               "the induced schedule is a schedule of the loop model, its trace is serial and every step and the final callback starts on the consumer; witness "
               "waterfall_inline_final_breaks_serial) and the timer objects of timer.Mgr (timer_callbacks_on_owner: for every sequence of arming, expiry, cancellation - "
               "also after the expiry - and queue processing on any number of managers, a manager's loop runs only callbacks armed on that manager; rests on NewTimerObj "
               "allocating fresh objects, witness timer_obj_reuse_breaks_ownership; a manager that is stopped at any point of the history - timer.Mgr.Stop, the first "
               "thing StandardRunService.Stop does without waiting for the loop - is modelled too: the AfterFunc closure of a stopped manager's object touches neither queue "
               "nor callback, timer_stop_callbacks_on_owner carries the ownership theorem over, stopped_mgr_runs_only_backlog / stopped_mgr_runs_nothing prove by induction "
               "that after the stop the loop runs at most what already waited in its queue and nothing that becomes due later, witness "
               "stopped_mgr_inline_expiry_breaks_serial for the design that runs a due one-shot timer of a stopped manager on the timer goroutine). Which loop drains which scheduler is modelled too "
               "(sche.Mgr.GetSche by name, create-if-missing): one_loop_per_scheduler proves by induction, for any number of run services and any registry state, "
               "that services created under pairwise distinct unregistered names drain pairwise distinct fresh schedulers (single consumer per queue, the premise "
               "of the loop model); same_name_shares_scheduler is the witness that the hypothesis cannot be dropped (reproduced on the real code: two services "
               "with the same run-service name run each other's posted closures, 2 goroutines, 2 at once). Dynamically, instrumented real services record "
               "goroutine and in-flight count at 23 entry-point kinds under concurrent producers; the monitor predicate Loop.Mon.ok is evaluated on those records.",
    level_note="Known false-alarm class of the static half: a behaviour-preserving refactoring that moves a stored closure into a NEW unexported helper which RETURNS it creates a closure kind (return:pkg.helper) the reviewed tables do not list and is reported as no-failing-input-found (seeded/C15-indh-h10 run against C04); unexported field and interface-type NAMES no longer occur in graph keys (fields are named by type, unexported interfaces by method set). Partial: the Go scheduler and memory model are not modelled; reflect.Select, proto.actor (mailbox run -> Receive) and apimapper's reflective "
               "handler call are trusted links of the graph; the reviewed tables of lean/Cell2v/Spec/C04.lean (which keys are service code, which exported "
               "functions are loop-side API to be called only from the service's goroutine) are a hand-written description checked for completeness, not for truth; "
               "code outside the nine analysed packages (node/client/impls, waterfall.Simple / ExecAndWait, proto.actor's supervision / restart path) is covered only by the dynamic half; "
               "the request-completion, waterfall-chain, timer-object / stopped-manager and registry models of Model/Loop.lean are hand-written and tied to the code only through the dynamic half "
               "(ops relay / selfreq / wfall / tcancel / stop tmr=n / anon, per-case unique run-service names, the empty-name services U and V).",
    gen=["cd harness && go1.26 run ./extract/c04 -out ../lean/Cell2v/Gen/C04Graph.lean"],
    lean_targets=["Cell2v.Props.C04", "modeld_c04"],
    driver="modeld_c04",
    driver_root="Cell2v.Driver.C04",
    audit="Audit/C04.lean",
    required_theorems=["handlers_serial", "handlers_only_on_consumer", "run_only_enqueued", "graph_checks", "entry_only_via_loop",
                       "invocation_points_reviewed", "invocations_on_loop", "posted_closures_on_loop", "timer_roots_enqueue",
                       "waterfall_covered", "waterfall_sched_enabled", "waterfall_chain_on_loop", "waterfall_inline_final_breaks_serial",
                       "timer_good_run", "timer_callbacks_on_owner", "timer_obj_reuse_breaks_ownership",
                       "timer_stop_good_run", "timer_stop_callbacks_on_owner", "timer_stop_run", "stopped_mgr_runs_only_backlog",
                       "stopped_mgr_runs_nothing", "stopped_mgr_inline_expiry_breaks_serial",
                       "request_sched_enabled", "request_completion_on_loop", "dead_letter_inline_completion_breaks_serial", "one_loop_per_scheduler", "distinct_names_distinct_schedulers", "same_name_shares_scheduler"],
    harness_pkg="./c04",
    mode="diff",
    reset_prefix="reset",
    runs={
        "quick": [dict(name="main", env={"VERIF_N": "2500"}, timeout=200)],
        "thorough": [dict(name="main", env={"VERIF_N": "25000"}, timeout=800),
                     dict(name="seed2", env={"VERIF_N": "25000"}, seed_offset=7919, timeout=800),
                     dict(name="procs2", env={"VERIF_N": "8000"}, seed_offset=104729, procs=2, timeout=800)],
    },
    trivial=r"^(bad-op)?$",
    rule="each case: two fresh real services (NewServiceWithDispatcher on StandardRunService/scheDisp/SmoothFrameMailbox) and 1-5 bursts; a burst starts, "
         "concurrently, 1-16 poster goroutines (0-400 posted closures per service), one-shot and repeating timers (runtime timer goroutines), local-event "
         "publishers, a global-event publisher, root-context notifies, API requests / raw requests / unserialisable requests / one request that times out "
         "(30 s virtual) in both directions between the services, and up to 40 scripted network goroutines driving the real pomelo.SessionsImpl "
         "(create, messages, close), notifies whose handler outlasts the mailbox's 20 ms frame budget with a backlog behind them (smoothing pauses, counted in the histogram via the verif hook), "
         "timers armed with zero / negative delay from the service and from a foreign goroutine, and notifies to up to 12 sibling actors sharing A's dispatcher while A's goroutine is kept busy (more runs pending than the 9-slot channel holds); handlers dwell inside the service by virtual sleep / yield / spin. A third of the cases switch both event centres to direct mode (`evmode chan=0`: SetLocalUseChan(false), "
         "local events then published by the owner only, global events by owner or foreign goroutines and still required on the owner's goroutine); a third end with `stop`: client "
         "connections open, A inside a long piece with up to 200 closures queued, its run service stopped by a foreign goroutine or by the piece itself, then the connections close "
         "(how many queued closures still run is not compared; nothing of A may run off its goroutine); half of these stops carry `tmr=n`: the stopping piece first arms "
         "1-60 one-shot timers and a repeating one that become due on the STOPPED manager, half of them while the piece is still in progress (the model's TimerStop run "
         "says none of them runs). Further ops: `anon` (posted closures and client sessions on two "
         "services created with the EMPTY run-service name, one optionally held busy), `flood` (up to 1500 local events — more than the 999-slot queue — published by a foreign goroutine "
         "while the owner is stalled, or up to 900 by the owner itself), `selfreq` (requests to the service's own pid answered synchronously or from a helper goroutine), "
         "`wfall` (1-40 utils/waterfall.Sche chains of 1-4 steps on A's scheduler, every step completed inline or from a helper goroutine, optionally one step "
         "reporting FAILURE; steps `wstep` and final callbacks `wfin` are pieces of A), `talk` (ONE client connection sending 1-3000 messages back to back within a "
         "virtual millisecond, optionally kicked by the service afterwards: kick handler `kick`), `tcancel` (A arms 1-50 one-shot timers, stays busy until they "
         "expired and wait in its timer queue, cancels them all while B arms as many of its own: cancelled timers never run, B's run on B), `crash` (once per case: a "
         "message whose handling panics with up to 40 notifies queued behind it - supervisor restart, the producer runs again inside the mailbox run - then posted "
         "closures, timers and notifies for the new incarnation; kind `boom`), `relay` (A issues 1-40 requests that an intermediary plain actor on proto.actor's default "
         "dispatcher passes on to B - answered: `req` on B, `rsp` on A - or to a pid that does not exist, or that A sends to that pid itself: dead letter published on "
         "the intermediary's goroutine, the completion callback runs after the 30 s timeout, kind `tmo`, on A's goroutine; optionally A stays inside the issuing piece meanwhile). Every use the framework makes of a client connection object on the owner's behalf "
         "(SetId in AddSession, GetId in the posted closures, Close of a kick) is recorded as kind `sio` (goroutines and overlap only, not the count)."
         " One evaluation = one burst: per service and entry kind "
         "(post, tmr, tz, lev, dlev, gev, req, mute, raw, ntf, slow, sib, rsp, tmo, sfl, sadd, smsg, srem, kick, sio, wstep, wfin, boom) the number of entries, the set of goroutines (canonical numbering) and "
         "the largest number of pieces of the service's code in progress at once (another goroutine or a nested piece), compared with the serial model's observation and checked by the monitor predicate; "
         "non-trivial = every well-formed op; distinct = distinct (op, observation) pairs",
    trusted_base=[
        "Lean 4.33.0 kernel; axioms of every property theorem audited on each run (allowed: propext, Classical.choice, Quot.sound); graph obligations by decide +kernel (kernel evaluation, no extra axiom)",
        "translator harness/extract/c04 (go/types + export data of `go list -export`, ~700 lines): call resolution, classification of literal uses (a closure assigned to a struct "
        "field after construction is made a goroutine root), guard recognition for `if x.localUseChan`, the by-name list of functions left out (waterfall.Simple, waterfall.ExecAndWait)",
        "reviewed tables in lean/Cell2v/Spec/C04.lean: service-code site keys, utility keys, consumer spawners, loop-side API, literal kinds, dispatch rules, the proto.actor link `mailbox run -> Service.Receive`",
        "reflect.Select returns one ready case; proto.actor calls Receive only from the mailbox run it schedules through the dispatcher (C09); apimapper calls the handler inside CallWithSerialize",
        "go1.26.8 testing/synctest (virtual time, quiescence detection); goroutine ids read from runtime.Stack",
        "harness instrumentation (harness/c04): entry/exit bookkeeping under a mutex held only for the bookkeeping itself",
    ],
    assumptions=[
        "loop-side API (Sche.DoTask/Handler, MultiSelector.HandleOnce, FuncSelector.DoTask, timer.Mgr.Do, LocalEventCenter.DoEvent, Service.Receive, "
        "APIDispatcher.Dispatch, Service.Request/RequestEx/Notify/NotifyEx) is called only from the service's own goroutine, as its comments require",
        "user code run while the actor object is constructed (producer, ExtProps.PostFuncs, OnCreate, ServiceCreateAcceptors) runs on the spawner's goroutine before the service exists",
        "services use the standard run service (event centre in queue mode; nobody calls SetLocalUseChan(false)) and the scheDisp dispatcher, not stableDisp",
        "the Go scheduler is not modelled: absence of overlap on other schedules rests on the static half",
        "run-service names are unique within the process (hypothesis Nodup of one_loop_per_scheduler): two services created with the SAME non-empty name share one "
        "scheduler drained by two loops (reproduced on the real code; the node layer derives the name from the unique service id) and RunService.Start is called once",
    ],
)
