CONFIG = dict(
    id="C01",
    engine="bubble-actor",
    technique="Lean 4 invariant proofs over all op lists of a small-step model of doRequestEx/handleResponse/checkExpired "
              "+ differential correspondence with the real actorex/service.Service in a testing/synctest bubble (virtual clock) "
              "+ the exactly-once predicate evaluated on the implementation's own callback log / pending table",
    level_text="Machine-checked proof in Lean 4 that in the model of the service request core every issue instance's callback is invoked at most once, "
               "a reply/remote-error completion only comes from the response carrying the id the instance is registered under (first one processed, decoded content), "
               "a timeout only from the expiry scan strictly after issue time + 30000 ms, unknown/late/duplicate responses leave the state untouched, "
               "the table equals issued-minus-removed (notifications and serialisation failures leave nothing), the timer is armed while anything is pending and a scan "
               "completes everything that is due (a panicking timeout callback counts as that instance's single completion, aborts the scan and leaves the rest for the next scans, "
               "each of which removes at least one due entry) — for all op lists, callback behaviours, scan orders, wrap bounds, under the explicit id guard (itself derived from a counting bound). "
               "The model is tied to the Go code on every run by executing both on thousands of generated histories (1-40 outstanding requests, duplicates, late replies, "
               "deadline +-1 ms, nil callbacks, re-entrant callbacks, unserialisable messages, id wrap) and the property predicate is evaluated on the implementation's observations.",
    level_note="Trusted: Lean kernel; the harness/driver line protocol; proto.actor local delivery (FIFO, once); testing/synctest's virtual clock; timer.Mgr's re-arm-after-callback period "
               "(modelled in the driver: ticks at arm time + k*1000 ms). Assumed, not proved here: callbacks run on the service goroutine (C04; observed per callback by goroutine id), "
               "fairness of the 1 s timer (C14), callbacks do not panic. The theorems are about the model; the differential run ties it to the code on sampled histories only.",
    lean_targets=["Cell2v.Props.C01", "modeld_c01"],
    driver="modeld_c01",
    driver_root="Cell2v.Driver.C01",
    audit="Audit/C01.lean",
    required_theorems=["cb_at_most_once", "cb_is_right_reply", "timeout_only_after_deadline", "late_dup_unknown_dropped",
                       "completed_not_pending", "no_residue", "notify_never_registers", "serialize_failure_leaves_nothing",
                       "armed_while_pending", "tick_completes_due", "panic_aborts_scan_only", "scan_removes_one",
                       "guard_implies_not_collided", "id_guard_by_counting", "d10_witness", "d18_witness"],
    harness_pkg="./c01",
    mode="diff",
    reset_prefix="reset",
    runs={
        "quick": [dict(name="main", env={"VERIF_N": "20000"}, timeout=240)],
        "thorough": [dict(name="main", env={"VERIF_N": "600000"}, timeout=800),
                     dict(name="seed2", env={"VERIF_N": "300000"}, seed_offset=1000, timeout=800),
                     dict(name="enum4", test="TestEnum", timeout=800),
                     dict(name="wrapslow", test="TestWrapByAlloc", timeout=600)],
    },
    trivial=r"^(ok|nopeer|bad-op)( iss= cb= sent= pend=[0-9,]* pan=)?$",
    rule="op lines from one PRNG (VERIF_SEED), interpreted against a real service.Service (embedded in a NodeService, own run-service goroutine, SmoothFrameMailbox) and a scripted peer service "
         "inside one synctest bubble: cases of 10-80 ops with 1-40 outstanding requests; requests with callback / nil callback / unserialisable message, notifies, callback scripts that issue "
         "further requests and notifies (nesting <= 3, including synchronous serialisation-failure callbacks) and that panic when run as a timeout completion "
         "(alone or with several entries due in the same scan, callback and nil-callback ones mixed); replies ok / empty / error / undecodable to pending, completed (late, duplicate), "
         "notify and unknown instances; raw responses for id 0, small, MaxReqId, MaxInt32 and pending ids; clock advances aimed at deadline-1000..deadline+2000 including deadline-1, deadline, "
         "deadline+1 and the scan instants, long advances; allocator preset near MaxReqId (wrap) and at random values; requests and notifies to a peer that is a real service with an apimapper API dispatcher whose handler keeps the completion callback and completes it later, out of order, with other requests dispatched in between; clock advances during which the service goroutine is parked in a handler while 999-1300 zero-delay timers overflow timer.Mgr's queue and an expiry tick falls into the window (delivered late, the period restarts there; the run-service loop's 2 ms busy-frame throttle is part of the op), followed by a request to the silent peer and +31 s; node-level app.Request without a route, and app.Request / app.Notify routed through the real cluster directory (UpdateClusterTopology + address resolver) to a peer that answers at once and to one that holds requests, also unroutable and unserialisable notifies; ok replies with the all-default value 0 and replies of the field-less type EmptyArg (zero bytes on the wire, must arrive non-nil and of their type), error replies with int32 codes from the whole range. "
         "A `crowd` stream spawns 3-24 services from one props (one scheDisp / run-service goroutine), parks that goroutine inside a posted closure, lets one foreign goroutine per service "
         "deliver a reply (more than the 9-slot dispatcher queue holds), releases it and checks that every reply callback, timer callback and posted closure ran on the one goroutine, never two at once. "
         "The order in which one scan runs several timeout callbacks (Go map order), and which nil-callback entries it had already removed before each of them, "
         "is recorded and fed to the model as its choice. "
         "A case is non-trivial when something was issued, called back or sent; distinct = distinct (op, observation) pairs",
    trusted_base=[
        "Lean 4.33.0 kernel; axioms of every property theorem audited on each run (allowed: propext, Classical.choice, Quot.sound)",
        "hand-written model lean/Cell2v/Model/Service.lean tied to the Go code by the differential run of this check (harness/c01 + modeld_c01)",
        "driver-level model of the expiry timer's phase (armed at T: scans at T+1000k; a tick that falls into a window in which the service goroutine is busy is delivered at its end, +2 ms loop throttle) and of callback scripts (lean/Cell2v/Driver/C01.lean)",
        "go1.26 testing/synctest virtual clock; proto.actor local message delivery; harness canonicalisation (errors -> ok/rerr/err/timeout/noservice, pending ids sorted)",
    ],
    assumptions=[
        "the id guard: an id is not re-allocated while an entry stored under it is pending (proved from: fewer than M-1 allocations during any entry's life)",
        "a completion callback invoked by handleResponse returns without panicking (such a panic escalates through the mailbox to the actor supervisor, which restarts "
        "the requester as a fresh Service: a different regime, kept out of the generator); panics of timeout callbacks (recovered by timer.Mgr) ARE modelled (Op.panic), generated and proved about",
        "all calls into the service happen on its own goroutine (C04); the 1 s timer keeps firing while armed (C14)",
        "a response with an unknown type name is outside the model (protoactor's Deserialize dereferences a nil message type)",
    ],
)
