CONFIG = dict(
    id="C01",
    engine="bubble-actor",
    technique="Lean 4 invariant proofs over all op lists of a small-step model of doRequestEx/handleResponse/checkExpired, the node-level app.Request/Notify no-route branch, ResponseEx's reply decision "
              "and of the actor's restarts (live Service object + orphaned ones, Model/ServiceLife.lean) and of a stopped actor (a history without response ops) "
              "+ differential correspondence with the real actorex/service.Service in a testing/synctest bubble (virtual clock) "
              "+ the exactly-once predicate evaluated on the implementation's own callback log / pending table",
    level_text="Machine-checked proof in Lean 4 that in the model of the service request core every issue instance's callback is invoked at most once, "
               "a reply/remote-error completion only comes from the response carrying the id the instance is registered under (first one processed, decoded content), "
               "a timeout only from the expiry scan strictly after issue time + 30000 ms, unknown/late/duplicate responses leave the state untouched, "
               "the table equals issued-minus-removed (notifications and serialisation failures leave nothing), the timer is armed while anything is pending (proved, no longer a hypothesis of the scan theorems; an idle scan frees it and the next request re-arms it) and a scan "
               "completes everything that is due (a panicking timeout callback counts as that instance's single completion, aborts the scan and leaves the rest for the next scans, "
               "each of which removes at least one due entry) — for all op lists, callback behaviours, scan orders, wrap bounds, under the explicit id guard (itself derived from a counting bound). "
               "Lower bound, proved by induction over all continuations: a request issued with a callback is at every later moment either still registered (with its callback and deadline) or has been called back exactly once "
               "(request_never_lost); a response processed for a registered id does invoke that callback with its decoded content — also when its type name cannot be decoded (repaired D22) — (response_completes, reply_completes_for_ever, undecodable_reply_completes); "
               "once the deadline has passed, one expiry scan at a free moment followed by panic-free callbacks (exactly_once_eventually), or — callbacks may panic — more free-moment scans than table entries plus requests issued since "
               "(exactly_once_despite_panics), leave the callback count at exactly 1: the fairness hypothesis is explicit in the op list. "
               "The node-level no-route branch (app.Request/QuerySession/Kick -> ErrorNoService through the callback, app.Notify -> nothing) is an op of the model: completed at once, exactly once, for ever, nothing registered/sent/armed; "
               "ResponseEx answers exactly the ids AllocReqId can hand out with a sender (never id 0). "
               "Restarts of the actor (a panic on the service goroutine outside an expiry scan: a callback under handleResponse, handler code) are a model of their own on top (Life = live object + orphans, LOp.crash): "
               "proved for all histories with any number of crashes: every incarnation, live or orphaned, is a reachable state of the one-object model, so all theorems above hold per incarnation (every_incarnation_is_a_run, cb_at_most_once_across_restarts); "
               "a restart leaves a fresh object (empty table, allocator 0, no timer) and orphans the old one unchanged and at rest with its timer armed (restart_orphans_the_table); responses reach the live object only and an orphaned request can only time out "
               "(response_reaches_live_only, orphan_completes_only_by_timeout); the request an object held when it crashed is, at every later moment of every continuation with any number of further crashes, still registered in that very orphan or called back exactly once there (orphan_request_never_lost: a restart never forgets a request silently); "
               "a STOPPED actor (Root.Stop / Poison: Service.Receive has no case for Stopping/Stopped, `case *actor.Stop` never matches, so onStop is unreachable and the run service and expiry timer live on) is a history without response ops: every new completion is then the timeout or the synchronous error of a later call (stopped_completes_only_by_timeout), and a request pending at the stop is still called back exactly once, with the timeout, under the scan-count fairness (stopped_request_times_out); and - the hazard, for every history, payload and wrap bound - the reply to an old request registered under id 1 completes the NEW object's first request instead (reply_crosses_restart). "
               "The model is tied to the Go code on every run by executing both on thousands of generated histories (1-40 outstanding requests, duplicates, late replies, "
               "deadline +-1 ms, nil callbacks, re-entrant callbacks, unserialisable messages, replies of an unregistered type, unroutable node-level requests/notifies (unknown service type and routes that are not serviceType.registry.method at all) at top level and inside callbacks, id wrap; "
               "batches of 33-257 requests falling due in one expiry scan whose timeout callbacks issue new requests (op `burst`); op `restart` (corpus and generated): a callback that really panics under handleResponse, the real supervisor restart, replies crossing it, both expiry timers - every request outstanding across the restart must still be completed once; op `stop`: the real actor is stopped in the middle of a case, replies become dead letters, what is pending must still time out, zombie callbacks keep issuing) and the property predicate is evaluated on the implementation's observations.",
    level_note="Trusted: Lean kernel; the harness/driver line protocol; proto.actor local delivery (FIFO, once); testing/synctest's virtual clock; timer.Mgr's re-arm-after-callback period "
               "(modelled in the driver: ticks at arm time + k*1000 ms). Assumed, not proved here: callbacks run on the service goroutine (C04; observed per callback by goroutine id), "
               "that the 1 s timer does fire while armed (C14: the liveness theorems take the scans as explicit ops of the history), callbacks invoked by handleResponse do not panic - what happens when one does (supervisor restart) is now modelled (Model/ServiceLife.lean), proved about per incarnation and tied by the op `restart` (4 corpus parameter sets on every run and ~1 generated case in 40: a 1-6, b 0-6, any off); the exactly-once statement itself is per incarnation and FAILS across a restart (reply_crosses_restart). "
               "The theorems are about the model; the differential run ties it to the code on sampled histories only.",
    lean_targets=["Cell2v.Props.C01", "modeld_c01"],
    driver="modeld_c01",
    driver_root="Cell2v.Driver.C01",
    audit="Audit/C01.lean",
    required_theorems=["cb_at_most_once", "cb_is_right_reply", "timeout_only_after_deadline", "late_dup_unknown_dropped",
                       "completed_not_pending", "no_residue", "notify_never_registers", "serialize_failure_leaves_nothing",
                       "armed_while_pending", "tick_completes_due", "panic_aborts_scan_only", "scan_removes_one",
                       "guard_implies_not_collided", "id_guard_by_counting", "d10_witness", "d18_witness",
                       "response_completes", "reply_completes_for_ever", "undecodable_reply_completes", "request_never_lost", "exactly_once_eventually",
                       "exactly_once_despite_panics", "noroute_completes_once", "noroute_once_for_ever", "noservice_only_from_noroute",
                       "noroute_never_registers", "responds_exactly_to_requests", "idle_scan_frees_timer",
                       "d22_witness", "d22_fixed", "restart_id_reuse_witness",
                       "every_incarnation_is_a_run", "cb_at_most_once_across_restarts", "restart_orphans_the_table",
                       "scan_panic_does_not_restart", "response_reaches_live_only", "orphan_completes_only_by_timeout",
                       "reply_crosses_restart", "orphan_request_never_lost",
                       "stopped_completes_only_by_timeout", "stopped_request_times_out"],
    harness_pkg="./c01",
    mode="diff",
    reset_prefix="reset",
    runs={
        "quick": [dict(name="main", env={"VERIF_N": "20000"}, timeout=240)],
        "thorough": [dict(name="main", env={"VERIF_N": "600000"}, timeout=800),
                     dict(name="seed2", env={"VERIF_N": "300000"}, seed_offset=1000, timeout=800),
                     dict(name="enum4", test="TestEnum", timeout=800),
                     dict(name="wrapslow", test="TestWrapByAlloc", timeout=600)],
    },
    trivial=r"^(ok|nopeer|bad-op)( iss= cb= sent= pend=[0-9,]* pan=)?$",
    rule="op lines from one PRNG (VERIF_SEED), interpreted against a real service.Service (embedded in a NodeService, own run-service goroutine, SmoothFrameMailbox) and a scripted peer service "
         "inside one synctest bubble: cases of 10-80 ops with 1-40 outstanding requests; requests with callback / nil callback / unserialisable message, notifies, callback scripts that issue "
         "further requests and notifies (nesting <= 3, including synchronous serialisation-failure callbacks) and that panic when run as a timeout completion "
         "(alone or with several entries due in the same scan, callback and nil-callback ones mixed); node-level app.Request (with / without callback) and app.Notify whose route finds no target, "
         "at top level and as script items inside reply / timeout / serialisation-failure / no-route callbacks (X(..), x, y; instances of the model's `noroute` op); the route string of such a call alternates between a well-formed route to an unknown service type and malformed ones (two parts, four parts, one part, empty, empty service type; `noroute cb= route=<str>` at top level, noRoutes[tag mod 9] inside scripts): every one must be completed once with ErrorNoService; "
         "a `massexpiry` stream (op `burst n=<k> s=<act>`: k issues by one piece of handler code): 33-257 requests (around 64 / 128 / 256) due in the SAME expiry scan, most of whose timeout callbacks retry (issue requests / notifies / unroutable calls re-entrantly), with an older survivor, replies to the retries and a second period in which the rest of them expire; replies ok / empty / error / undecodable body / unregistered type name (D22) to pending, completed (late, duplicate), "
         "notify and unknown instances; raw responses for id 0, small, MaxReqId, MaxInt32 and pending ids; clock advances aimed at deadline-1000..deadline+2000 including deadline-1, deadline, "
         "deadline+1 and the scan instants, long advances; allocator preset near MaxReqId (wrap) and at random values; requests and notifies to a peer that is a real service with an apimapper API dispatcher whose handler keeps the completion callback and completes it later, out of order, with other requests dispatched in between; clock advances during which the service goroutine is parked in a handler while 999-1300 zero-delay timers overflow timer.Mgr's queue and an expiry tick falls into the window (delivered late, the period restarts there; the run-service loop's 2 ms busy-frame throttle is part of the op), followed by a request to the silent peer and +31 s; app.Request / app.Notify routed through the real cluster directory (UpdateClusterTopology + address resolver) to a peer that answers at once and to one that holds requests, also unroutable and unserialisable notifies; ok replies with the all-default value 0 and replies of the field-less type EmptyArg (zero bytes on the wire, must arrive non-nil and of their type), error replies with int32 codes from the whole range. "
         "A `crowd` stream spawns 3-24 services from one props (one scheDisp / run-service goroutine), parks that goroutine inside a posted closure, lets one foreign goroutine per service "
         "deliver a reply (more than the 9-slot dispatcher queue holds), releases it and checks that every reply callback, timer callback and posted closure ran on the one goroutine, never two at once. "
         "The order in which one scan runs several timeout callbacks (Go map order), and which nil-callback entries it had already removed before each of them, "
         "is recorded and fed to the model as its choice. "
         "Op `stop` (about 1 case in 12, at a random step; corpus stop.txt): ActorSystem.Root.Stop on the requester - afterwards deliver / inject / the echo peer's answer are dead letters (model: no response op; spec: no response is processed, only the timeout may complete), everything else goes on (requests issued by zombie callbacks and posted code, expiry scans). "
         "No-route items also call app.QuerySession / app.Kick for an unknown front service (pseudo-routes @query / @kick). "
         "Op `restart a b w off` (first op of a case; corpus and generator): a requests held by the peer, one whose completion callback panics under handleResponse, +off ms, its reply (mailbox escalation, supervisor restart, producer builds a fresh Service), b requests by the new object, the reply to the OLD request 0, +31 s (both objects' expiry timers): compared sub-step by sub-step with Model/ServiceLife.lean; the spec monitor demands that no callback ran twice and that every request issued in the op except the panicking one has been completed exactly once when it ends (the orphaned object's requests by its own expiry timer). "
         "A case is non-trivial when something was issued, called back or sent; distinct = distinct (op, observation) pairs",
    trusted_base=[
        "Lean 4.33.0 kernel; axioms of every property theorem audited on each run (allowed: propext, Classical.choice, Quot.sound)",
        "hand-written model lean/Cell2v/Model/Service.lean tied to the Go code by the differential run of this check (harness/c01 + modeld_c01)",
        "the answering peers are real services: ResponseEx's decision is evaluated by the model function respondsTo for every `deliver`",
        "hand-written restart layer lean/Cell2v/Model/ServiceLife.lean (what the supervisor + factory producer do on a panic: new Service object under the same pid, old object's timer keeps running) tied by the composite harness op `restart` (scenario family a/b/w/off, corpus + generated); that timer.Mgr recovers panics inside a scan while the mailbox escalates all others is taken from proto.actor / utils/timer and observed by that op and by the P scripts",
        "driver-level model of the expiry timer's phase (armed at T: scans at T+1000k; a tick that falls into a window in which the service goroutine is busy is delivered at its end, +2 ms loop throttle) and of callback scripts (lean/Cell2v/Driver/C01.lean)",
        "go1.26 testing/synctest virtual clock; proto.actor local message delivery; harness canonicalisation (errors -> ok/rerr/err/timeout/noservice, pending ids sorted; status `restarted` when the supervisor replaced the requester object)",
        "proto.actor's stop protocol as observed by the op `stop` (Stopping/Stopped to the actor, pid removed from the registry, later messages are dead letters)",
    ],
    assumptions=[
        "the id guard: an id is not re-allocated while an entry stored under it is pending (proved from: fewer than M-1 allocations during any entry's life) - per incarnation of the service",
        "a completion callback invoked by handleResponse returns without panicking. If it panics, the mailbox escalates, the supervisor restarts the actor and the producer builds a fresh Service "
        "(empty table, request ids from 1 again, same run-service goroutine): the old incarnation's pending requests are not completed by their replies (the orphaned object's 1 s timer still times them out), "
        "and a reply addressed to an old id completes an UNRELATED request of the new incarnation that was given the same id - 'the response that answers that very request' fails with no wrap of 2^31 ids "
        "(reproduced on the Go code on every run: harness op `restart` in corpus/C01/restart.txt, and opt-in test TestRestartWitness; model: Model/ServiceLife.lean, theorems reply_crosses_restart (all histories) and restart_id_reuse_witness). "
        "The restart is modelled and differentially tied, but it stays an ASSUMPTION of the exactly-once theorems, which are per incarnation; the `restart` op is generated as a whole case only (no restart in the middle of a random history). "
        "Panics of timeout callbacks (recovered by timer.Mgr) ARE modelled (Op.panic), generated and proved about; a reply that cannot be decoded no longer crashes the requester (D22, repaired, modelled, generated)",
        "all calls into the service happen on its own goroutine (C04; observed per callback by goroutine id); the 1 s timer keeps firing while armed (C14) - the liveness theorems state this as scans present in the op list",
        "stopping the requester is no longer an assumption: Root.Stop / Poison do NOT reach onStop (`case *actor.Stop` in Service.Receive never matches - Stop is a system message, user code sees Stopping / Stopped), the run service is never stopped, the object lives on and its pending requests are completed by the timeout (modelled: history without responses; tied: op `stop`; proved: stopped_completes_only_by_timeout, stopped_request_times_out). Assumed instead: nobody sends a literal &actor.Stop{} as a USER message (that alone would run onStop -> runService.Stop(): pending callbacks dropped, no op for it)",
        "a completion callback run synchronously by the issuing call (serialisation failure, no route) that panics at top level is a `crash` of the restart layer (LOp.crash with nest > 0, covered by its theorems) but not driven on the Go code (the generator's scripts panic only under a timeout completion; the `restart` op panics under handleResponse)",
    ],
)
